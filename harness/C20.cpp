// C20 harness: N OS threads, each creating and driving its own ScriptContext through
// compile / execute / wait-resume / reset / destruction.  Built with ThreadSanitizer.
//   argv: <nthreads> <rounds> <seed>
//   stdout: one line per thread "t<i> <fnv hash of its captured output> <lines>" and
//           "solo <same for the workload run alone on the main thread first>"
#include "engine.h"
#include <morfuse/Container/set.h>
#include <morfuse/Common/str.h>
#include <atomic>
#include <cstdio>
#include <thread>
using namespace mfuse;

static std::string workload(int k)
{
    // a script touching the shared machinery: labels, arrays (con::set), strings, waits,
    // thread creation, waittill/notify, target names
    std::string s;
    s += "main:\n";
    s += "local.sum = 0\n";
    s += "for (local.i = 1; local.i <= " + std::to_string(20 + k % 7) + "; local.i++) {\n";
    s += "  local.arr[local.i] = local.i * " + std::to_string(k % 5 + 2) + "\n";
    s += "  local.sum += local.arr[local.i]\n";
    s += "  local.names[\"k\" + local.i] = \"v\" + local.i\n";
    s += "}\n";
    s += "println \"sum \" local.sum\n";
    // value conversions that touch library-wide constants: NIL, numbers, vectors to text
    s += "for (local.j = 0; local.j < 40; local.j++) {\n";
    s += "  local.t = \"\" + local.never_set + local.j + ( 1 2 3 ) + 1.5\n";
    s += "  println local.never_set \" \" local.t\n";
    s += "}\n";
    // warnings whose text is built from per-context tables (field names live in the context's string dictionary)
    s += "local.ent = NULL\n";
    s += "local.ent.wfield_of_w" + std::to_string(k) + " = 1\n";
    s += "local.q = local.ent.rfield_of_w" + std::to_string(k) + "\n";
    s += "local.q = local.sum[1][2]\n";
    s += "thread other " + std::to_string(k) + "\n";
    s += "wait 0.002\n";
    s += "println \"after wait\"\n";
    s += "local.e = spawn SimpleEntity targetname \"tn" + std::to_string(k % 3) + "\"\n";
    s += "println $tn" + std::to_string(k % 3) + ".targetname\n";
    s += "local.e remove\n";
    s += "println \"depth \" (waitthread rec " + std::to_string(8 + k % 5) + ")\n";
    s += "end\n";
    s += "rec local.n:\n";
    s += "if (local.n <= 0) { end 0 }\n";
    s += "end (1 + (waitthread rec (local.n - 1)))\n";
    s += "other local.p:\n";
    s += "println \"other \" local.p\n";
    s += "wait 0.001\n";
    s += "println \"other done\"\n";
    s += "end\n";
    return s;
}

// pool churn: every thread keeps its own con::map<str, str>, but all maps draw their entries
// from ONE process-wide pool (BlockAllocSafe_set<Entry<str, str>>).  Blocks hold 256 entries:
// with > 256 live entries per thread, removals hit full blocks (the freed slot is then the
// next one handed out, possibly to another thread) while the others allocate.
static std::string poolChurn(int idx, int iters)
{
    con::map<str, str> m;
    auto key = [&](int i) { return str(("k" + std::to_string(idx) + "_" + std::to_string(i)).c_str()); };
    auto val = [&](int i) { return str(("value-of-" + std::to_string(idx) + "-" + std::to_string(i) + "-padding-padding-padding").c_str()); };
    const int base = 300 + 7 * (idx % 5);
    for (int i = 0; i < base; ++i) m[key(i)] = val(i);
    uint64_t bad = 0;
    for (int it = 0; it < iters; ++it) {
        const int victim = it % base;
        m.remove(key(victim + (it / base) * base));
        m[key(victim + (it / base + 1) * base)] = val(victim + (it / base + 1) * base);
        const int probe = (it * 7 + 3) % base;
        for (int gen = it / base + 1; gen >= 0; --gen) {
            const str* v = m.find(key(probe + gen * base));
            if (v) { if (!(*v == val(probe + gen * base))) bad++; break; }
            if (gen == 0) bad++;
        }
    }
    return "churn size=" + std::to_string(m.size()) + " bad=" + std::to_string(bad) + "\n";
}

static uint64_t fnv(const std::string& s) { uint64_t h = 1469598103934665603ull; for (unsigned char c : s) { h ^= c; h *= 1099511628211ull; } return h; }

static std::string runOne(int idx, int rounds, unsigned seed)
{
    std::string all;
    // every other host configures the interpreter nesting limit of ITS engine thread
    if (idx % 2) ScriptExecutionStack::SetMaxStackDepth(5 + idx % 4);
    for (int r = 0; r < rounds; ++r) {
        vh::Engine e;
        const int k = idx * 7 + r;
        const ProgramScript* scr = e.compile("w" + std::to_string(k), workload(k));
        try { if (scr) e.director().ExecuteThread(scr); }
        catch (const std::exception& ex) { all += std::string("exception ") + ex.what() + "\n"; }
        for (int f = 0; f < 6; ++f) {
            vh::g_clock += 1;
            try { e.ctx->Execute(); } catch (const std::exception& ex) { all += std::string("exception ") + ex.what() + "\n"; }
        }
        if ((r + seed) % 2) e.director().Reset();
        for (const std::string& l : e.takeOutput()) { all += l; all += "\n"; }
        all += "idle=" + std::to_string(e.ctx->IsIdle() ? 1 : 0) + " warn=" + std::to_string(e.io.warn.str().size() ? 1 : 0) + "\n";
        all += e.io.warn.str();
        e.director().Reset();
    }
    all += poolChurn(idx, 4000 * rounds);
    return all;
}

int main(int argc, char** argv)
{
    const int n = argc > 1 ? std::atoi(argv[1]) : 4;
    const int rounds = argc > 2 ? std::atoi(argv[2]) : 3;
    const unsigned seed = argc > 3 ? (unsigned)std::atoi(argv[3]) : 1;
    // mode (argv[5]): "warm" (default) = registries initialised and solo reference runs first, in this process;
    //   "soloonly" = only the solo runs (prints their hashes); "cold" = the concurrent runs are the FIRST use of the
    //   library in this process (no initialisation, no solo runs: first-use races of the process-wide registries);
    //   the expected hashes then come from a "soloonly" process (argv[6..])
    const std::string mode = argc > 5 ? argv[5] : "warm";
    mfuse::verif::clockHook = &vh::clockFn;
    std::vector<std::string> solo(n), conc(n);
    if (mode != "cold") {
        EventSystem::Get();
        // the solo runs: one fresh OS thread per workload, one after the other (thread-local state starts at its defaults, as in the concurrent run)
        for (int i = 0; i < n; ++i) { std::thread t([&, i]() { solo[i] = runOne(i, rounds, seed); }); t.join(); }
    }
    if (mode == "soloonly") {
        for (int i = 0; i < n; ++i) std::printf("solo %d %016llx\n", i, (unsigned long long)fnv(solo[i]));
        std::fflush(stdout);
        std::_Exit(0);
    }
    std::atomic<int> go{0};
    std::vector<std::thread> th;
    for (int i = 0; i < n; ++i) {
        th.emplace_back([&, i]() {
            while (!go.load()) std::this_thread::yield();
            for (volatile unsigned spin = 0; spin < (seed * 2654435761u + i * 40503u) % 20000u; ++spin) {}
            conc[i] = runOne(i, rounds, seed);
        });
    }
    go.store(1);
    for (auto& t : th) t.join();
    int bad = 0;
    for (int i = 0; i < n; ++i) {
        unsigned long long want = fnv(solo[i]);
        if (mode == "cold") want = (argc > 6 + i) ? std::strtoull(argv[6 + i], nullptr, 16) : 0;
        const bool same = want == fnv(conc[i]);
        std::printf("t%d solo=%016llx conc=%016llx lines=%zu %s\n", i, want, (unsigned long long)fnv(conc[i]),
                    (size_t)std::count(conc[i].begin(), conc[i].end(), '\n'), same ? "same" : "DIFFERENT");
        if (!same) bad++;
    }
    if (argc > 4) std::printf("--- output of t%d ---\n%s", std::atoi(argv[4]) % n, solo[std::atoi(argv[4]) % n].c_str());
    std::fflush(stdout);
    std::_Exit(bad ? 3 : 0);
}
