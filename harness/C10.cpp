// C10 harness: performs an item sequence with the real mfuse::Archiver on a memory stream,
// prints the bytes it produced and what a second Archiver reads back from those bytes with
// the same sequence of calls (values as bit patterns, pointers as the identity of the
// reader's object they ended up pointing to).
//   stdin : "case <id> <magic-hex> <version> <name-hex|->", items (see ocaml/C10_driver.ml), "end"
//   stdout: "case <id>", "b <hex>", one "m <item>" line per item, "end"
// The functions c10_write / c10_read are also used by harness/C11.cpp (damaged archives).
#include <morfuse/Script/Archiver.h>
#include <morfuse/Script/Class.h>
#include <morfuse/Script/Listener.h>
#include <morfuse/Script/Context.h>
#include <morfuse/Script/EventSystem.h>
#include <morfuse/Common/SafePtr.h>
#include <morfuse/Common/OutputInfo.h>
#include <morfuse/Common/membuf.h>
#include <morfuse/Common/str.h>
#include "common.h"

#include <cstdint>
#include <cstdio>
#include <cstring>
#include <iostream>
#include <map>
#include <memory>
#include <sstream>
#include <string>
#include <vector>

using namespace mfuse;

struct CaseSpec {
    std::string magic, name;
    unsigned version = 1;
    std::vector<std::string> items;
};

// ------------------------------------------------------------------------------ slots
struct LeafSlot {
    char kind = 'P';            // P R S Q O
    std::string pk;             // primitive kind
    uint64_t v = 0;             // primitive bit pattern
    std::string bytes;          // R / S content
    bool safe = false;
    long target = -1;           // Q: -1 null; O: id
    // storage the Archiver works on
    int8_t i8 = 0; int16_t i16 = 0; int32_t i32 = 0; int64_t i64 = 0;
    uint8_t u8 = 0; uint16_t u16 = 0; uint32_t u32 = 0; uint64_t u64 = 0;
    char ch = 0; size_t sz = 0; float fl = 0; double db = 0; bool bo = false;
    std::vector<char> raw;
    std::unique_ptr<str> s;
    Class* ptr = nullptr;
    std::unique_ptr<SafePtr<Class>> sp;
};

struct ItemSlot {
    bool isObj = false;
    int cls = 0;
    long id = -1;
    LeafSlot leaf;
    std::vector<LeafSlot> body;
};

static void archiveLeaves(Archiver& arc, std::vector<LeafSlot>* leaves);

// -------------------------------------------------------------------------- host classes
#define VERIF_HOST_CLASS(NAME, BASE)                                   \
    class NAME : public BASE {                                          \
        MFUS_CLASS_PROTOTYPE(NAME);                                     \
    public:                                                             \
        std::vector<LeafSlot>* cur = nullptr;                           \
        void Archive(Archiver& arc) override                            \
        {                                                               \
            BASE::Archive(arc);                                         \
            archiveLeaves(arc, cur);                                    \
        }                                                               \
    };

VERIF_HOST_CLASS(VObjA, Class)
VERIF_HOST_CLASS(VObjB, Class)
VERIF_HOST_CLASS(VLis, Listener)
VERIF_HOST_CLASS(VObj, Class)

MFUS_CLASS_DECLARATION(Class, VObjA, nullptr) { { nullptr, nullptr } };
MFUS_CLASS_DECLARATION(Class, VObjB, nullptr) { { nullptr, nullptr } };
MFUS_CLASS_DECLARATION(Listener, VLis, nullptr) { { nullptr, nullptr } };
MFUS_CLASS_DECLARATION(Class, VObj, nullptr) { { nullptr, nullptr } };

static Class* newHost(int cls)
{
    switch (cls) {
    case 0: return new VObjA();
    case 1: return new VObjB();
    case 2: return new VLis();
    default: return new VObj();
    }
}

static void setCur(Class* o, int cls, std::vector<LeafSlot>* body)
{
    switch (cls) {
    case 0: static_cast<VObjA*>(o)->cur = body; break;
    case 1: static_cast<VObjB*>(o)->cur = body; break;
    case 2: static_cast<VLis*>(o)->cur = body; break;
    default: static_cast<VObj*>(o)->cur = body; break;
    }
}

// ------------------------------------------------------------------------------ parsing
static std::string unhex(const std::string& h)
{
    std::string out;
    if (h == "-") return out;
    for (size_t i = 0; i + 1 < h.size(); i += 2) out.push_back((char)std::stoi(h.substr(i, 2), nullptr, 16));
    return out;
}

static std::string hexOf(const std::string& b)
{
    if (b.empty()) return "-";
    static const char* d = "0123456789abcdef";
    std::string out;
    for (unsigned char c : b) { out.push_back(d[c >> 4]); out.push_back(d[c & 15]); }
    return out;
}

static std::string hexNum(uint64_t v)
{
    char buf[32];
    std::snprintf(buf, sizeof buf, "%llx", (unsigned long long)v);
    return buf;
}

static bool parseLeaf(const std::vector<std::string>& t, size_t a, size_t b, LeafSlot& l)
{
    if (a >= b) return false;
    const std::string& k = t[a];
    if (k == "P" && b - a == 3) { l.kind = 'P'; l.pk = t[a + 1]; l.v = std::stoull(t[a + 2], nullptr, 16); return true; }
    if ((k == "R" || k == "S") && b - a == 2) { l.kind = k[0]; l.bytes = unhex(t[a + 1]); return true; }
    if (k == "Q" && b - a == 3) { l.kind = 'Q'; l.safe = t[a + 1] == "s"; l.target = t[a + 2] == "n" ? -1 : std::stol(t[a + 2]); return true; }
    if (k == "O" && b - a == 2) { l.kind = 'O'; l.target = std::stol(t[a + 1]); return true; }
    return false;
}

static bool parseItem(const std::string& line, ItemSlot& it)
{
    std::istringstream is(line);
    std::vector<std::string> t;
    std::string x;
    while (is >> x) t.push_back(x);
    if (t.empty()) return false;
    if (t[0] == "B") {
        if (t.size() < 5 || t[3] != "[") return false;
        it.isObj = true;
        it.cls = std::stoi(t[1]);
        if (it.cls < 0 || it.cls > 3) it.cls = 3;
        it.id = std::stol(t[2]);
        size_t a = 4;
        while (a < t.size() && t[a] != "]") {
            size_t b = a;
            while (b < t.size() && t[b] != ";" && t[b] != "]") ++b;
            if (b > a) {
                LeafSlot l;
                if (!parseLeaf(t, a, b, l)) return false;
                it.body.push_back(std::move(l));
            }
            a = (b < t.size() && t[b] == ";") ? b + 1 : b;
        }
        return true;
    }
    it.isObj = false;
    return parseLeaf(t, 0, t.size(), it.leaf);
}

// -------------------------------------------------------------------------------- world
struct World {
    std::map<long, Class*> objs;
    std::map<long, int> cls;
    std::vector<ItemSlot> items;

    void need(long id) { if (id >= 0 && !cls.count(id)) cls[id] = 0; }

    bool build(const CaseSpec& cs)
    {
        items.clear();
        items.resize(cs.items.size());
        for (size_t i = 0; i < cs.items.size(); ++i)
            if (!parseItem(cs.items[i], items[i])) return false;
        for (ItemSlot& it : items) if (it.isObj && !cls.count(it.id)) cls[it.id] = it.cls;
        for (ItemSlot& it : items) {
            if (it.isObj) { for (LeafSlot& l : it.body) if (l.kind == 'Q' || l.kind == 'O') need(l.target); }
            else if (it.leaf.kind == 'Q' || it.leaf.kind == 'O') need(it.leaf.target);
        }
        for (auto& kv : cls) objs[kv.first] = newHost(kv.second);
        return true;
    }

    // loads the values to be written into the storage (writer) or clears it (reader)
    void prepare(LeafSlot& l, bool writing)
    {
        switch (l.kind) {
        case 'P': {
            const uint64_t v = writing ? l.v : 0;
            l.i8 = (int8_t)v; l.i16 = (int16_t)v; l.i32 = (int32_t)v; l.i64 = (int64_t)v;
            l.u8 = (uint8_t)v; l.u16 = (uint16_t)v; l.u32 = (uint32_t)v; l.u64 = v;
            l.ch = (char)v; l.sz = (size_t)v;
            { uint32_t w = (uint32_t)v; std::memcpy(&l.fl, &w, 4); }
            std::memcpy(&l.db, &v, 8);
            l.bo = (v & 1) != 0;
            break;
        }
        case 'R':
            l.raw.reserve(l.bytes.size() + 1);      // data() is never null
            l.raw.assign(l.bytes.size(), 0);
            if (writing && !l.bytes.empty()) std::memcpy(l.raw.data(), l.bytes.data(), l.bytes.size());
            break;
        case 'S':
            if (writing) l.s.reset(new str(l.bytes.c_str(), l.bytes.size()));
            else l.s.reset(new str());
            break;
        case 'Q':
            l.ptr = (writing && l.target >= 0) ? objs[l.target] : nullptr;
            l.sp.reset(new SafePtr<Class>());
            if (writing && l.target >= 0) *l.sp = objs[l.target];
            break;
        default: break;
        }
    }

    void prepareAll(bool writing)
    {
        for (ItemSlot& it : items) {
            if (it.isObj) for (LeafSlot& l : it.body) prepare(l, writing);
            else prepare(it.leaf, writing);
        }
    }

    void perform(Archiver& arc)
    {
        for (ItemSlot& it : items) {
            if (it.isObj) {
                Class* o = objs[it.id];
                setCur(o, cls[it.id], &it.body);
                arc.ArchiveObject(*o);
                setCur(o, cls[it.id], nullptr);
            } else {
                std::vector<LeafSlot> one;   // not used: single leaves are archived in place
                doLeaf(arc, it.leaf);
            }
        }
    }

    void doLeaf(Archiver& arc, LeafSlot& l);

    long idOf(const void* p) const
    {
        for (auto& kv : objs) if ((const void*)kv.second == p) return kv.first;
        return -2;
    }

    std::string showLeaf(const LeafSlot& l) const
    {
        switch (l.kind) {
        case 'P': {
            uint64_t v = 0;
            const std::string& k = l.pk;
            if (k == "i8") v = (uint8_t)l.i8; else if (k == "i16") v = (uint16_t)l.i16;
            else if (k == "i32") v = (uint32_t)l.i32; else if (k == "i64") v = (uint64_t)l.i64;
            else if (k == "u8" || k == "by") v = l.u8; else if (k == "u16") v = l.u16;
            else if (k == "u32" || k == "po") v = l.u32; else if (k == "u64") v = l.u64;
            else if (k == "ch") v = (unsigned char)l.ch; else if (k == "sz") v = l.sz;
            else if (k == "fl") { uint32_t w; std::memcpy(&w, &l.fl, 4); v = w; }
            else if (k == "db") { std::memcpy(&v, &l.db, 8); }
            else if (k == "bo") { unsigned char c; std::memcpy(&c, &l.bo, 1); v = c; }
            return "P " + k + " " + hexNum(v);
        }
        case 'R': return "R " + hexOf(std::string(l.raw.begin(), l.raw.end()));
        case 'S': return "S " + hexOf(std::string(l.s->c_str(), l.s->length()));
        case 'Q': {
            const void* p = l.safe ? (const void*)l.sp->Pointer() : (const void*)l.ptr;
            std::string t = "n";
            if (p) { long id = idOf(p); t = id >= 0 ? std::to_string(id) : std::string("x"); }
            return std::string("Q ") + (l.safe ? "s " : "p ") + t;
        }
        default: return "O " + std::to_string(l.target);
        }
    }

    std::string showItem(const ItemSlot& it) const
    {
        if (!it.isObj) return showLeaf(it.leaf);
        std::string out = "B " + std::to_string(it.cls) + " " + std::to_string(it.id) + " [";
        for (size_t i = 0; i < it.body.size(); ++i) { out += i ? " ; " : " "; out += showLeaf(it.body[i]); }
        return out + " ]";
    }

    ~World()
    {
        items.clear();                       // the weak pointers go first
        for (auto& kv : objs) delete kv.second;
    }
};

static World* g_world = nullptr;

void World::doLeaf(Archiver& arc, LeafSlot& l)
{
    switch (l.kind) {
    case 'P': {
        const std::string& k = l.pk;
        if (k == "i8") arc.ArchiveInt8(l.i8); else if (k == "i16") arc.ArchiveInt16(l.i16);
        else if (k == "i32") arc.ArchiveInt32(l.i32); else if (k == "i64") arc.ArchiveInt64(l.i64);
        else if (k == "u8") arc.ArchiveUInt8(l.u8); else if (k == "u16") arc.ArchiveUInt16(l.u16);
        else if (k == "u32") arc.ArchiveUInt32(l.u32); else if (k == "u64") arc.ArchiveUInt64(l.u64);
        else if (k == "ch") arc.ArchiveChar(l.ch); else if (k == "sz") arc.ArchiveSize(l.sz);
        else if (k == "by") arc.ArchiveByte(l.u8); else if (k == "fl") arc.ArchiveFloat(l.fl);
        else if (k == "db") arc.ArchiveDouble(l.db); else if (k == "bo") arc.ArchiveBoolean(l.bo);
        else if (k == "po") arc.ArchivePosition(l.u32);
        break;
    }
    case 'R': arc.ArchiveRaw(l.raw.data(), l.raw.size()); break;
    case 'S': mfuse::Archive(arc, *l.s); break;
    case 'Q':
        if (l.safe) arc.ArchiveSafePointer(*l.sp);
        else arc.ArchiveObjectPointer(l.ptr);
        break;
    case 'O': arc.ArchiveObjectPosition(objs[l.target]); break;
    default: break;
    }
}

static void archiveLeaves(Archiver& arc, std::vector<LeafSlot>* leaves)
{
    if (!leaves || !g_world) return;
    for (LeafSlot& l : *leaves) g_world->doLeaf(arc, l);
}

// an Archiver call sequence under the catch ladder; returns "ok" | "err <Kind> .." | "exc .."
template<typename F>
static std::string guarded(F&& f)
{
    try {
        f();
        return "ok";
    }
    catch (ArchiveErrors::InvalidArchiveHeader&) { return "err InvalidArchiveHeader"; }
    catch (ArchiveErrors::WrongVersion&) { return "err WrongVersion"; }
    catch (ArchiveErrors::ReadStreamFail&) { return "err ReadStreamFail"; }
    catch (ArchiveErrors::TypeError& e) { return "err TypeError " + hexNum(e.GetExpectedType()) + " " + hexNum(e.GetType()); }
    catch (ArchiveErrors::InvalidClass&) { return "err InvalidClass"; }
    catch (ArchiveErrors::ObjectClassError&) { return "err ObjectClassError"; }
    catch (ArchiveErrors::ReadPastEndObject&) { return "err ReadPastEndObject"; }
    catch (ArchiveErrors::NotReadEntireDataObject&) { return "err NotReadEntireDataObject"; }
    catch (ArchiveErrors::MissingReadStream&) { return "err MissingReadStream"; }
    catch (ArchiveErrors::MissingWriteStream&) { return "err MissingWriteStream"; }
    catch (ArchiveErrors::WriteStreamFail&) { return "err WriteStreamFail"; }
    catch (ArchiveErrors::ObjectInstanceFailed&) { return "err ObjectInstanceFailed"; }
    catch (ArchiveErrors::Base&) { return "err Base"; }
    catch (std::bad_alloc&) { return "exc bad_alloc"; }
    catch (std::exception& e) { return std::string("exc std::exception"); }
    catch (...) { return "exc unknown"; }
}

static version_info_t makeInfo(const CaseSpec& cs)
{
    version_info_t info;
    info.header = cs.magic.c_str();
    info.archiveName = cs.name.c_str();
    info.version = cs.version;
    return info;
}

// writes the items; bytesOut = what reached the stream
std::string c10_write(const CaseSpec& cs, std::string& bytesOut)
{
    World w;
    if (!w.build(cs)) return "exc bad-case";
    w.prepareAll(true);
    g_world = &w;
    std::vector<char> buf(1 << 20);
    size_t n = 0;
    const version_info_t info = makeInfo(cs);
    std::string r = guarded([&]() {
        omemstream os(buf.data(), buf.size());
        {
            Archiver arc = Archiver::CreateWrite(os, info);
            w.perform(arc);
        }
        n = (size_t)os.tellp();
    });
    g_world = nullptr;
    bytesOut.assign(buf.data(), n);
    return r;
}

// reads bytes with the calls of the item sequence; lines = the items as read back
std::string c10_read(const CaseSpec& cs, const std::string& bytes, std::vector<std::string>& lines)
{
    World w;
    if (!w.build(cs)) return "exc bad-case";
    w.prepareAll(false);
    g_world = &w;
    const version_info_t info = makeInfo(cs);
    std::string r = guarded([&]() {
        imemstream is(bytes.data(), bytes.size());
        Archiver arc = Archiver::CreateRead(is, info);
        w.perform(arc);
    });
    g_world = nullptr;
    lines.clear();
    if (r == "ok") for (const ItemSlot& it : w.items) lines.push_back(w.showItem(it));
    return r;
}

void c10_setup()
{
    GlobalOutput::Get().SetOutputStream(outputLevel_e::Debug, &std::cerr);
    GlobalOutput::Get().SetOutputStream(outputLevel_e::Warn, &std::cerr);
    GlobalOutput::Get().SetOutputStream(outputLevel_e::Error, &std::cerr);
    EventSystem::Get();
    static ScriptContext ctx;
    ctx.EventContext::Set(&ctx);
}

bool c10_parse_header(const std::string& line, std::string& id, CaseSpec& cs)
{
    std::istringstream is(line.substr(5));
    std::string m, v, nm;
    is >> id >> m >> v >> nm;
    cs = CaseSpec();
    cs.magic = unhex(m.empty() ? "4d465553" : m);
    cs.version = v.empty() ? 1u : (unsigned)std::stoul(v);
    cs.name = unhex(nm.empty() ? "-" : nm);
    return true;
}

std::string c10_hex(const std::string& b) { return hexOf(b); }

static void runCase(const std::string& id, const CaseSpec& cs)
{
    std::printf("case %s\n", id.c_str());
    std::fflush(stdout);
    verif_case_watchdog(cs.items.size());
    std::string bytes;
    std::string wr = c10_write(cs, bytes);
    if (wr != "ok") {
        std::printf("b ! %s\n", wr.c_str());
    } else {
        std::printf("b %s\n", hexOf(bytes).c_str());
        std::fflush(stdout);
        std::vector<std::string> lines;
        std::string rr = c10_read(cs, bytes, lines);
        if (rr == "ok") for (const std::string& l : lines) std::printf("m %s\n", l.c_str());
        else for (size_t i = 0; i < (cs.items.empty() ? 1 : cs.items.size()); ++i) std::printf("m ! %s\n", rr.c_str());
    }
    verif_watchdog_off();
    std::printf("end\n");
    std::fflush(stdout);
}

__attribute__((weak)) int main()
{
    c10_setup();
    std::string line, id;
    CaseSpec cs;
    bool in = false;
    auto flush = [&]() { if (in) runCase(id, cs); in = false; };
    while (std::getline(std::cin, line)) {
        if (line.rfind("case ", 0) == 0) { flush(); c10_parse_header(line, id, cs); in = true; }
        else if (line == "end") flush();
        else if (!line.empty()) cs.items.push_back(line);
    }
    flush();
    return 0;
}
