// C10 harness: performs an item sequence with the real mfuse::Archiver on a memory stream,
// prints the bytes it produced and what a second Archiver reads back from those bytes with
// the same sequence of calls (values as bit patterns, pointers as the identity of the
// reader's object they ended up pointing to).
//   stdin : "case <id> <magic-hex> <version> <name-hex|->", items (see ocaml/C10_driver.ml), "end"
//   stdout: "case <id>", "b <hex>", one "m <item>" line per item, "end"
// Objects: "B <class> <id> [ body ]" is loaded into an object the host owns (arc.ArchiveObject(obj)); "N <class> <id> [ body ]"
// is written the same way but loaded with arc.ReadObject<T>() (the Archiver creates the instance; when the load fails the host
// owns nothing); "U <class> <id> [ body ]" is loaded with the untyped arc.ReadObject() (the class is created from the name in the
// archive; the host takes ownership of the returned Class*).  The plain / weak pointers of a body are MEMBERS of the host object (the first 8 of them).
// Script variables:  "V <key> <token> <token> ..."  key: * = ArchiveInternal, ~ = Archive with no key
// string, hex = Archive with that key.  The tokens are the variable and everything it contains in
// archive order (depth first, keys and values of an array alternating):  <vid>:<kind>[:args]
//   n | s:<hex|-> | i:<hex> | f:<hex> | c:<hex> | k:<hex>|k:~ | L:<id|n> listener | R:<vid|n> ref
//   | C:<id|n> container (ids 200..299) | S:<id> safe container (ids 300..399) | v:<24 hex> vector
//   | A:<hid>:<refCount>:<tableLength>:<threshold>:<tableLengthIndex>:<count>:<insertion ranks r/r/..>
//   | K:<hid>:<refCount>:<size> constant array | P:<pid>:<vid> script pointer | h:<A|K|P>:<hid> shared holder
// Read back, a variable is printed canonically: "V <key> <vid>=<value>", arrays as
// A#<n>/<refCount>{key=>value,..} sorted by key text ("!" after a key that find() does not find), constant
// arrays K#<n>/<refCount>[..], holders numbered by first visit, a holder seen before as A#<n>.
// Listeners (class 2): the first leaves of the body are what Listener::Archive itself writes - "P u8 <flag>" and, per section,
// the set header and entries; "] @ <k> n:<namehex>:<id,id> w:<namehex>:<ids> v:<namehex>" after the body says how many leaves
// those are and which lists the listener has (n: this->Register(name, other); w: what others registered on it; v: one variable
// in its variable list, the keyed V leaf among the k leaves).  Read back, these leaves are echoed when RegisterSize /
// WaitingSize / the variable are as described and Unregister(name, other) empties both sides; otherwise "!listener ...".
// After the read-back every array (original and loaded) is USED: find every key, insert 40 fresh keys (rehashes), find all,
// remove all, destroy; the "e" line says whether the loaded arrays behaved like the originals (ASan watches all of it).
// The functions c10_write / c10_read are also used by harness/C11.cpp (damaged archives).
#include <morfuse/Script/Archiver.h>
#include <morfuse/Script/Class.h>
#include <morfuse/Script/Listener.h>
#include <morfuse/Script/Context.h>
#include <morfuse/Script/EventSystem.h>
#include <morfuse/Common/SafePtr.h>
#include <morfuse/Common/OutputInfo.h>
#include <morfuse/Common/membuf.h>
#include <morfuse/Common/str.h>
#include <morfuse/Common/StringDictionary.h>
#include <morfuse/Common/Vector.h>
#include <morfuse/Script/ScriptVariable.h>
#include <morfuse/Script/ScriptMaster.h>
#include <morfuse/Script/ContainerClass.h>
#include "common.h"
#include </usr/include/x86_64-linux-gnu/sys/wait.h>

#include <cstdint>
#include <cstdio>
#include <cstring>
#include <algorithm>
#include <iostream>
#include <map>
#include <memory>
#include <sstream>
#include <string>
#include <vector>

using namespace mfuse;

struct CaseSpec {
    std::string magic, name;
    unsigned version = 1;
    std::vector<std::string> items;
};

// ------------------------------------------------------------------------------ slots
struct LeafSlot {
    char kind = 'P';            // P R S Q O
    std::string pk;             // primitive kind
    uint64_t v = 0;             // primitive bit pattern
    std::string bytes;          // R / S content
    bool safe = false;
    long target = -1;           // Q: -1 null; O: id
    // storage the Archiver works on
    int8_t i8 = 0; int16_t i16 = 0; int32_t i32 = 0; int64_t i64 = 0;
    uint8_t u8 = 0; uint16_t u16 = 0; uint32_t u32 = 0; uint64_t u64 = 0;
    char ch = 0; size_t sz = 0; float fl = 0; double db = 0; bool bo = false;
    std::vector<char> raw;
    std::unique_ptr<str> s;
    Class* ptr = nullptr;
    std::unique_ptr<SafePtr<Class>> sp;
    bool byListener = false;            // a leading leaf of a listener's body that Listener::Archive itself writes / reads
    std::string text;                   // ... and its text (echoed when the loaded listener state is what it describes)
    Class** extPtr = nullptr;           // Q inside an object's body: the pointer is a MEMBER of the host object
    SafePtr<Class>* extSp = nullptr;
    // V: a script variable
    std::string vkey;           // * ~ or hex
    std::vector<std::string> vtoks;
    long vid = -1;
};

struct ItemSlot {
    bool isObj = false;
    bool viaRead = false;       // "N": the reader loads the object with arc.ReadObject<T>() instead of ArchiveObject(obj)
    std::vector<std::string> lisSpec;   // "@ k n:<name>:<ids> w:<name>:<ids> v:<name>": the lists of a listener
    std::string lisError;
    bool untyped = false;       // "U": the reader loads it with the untyped arc.ReadObject() (class taken from the archive)
    int cls = 0;
    long id = -1;
    LeafSlot leaf;
    std::vector<LeafSlot> body;
};

static void archiveLeaves(Archiver& arc, std::vector<LeafSlot>* leaves);

// -------------------------------------------------------------------------- host classes
static std::vector<LeafSlot>* g_pendingBody = nullptr;   // body of the object that ReadObject<T>() is about to create
static void bindMembers(std::vector<LeafSlot>* leaves, Class** mptr, SafePtr<Class>* msp, size_t n);

#define VERIF_HOST_CLASS(NAME, BASE)                                   \
    class NAME : public BASE {                                          \
        MFUS_CLASS_PROTOTYPE(NAME);                                     \
    public:                                                             \
        std::vector<LeafSlot>* cur = nullptr;                           \
        std::vector<LeafSlot>* bound = nullptr;                         \
        Class* mptr[8] = {};             /* the pointers of the body */ \
        SafePtr<Class> msp[8];           /* live INSIDE the object   */ \
        void Archive(Archiver& arc) override                            \
        {                                                               \
            BASE::Archive(arc);                                         \
            if (!cur) cur = g_pendingBody;                              \
            if (!bound || bound == cur) {  /* (an object archived twice keeps the members for its first body) */ \
                bound = cur;                                            \
                bindMembers(cur, mptr, msp, 8);                         \
            }                                                           \
            archiveLeaves(arc, cur);                                    \
        }                                                               \
    };

VERIF_HOST_CLASS(VObjA, Class)
VERIF_HOST_CLASS(VObjB, Class)
VERIF_HOST_CLASS(VLis, Listener)
VERIF_HOST_CLASS(VObj, Class)

MFUS_CLASS_DECLARATION(Class, VObjA, nullptr) { { nullptr, nullptr } };
MFUS_CLASS_DECLARATION(Class, VObjB, nullptr) { { nullptr, nullptr } };
MFUS_CLASS_DECLARATION(Listener, VLis, nullptr) { { nullptr, nullptr } };
MFUS_CLASS_DECLARATION(Class, VObj, nullptr) { { nullptr, nullptr } };

static Class* newHost(int cls)
{
    switch (cls) {
    case 0: return new VObjA();
    case 1: return new VObjB();
    case 2: return new VLis();
    default: return new VObj();
    }
}

static void setCur(Class* o, int cls, std::vector<LeafSlot>* body)
{
    switch (cls) {
    case 0: static_cast<VObjA*>(o)->cur = body; break;
    case 1: static_cast<VObjB*>(o)->cur = body; break;
    case 2: static_cast<VLis*>(o)->cur = body; break;
    default: static_cast<VObj*>(o)->cur = body; break;
    }
}

// ------------------------------------------------------------------------------ parsing
static std::string unhex(const std::string& h)
{
    std::string out;
    if (h == "-") return out;
    for (size_t i = 0; i + 1 < h.size(); i += 2) out.push_back((char)std::stoi(h.substr(i, 2), nullptr, 16));
    return out;
}

static std::string hexOf(const std::string& b)
{
    if (b.empty()) return "-";
    static const char* d = "0123456789abcdef";
    std::string out;
    for (unsigned char c : b) { out.push_back(d[c >> 4]); out.push_back(d[c & 15]); }
    return out;
}

static std::string hexNum(uint64_t v)
{
    char buf[32];
    std::snprintf(buf, sizeof buf, "%llx", (unsigned long long)v);
    return buf;
}

static bool parseLeaf(const std::vector<std::string>& t, size_t a, size_t b, LeafSlot& l)
{
    if (a >= b) return false;
    const std::string& k = t[a];
    if (k == "P" && b - a == 3) { l.kind = 'P'; l.pk = t[a + 1]; l.v = std::stoull(t[a + 2], nullptr, 16); return true; }
    if ((k == "R" || k == "S") && b - a == 2) { l.kind = k[0]; l.bytes = unhex(t[a + 1]); return true; }
    if (k == "Q" && b - a == 3) { l.kind = 'Q'; l.safe = t[a + 1] == "s"; l.target = t[a + 2] == "n" ? -1 : std::stol(t[a + 2]); return true; }
    if (k == "O" && b - a == 2) { l.kind = 'O'; l.target = std::stol(t[a + 1]); return true; }
    if (k == "V" && b - a >= 3) {
        l.kind = 'V'; l.vkey = t[a + 1];
        for (size_t i = a + 2; i < b; ++i) l.vtoks.push_back(t[i]);
        l.vid = std::stol(l.vtoks[0].substr(0, l.vtoks[0].find(':')));
        return true;
    }
    return false;
}

// ---------------------------------------------------------------------- script variables
using ConListT = con::ContainerClass<SafePtr<Listener>>;

struct VNode {
    long vid = 0;
    char kind = 'n';
    std::vector<std::string> f;     // the fields after the kind
    std::vector<VNode> kids;
};

static std::vector<std::string> splitOn(const std::string& s, char c)
{
    std::vector<std::string> out;
    std::string cur;
    for (char ch : s) { if (ch == c) { out.push_back(cur); cur.clear(); } else cur.push_back(ch); }
    out.push_back(cur);
    return out;
}

static bool parseNode(const std::vector<std::string>& toks, size_t& i, VNode& n)
{
    if (i >= toks.size()) return false;
    std::vector<std::string> w = splitOn(toks[i++], ':');
    if (w.size() < 2 || w[1].size() != 1) return false;
    n.vid = std::stol(w[0]);
    n.kind = w[1][0];
    n.f.assign(w.begin() + 2, w.end());
    size_t nk = 0;
    if (n.kind == 'A') { if (n.f.size() < 6) return false; nk = 2 * (size_t)std::stoul(n.f[5]); }
    if (n.kind == 'K') { if (n.f.size() < 3) return false; nk = (size_t)std::stoul(n.f[2]); }
    n.kids.resize(nk);
    for (size_t k = 0; k < nk; ++k) if (!parseNode(toks, i, n.kids[k])) return false;
    return true;
}

static bool parseItem(const std::string& line, ItemSlot& it)
{
    std::istringstream is(line);
    std::vector<std::string> t;
    std::string x;
    while (is >> x) t.push_back(x);
    if (t.empty()) return false;
    if (t[0] == "B" || t[0] == "N" || t[0] == "U") {
        if (t.size() < 5 || t[3] != "[") return false;
        it.isObj = true;
        it.viaRead = t[0] != "B";
        it.untyped = t[0] == "U";
        it.cls = std::stoi(t[1]);
        if (it.cls < 0 || it.cls > 3) it.cls = 3;
        it.id = std::stol(t[2]);
        size_t a = 4;
        while (a < t.size() && t[a] != "]") {
            size_t b = a;
            while (b < t.size() && t[b] != ";" && t[b] != "]") ++b;
            if (b > a) {
                LeafSlot l;
                if (!parseLeaf(t, a, b, l)) return false;
                it.body.push_back(std::move(l));
            }
            if (b > a) { std::string tx; for (size_t q = a; q < b; ++q) { if (q > a) tx += " "; tx += t[q]; } it.body.back().text = tx; }
            a = (b < t.size() && t[b] == ";") ? b + 1 : b;
        }
        // a listener: Listener::Archive writes the flag byte and the sections itself ("@ k ...": the first k leaves)
        if (it.cls == 2) {
            size_t k = (!it.body.empty() && it.body[0].kind == 'P' && it.body[0].pk == "u8") ? 1 : 0;
            if (a + 2 < t.size() && t[a] == "]" && t[a + 1] == "@") {
                k = (size_t)std::stoul(t[a + 2]);
                for (size_t q = a + 3; q < t.size(); ++q) it.lisSpec.push_back(t[q]);
            }
            for (size_t q = 0; q < k && q < it.body.size(); ++q) it.body[q].byListener = true;
        }
        return true;
    }
    it.isObj = false;
    return parseLeaf(t, 0, t.size(), it.leaf);
}

// -------------------------------------------------------------------------------- world
struct World {
    std::map<long, Class*> objs;
    std::map<long, int> cls;
    std::vector<ItemSlot> items;
    std::map<long, ConListT*> conlists;                 // ids 200..399
    std::map<long, ScriptVariable*> vars;               // top-level script variables by vid
    std::map<long, ScriptVariable*> registry;           // one extra reference to every holder built (writer)
    std::map<const void*, int> labels;                  // canonical numbering of holders (printing)
    std::map<long, bool> built;
    bool unprotected = false;
    std::vector<Class*> extras;
    std::map<long, bool> applied;
    LeafSlot* curV = nullptr;                           // the script variable whose Archive() is running
    bool hasHolders = false;                            // some variable is an array / constant array / script pointer
    bool hasCycle = false;                              // some array contains itself

    void need(long id)
    {
        if (id >= 200) { if (!conlists.count(id)) conlists[id] = new ConListT(); return; }
        if (id >= 0 && !cls.count(id)) cls[id] = 0;
    }

    void scanNode(const VNode& n, std::vector<long>& open)
    {
        if (n.kind == 'A' || n.kind == 'K' || n.kind == 'P' || n.kind == 'h') hasHolders = true;
        if (n.kind == 'h' && n.f.size() > 1) for (long h : open) if (h == std::stol(n.f[1])) hasCycle = true;
        if (n.kind == 'A' || n.kind == 'K') open.push_back(std::stol(n.f[0]));
        for (const VNode& k : n.kids) scanNode(k, open);
        if (n.kind == 'A' || n.kind == 'K') open.pop_back();
    }

    void needNode(const VNode& n)
    {
        if ((n.kind == 'L' || n.kind == 'C' || n.kind == 'S') && !n.f.empty() && n.f[0] != "n") {
            const long id = std::stol(n.f[0]);
            if (n.kind == 'L' && !cls.count(id)) cls[id] = 2;      // a listener
            else need(id);
        }
        if (n.kind == 'R' && !n.f.empty() && n.f[0] != "n") {
            const long v = std::stol(n.f[0]);
            if (!vars.count(v)) vars[v] = new ScriptVariable();       // a variable that is not archived
        }
        for (const VNode& k : n.kids) needNode(k);
    }

    void needLeaf(LeafSlot& l)
    {
        if (l.kind == 'Q' || l.kind == 'O') need(l.target);
        if (l.kind == 'V') {
            VNode n; size_t i = 0;
            if (parseNode(l.vtoks, i, n)) { needNode(n); std::vector<long> open; scanNode(n, open); }
            if (!vars.count(l.vid)) vars[l.vid] = new ScriptVariable();
        }
    }

    // the address under which an identity is entered in the archive
    void* addrOf(long id)
    {
        if (id >= 300) return (void*)static_cast<AbstractClass*>(conlists[id]);
        if (id >= 200) return (void*)static_cast<con::Container<SafePtr<Listener>>*>(conlists[id]);
        return (void*)objs[id];
    }

    bool reading = false;

    bool build(const CaseSpec& cs, bool forReading = false)
    {
        reading = forReading;
        items.clear();
        items.resize(cs.items.size());
        for (size_t i = 0; i < cs.items.size(); ++i)
            if (!parseItem(cs.items[i], items[i])) return false;
        for (ItemSlot& it : items) if (it.isObj && !cls.count(it.id)) cls[it.id] = it.cls;
        for (ItemSlot& it : items) {
            if (it.isObj) { for (LeafSlot& l : it.body) needLeaf(l); }
            else needLeaf(it.leaf);
        }
        std::map<long, bool> loaded;                 // objects the reader gets from arc.ReadObject<T>()
        if (reading) for (ItemSlot& it : items) if (it.isObj && it.viaRead) loaded[it.id] = true;
        for (ItemSlot& it : items) for (const std::string& sp : it.lisSpec) {          // listeners only named in a "@" description
            std::vector<std::string> f = splitOn(sp, ':');
            if ((f[0] == "n" || f[0] == "w") && f.size() >= 3 && f[2] != "-")
                for (const std::string& x : splitOn(f[2], ',')) if (!x.empty() && !cls.count(std::stol(x))) cls[std::stol(x)] = 2;
        }
        for (auto& kv : cls) objs[kv.first] = loaded.count(kv.first) ? nullptr : newHost(kv.second);
        return true;
    }

    // ---- building the value a token tree describes (writer side)
    static StringDictionary& dict() { return ScriptContext::Get().GetDirector().GetDictionary(); }

    static const_str constOf(const std::string& hex)
    {
        if (hex == "~") return const_str(0);
        const std::string b = unhexS(hex);
        return dict().Add(str(b.c_str()));
    }

    static std::string unhexS(const std::string& h);

    void buildInto(ScriptVariable& dst, const VNode& n)
    {
        switch (n.kind) {
        case 's': { const std::string b = unhexS(n.f[0]); str s; if (!b.empty()) s.assign(b.data(), b.size()); dst.setStringValue(s); break; }
        case 'i': dst.setLongValue(std::stoull(n.f[0], nullptr, 16)); break;
        case 'f': { uint32_t w = (uint32_t)std::stoull(n.f[0], nullptr, 16); dst.setFloatValue(0.0f); std::memcpy(&dst.GetData().floatValue, &w, 4); break; }
        case 'c': dst.setCharValue((char)std::stoull(n.f[0], nullptr, 16)); break;
        case 'k': dst.setConstStringValue(constOf(n.f[0])); break;
        case 'L': dst.setListenerValue(n.f[0] == "n" ? nullptr : static_cast<Listener*>(objs[std::stol(n.f[0])])); break;
        case 'R': dst.setRefValue(n.f[0] == "n" ? nullptr : vars[std::stol(n.f[0])]); break;
        case 'C': dst.setContainerValue(n.f[0] == "n" ? nullptr : conlists[std::stol(n.f[0])]); break;
        case 'S': dst.setSafeContainerValue(conlists[std::stol(n.f[0])]); break;
        case 'v': { const std::string b = unhexS(n.f[0]); dst.setVectorValue(Vector()); std::memcpy(dst.GetData().vectorValue, b.data(), 12); break; }
        case 'P': dst.newPointer(); break;
        case 'h': dst = *registry[std::stol(n.f[1])]; break;
        case 'K': {
            const long hid = std::stol(n.f[0]);
            ScriptVariable* el = dst.createConstArrayValue(n.kids.size());
            registry[hid] = new ScriptVariable(dst);
            for (size_t i = 0; i < n.kids.size(); ++i) buildInto(el[i], n.kids[i]);
            break;
        }
        case 'A': {
            const long hid = std::stol(n.f[0]);
            const size_t cnt = n.kids.size() / 2;
            // the history of the array: events in time order, "<i>" = insert entry i (place in the archive),
            // "d<hex>" = insert a dummy integer key, "r<hex>" = remove that key again (remove never shrinks the table)
            std::vector<std::string> ev = (n.f.size() > 6 && n.f[6] != "-") ? splitOn(n.f[6], '/') : std::vector<std::string>();
            if (ev.empty()) for (size_t i = 0; i < cnt; ++i) ev.push_back(std::to_string(i));
            std::vector<std::unique_ptr<ScriptVariable>> keys(cnt), vals(cnt);
            std::vector<bool> self(cnt, false);
            for (size_t i = 0; i < cnt; ++i) {            // archive order: a holder is built before it is shared
                keys[i].reset(new ScriptVariable()); vals[i].reset(new ScriptVariable());
                buildInto(*keys[i], n.kids[2 * i]);
                const VNode& vn = n.kids[2 * i + 1];
                if (vn.kind == 'h' && std::stol(vn.f[1]) == hid && !registry.count(hid)) self[i] = true;   // the array contains itself
                else buildInto(*vals[i], vn);
            }
            if (ev.empty()) {                             // an array that was emptied again
                ScriptVariable k, v, none;
                k.setIntValue(0); v.setIntValue(0);
                dst.setArrayAtRef(k, v);
                dst.setArrayAtRef(k, none);
            }
            for (const std::string& e : ev) {
                if (e.empty()) continue;
                if (e[0] == 'd' || e[0] == 'r') {
                    ScriptVariable k, v, none;
                    k.setLongValue(std::stoull(e.substr(1), nullptr, 16)); v.setIntValue(0);
                    dst.setArrayAtRef(k, e[0] == 'd' ? v : none);
                    continue;
                }
                const size_t i = (size_t)std::stoul(e);
                if (i >= cnt) continue;
                if (self[i]) { ScriptVariable me(dst); dst.setArrayAtRef(*keys[i], me); }
                else dst.setArrayAtRef(*keys[i], *vals[i]);
            }
            registry[hid] = new ScriptVariable(dst);
            break;
        }
        default: break;     // 'n'
        }
    }

    // ---- canonical text of a variable that was read
    long vidOf(const void* p) const
    {
        for (auto& kv : vars) if ((const void*)kv.second == p) return kv.first;
        return -2;
    }

    long conOf(const void* p, bool asClass) const
    {
        for (auto& kv : conlists) {
            const void* a = asClass ? (const void*)static_cast<const AbstractClass*>(kv.second)
                                    : (const void*)static_cast<const con::Container<SafePtr<Listener>>*>(kv.second);
            if (a == p && (asClass == (kv.first >= 300))) return kv.first;
        }
        return -2;
    }

    static std::string tgt(const void* p, long id) { return !p ? "n" : id >= 0 ? std::to_string(id) : std::string("x"); }

    std::string holderText(char kind, const void* h, ScriptVariable& v)
    {
        auto it = labels.find(h);
        if (!h) return "h:n";
        if (it != labels.end()) return std::string(1, kind) + "#" + std::to_string(it->second);
        const int l = (int)labels.size() + 1;
        labels[h] = l;
        std::string out = std::string(1, kind) + "#" + std::to_string(l);
        if (kind == 'A') {
            ScriptArrayHolder* ah = v.GetData().arrayValue;
            std::vector<std::pair<std::string, ScriptVariable*>> es;
            con::map_enum<ScriptVariable, ScriptVariable> en(ah->arrayValue);
            for (const ScriptVariable* k = en.NextKey(); k; k = en.NextKey()) {
                ScriptVariable* val = const_cast<ScriptVariable*>(en.CurrentValue());
                std::string ks = valueText(*const_cast<ScriptVariable*>(k));
                bool found = false;
                try { found = ah->arrayValue.find(*k) == val; } catch (...) { found = false; }
                if (!found) ks += "!";
                es.push_back({ ks, val });
            }
            std::sort(es.begin(), es.end(), [](const std::pair<std::string, ScriptVariable*>& a, const std::pair<std::string, ScriptVariable*>& b) { return a.first < b.first; });
            out += "/" + std::to_string(ah->refCount) + "{";
            for (size_t i = 0; i < es.size(); ++i) { if (i) out += ","; out += es[i].first + "=>" + valueText(*es[i].second); }
            out += "}";
        } else if (kind == 'K') {
            ScriptConstArrayHolder* ch = v.GetData().constArrayValue;
            out += "/" + std::to_string(ch->refCount) + "[";
            for (size_t i = 1; i <= ch->size; ++i) { if (i > 1) out += ","; out += valueText(ch->constArrayValue[i]); }
            out += "]";
        } else {
            ScriptPointer* sp = v.GetData().pointerValue;
            out += "(";
            for (size_t i = 1; i <= sp->list.NumObjects(); ++i) { if (i > 1) out += ","; const void* t = sp->list.ObjectAt(i); out += tgt(t, vidOf(t)); }
            out += ")";
        }
        return out;
    }

    std::string valueText(ScriptVariable& v)
    {
        switch (v.GetType()) {
        case variableType_e::None: return "n";
        case variableType_e::String: { const str* s = v.GetData().stringValue; return "s:" + hexOfS(std::string(s->c_str(), s->length())); }
        case variableType_e::Integer: return "i:" + hexNumS((uint64_t)v.GetData().long64Value);
        case variableType_e::Float: { uint32_t w; std::memcpy(&w, &v.GetData().floatValue, 4); return "f:" + hexNumS(w); }
        case variableType_e::Char: return "c:" + hexNumS((unsigned char)v.GetData().charValue);
        case variableType_e::ConstString: {
            const const_str cs = v.GetData().constStringValue;
            if (cs == const_str(0)) return "k:~";
            const str& s = dict().Get(cs);
            return "k:" + hexOfS(std::string(s.c_str(), s.length()));
        }
        case variableType_e::Listener: { const void* p = v.GetData().listenerValue->Pointer(); return "L:" + tgt(p, p ? idOf(p) : -1); }
        case variableType_e::Ref: { const void* p = v.GetData().refValue; return "R:" + tgt(p, p ? vidOf(p) : -1); }
        case variableType_e::Container: { const void* p = v.GetData().containerValue; return "C:" + tgt(p, p ? conOf(p, false) : -1); }
        case variableType_e::SafeContainer: { const void* p = (const void*)static_cast<SafePtrBase*>(v.GetData().safeContainerValue)->Pointer(); return "S:" + tgt(p, p ? conOf(p, true) : -1); }
        case variableType_e::Array: return holderText('A', v.GetData().arrayValue, v);
        case variableType_e::ConstArray: return holderText('K', v.GetData().constArrayValue, v);
        case variableType_e::Pointer: return holderText('P', v.GetData().pointerValue, v);
        case variableType_e::Vector: return "v:" + hexOfS(std::string((const char*)v.GetData().vectorValue, 12));
        default: return "?";
        }
    }

    static std::string hexOfS(const std::string& b);
    static std::string hexNumS(uint64_t v);

    // loads the values to be written into the storage (writer) or clears it (reader)
    void prepare(LeafSlot& l, bool writing)
    {
        switch (l.kind) {
        case 'P': {
            const uint64_t v = writing ? l.v : 0;
            l.i8 = (int8_t)v; l.i16 = (int16_t)v; l.i32 = (int32_t)v; l.i64 = (int64_t)v;
            l.u8 = (uint8_t)v; l.u16 = (uint16_t)v; l.u32 = (uint32_t)v; l.u64 = v;
            l.ch = (char)v; l.sz = (size_t)v;
            { uint32_t w = (uint32_t)v; std::memcpy(&l.fl, &w, 4); }
            std::memcpy(&l.db, &v, 8);
            l.bo = (v & 1) != 0;
            break;
        }
        case 'R':
            l.raw.reserve(l.bytes.size() + 1);      // data() is never null
            l.raw.assign(l.bytes.size(), 0);
            if (writing && !l.bytes.empty()) std::memcpy(l.raw.data(), l.bytes.data(), l.bytes.size());
            break;
        case 'S':
            // length-aware: the bytes may contain NUL anywhere (str(text, len) stops at a leading NUL)
            l.s.reset(new str());
            if (writing && !l.bytes.empty()) l.s->assign(l.bytes.data(), l.bytes.size());
            break;
        case 'V':
            if (!writing) vars[l.vid]->GetData().long64Value = (int64_t)0x5A5A5A5A5A5A5A5AULL;   // "never assigned" mark (type None)
            if (writing) {
                VNode n; size_t i = 0;
                ScriptVariable* var = vars[l.vid];
                if (parseNode(l.vtoks, i, n) && !built.count(l.vid)) { built[l.vid] = true; buildInto(*var, n); }
                if (l.vkey != "*") var->SetKey(constOf(l.vkey == "-" ? std::string("~") : l.vkey));
            }
            break;
        case 'Q':
            l.ptr = (writing && l.target >= 0) ? objs[l.target] : nullptr;
            l.sp.reset(new SafePtr<Class>());
            if (writing && l.target >= 0) *l.sp = objs[l.target];
            break;
        default: break;
        }
    }

    void prepareAll(bool writing)
    {
        for (ItemSlot& it : items) {
            if (it.isObj) for (LeafSlot& l : it.body) prepare(l, writing);
            else prepare(it.leaf, writing);
        }
    }

    void perform(Archiver& arc)
    {
        for (ItemSlot& it : items) {
            if (it.isObj && it.viaRead && reading) {
                // the second way of loading: the Archiver creates the instance; on failure the host owns nothing
                g_pendingBody = &it.body;
                Class* o = nullptr;
                if (it.untyped) o = arc.ReadObject();            // the class comes from the name in the archive; the host owns the result
                else switch (cls[it.id]) {
                case 0: o = arc.ReadObject<VObjA>(); break;
                case 1: o = arc.ReadObject<VObjB>(); break;
                case 2: o = arc.ReadObject<VLis>(); break;
                default: o = arc.ReadObject<VObj>(); break;
                }
                g_pendingBody = nullptr;
                if (objs[it.id]) extras.push_back(objs[it.id]);       // (the same identity loaded twice: both instances stay alive)
                objs[it.id] = o;
                setCur(o, cls[it.id], nullptr);
            } else if (it.isObj) {
                Class* o = objs[it.id];
                setCur(o, cls[it.id], &it.body);
                arc.ArchiveObject(*o);
                setCur(o, cls[it.id], nullptr);
            } else {
                std::vector<LeafSlot> one;   // not used: single leaves are archived in place
                doLeaf(arc, it.leaf);
            }
        }
    }

    void doLeaf(Archiver& arc, LeafSlot& l);

    long idOf(const void* p) const
    {
        for (auto& kv : objs) if ((const void*)kv.second == p) return kv.first;
        return -2;
    }

    std::string showLeaf(const LeafSlot& l) const
    {
        if (l.byListener) {
            if (l.kind != 'V' || l.vtoks.empty()) return l.text;
            std::string t = l.vtoks[0];                       // a scalar variable: "<vid>:<value>" is printed as "<vid>=<value>"
            const size_t c = t.find(':');
            if (c != std::string::npos) t[c] = '=';
            return "V " + l.vkey + " " + t;
        }
        switch (l.kind) {
        case 'P': {
            uint64_t v = 0;
            const std::string& k = l.pk;
            if (k == "i8") v = (uint8_t)l.i8; else if (k == "i16") v = (uint16_t)l.i16;
            else if (k == "i32") v = (uint32_t)l.i32; else if (k == "i64") v = (uint64_t)l.i64;
            else if (k == "u8" || k == "by") v = l.u8; else if (k == "u16") v = l.u16;
            else if (k == "u32" || k == "po") v = l.u32; else if (k == "u64") v = l.u64;
            else if (k == "ch") v = (unsigned char)l.ch; else if (k == "sz") v = l.sz;
            else if (k == "fl") { uint32_t w; std::memcpy(&w, &l.fl, 4); v = w; }
            else if (k == "db") { std::memcpy(&v, &l.db, 8); }
            else if (k == "bo") { unsigned char c; std::memcpy(&c, &l.bo, 1); v = c; }
            return "P " + k + " " + hexNum(v);
        }
        case 'R': return "R " + hexOf(std::string(l.raw.begin(), l.raw.end()));
        case 'S': return "S " + hexOf(std::string(l.s->c_str(), l.s->length()));
        case 'Q': {
            const void* p = l.safe ? (const void*)(l.extSp ? l.extSp->Pointer() : l.sp->Pointer()) : (const void*)(l.extPtr ? *l.extPtr : l.ptr);
            std::string t = "n";
            if (p) { long id = idOf(p); t = id >= 0 ? std::to_string(id) : std::string("x"); }
            return std::string("Q ") + (l.safe ? "s " : "p ") + t;
        }
        case 'V': {
            ScriptVariable* var = const_cast<World*>(this)->vars[l.vid];
            std::string key = "*";
            if (l.vkey != "*") {
                const const_str cs = var->GetKey();
                if (cs == const_str(0)) key = "~";
                else { const str& s = dict().Get(cs); key = hexOfS(std::string(s.c_str(), s.length())); }
            }
            return "V " + key + " " + std::to_string(l.vid) + "=" + const_cast<World*>(this)->valueText(*var);
        }
        default: return "O " + std::to_string(l.target);
        }
    }

    std::string showItem(const ItemSlot& it) const
    {
        if (!it.isObj) return showLeaf(it.leaf);
        std::string out = std::string(it.untyped ? "U " : it.viaRead ? "N " : "B ") + std::to_string(it.cls) + " " + std::to_string(it.id) + " [";
        for (size_t i = 0; i < it.body.size(); ++i) {
            out += i ? " ; " : " ";
            out += (i == 0 && !it.lisError.empty()) ? "!listener " + it.lisError : showLeaf(it.body[i]);
        }
        return out + " ]";
    }

    // ---- the lists of a listener (Listener::Register, the variable list)
    static std::vector<long> idList(const std::string& s)
    {
        std::vector<long> out;
        if (s.empty() || s == "-") return out;
        for (const std::string& x : splitOn(s, ',')) out.push_back(std::stol(x));
        return out;
    }

    LeafSlot* prefixVar(ItemSlot& it)
    {
        for (LeafSlot& l : it.body) if (l.byListener && l.kind == 'V') return &l;
        return nullptr;
    }

    void buildListeners()
    {
        std::map<std::pair<long, long>, bool> done;      // (source, target) registered
        for (ItemSlot& it : items) if (it.isObj && !it.lisSpec.empty() && !applied.count(it.id))
            for (const std::string& sp : it.lisSpec) {
                std::vector<std::string> f = splitOn(sp, ':');
                if (f[0] == "n" && f.size() >= 3) for (long other : idList(f[2])) done[{ it.id, other }] = true;
            }
        std::vector<ItemSlot*> late;
        for (ItemSlot& it : items) if (it.isObj && !it.lisSpec.empty() && !applied.count(it.id)) late.push_back(&it);
        buildListeners1();
        // a "w:" entry whose source listener does not say so itself (a case cut down by the shrinker): register it now
        for (ItemSlot* it : late)
            for (const std::string& sp : it->lisSpec) {
                std::vector<std::string> f = splitOn(sp, ':');
                if (f[0] != "w" || f.size() < 3) continue;
                for (long src : idList(f[2])) if (!done.count({ src, it->id }) && objs.count(src) && objs[src]) {
                    done[{ src, it->id }] = true;
                    static_cast<Listener*>(objs[src])->Register(constOf(f[1]), static_cast<Listener*>(objs[it->id]));
                }
            }
    }

    void buildListeners1()
    {
        for (ItemSlot& it : items) {
            if (!it.isObj || it.lisSpec.empty() || applied.count(it.id)) continue;
            applied[it.id] = true;
            Listener* me = static_cast<Listener*>(objs[it.id]);
            for (const std::string& sp : it.lisSpec) {
                std::vector<std::string> f = splitOn(sp, ':');
                if (f[0] == "n" && f.size() >= 3)
                    for (long other : idList(f[2])) me->Register(constOf(f[1]), static_cast<Listener*>(objs[other]));
                if (f[0] == "v" && f.size() >= 2) {
                    LeafSlot* l = prefixVar(it);
                    if (!l) continue;
                    VNode n; size_t i = 0;
                    ScriptVariable val;
                    if (parseNode(l->vtoks, i, n)) buildInto(val, n);
                    me->Vars()->SetVariable(constOf(f[1]), val);
                }
            }
        }
    }

    void verifyListeners()
    {
        for (ItemSlot& it : items) {
            if (!it.isObj || it.lisSpec.empty() || !objs[it.id]) continue;
            Listener* me = static_cast<Listener*>(objs[it.id]);
            std::string err;
            for (const std::string& sp : it.lisSpec) {
                std::vector<std::string> f = splitOn(sp, ':');
                if (f[0] == "n" && f.size() >= 3) {
                    const size_t want = idList(f[2]).size();
                    if (me->RegisterSize(constOf(f[1])) != want) err += " RegisterSize(" + f[1] + ")=" + std::to_string(me->RegisterSize(constOf(f[1]))) + " expected " + std::to_string(want);
                }
                if (f[0] == "w" && f.size() >= 3) {
                    const size_t want = idList(f[2]).size();
                    if (me->WaitingSize(constOf(f[1])) != want) err += " WaitingSize(" + f[1] + ")=" + std::to_string(me->WaitingSize(constOf(f[1]))) + " expected " + std::to_string(want);
                }
                if (f[0] == "v" && f.size() >= 2) {
                    LeafSlot* l = prefixVar(it);
                    ScriptVariable* got = me->Vars() ? me->Vars()->GetVariable(constOf(f[1])) : nullptr;
                    VNode n; size_t i = 0;
                    ScriptVariable want;
                    if (l && parseNode(l->vtoks, i, n)) buildInto(want, n);
                    if (!got) err += " variable " + f[1] + " is missing";
                    else if (valueText(*got) != valueText(want)) err += " variable " + f[1] + "=" + valueText(*got) + " expected " + valueText(want);
                }
            }
            it.lisError = err;
        }
        // Unregister(name, other) must empty both sides
        for (ItemSlot& it : items) {
            if (!it.isObj || it.lisSpec.empty() || !objs[it.id] || !it.lisError.empty()) continue;
            Listener* me = static_cast<Listener*>(objs[it.id]);
            for (const std::string& sp : it.lisSpec) {
                std::vector<std::string> f = splitOn(sp, ':');
                if (f[0] != "n" || f.size() < 3) continue;
                for (long other : idList(f[2])) if (objs[other]) me->Unregister(constOf(f[1]), static_cast<Listener*>(objs[other]));
            }
        }
        for (ItemSlot& it : items) {          // ... when every registration of the case has been taken back
            if (!it.isObj || it.lisSpec.empty() || !objs[it.id] || !it.lisError.empty()) continue;
            Listener* me = static_cast<Listener*>(objs[it.id]);
            for (const std::string& sp : it.lisSpec) {
                std::vector<std::string> f = splitOn(sp, ':');
                if ((f[0] != "n" && f[0] != "w") || f.size() < 3) continue;
                if (me->RegisterSize(constOf(f[1])) != 0) it.lisError += " after Unregister: RegisterSize(" + f[1] + ")=" + std::to_string(me->RegisterSize(constOf(f[1])));
                if (me->WaitingSize(constOf(f[1])) != 0) it.lisError += " after Unregister: WaitingSize(" + f[1] + ")=" + std::to_string(me->WaitingSize(constOf(f[1])));
            }
        }
    }

    // ---- using the arrays after the round trip: find every key, grow (forces two rehashes), find again, empty
    void collectArrays(ScriptVariable& v, std::vector<ScriptArrayHolder*>& out, std::map<const void*, bool>& seen, int depth)
    {
        if (depth > 64) return;
        if (v.GetType() == variableType_e::Array) {
            ScriptArrayHolder* h = v.GetData().arrayValue;
            if (!h || seen.count(h)) return;
            seen[h] = true;
            out.push_back(h);
            std::vector<std::pair<std::string, ScriptVariable*>> es;
            con::map_enum<ScriptVariable, ScriptVariable> en(h->arrayValue);
            for (const ScriptVariable* k = en.NextKey(); k; k = en.NextKey())
                es.push_back({ valueText(*const_cast<ScriptVariable*>(k)), const_cast<ScriptVariable*>(en.CurrentValue()) });
            std::sort(es.begin(), es.end(), [](const std::pair<std::string, ScriptVariable*>& a, const std::pair<std::string, ScriptVariable*>& b) { return a.first < b.first; });
            for (auto& e : es) collectArrays(*e.second, out, seen, depth + 1);
        } else if (v.GetType() == variableType_e::ConstArray) {
            ScriptConstArrayHolder* h = v.GetData().constArrayValue;
            if (!h || seen.count(h)) return;
            seen[h] = true;
            if (h->constArrayValue) for (size_t i = 1; i <= h->size; ++i) collectArrays(h->constArrayValue[i], out, seen, depth + 1);
        }
    }

    std::string exercise()
    {
        std::vector<ScriptArrayHolder*> arrs;
        std::map<const void*, bool> seen;
        for (ItemSlot& it : items) {
            if (it.isObj) { for (LeafSlot& l : it.body) if (l.kind == 'V') collectArrays(*vars[l.vid], arrs, seen, 0); }
            else if (it.leaf.kind == 'V') collectArrays(*vars[it.leaf.vid], arrs, seen, 0);
        }
        if (arrs.empty()) return "-";
        std::map<const void*, bool> prot;
        for (auto& kv : registry) protect(*kv.second, prot, 0);
        for (auto& kv : vars) protect(*kv.second, prot, 0);
        std::string out;
        int no = 0;
        for (ScriptArrayHolder* h : arrs) {
            std::vector<std::unique_ptr<ScriptVariable>> keys;
            size_t found = 0;
            {
                con::map_enum<ScriptVariable, ScriptVariable> en(h->arrayValue);
                for (const ScriptVariable* k = en.NextKey(); k; k = en.NextKey()) {
                    keys.emplace_back(new ScriptVariable(*k));
                    if (h->arrayValue.find(*k) == en.CurrentValue()) ++found;
                }
            }
            const size_t s0 = h->arrayValue.size();
            for (int j = 0; j < 40; ++j) {                         // 1 -> 7 -> 17 -> 37 -> 79 buckets on the way
                std::unique_ptr<ScriptVariable> k(new ScriptVariable()), v(new ScriptVariable());
                k->setLongValue(0x7E57AB0000ULL + (uint64_t)(977 * j)); v->setIntValue((uint32_t)j);
                h->arrayValue[*k] = *v;
                keys.push_back(std::move(k));
            }
            const size_t s1 = h->arrayValue.size();
            size_t found1 = 0;
            for (auto& k : keys) if (h->arrayValue.find(*k)) ++found1;
            std::vector<std::string> names;
            {
                con::map_enum<ScriptVariable, ScriptVariable> en(h->arrayValue);
                for (const ScriptVariable* k = en.NextKey(); k; k = en.NextKey()) names.push_back(valueText(*const_cast<ScriptVariable*>(k)));
            }
            std::sort(names.begin(), names.end());
            size_t hsh = 1469598103u;
            for (const std::string& nm : names) for (unsigned char c : nm) hsh = (hsh ^ c) * 16777619u;
            size_t removed = 0;
            for (auto& k : keys) if (h->arrayValue.remove(*k)) ++removed;
            size_t left = 0;
            {
                con::map_enum<ScriptVariable, ScriptVariable> en(h->arrayValue);
                for (const ScriptVariable* k = en.NextKey(); k; k = en.NextKey()) ++left;
            }
            char buf[200];
            std::snprintf(buf, sizeof buf, "[%d:%zu/%zu,%zu/%zu/%zu#%zx,-%zu=%zu/%zu]", ++no, found, s0, found1, s1, names.size(), hsh & 0xffffff,
                          removed, h->arrayValue.size(), left);
            out += buf;
        }
        // everything is empty now: no cycles are left, the holders get their real reference counts back and are destroyed with the world
        for (auto& kv : prot) {
            bool isArr = false;
            for (ScriptArrayHolder* h : arrs) if ((const void*)h == kv.first) isArr = true;
            if (isArr) ((ScriptArrayHolder*)kv.first)->refCount -= 1u << 20;
            else ((ScriptConstArrayHolder*)kv.first)->refCount -= 1u << 20;
        }
        unprotected = true;
        return out;
    }

    // An array that (directly or indirectly) contains itself is a reference cycle; the library
    // recurses without end when such a holder is freed (ClearInternal deletes the holder again
    // from inside its own destructor).  That is not what this harness is about: before tearing a
    // world down every reachable holder gets a reference count that never reaches zero.
    void protect(ScriptVariable& v, std::map<const void*, bool>& seen, int depth)
    {
        if (depth > 64) return;
        if (v.GetType() == variableType_e::Array) {
            ScriptArrayHolder* h = v.GetData().arrayValue;
            if (!h || seen.count(h)) return;
            seen[h] = true;
            h->refCount += 1u << 20;
            con::map_enum<ScriptVariable, ScriptVariable> en(h->arrayValue);
            for (const ScriptVariable* k = en.NextKey(); k; k = en.NextKey())
                protect(*const_cast<ScriptVariable*>(en.CurrentValue()), seen, depth + 1);
        } else if (v.GetType() == variableType_e::ConstArray) {
            ScriptConstArrayHolder* h = v.GetData().constArrayValue;
            if (!h || seen.count(h)) return;
            seen[h] = true;
            h->refCount += 1u << 20;
            if (h->constArrayValue) for (size_t i = 1; i <= h->size; ++i) protect(h->constArrayValue[i], seen, depth + 1);
        }
    }

    ~World()
    {
        std::map<const void*, bool> seen;
        if (!unprotected) {
            for (auto& kv : registry) protect(*kv.second, seen, 0);
            for (auto& kv : vars) protect(*kv.second, seen, 0);
        }
        for (auto& kv : registry) delete kv.second;
        for (auto& kv : vars) delete kv.second;      // script variables (and their weak pointers) first
        items.clear();                       // the weak pointers go first
        for (auto& kv : objs) if (kv.second) delete kv.second;
        for (Class* o : extras) delete o;
        for (auto& kv : conlists) delete kv.second;
    }
};

static World* g_world = nullptr;

void World::doLeaf(Archiver& arc, LeafSlot& l)
{
    switch (l.kind) {
    case 'P': {
        const std::string& k = l.pk;
        if (k == "i8") arc.ArchiveInt8(l.i8); else if (k == "i16") arc.ArchiveInt16(l.i16);
        else if (k == "i32") arc.ArchiveInt32(l.i32); else if (k == "i64") arc.ArchiveInt64(l.i64);
        else if (k == "u8") arc.ArchiveUInt8(l.u8); else if (k == "u16") arc.ArchiveUInt16(l.u16);
        else if (k == "u32") arc.ArchiveUInt32(l.u32); else if (k == "u64") arc.ArchiveUInt64(l.u64);
        else if (k == "ch") arc.ArchiveChar(l.ch); else if (k == "sz") arc.ArchiveSize(l.sz);
        else if (k == "by") arc.ArchiveByte(l.u8); else if (k == "fl") arc.ArchiveFloat(l.fl);
        else if (k == "db") arc.ArchiveDouble(l.db); else if (k == "bo") arc.ArchiveBoolean(l.bo);
        else if (k == "po") arc.ArchivePosition(l.u32);
        break;
    }
    case 'R': arc.ArchiveRaw(l.raw.data(), l.raw.size()); break;
    case 'S': mfuse::Archive(arc, *l.s); break;
    case 'Q':
        if (l.safe) arc.ArchiveSafePointer(l.extSp ? *l.extSp : *l.sp);
        else arc.ArchiveObjectPointer(l.extPtr ? *l.extPtr : l.ptr);
        break;
    case 'O': arc.ArchiveObjectPosition(addrOf(l.target)); break;
    case 'V':
        curV = &l;
        if (l.vkey == "*") vars[l.vid]->ArchiveInternal(arc);
        else vars[l.vid]->Archive(arc);
        curV = nullptr;
        break;
    default: break;
    }
}

std::string World::unhexS(const std::string& h) { return unhex(h); }
std::string World::hexOfS(const std::string& b) { return hexOf(b); }
std::string World::hexNumS(uint64_t v) { return hexNum(v); }

static void bindMembers(std::vector<LeafSlot>* leaves, Class** mptr, SafePtr<Class>* msp, size_t n)
{
    if (!leaves) return;
    size_t k = 0;
    for (LeafSlot& l : *leaves) {
        if (l.kind != 'Q' || l.byListener) continue;
        if (k < n) {
            l.extPtr = &mptr[k]; l.extSp = &msp[k];
            if (l.ptr) mptr[k] = l.ptr;                              // (writer: the values to be written)
            if (l.sp && l.sp->Pointer()) msp[k] = l.sp->Pointer();
        }
        ++k;
    }
}

static void archiveLeaves(Archiver& arc, std::vector<LeafSlot>* leaves)
{
    if (!leaves || !g_world) return;
    for (LeafSlot& l : *leaves) if (!l.byListener) g_world->doLeaf(arc, l);
}

static std::string msgOf(const char* w)
{
    if (!w) return " |msg=NULL";
    const std::string t(w);          // (reads the text to its end)
    return " |msg=" + (t.empty() ? std::string("-") : hexOf(t));
}

// an Archiver call sequence under the catch ladder; returns "ok" | "err <Kind> .." | "exc .."
template<typename F>
static std::string guarded(F&& f)
{
    try {
        f();
        return "ok";
    }
    // the REPORT of the error is part of the property: what() is called on every archive error (ASan watches it) and
    // its text is handed to the check as "|msg=<hex>" (props/C11.py compares it with the message the source promises)
    catch (ArchiveErrors::InvalidArchiveHeader& e) { return "err InvalidArchiveHeader" + msgOf(e.what()); }
    catch (ArchiveErrors::WrongVersion& e) { return "err WrongVersion" + msgOf(e.what()); }
    catch (ArchiveErrors::ReadStreamFail& e) { return "err ReadStreamFail" + msgOf(e.what()); }
    catch (ArchiveErrors::TypeError& e) { return "err TypeError " + hexNum(e.GetExpectedType()) + " " + hexNum(e.GetType()) + msgOf(e.what()); }
    catch (ArchiveErrors::InvalidClass& e) { return "err InvalidClass" + msgOf(e.what()); }
    catch (ArchiveErrors::ObjectClassError& e) { return "err ObjectClassError" + msgOf(e.what()); }
    catch (ArchiveErrors::ReadPastEndObject& e) { return "err ReadPastEndObject" + msgOf(e.what()); }
    catch (ArchiveErrors::NotReadEntireDataObject& e) { return "err NotReadEntireDataObject" + msgOf(e.what()); }
    catch (ArchiveErrors::MissingReadStream& e) { return "err MissingReadStream" + msgOf(e.what()); }
    catch (ArchiveErrors::MissingWriteStream& e) { return "err MissingWriteStream" + msgOf(e.what()); }
    catch (ArchiveErrors::WriteStreamFail& e) { return "err WriteStreamFail" + msgOf(e.what()); }
    catch (ArchiveErrors::ObjectInstanceFailed& e) { return "err ObjectInstanceFailed" + msgOf(e.what()); }
    catch (ArchiveErrors::Base&) { return "err Base"; }
    catch (std::bad_alloc&) { return "exc bad_alloc"; }
    catch (std::exception& e) { return std::string("exc std::exception"); }
    catch (...) { return "exc unknown"; }
}

static version_info_t makeInfo(const CaseSpec& cs)
{
    version_info_t info;
    info.header = cs.magic.c_str();
    info.archiveName = cs.name.c_str();
    info.version = cs.version;
    return info;
}

// writes the items; bytesOut = what reached the stream
std::string c10_write_x(const CaseSpec& cs, std::string& bytesOut, std::string* exerciseOut);
std::string c10_write(const CaseSpec& cs, std::string& bytesOut) { return c10_write_x(cs, bytesOut, nullptr); }

std::string c10_write_x(const CaseSpec& cs, std::string& bytesOut, std::string* exerciseOut)
{
    World w;
    if (!w.build(cs)) return "exc bad-case";
    w.prepareAll(true);
    w.buildListeners();
    g_world = &w;
    std::vector<char> buf(1 << 20);
    size_t n = 0;
    const version_info_t info = makeInfo(cs);
    std::string r = guarded([&]() {
        omemstream os(buf.data(), buf.size());
        {
            Archiver arc = Archiver::CreateWrite(os, info);
            w.perform(arc);
        }
        n = (size_t)os.tellp();
    });
    g_world = nullptr;
    bytesOut.assign(buf.data(), n);
    if (r == "ok" && exerciseOut) *exerciseOut = w.exercise();          // the ORIGINAL arrays, after they were archived
    return r;
}

// reads bytes with the calls of the item sequence; lines = the items as read back.
// When the read fails and script variables with holders are involved, what the host must do next -
// destroy the variables it was loading - is tried in a forked child: if that crashes, the outcome
// gets the suffix " !destroy" (and the parent keeps the objects alive).
std::string c10_read_x(const CaseSpec& cs, const std::string& bytes, std::vector<std::string>& lines, std::string* exerciseOut);
std::string c10_read(const CaseSpec& cs, const std::string& bytes, std::vector<std::string>& lines) { return c10_read_x(cs, bytes, lines, nullptr); }

std::string c10_read_x(const CaseSpec& cs, const std::string& bytes, std::vector<std::string>& lines, std::string* exerciseOut)
{
    World* w = new World();
    if (!w->build(cs, true)) { delete w; return "exc bad-case"; }
    w->prepareAll(false);
    g_world = w;
    const version_info_t info = makeInfo(cs);
    std::string r = guarded([&]() {
        imemstream is(bytes.data(), bytes.size());
        Archiver arc = Archiver::CreateRead(is, info);
        w->perform(arc);
    });
    g_world = nullptr;
    lines.clear();
    if (r == "ok") { w->verifyListeners(); for (const ItemSlot& it : w->items) lines.push_back(w->showItem(it)); }
    if (r == "ok" && exerciseOut) *exerciseOut = w->exercise();          // the LOADED arrays
    if (r != "ok" && w->hasHolders) {
        if (w->hasCycle) return r;                 // a cycle of arrays cannot be destroyed anyway (see World::protect): keep it
        // only the variable whose Archive() was interrupted can be in a half-loaded state
        bool risky = false;
        if (w->curV) for (const std::string& t : w->curV->vtoks) {
            const size_t c = t.find(':');
            if (c != std::string::npos && c + 1 < t.size() && std::strchr("AKPh", t[c + 1])) risky = true;
        }
        if (!risky) { delete w; return r; }
        ScriptVariable* top = w->vars[w->curV->vid];
        const variableType_e ty = top->GetType();
        if ((ty == variableType_e::Array || ty == variableType_e::ConstArray || ty == variableType_e::Pointer) &&
            (uint64_t)top->GetData().long64Value == 0x5A5A5A5A5A5A5A5AULL)
            return r + " !destroy";                // type set, holder pointer never assigned: ~ScriptVariable dereferences it
        // the interrupted variable is further inside (an array that was being filled): try the destruction in a child,
        // for small archives only (a fork of a sanitized process is slow); otherwise the objects are just kept
        if (bytes.size() > 600) return r;
        static unsigned long probes = 0;           // the first 300 such failures of a run and every 16th after them
        if (++probes > 300 && probes % 16 != 0) return r;
        std::fflush(stdout); std::fflush(stderr);
        const pid_t pid = fork();
        if (pid == 0) {
            alarm(20);
            w->unprotected = true;
            delete w;
            _exit(0);
        }
        int status = 0;
        if (pid > 0) waitpid(pid, &status, 0);
        if (pid < 0 || !(WIFEXITED(status) && WEXITSTATUS(status) == 0)) r += " !destroy";
        return r;                                  // the parent never destroys these objects
    }
    delete w;
    return r;
}

void c10_setup()
{
    GlobalOutput::Get().SetOutputStream(outputLevel_e::Debug, &std::cerr);
    GlobalOutput::Get().SetOutputStream(outputLevel_e::Warn, &std::cerr);
    GlobalOutput::Get().SetOutputStream(outputLevel_e::Error, &std::cerr);
    EventSystem::Get();
    static ScriptContext ctx;
    ctx.EventContext::Set(&ctx);
}

bool c10_parse_header(const std::string& line, std::string& id, CaseSpec& cs)
{
    std::istringstream is(line.substr(5));
    std::string m, v, nm;
    is >> id >> m >> v >> nm;
    cs = CaseSpec();
    cs.magic = unhex(m.empty() ? "4d465553" : m);
    cs.version = v.empty() ? 1u : (unsigned)std::stoul(v);
    cs.name = unhex(nm.empty() ? "-" : nm);
    return true;
}

std::string c10_hex(const std::string& b) { return hexOf(b); }

static void runCase(const std::string& id, const CaseSpec& cs)
{
    std::printf("case %s\n", id.c_str());
    std::fflush(stdout);
    verif_case_watchdog(cs.items.size());
    std::string bytes;
    std::string exOrig, exLoaded;
    std::string wr = c10_write_x(cs, bytes, &exOrig);       // (the original arrays are exercised and destroyed in here)
    if (wr != "ok") {
        std::printf("b ! %s\n", wr.c_str());
    } else {
        std::printf("b %s\n", hexOf(bytes).c_str());
        std::fflush(stdout);
        std::vector<std::string> lines;
        std::string rr = c10_read_x(cs, bytes, lines, &exLoaded);   // read, print, exercise, destroy
        if (rr == "ok") for (const std::string& l : lines) std::printf("m %s\n", l.c_str());
        else for (size_t i = 0; i < (cs.items.empty() ? 1 : cs.items.size()); ++i) std::printf("m ! %s\n", rr.c_str());
        // e: every loaded array was searched, grown by 40 keys, searched again, emptied and destroyed - as the original was
        if (rr == "ok") {
            if (exOrig == exLoaded) std::printf("e ok %s\n", exLoaded.c_str());
            else std::printf("e DIFF original=%s loaded=%s\n", exOrig.c_str(), exLoaded.c_str());
        }
    }
    verif_watchdog_off();
    std::printf("end\n");
    std::fflush(stdout);
}

__attribute__((weak)) int main()
{
    c10_setup();
    std::string line, id;
    CaseSpec cs;
    bool in = false;
    auto flush = [&]() { if (in) runCase(id, cs); in = false; };
    while (std::getline(std::cin, line)) {
        if (line.rfind("case ", 0) == 0) { flush(); c10_parse_header(line, id, cs); in = true; }
        else if (line == "end") flush();
        else if (!line.empty()) cs.items.push_back(line);
    }
    flush();
    std::fflush(stdout);
    _exit(0);      // not exit(): the static BlockAlloc of con::set frees its blocks through a memory manager that is already gone
}
