// C06 harness: timed waits on the real engine under the injected clock.
//   ops:  S <tid> <instr>*   start a thread (host ExecuteThread) running the program
//                            instr: p<m> (println marker m) | w<ms> (wait ms milliseconds)
//         T <dt>             advance the clock
//         X                  ScriptContext::Execute()
//   out:  m <marker@thread,...|-> idle=<0|1> waiting=<0|1>
#include "engine.h"
#include <cstdio>
using namespace mfuse;

static std::string program(int tid, std::istringstream& is)
{
    std::string src = "main:\n", w;
    char buf[64];
    while (is >> w) {
        if (w[0] == 'p') { src += "println \"" + std::to_string(tid) + ":" + w.substr(1) + "\"\n"; }
        else if (w[0] == 'w') { std::snprintf(buf, sizeof buf, "wait %.3f\n", std::stoi(w.substr(1)) / 1000.0); src += buf; }
    }
    src += "end\n";
    return src;
}

static void observe(vh::Engine& e)
{
    std::string d;
    for (const std::string& l : e.takeOutput()) { if (!d.empty()) d += ","; d += l; }
    if (d.empty()) d = "-";
    std::printf("m %s idle=%d waiting=%d\n", d.c_str(), e.ctx->IsIdle() ? 1 : 0,
                e.director().GetTimerList().HasAnyElement() ? 1 : 0);
}

int main()
{
    vh::globalStreamsToStderr();
    return vh::caseLoop([](const std::string& id, const std::string&, const std::vector<std::string>& ops) {
        vh::Engine e;
        int nextTid = 0;      // threads are numbered in start order (the tid in the op is informational)
        std::printf("case %s\n", id.c_str());
        std::fflush(stdout);
        verif_case_watchdog(ops.size());
        for (const std::string& line : ops) {
            std::istringstream is(line);
            std::string c;
            is >> c;
            if (c == "S") {
                int tid; is >> tid;
                tid = nextTid++;
                const std::string src = program(tid, is);
                const ProgramScript* scr = e.compile("t" + std::to_string(tid), src);
                if (scr) e.director().ExecuteThread(scr);
            } else if (c == "T") { long long dt; is >> dt; vh::g_clock += dt; }
            else if (c == "X") e.ctx->Execute();
            observe(e);
            std::fflush(stdout);
        }
        e.director().Reset();
        verif_watchdog_off();
        std::printf("end\n");
        std::fflush(stdout);
    });
}
