// C04 harness: script errors are contained.
//
//  mode 1 (default, cases on stdin):   case <id> warn=<0|1> dbg=<0|1>
//     one abstract statement per line (token grammar below, the same text is parsed by
//     ocaml/C04_driver.ml); the harness writes a script in which every statement is
//     preceded by the set-up of the representative values it uses and bracketed by
//     println markers, starts an unrelated second thread, runs the script with
//     ScriptMaster::ExecuteThread, runs frames, then compiles and runs a sentinel script in
//     the same engine.  Printed per statement:
//        m <k> done|cut|skip  w=<class,...|->  n=<printed lines>  fr=<frame of the end marker>
//     and one line
//        e x=<program reached its end> nc=<raw statements that do not compile, replaced> fail=<`@! ..` lines of self-checking scenarios>
//          stray=<warnings outside statements> vmend=<VMs that ended by themselves>/<max stack index at such an end> killed=<VMs destroyed mid-statement>
//          stepbad=<instructions executed with stack index >= declared size> other=<markers of the 2nd thread>
//          sentinel=<ok|...> host=<ok|exception class leaving the host's calls>
//  mode 2 (argument `optable [flags]`): applies every operator / cast / index of
//     ScriptVariable to every (pair of) representative value(s) through the C++ interface
//     and prints result kind (+ which representative the result equals) or exception class.
//
//  statement grammar (blank separated tokens):
//     P e | A e | IF e | WI rep e e | WF e e | INC rep | DEC rep | M e cmd [e] | C cmd [e] | R raw-text
//     e ::= rep | ( b op e e ) | ( l and|or e e ) | ( u op e ) | ( x e e ) | ( f e ) | ( v e e e )
//         | ( a e e+ ) | ( c fn e )
#include <algorithm>
#include <cstdint>
#include <cstdio>
#include <cstring>
#include <functional>
#include <iostream>
#include <map>
#include <memory>
#include <set>
#include <sstream>
#include <streambuf>
#include <string>
#include <vector>
#define private public
#define protected public
#include "engine.h"
#include <morfuse/Script/ScriptVariable.h>
#include <morfuse/Script/ScriptVM.h>
#include <morfuse/Script/ScriptException.h>
#include <morfuse/Script/TargetList.h>
#include <morfuse/Script/Level.h>
#include <morfuse/Script/Game.h>
#include <morfuse/Script/SimpleEntity.h>
#include <morfuse/Script/StateScript.h>
#include <morfuse/Script/ScriptOpcodes.h>
#undef private
#undef protected
using namespace mfuse;
// while label parameters are loaded (OP_MARK_STACK_POS .. OP_RESTORE_STACK_POS) the top pointer
// points into the parameter list, not into the operand stack: the index is meaningless there
static size_t g_stepBad_;

// ------------------------------------------------------------------ a host class whose handlers throw
// (`spawn C04Probe`): the interpreter's catch blocks must also cope with an exception raised
// INSIDE a getter, setter, statement command or value command of a host-defined class.
static EventDef EV_C04_BadGet("c04bad", 0, nullptr, nullptr, "C04 harness: getter that throws", evType_e::Getter);
static EventDef EV_C04_BadSet("c04bad", 0, "i", "v", "C04 harness: setter that throws", evType_e::Setter);
static EventDef EV_C04_WriteOnly("c04wo", 0, "i", "v", "C04 harness: setter without getter", evType_e::Setter);
static EventDef EV_C04_ReadOnly("c04ro", 0, nullptr, nullptr, "C04 harness: getter without setter", evType_e::Getter);
static EventDef EV_C04_Throw("c04throw", 0, "IIIIIII", "a b c d e f g", "C04 harness: statement command that throws", evType_e::Normal);
static EventDef EV_C04_ThrowRet("c04throw", 0, "IIIIIII", "a b c d e f g", "C04 harness: value command that throws", evType_e::Return);
static EventDef EV_C04_Args("c04args", 0, "IIIIIII", "a b c d e f g", "C04 harness: value command that reads every argument as int", evType_e::Return);
class C04Probe : public SimpleEntity
{
public:
    MFUS_CLASS_PROTOTYPE(C04Probe);
    void BadGet(Event&) { throw ScriptException("c04: getter failed"); }
    void BadSet(Event& ev) { ev.GetInteger(1); throw ScriptException("c04: setter failed"); }
    void WriteOnly(Event& ev) { ev.GetInteger(1); }
    void ReadOnly(Event& ev) { ev.AddInteger(7); }
    void Throw(Event& ev) { for (size_t i = 1; i <= ev.NumArgs(); ++i) ev.GetValue(i); throw ScriptException("c04: command failed"); }
    void ThrowRet(Event& ev) { ev.AddInteger(1); throw ScriptException("c04: value command failed"); }
    void Args(Event& ev) { int s = 0; const size_t n = ev.NumArgs(); for (size_t i = 1; i <= n; ++i) s += ev.GetInteger(i); ev.AddInteger(s); }
};
MFUS_CLASS_DECLARATION(SimpleEntity, C04Probe, nullptr)
{
    { &EV_C04_BadGet, &C04Probe::BadGet },
    { &EV_C04_BadSet, &C04Probe::BadSet },
    { &EV_C04_WriteOnly, &C04Probe::WriteOnly },
    { &EV_C04_ReadOnly, &C04Probe::ReadOnly },
    { &EV_C04_Throw, &C04Probe::Throw },
    { &EV_C04_ThrowRet, &C04Probe::ThrowRet },
    { &EV_C04_Args, &C04Probe::Args },
    { nullptr, nullptr }
};

// ------------------------------------------------------------------ tagged log
struct LogLine { char tag; std::string text; };
static std::vector<LogLine> g_log;
struct TagBuf : std::streambuf {
    char tag; std::string cur;
    explicit TagBuf(char t) : tag(t) {}
    int overflow(int c) override {
        if (c == EOF) return 0;
        if (c == '\n') { g_log.push_back({ tag, cur }); cur.clear(); }
        else cur.push_back((char)c);
        return c;
    }
    void flushLine() { if (!cur.empty()) { g_log.push_back({ tag, cur }); cur.clear(); } }
};

// ------------------------------------------------------------------ probes (hook H4)
static size_t g_vmEnds = 0, g_vmEndMax = 0, g_stepBad = 0;
static void onStep(const void*, size_t, size_t idx, size_t size);
static void onStep(const void* vm, size_t, size_t idx, size_t size) { if (!static_cast<const ScriptVM*>(vm)->m_bMarkStack && idx >= size) ++g_stepBad; }
// A thread that ends by itself (OP_DONE or the `end` command) must leave an empty operand stack.
// A thread destroyed from outside, or by deleting itself, in the middle of a statement
// legitimately dies with the operands of that statement still pending: counted apart.
static size_t g_vmKilled = 0;
static void onEnd(const void* vm, size_t idx)
{
    const ScriptVM* v = static_cast<const ScriptVM*>(vm);
    bool normal = false;
    const opval_t* pc = v->m_PrevCodePos;
    if (pc) {
        static const eventNum_t endNum = EventSystem::Get().FindNormalEventNum("end");
        const opval_t op = *pc;
        if (op == OP_DONE) normal = true;
        else if (op >= OP_EXEC_CMD0 && op <= OP_EXEC_CMD5) { op_ev_t ev; std::memcpy(&ev, pc + 1, sizeof ev); normal = ev == (op_ev_t)endNum; }
        else if (op == OP_EXEC_CMD_COUNT1) { op_ev_t ev; std::memcpy(&ev, pc + 1 + sizeof(op_parmNum_t), sizeof ev); normal = ev == (op_ev_t)endNum; }
    }
    if (!normal) { ++g_vmKilled; return; }
    ++g_vmEnds;
    if (idx > g_vmEndMax) g_vmEndMax = idx;
}

// ------------------------------------------------------------------ representative values
// '%' is replaced by the variable prefix ("local." in scripts, "level." for the table dump)
struct Rep { const char* name; const char* kind; bool perStmt; std::vector<std::string> setup; std::vector<std::string> deps; };
static const std::vector<Rep>& reps()
{
    static const std::vector<Rep> r = {
        { "nil", "none", false, { "%r_nil = NIL" }, {} },
        { "null", "listener", false, { "%r_null = NULL" }, {} },
        { "i0", "int", false, { "%r_i0 = 0" }, {} },
        { "i1", "int", false, { "%r_i1 = 1" }, {} },
        { "i2", "int", false, { "%r_i2 = 2" }, {} },
        { "i3", "int", false, { "%r_i3 = 3" }, {} },
        { "im1", "int", false, { "%r_im1 = -1" }, {} },
        { "i64", "int", false, { "%r_i64 = 64" }, {} },
        { "ibig", "int", false, { "%r_ibig = 5000000000" }, {} },
        { "imin", "int", false, { "%r_imin = 1 << 63" }, {} },
        { "f0", "float", false, { "%r_f0 = 0.0" }, {} },
        { "f1", "float", false, { "%r_f1 = 1.0" }, {} },
        { "f1h", "float", false, { "%r_f1h = 1.5" }, {} },
        { "fm2h", "float", false, { "%r_fm2h = -2.5" }, {} },
        { "se", "cstr", false, { "%r_se = \"\"" }, {} },
        { "sa", "cstr", false, { "%r_sa = \"a\"" }, {} },
        { "sabc", "cstr", false, { "%r_sabc = \"abc\"" }, {} },
        { "s12", "cstr", false, { "%r_s12 = \"12\"" }, {} },
        { "svec", "cstr", false, { "%r_svec = \"1 2 3\"" }, {} },
        { "st1", "cstr", false, { "%r_st1 = \"t1\"" }, { "lent" } },
        { "sg", "cstr", false, { "%r_sg = \"g\"" }, { "grp" } },
        { "sno", "cstr", false, { "%r_sno = \"nobody\"" }, {} },
        { "ssub", "cstr", false, { "%r_ssub = \"sub\"" }, {} },
        { "da", "str", false, { "%r_da = \"\" + \"a\"" }, {} },
        { "dabc", "str", false, { "%r_dabc = \"ab\" + \"c\"" }, {} },
        { "ch", "char", false, { "%r_ch = \"abc\"[0]" }, {} },
        { "v0", "vec", false, { "%r_v0 = ( 0 0 0 )" }, {} },
        { "v123", "vec", false, { "%r_v123 = ( 1 2 3 )" }, {} },
        { "lth", "listener", false, { "%r_lth = local" }, {} },
        { "lent", "listener", true, { "if (!%r_lent) { %r_lent = spawn SimpleEntity }", "%r_lent targetname \"t1\"" }, {} },
        { "ldead", "listener", true, { "%r_ldead = spawn SimpleEntity", "%r_ldead remove" }, {} },
        { "lpl", "listener", true, { "if (!%r_lpl) { %r_lpl = local CreateListener }" }, {} },
        { "lgame", "listener", false, { "%r_lgame = game" }, {} },
        { "llevel", "listener", false, { "%r_llevel = level" }, {} },
        { "lparm", "listener", false, { "%r_lparm = parm" }, {} },
        { "lgroup", "listener", false, { "%r_lgroup = group" }, {} },
        { "lself", "listener", false, { "%r_lself = self" }, {} },
        { "arr", "array", true, { "%r_arr = NIL", "%r_arr[1] = \"a\"", "%r_arr[\"k\"] = 2" }, {} },
        { "earr", "array", true, { "%r_earr = NIL", "%r_earr[1] = 1", "%r_earr[1] = NIL" }, {} },
        { "ca123", "carr", true, { "%r_ca123 = 1::2::3" }, {} },
        { "cal", "carr", true, { "%r_cal = local::%r_lent::%r_lpl" }, { "lent", "lpl" } },
        { "grp", "carr", true, { "if (!%r_g1) { %r_g1 = spawn SimpleEntity }", "%r_g1 targetname \"g\"",
                                  "if (!%r_g2) { %r_g2 = spawn SimpleEntity }", "%r_g2 targetname \"g\"", "%r_grp = $g" }, {} },
        { "ptr", "ptr", true, { "%r_ptr = thread waiter" }, {} },
    };
    return r;
}
static const Rep* findRep(const std::string& n)
{
    for (const Rep& r : reps()) if (n == r.name) return &r;
    return nullptr;
}
static std::string withPrefix(const std::string& s, const std::string& pfx)
{
    std::string o;
    for (char c : s) { if (c == '%') o += pfx; else o.push_back(c); }
    return o;
}
static void setupOf(const std::string& name, const std::string& pfx, bool onlyPerStmt, std::set<std::string>& done, std::string& out)
{
    if (done.count(name)) return;
    done.insert(name);
    const Rep* r = findRep(name);
    if (!r) return;
    for (const std::string& d : r->deps) setupOf(d, pfx, onlyPerStmt, done, out);
    if (onlyPerStmt && !r->perStmt) return;
    for (const std::string& l : r->setup) out += withPrefix(l, pfx) + "\n";
}

// ------------------------------------------------------------------ statements -> script text
struct Toks { std::vector<std::string> t; size_t p = 0; bool bad = false;
    std::string next() { if (p >= t.size()) { bad = true; return ""; } return t[p++]; }
    bool more() const { return p < t.size(); } };

static const char* binSym(const std::string& o)
{
    static const std::map<std::string, const char*> m = {
        { "add", "+" }, { "sub", "-" }, { "mul", "*" }, { "div", "/" }, { "mod", "%" }, { "and", "&" }, { "or", "|" },
        { "xor", "^" }, { "shl", "<<" }, { "shr", ">>" }, { "eq", "==" }, { "ne", "!=" }, { "lt", "<" }, { "gt", ">" },
        { "le", "<=" }, { "ge", ">=" } };
    auto it = m.find(o);
    return it == m.end() ? nullptr : it->second;
}
static const char* castName(const std::string& c)
{
    static const std::map<std::string, const char*> m = {
        { "int", "int" }, { "float", "float" }, { "string", "string" }, { "bool", "bool" }, { "abs", "abs" },
        { "veclen", "vector_length" }, { "typeof", "typeof" }, { "isdefined", "isdefined" }, { "isarray", "isarray" } };
    auto it = m.find(c);
    return it == m.end() ? nullptr : it->second;
}

// returns the script text of an expression (always a primary: a variable or parenthesised)
static std::string exprText(Toks& tk, std::set<std::string>& used)
{
    std::string w = tk.next();
    if (w != "(") {
        if (!findRep(w)) { tk.bad = true; return "NIL"; }
        used.insert(w);
        return "local.r_" + w;
    }
    std::string f = tk.next(), res;
    if (f == "b") {
        const char* s = binSym(tk.next());
        std::string a = exprText(tk, used), b = exprText(tk, used);
        if (!s) tk.bad = true; else res = "(" + a + " " + s + " " + b + ")";
    } else if (f == "l") {
        std::string o = tk.next();
        std::string a = exprText(tk, used), b = exprText(tk, used);
        res = "(" + a + (o == "and" ? " && " : " || ") + b + ")";
    } else if (f == "u") {
        std::string o = tk.next();
        std::string a = exprText(tk, used);
        if (o == "neg") res = "( -" + a + ")";
        else if (o == "compl") res = "(~" + a + ")";
        else if (o == "not") res = "(!" + a + ")";
        else if (o == "size") res = "(" + a + ".size)";
        else if (o == "tgt") res = "($(" + a + "))";
        else tk.bad = true;
    } else if (f == "x") {
        std::string a = exprText(tk, used), i = exprText(tk, used);
        res = "(" + a + "[" + i + "])";
    } else if (f == "f") {
        std::string a = exprText(tk, used);
        res = "(" + a + ".foo)";
    } else if (f == "v") {
        std::string a = exprText(tk, used), b = exprText(tk, used), c = exprText(tk, used);
        res = "( " + a + " " + b + " " + c + " )";
    } else if (f == "a") {
        std::string a = exprText(tk, used);
        res = "(" + a;
        int n = 1;
        while (tk.more() && tk.t[tk.p] != ")") { res += "::" + exprText(tk, used); ++n; }
        res += ")";
        if (n < 2) tk.bad = true;
    } else if (f == "c") {
        const char* c = castName(tk.next());
        std::string a = exprText(tk, used);
        if (!c) tk.bad = true; else res = std::string("(") + c + " " + a + ")";
    } else tk.bad = true;
    if (tk.next() != ")") tk.bad = true;
    return res;
}

struct StmtText { std::string pre, body; std::set<std::string> used; bool ok = true; };

static std::string unescape(const std::string& s)
{
    std::string o;
    for (size_t i = 0; i < s.size(); ++i) {
        if (s[i] == '\\' && i + 1 < s.size() && s[i + 1] == 'n') { o.push_back('\n'); ++i; }
        else o.push_back(s[i]);
    }
    return o;
}

static StmtText stmtText(const std::string& line)
{
    StmtText st;
    if (line.rfind("R ", 0) == 0) {
        // raw text; representative values are referenced as local.r_<name>
        st.body = unescape(line.substr(2));
        for (const Rep& r : reps())
            if (st.body.find(std::string("local.r_") + r.name) != std::string::npos) st.used.insert(r.name);
        if (st.body.find("$g") != std::string::npos || st.body.find("\"g\"") != std::string::npos) st.used.insert("grp");
        if (st.body.find("t1") != std::string::npos) st.used.insert("lent");
        return st;
    }
    Toks tk;
    { std::istringstream is(line); std::string w; while (is >> w) tk.t.push_back(w); }
    std::string k = tk.next();
    if (k == "P") st.body = "println " + exprText(tk, st.used);
    else if (k == "A") st.body = "local.t = " + exprText(tk, st.used);
    else if (k == "IF") st.body = "if (" + exprText(tk, st.used) + ") {\nprintln \"@t\"\n} else {\nprintln \"@f\"\n}";
    else if (k == "WI") {
        std::string b = tk.next();
        if (!findRep(b)) tk.bad = true;
        st.used.insert(b);
        st.pre = "local.t = local.r_" + b + "\n";
        std::string i = exprText(tk, st.used), v = exprText(tk, st.used);
        st.body = "local.t[" + i + "] = " + v;
    } else if (k == "WF") {
        std::string r = exprText(tk, st.used), v = exprText(tk, st.used);
        st.body = r + ".bar = " + v;
    } else if (k == "INC" || k == "DEC") {
        std::string b = tk.next();
        if (!findRep(b)) tk.bad = true;
        st.used.insert(b);
        st.pre = "local.t = local.r_" + b + "\n";
        st.body = k == "INC" ? "local.t++" : "local.t--";
    } else if (k == "M") {
        std::string r = exprText(tk, st.used), c = tk.next();
        static const std::set<std::string> cmds = { "notify", "thread", "waitthread", "delete" };
        if (!cmds.count(c)) tk.bad = true;
        st.body = r + " " + c;
        if (tk.more()) st.body += " " + exprText(tk, st.used);
    } else if (k == "C") {
        std::string c = tk.next();
        static const std::set<std::string> cmds = { "goto", "thread", "waitthread", "wait", "end" };
        static const std::map<std::string, const char*> kills = {
            { "killd", "delete" }, { "killr", "remove" }, { "killi", "immediateremove" },
            { "killdv", "delete" }, { "killrv", "remove" }, { "killiv", "immediateremove" } };
        auto kit = kills.find(c);
        if (kit != kills.end()) {
            // the running thread calls (and waits for) a thread that destroys it, `depth` calls deep
            const std::string depth = tk.more() ? exprText(tk, st.used) : std::string("1");
            const std::string call = std::string("waitthread kill local \"") + kit->second + "\" " + depth;
            st.body = c.back() == 'v' ? "local.t = (1 + (" + call + ")) * 2" : call;
        } else {
            if (!cmds.count(c)) tk.bad = true;
            st.body = c;
            if (tk.more()) st.body += " " + exprText(tk, st.used);
        }
    } else tk.bad = true;
    if (tk.bad || tk.more()) st.ok = false;
    return st;
}

static const char* SUBS =
    "sub:\nprintln \"@T\"\nend\n"
    "waiter:\nwait 1000000000000\nend\n"
    "waiton local.e:\nlocal.e waittill \"never\"\nprintln \"@W\"\nend\n"
    "selfkill:\nprintln \"@K\"\nlocal delete\nprintln \"never\"\nend\n"
    // sole-owner temporaries: values built in a callee and returned; the caller's operand stack holds the only reference
    "mkarr local.w:\nif (local.w) { wait 0.5 }\n"
    "local.a[1] = \"one\" + \"two\"\nlocal.a[2] = ( 1 2 3 )\nlocal.a[3] = level\nlocal.a[4] = 5\n"
    "local.a[\"k\"][1] = 7\nlocal.a[\"k\"][2] = \"deep\" + \"er\"\nlocal.a[\"k\"][3] = ( 4 5 6 )\n"
    "local.a[5] = (\"c\" + 1)::( 7 8 9 )::level::(1::(\"n\" + 2))\nlocal.a[6] = \"x\"[0]\n"
    "local.a[7][1][1] = \"in\" + \"ner\"\nend local.a\n"
    "mkcarr local.w:\nif (local.w) { wait 0.5 }\nend (\"one\" + \"two\")::( 1 2 3 )::level::((\"n\" + 2)::( 4 5 6 ))::5\n"
    "mkstr local.w:\nif (local.w) { wait 0.5 }\nend (\"abc\" + 1)\n"
    "mkvec local.w:\nif (local.w) { wait 0.5 }\nend ( 1 2 3 )\n"
    "mklsn local.w:\nif (local.w) { wait 0.5 }\nlocal.e = spawn SimpleEntity\nlocal.e.foo = \"f\" + 1\nend local.e\n"
    "mkone local.w:\nif (local.w) { wait 0.5 }\nlocal.a[1] = \"only\" + 1\nend local.a\n"
    // deleted-by-callee family: the victim is destroyed by a thread it is (transitively) waiting for
    "kill local.v local.how local.depth:\n"
    "if (local.depth > 1) {\nlocal.r = waitthread kill local.v local.how (local.depth - 1)\nprintln \"@K back\"\nend local.r\n}\n"
    "println \"@K\"\n"
    "if (local.how == \"delete\") { local.v delete }\n"
    "if (local.how == \"remove\") { local.v remove }\n"
    "if (local.how == \"immediateremove\") { local.v immediateremove }\n"
    "if (local.how == \"killclass\") { killclass ScriptThread }\n"
    "if (local.how == \"removeclass\") { removeclass ScriptThread }\n"
    "end 7\n"
    "killlevel local.how local.depth:\nlocal.r = waitthread kill level.par local.how local.depth\nend local.r\n"
    "notifier local.o local.depth:\n"
    "if (local.depth > 1) {\nlocal.r = waitthread notifier local.o (local.depth - 1)\nprintln \"@N back\"\nend local.r\n}\n"
    "local.o notify \"die\"\nprintln \"@N\"\nend 7\n"
    "pausekill local.v local.how local.depth:\n"
    "if (local.depth > 1) {\nthread pausekill local.v local.how (local.depth - 1)\nend\n}\n"
    "local.v pause\n"
    "if (local.how == \"delete\") { local.v delete }\n"
    "if (local.how == \"remove\") { local.v remove }\n"
    "if (local.how == \"immediateremove\") { local.v immediateremove }\n"
    "println \"@P\"\nend 7\n"
    "selfdel local.how local.depth:\n"
    "if (local.depth > 1) {\nlocal.r = waitthread selfdel local.how (local.depth - 1)\nprintln \"@D back\"\nend local.r\n}\n"
    "if (local.how == \"delete\") { local delete }\n"
    "if (local.how == \"remove\") { local remove }\n"
    "if (local.how == \"immediateremove\") { local immediateremove }\n"
    "if (local.how == \"self\") { self delete }\n"
    "println \"never\"\nend 7\n";

// raw statements that do not compile on their own are replaced (only compilable programs are
// the subject): the callback compiles a one-statement script
static std::function<bool(const std::string&)> g_compiles;
static int g_notCompilable = 0;

static std::string programText(const std::vector<std::string>& ops, bool& ok)
{
    std::string s = "main:\n";
    std::set<std::string> done;
    std::string pro;
    for (const Rep& r : reps()) if (!r.perStmt) { std::set<std::string> d2; for (const std::string& l : r.setup) pro += withPrefix(l, "local.") + "\n"; }
    s += pro;
    ok = true;
    for (size_t k = 0; k < ops.size(); ++k) {
        StmtText st = stmtText(ops[k]);
        if (!st.ok) { ok = false; return s; }
        if (ops[k].rfind("R ", 0) == 0 && g_compiles && !g_compiles(st.body)) { st.body = "println \"@nc\""; ++g_notCompilable; }
        std::set<std::string> d;
        std::string setup;
        for (const std::string& u : st.used) setupOf(u, "local.", true, d, setup);
        s += setup + st.pre;
        s += "println \"@S " + std::to_string(k) + "\"\n" + st.body + "\nprintln \"@E " + std::to_string(k) + "\"\n";
    }
    s += "println \"@X\"\nend\n";
    s += SUBS;
    return s;
}

// ------------------------------------------------------------------ warning classes
static std::string classify(const std::string& t)
{
    auto has = [&](const char* s) { return t.find(s) != std::string::npos; };
    if (has("Division by zero")) return "DivZero";
    if (has("binary '")) return "Incompat";
    if (has("Cannot cast '")) return "Cast";
    if (has("out of range") && has("index '")) return "Index";
    if (has("applied to invalid type")) return "InvType";
    if (has("Field '") && has("applied to NULL listener")) return "NullField";
    if (has("command '") && has("applied to NIL")) return "NilCmd";
    if (has("command '") && has("applied to NULL listener")) return "NullCmd";
    if (has("label '") && has("does not exist")) return "Label";
    if (has("Can't find target name")) return "NoTarget";
    if (has("requires exactly one")) return "MultiTarget";
    if (has("Bad hash code value")) return "BadHash";
    if (has("bad label type")) return "BadLabel";
    if (has("file was not found")) return "File";
    return "Script";
}

// ------------------------------------------------------------------ one case
struct StmtObs { bool started = false, ended = false; std::vector<std::string> w; int lines = 0; int frame = -1; };

static void runCase(const std::string& id, const std::string& header, const std::vector<std::string>& ops)
{
    bool warn = header.find("warn=0") == std::string::npos;
    bool dbg = header.find("dbg=0") == std::string::npos;
    bool showScript = header.find("show=1") != std::string::npos;
    std::printf("case %s\n", id.c_str());
    std::fflush(stdout);
    verif_case_watchdog(ops.size(), 10, 200);

    bool ok = true;
    g_notCompilable = 0;
    std::string prog;
    {
        // a scratch engine for the compile probes of raw statements
        std::unique_ptr<vh::Engine> scratch;
        int probeNo = 0;
        g_compiles = [&](const std::string& body) {
            if (!scratch) scratch.reset(new vh::Engine());
            try {
                const ProgramScript* p = scratch->compile("probe" + std::to_string(probeNo++), "main:\n" + body + "\nend\n" + SUBS);
                return p != nullptr;
            } catch (...) { return false; }
        };
        prog = programText(ops, ok);
        g_compiles = nullptr;
    }
    if (!ok) { std::printf("e bad-input\n"); verif_watchdog_off(); std::printf("end\n"); std::fflush(stdout); return; }
    if (showScript) { std::istringstream is(prog); std::string l; while (std::getline(is, l)) std::printf("# %s\n", l.c_str()); }

    g_log.clear();
    g_vmEnds = g_vmEndMax = g_stepBad = g_vmKilled = 0;
    TagBuf ob('o'), wb('w'), eb('e'), db('d');
    std::ostream os(&ob), ws(&wb), es(&eb), ds(&db);
    std::string host = "ok";
    std::vector<StmtObs> obs(ops.size());
    int cur = -1, stray = 0;
    bool reachedEnd = false;
    int failed = 0;                 // lines `@! ...` printed by a scenario that checks itself
    std::string failText;
    std::string other, sentinel = "missing";
    size_t consumed = 0;
    std::vector<std::string> strayClasses;
    auto consume = [&](int frame) {
        ob.flushLine(); wb.flushLine();
        for (; consumed < g_log.size(); ++consumed) {
            const LogLine& l = g_log[consumed];
            if (l.tag == 'o') {
                if (l.text.rfind("@S ", 0) == 0) { cur = std::atoi(l.text.c_str() + 3); if (cur >= 0 && (size_t)cur < obs.size()) obs[cur].started = true; }
                else if (l.text.rfind("@E ", 0) == 0) { int k = std::atoi(l.text.c_str() + 3); if (k >= 0 && (size_t)k < obs.size()) { obs[k].ended = true; obs[k].frame = frame; } cur = -1; }
                else if (l.text == "@X") reachedEnd = true;
                else if (l.text.rfind("@! ", 0) == 0) { ++failed; if (failText.empty()) failText = l.text.substr(3); }
                else if (l.text.rfind("@O ", 0) == 0) other += l.text.substr(3);
                else if (l.text.rfind("@Z ", 0) == 0) sentinel = l.text.substr(3);
                else if (cur >= 0 && (size_t)cur < obs.size()) obs[cur].lines++;
            } else if (l.tag == 'w') {
                size_t p = l.text.find("Script Warning : ");
                if (p != std::string::npos) {
                    std::string c = classify(l.text.substr(p));
                    if (cur >= 0 && (size_t)cur < obs.size()) obs[cur].w.push_back(c); else { ++stray; strayClasses.push_back(c); }
                }
            }
        }
    };
    {
        vh::Engine e(warn, true, dbg, true);
        e.ctx->GetOutputInfo().SetOutputStream(outputLevel_e::Output, &os);
        if (warn) e.ctx->GetOutputInfo().SetOutputStream(outputLevel_e::Warn, &ws);
        e.ctx->GetOutputInfo().SetOutputStream(outputLevel_e::Error, &es);
        if (dbg) e.ctx->GetOutputInfo().SetOutputStream(outputLevel_e::Debug, &ds);
        mfuse::verif::vmStepHook = &onStep;
        mfuse::verif::vmEndHook = &onEnd;
        auto guarded = [&](const std::function<void()>& f) {
            try { f(); }
            catch (ScriptAbortExceptionBase& x) { if (host == "ok") host = std::string("abort:") + x.what(); }
            catch (ScriptExceptionBase& x) { if (host == "ok") host = std::string("script-exception:") + x.what(); }
            catch (std::exception& x) { if (host == "ok") host = std::string("exception:") + x.what(); }
            catch (...) { if (host == "ok") host = "exception:unknown"; }
        };
        const ProgramScript* o = nullptr; const ProgramScript* p = nullptr;
        try {
            o = e.compile("other", "main:\nprintln \"@O 1\"\nwait 0.001\nprintln \"@O 2\"\nwait 0.001\nprintln \"@O 3\"\nend\n");
            p = e.compile("prog", prog);
        } catch (std::exception& x) { host = std::string("not-compilable:") + x.what(); }
        catch (...) { host = "not-compilable:unknown"; }
        if (!p || !o) { if (host == "ok") host = "not-compilable:null"; }
        else {
            guarded([&] { e.director().ExecuteThread(o); });
            consume(0);
            guarded([&] { e.director().ExecuteThread(p); });
            consume(0);
            for (int f = 1; f <= 6; ++f) {
                vh::g_clock += 100000;
                guarded([&] { e.ctx->Execute(); });
                consume(f);
            }
            // the engine must still be usable: a fresh script, compiled and run now
            guarded([&] {
                const ProgramScript* z = e.compile("sentinel", "main:\nlocal.a = 6\nlocal.b = local.a * 7\nprintln (\"@Z \" + local.b)\nend\n");
                if (z) e.director().ExecuteThread(z);
            });
            consume(7);
        }
        for (char& c : host) if (c == ' ' || c == '\n') c = '_';
        for (size_t k = 0; k < obs.size(); ++k) {
            const StmtObs& s = obs[k];
            std::string w;
            for (const std::string& c : s.w) { if (!w.empty()) w += ","; w += c; }
            if (w.empty()) w = "-";
            std::printf("m %zu %s w=%s n=%d fr=%d\n", k, !s.started ? "skip" : (s.ended ? "done" : "cut"), w.c_str(), s.lines, s.frame);
        }
        std::string sc;
        for (const std::string& c : strayClasses) { if (!sc.empty()) sc += ","; sc += c; }
        for (char& c : failText) if (c == ' ') c = '_';
        std::printf("e x=%d nc=%d fail=%d%s%s stray=%d%s%s vmend=%zu/%zu killed=%zu stepbad=%zu other=%s sentinel=%s host=%s\n", reachedEnd ? 1 : 0, g_notCompilable, failed, failText.empty() ? "" : ":", failText.c_str(), stray, sc.empty() ? "" : ":", sc.c_str(),
                    g_vmEnds, g_vmEndMax, g_vmKilled, g_stepBad, other.empty() ? "-" : other.c_str(), sentinel.c_str(), host.substr(0, 200).c_str());
        std::fflush(stdout);
        guarded([&] { e.director().Reset(); });
        mfuse::verif::vmStepHook = nullptr;
        mfuse::verif::vmEndHook = nullptr;
    }
    verif_watchdog_off();
    std::printf("end\n");
    std::fflush(stdout);
}

// ------------------------------------------------------------------ table dump
static const char* kindName(const ScriptVariable& v)
{
    switch (v.GetType()) {
    case variableType_e::None: return "none";
    case variableType_e::String: return "str";
    case variableType_e::Integer: return "int";
    case variableType_e::Float: return "float";
    case variableType_e::Char: return "char";
    case variableType_e::ConstString: return "cstr";
    case variableType_e::Listener: return "listener";
    case variableType_e::Array: return "array";
    case variableType_e::ConstArray: return "carr";
    case variableType_e::Container: return "cont";
    case variableType_e::Pointer: return "ptr";
    case variableType_e::Vector: return "vec";
    default: return "other";
    }
}

static bool sameValue(const ScriptVariable& x, const ScriptVariable& y)
{
    if (x.GetType() != y.GetType()) return false;
    switch (x.GetType()) {
    case variableType_e::None: return true;
    case variableType_e::Integer: return x.m_data.long64Value == y.m_data.long64Value;
    case variableType_e::Float: return std::memcmp(&x.m_data.floatValue, &y.m_data.floatValue, sizeof(float)) == 0;
    case variableType_e::Char: return x.m_data.charValue == y.m_data.charValue;
    case variableType_e::ConstString: return x.m_data.constStringValue == y.m_data.constStringValue;
    case variableType_e::String: return std::strcmp(x.m_data.stringValue->c_str(), y.m_data.stringValue->c_str()) == 0;
    case variableType_e::Listener: return x.m_data.listenerValue->Pointer() == y.m_data.listenerValue->Pointer();
    case variableType_e::Vector: return std::memcmp(x.m_data.vectorValue, y.m_data.vectorValue, 3 * sizeof(float)) == 0;
    case variableType_e::Array: return x.m_data.arrayValue == y.m_data.arrayValue;
    case variableType_e::ConstArray: return x.m_data.constArrayValue == y.m_data.constArrayValue;
    case variableType_e::Container: return x.m_data.containerValue == y.m_data.containerValue;
    case variableType_e::Pointer: return x.m_data.pointerValue == y.m_data.pointerValue;
    default: return false;
    }
}

struct Dump {
    vh::Engine* e = nullptr;
    ScriptVariableList* vars = nullptr;
    std::set<std::string> flags;
    ScriptVariable* var(const std::string& n) { return vars->GetVariable(str(("r_" + n).c_str())); }
    void freshPtr()
    {
        ScriptVariable* p = vars->GetOrCreateVariable(str("r_ptr"));
        p->Clear();
        p->newPointer();
    }
    // null listeners of different origin are the same value: name the first
    std::string repOf(const ScriptVariable& v)
    {
        for (const Rep& r : reps()) { ScriptVariable* x = var(r.name); if (x && sameValue(*x, v)) return r.name; }
        return "?";
    }
    std::string val(const ScriptVariable& v) { return std::string(kindName(v)) + " " + repOf(v); }
    // runs f on a copy of a; prints the outcome
    void apply(const std::string& head, const std::string& a, const std::string& b, const std::function<void(ScriptVariable&, const ScriptVariable&)>& f)
    {
        if (a == "ptr" || b == "ptr") freshPtr();
        ScriptVariable* pa = var(a);
        ScriptVariable* pb = b.empty() ? pa : var(b);
        if (!pa || !pb) { std::printf("%s X missing-rep\n", head.c_str()); return; }
        ScriptVariable x = *pa;
        ScriptVariable y = *pb;
        std::string cls;
        try { f(x, y); }
        catch (ScriptVariableErrors::IncompatibleOperator&) { cls = "Incompat"; }
        catch (ScriptVariableErrors::DivideByZero&) { cls = "DivZero"; }
        catch (ScriptVariableErrors::CastError&) { cls = "Cast"; }
        catch (ScriptVariableErrors::IndexOutOfRange&) { cls = "Index"; }
        catch (ScriptVariableErrors::InvalidAppliedType&) { cls = "InvType"; }
        catch (ScriptVariableErrors::BadHashCodeValue&) { cls = "BadHash"; }
        catch (TargetListErrors::MultipleTargetsException&) { cls = "MultiTarget"; }
        catch (TargetListErrors::NoTargetException&) { cls = "NoTarget"; }
        catch (ScriptException&) { cls = "Script"; }
        catch (ScriptExceptionBase&) { cls = "ScriptOther"; }
        catch (std::exception& ex) { std::printf("%s X %s\n", head.c_str(), ex.what()); return; }
        if (cls.empty()) std::printf("%s V %s\n", head.c_str(), val(x).c_str());
        else std::printf("%s E %s %s\n", head.c_str(), cls.c_str(), val(x).c_str());
    }
};

static int optable(int argc, char** argv)
{
    Dump d;
    for (int i = 2; i < argc; ++i) d.flags.insert(argv[i]);
    vh::Engine e;
    d.e = &e;
    std::string s = "main:\n";
    std::set<std::string> done;
    for (const Rep& r : reps()) if (std::string(r.name) != "ptr") setupOf(r.name, "level.", false, done, s);
    s += "level.r_lth = local\nwait 1000000000000\nend\n";
    s += SUBS;
    const ProgramScript* p = e.compile("reps", s);
    if (!p) { std::printf("X compile\n"); return 1; }
    e.director().ExecuteThread(p);
    if (!e.io.warn.str().empty()) { std::printf("X setup-warning %s\n", e.io.warn.str().substr(0, 300).c_str()); }
    d.vars = e.ctx->GetLevel()->Vars();
    d.freshPtr();
    for (const Rep& r : reps()) {
        ScriptVariable* v = d.var(r.name);
        std::printf("rep %s %s %s\n", r.name, r.kind, v ? kindName(*v) : "missing");
    }
    typedef std::function<void(ScriptVariable&, const ScriptVariable&)> F;
    const std::vector<std::pair<std::string, F>> bins = {
        { "add", [](ScriptVariable& x, const ScriptVariable& y) { x += y; } },
        { "sub", [](ScriptVariable& x, const ScriptVariable& y) { x -= y; } },
        { "mul", [](ScriptVariable& x, const ScriptVariable& y) { x *= y; } },
        { "div", [](ScriptVariable& x, const ScriptVariable& y) { x /= y; } },
        { "mod", [](ScriptVariable& x, const ScriptVariable& y) { x %= y; } },
        { "and", [](ScriptVariable& x, const ScriptVariable& y) { x &= y; } },
        { "or", [](ScriptVariable& x, const ScriptVariable& y) { x |= y; } },
        { "xor", [](ScriptVariable& x, const ScriptVariable& y) { x ^= y; } },
        { "shl", [](ScriptVariable& x, const ScriptVariable& y) { x <<= y; } },
        { "shr", [](ScriptVariable& x, const ScriptVariable& y) { x >>= y; } },
        { "eq", [](ScriptVariable& x, const ScriptVariable& y) { x.setIntValue(x == y); } },
        { "ne", [](ScriptVariable& x, const ScriptVariable& y) { x.setIntValue(x != y); } },
        { "lt", [](ScriptVariable& x, const ScriptVariable& y) { x.lessthan(y); } },
        { "gt", [](ScriptVariable& x, const ScriptVariable& y) { x.greaterthan(y); } },
        { "le", [](ScriptVariable& x, const ScriptVariable& y) { x.lessthanorequal(y); } },
        { "ge", [](ScriptVariable& x, const ScriptVariable& y) { x.greaterthanorequal(y); } },
    };
    auto isVec = [&](const std::string& n) { return std::string(findRep(n)->kind) == "vec"; };
    auto isInt = [&](const std::string& n) { return std::string(findRep(n)->kind) == "int"; };
    auto badShift = [&](const std::string& n) { return n == "im1" || n == "i64" || n == "ibig" || n == "imin"; };
    for (const auto& op : bins)
        for (const Rep& a : reps())
            for (const Rep& b : reps()) {
                const std::string head = "bin " + op.first + " " + a.name + " " + b.name;
                if ((op.first == "div" || op.first == "mod") && isVec(a.name) && isVec(b.name) && !d.flags.count("vecdiv")) { std::printf("%s S\n", head.c_str()); continue; }
                if ((op.first == "shl" || op.first == "shr") && isInt(a.name) && badShift(b.name) && !d.flags.count("shift")) { std::printf("%s S\n", head.c_str()); continue; }
                d.apply(head, a.name, b.name, op.second);
                std::fflush(stdout);
            }
    const std::vector<std::pair<std::string, F>> uns = {
        { "neg", [](ScriptVariable& x, const ScriptVariable&) { x.minus(); } },
        { "compl", [](ScriptVariable& x, const ScriptVariable&) { x.complement(); } },
        { "inc", [](ScriptVariable& x, const ScriptVariable&) { x++; } },
        { "dec", [](ScriptVariable& x, const ScriptVariable&) { x--; } },
        { "not", [](ScriptVariable& x, const ScriptVariable&) { x.CastBoolean(); x.m_data.long64Value = (x.m_data.long64Value == 0); } },
        { "size", [](ScriptVariable& x, const ScriptVariable&) { x.setLongValue((uintptr_t)x.size()); } },
        { "c_int", [](ScriptVariable& x, const ScriptVariable&) { x.setIntValue(x.intValue()); } },
        { "c_float", [](ScriptVariable& x, const ScriptVariable&) { x.setFloatValue(x.floatValue()); } },
        { "c_string", [](ScriptVariable& x, const ScriptVariable&) { x.setStringValue(x.stringValue()); } },
        { "c_bool", [](ScriptVariable& x, const ScriptVariable&) { x.setIntValue(x.booleanNumericValue()); } },
        { "c_veclen", [](ScriptVariable& x, const ScriptVariable&) { x.setFloatValue(x.vectorValue().length()); } },
        { "c_char", [](ScriptVariable& x, const ScriptVariable&) { x.setCharValue(x.charValue()); } },
    };
    for (const auto& op : uns)
        for (const Rep& a : reps()) { d.apply("un " + op.first + " " + a.name, a.name, "", op.second); std::fflush(stdout); }
    for (const Rep& a : reps())
        for (const Rep& b : reps()) {
            d.apply(std::string("idx ") + a.name + " " + b.name, a.name, b.name, [](ScriptVariable& x, const ScriptVariable& y) {
                try { x.evalArrayAt(y); } catch (...) { x.Clear(); throw; }       // the catch block of OP_STORE_ARRAY
            });
            std::fflush(stdout);
        }
    // attributes
    for (const Rep& a : reps()) {
        if (std::string(a.name) == "ptr") d.freshPtr();
        ScriptVariable x = *d.var(a.name);
        std::printf("attr size %s %lld\n", a.name, (long long)(int64_t)x.size());
        if (std::string(a.name) == "ptr") d.freshPtr();
        ScriptVariable y = *d.var(a.name);
        std::printf("attr arraysize %s %lld\n", a.name, (long long)(int64_t)y.arraysize());
        ScriptVariable z = *d.var(a.name);
        try { long long v = (long long)(int64_t)z.longValue();
              if (std::string(a.name) == "fm2h") std::printf("attr long %s U\n", a.name); else std::printf("attr long %s V %lld\n", a.name, v); }
        catch (ScriptVariableErrors::CastError&) { std::printf("attr long %s E\n", a.name); }
        try { long long v = (long long)(int32_t)z.intValue();
              if (std::string(a.name) == "fm2h") std::printf("attr int %s U\n", a.name); else std::printf("attr int %s V %lld\n", a.name, v); }
        catch (ScriptVariableErrors::CastError&) { std::printf("attr int %s E\n", a.name); }
        try {
            Listener* l = z.listenerValue();
            if (!l) std::printf("attr lsn %s N\n", a.name);
            else {
                const char* c = "Plain";
                if (l == e.ctx->GetGame()) c = "Game"; else if (l == e.ctx->GetLevel()) c = "Level";
                else if (l == &e.director().GetParm()) c = "Parm";
                else if (dynamic_cast<ScriptThread*>(l)) c = "Thread";
                else if (dynamic_cast<SimpleEntity*>(l)) c = "Entity";
                else if (dynamic_cast<ScriptClass*>(l)) c = "Group";
                std::printf("attr lsn %s L %s\n", a.name, c);
            }
        }
        catch (ScriptVariableErrors::CastError&) { std::printf("attr lsn %s E Cast\n", a.name); }
        catch (TargetListErrors::MultipleTargetsException&) { std::printf("attr lsn %s E MultiTarget\n", a.name); }
        std::fflush(stdout);
    }
    std::printf("endtable\n");
    std::fflush(stdout);
    std::_Exit(0);
    return 0;
}

int main(int argc, char** argv)
{
    vh::globalStreamsToStderr();
    if (argc > 1 && std::string(argv[1]) == "optable") return optable(argc, argv);
    return vh::caseLoop([](const std::string& id, const std::string& header, const std::vector<std::string>& ops) {
        runCase(id, header, ops);
    });
}
