// C19 harness: drives the real MEM::BlockAlloc<Obj, B> with the op sequences of the
// model and prints one canonical event per op.
//   stdin : "case <id> <B>", ops "A k1 k2.." | "F h" | "X", "end"
//   stdout: "case <id> <B>" then
//           alloc <h> <ptr#> <cnt> <nb> <blk#> <slot> ovl=<0|1> al=<0|1>
//           free <h> <log> <cnt> <nb> | skip <cnt> <nb> | freeall <log> <cnt> <nb>
// Blocks obtained through MEM::Alloc are never handed back to malloc (they are
// poisoned for AddressSanitizer instead), so an address names one (block, slot) for the
// whole case.
#include <morfuse/Common/MEM/BlockAlloc.h>
#include "common.h"

#include <cstdio>
#include <cstdlib>
#include <cstring>
#include <cstdint>
#include <map>
#include <string>
#include <vector>
#include <iostream>
#include <sstream>

#if defined(__SANITIZE_ADDRESS__)
#include <sanitizer/asan_interface.h>
#define POISON(p, n) ASAN_POISON_MEMORY_REGION(p, n)
#else
#define POISON(p, n) ((void)0)
#endif

static std::map<void*, size_t> g_blockSizes;
static std::vector<void*> g_allBlocks;

void* mfuse::MEM::Alloc(size_t sz)
{
    void* p = std::malloc(sz);
    g_blockSizes[p] = sz;
    g_allBlocks.push_back(p);
    return p;
}

void mfuse::MEM::Free(void* ptr)
{
    auto it = g_blockSizes.find(ptr);
    if (it == g_blockSizes.end()) {
        std::printf("badfree\n");
        return;
    }
    POISON(ptr, it->second);
    g_blockSizes.erase(it);
}

struct World;
static World* g_world = nullptr;

struct World {
    std::vector<void*> ptr;            // handle -> object address
    std::vector<char> alive;
    std::vector<std::vector<int>> kids;
    std::vector<int> log;
    void (*freeFn)(void*) = nullptr;
};

template<size_t ALIGN>
struct alignas(ALIGN) ObjT {
    int handle;
    uint32_t pad[3];
    ObjT(int h) : handle(h) { pad[0] = pad[1] = pad[2] = 0xC0FFEEu; }
    ~ObjT()
    {
        World& w = *g_world;
        w.log.push_back(handle);
        w.alive[handle] = 0;
        const std::vector<int> ks = w.kids[handle];
        for (int k : ks) {
            if (k != handle && k >= 0 && k < (int)w.alive.size() && w.alive[k] && w.kids[k].empty()) {
                ObjT* o = static_cast<ObjT*>(w.ptr[k]);
                o->~ObjT();
                w.freeFn(o);
            }
        }
        handle = -1;
    }
};

static std::string logStr(const std::vector<int>& l)
{
    if (l.empty()) return "-";
    std::string s;
    for (size_t i = 0; i < l.size(); ++i) {
        if (i) s += ",";
        s += std::to_string(l[i]);
    }
    return s;
}

template<typename Obj, size_t B>
struct Runner {
    using Pool = mfuse::MEM::BlockAlloc<Obj, B>;
    using Block = mfuse::MEM::block_s<Obj, B>;
    static Pool* pool;

    static void freeFn(void* p) { pool->Free(p); }

    static void run(const std::string& id, const std::vector<std::string>& ops)
    {
        World w;
        g_world = &w;
        w.freeFn = &freeFn;
        pool = new Pool();
        std::map<uintptr_t, int> ptrIds;
        std::map<uintptr_t, int> blkIds;
        std::map<uintptr_t, int> liveRanges; // start -> handle
        std::printf("case %s %zu\n", id.c_str(), B);
        std::fflush(stdout);
        verif_case_watchdog(ops.size());
        for (const std::string& line : ops) {
            std::istringstream is(line);
            std::string c;
            is >> c;
            if (c == "A") {
                std::vector<int> ks;
                int k;
                while (is >> k) ks.push_back(k);
                const int h = (int)w.ptr.size();
                void* p = pool->Alloc();
                const uintptr_t a = (uintptr_t)p;
                // overlap with a live object?
                int ovl = 0;
                auto it = liveRanges.lower_bound(a);
                if (it != liveRanges.end() && it->first < a + sizeof(Obj)) ovl = 1;
                if (it != liveRanges.begin()) {
                    auto pr = std::prev(it);
                    if (pr->first + sizeof(Obj) > a) ovl = 1;
                }
                const int al = (a % alignof(Obj)) == 0 ? 1 : 0;
                new (p) Obj(h);
                w.ptr.push_back(p);
                w.alive.push_back(1);
                w.kids.push_back(ks);
                liveRanges[a] = h;
                int pid = (int)ptrIds.size();
                auto pit = ptrIds.find(a);
                if (pit == ptrIds.end()) ptrIds[a] = pid; else pid = pit->second;
                // which block / slot (detail only): uses the public layout of block_s
                typename Block::info_t* header = reinterpret_cast<typename Block::info_t*>(
                    static_cast<unsigned char*>(p) - Block::getHeaderSize());
                const size_t slot = header->index;
                const uintptr_t base = (uintptr_t)header - slot * Block::datasize - Block::dataoffset;
                int bid = (int)blkIds.size();
                auto bit = blkIds.find(base);
                if (bit == blkIds.end()) blkIds[base] = bid; else bid = bit->second;
                std::printf("alloc %d %d %zu %zu %d %zu ovl=%d al=%d\n", h, pid, pool->Count(), pool->BlockCount(), bid, slot, ovl, al);
            } else if (c == "F") {
                int h;
                is >> h;
                if (h < 0 || h >= (int)w.ptr.size() || !w.alive[h]) {
                    std::printf("skip %zu %zu\n", pool->Count(), pool->BlockCount());
                } else {
                    w.log.clear();
                    Obj* o = static_cast<Obj*>(w.ptr[h]);
                    o->~Obj();
                    pool->Free(o);
                    for (int d : w.log) liveRanges.erase((uintptr_t)w.ptr[d]);
                    std::printf("free %d %s %zu %zu\n", h, logStr(w.log).c_str(), pool->Count(), pool->BlockCount());
                }
            } else if (c == "X") {
                w.log.clear();
                pool->FreeAll();
                for (int d : w.log) liveRanges.erase((uintptr_t)w.ptr[d]);
                std::printf("freeall %s %zu %zu\n", logStr(w.log).c_str(), pool->Count(), pool->BlockCount());
            }
            std::fflush(stdout);
        }
        // leave the pool clean
        w.log.clear();
        pool->FreeAll();
        delete pool;
        pool = nullptr;
        g_world = nullptr;
        verif_watchdog_off();
        std::printf("end\n");
        std::fflush(stdout);
    }
};

template<typename Obj, size_t B>
typename Runner<Obj, B>::Pool* Runner<Obj, B>::pool = nullptr;

int main()
{
    std::string line, id;
    size_t B = 0;
    std::vector<std::string> ops;
    bool in = false;
    auto flush = [&]() {
        if (!in) return;
        if (B == 2) Runner<ObjT<4>, 2>::run(id, ops);
        else if (B == 3) Runner<ObjT<16>, 3>::run(id, ops);
        else if (B == 4) Runner<ObjT<8>, 4>::run(id, ops);
        else if (B == 256) Runner<ObjT<4>, 256>::run(id, ops);
        else std::printf("case %s %zu\nunsupported\nend\n", id.c_str(), B);
        in = false;
        ops.clear();
    };
    while (std::getline(std::cin, line)) {
        if (line.rfind("case ", 0) == 0) {
            flush();
            std::istringstream is(line.substr(5));
            is >> id >> B;
            in = true;
        } else if (line == "end") {
            flush();
        } else if (!line.empty()) {
            ops.push_back(line);
        }
    }
    flush();
    return 0;
}
