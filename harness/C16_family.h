// C16_family.h - the default host class family of the C16 harness.
// Plain declarations through the macros of harness/C16.cpp (the random families of the
// thorough tier are generated in the same format by props/C16.py):
//   VNS(var, "name")                         a NamespaceDef
//   VEV(var, "spelling", Kind)               an EventDef in the global namespace
//   VEVN(var, nsvar, "spelling", Kind)       an EventDef in a namespace
//   VCLASS(Name, CppParent)                  the C++ class (handlers On<I> record (Name, I))
//   VDECL(Parent, Name) / VDECLN(ns, Parent, Name)  { VR(Name, ev, I) | VZ(ev) ... VEND };
//       VR = response with handler On<I> (I = index of the entry in this list), VZ = null response
// Order of construction = order in this file.

VNS(nsA, "verif_c16_a")
VNS(nsB, "verif_c16_b")

// one command name with all four kinds
VEV(ev_move_n, "vc16_move", Normal)
VEV(ev_move_r, "vc16_move", Return)
VEV(ev_move_g, "vc16_move", Getter)
VEV(ev_move_s, "vc16_move", Setter)
// two EventDef objects for the same command, spellings differ only in letter case
// (the second one is declared in the global namespace: the first one's namespace counts)
VEVN(ev_fire_n, nsA, "vc16_Fire", Normal)
VEV(ev_fire_n2, "VC16_FIRE", Normal)
VEVN(ev_fire_r, nsB, "vc16_fire", Return)
VEV(ev_halt_n, "vc16_halt", Normal)
VEV(ev_halt_n2, "Vc16_Halt", Normal)
VEV(ev_size_g, "vc16_size", Getter)
VEVN(ev_size_s, nsB, "vc16_SIZE", Setter)
VEVN(ev_only_r, nsA, "vc16_only", Return)
VEV(ev_unused_n, "vc16_unused", Normal)
VEVN(ev_ping_n, nsB, "vc16_ping", Normal)
VEVN(ev_ping_n2, nsA, "VC16_PING", Normal)

VCLASS(H0, mfuse::Listener)
VCLASS(H1, H0)
VCLASS(H2, H1)
VCLASS(H3, H2)
VCLASS(H4, H3)
VCLASS(H5, H4)
VCLASS(S1, H0)
VCLASS(S2, H2)
VCLASS(S3, S1)
VCLASS(T0, mfuse::Listener)
VCLASS(E0, mfuse::SimpleEntity)

VDECL(mfuse::Listener, H0)
{
    VR(H0, ev_move_n, 0)
    VR(H0, ev_move_r, 1)
    VR(H0, ev_fire_n, 2)
    VR(H0, ev_halt_n, 3)
    VR(H0, ev_size_g, 4)
    VEND
};

VDECL(H0, H1)
{
    VR(H1, ev_move_n, 0)        // override
    VZ(ev_fire_n2)              // null response through the other spelling: clears the inherited handler
    VR(H1, ev_size_s, 2)
    VEND
};

VDECL(H1, H2)
{
    VR(H2, ev_fire_r, 0)
    VR(H2, ev_halt_n2, 1)       // override through the other EventDef object
    VR(H2, ev_move_g, 2)
    VR(H2, ev_move_s, 3)
    VZ(ev_halt_n)               // same command declared again: the LAST declaration counts ...
    VR(H2, ev_halt_n2, 5)       // ... and again
    VEND
};

VDECL(H2, H3)
{
    VR(H3, ev_fire_n2, 0)       // re-adds the command cleared in H1
    VR(H3, ev_ping_n, 1)
    VR(H3, ev_only_r, 2)
    VEND
};

VDECL(H3, H4)
{
    VEND
};

VDECL(H4, H5)
{
    VZ(ev_move_n)
    VZ(ev_ping_n2)
    VR(H5, ev_size_g, 2)
    VEND
};

VDECL(H0, S1)
{
    VZ(ev_move_r)
    VR(S1, ev_halt_n, 1)
    VR(S1, ev_ping_n2, 2)
    VEND
};

VDECLN(nsA, H2, S2)
{
    VZ(ev_move_g)
    VR(S2, ev_move_s, 1)
    VR(S2, ev_only_r, 2)
    VR(S2, ev_move_g, 3)        // null first, handler later: last wins
    VZ(ev_move_s)               // handler first, null later: last wins
    VEND
};

VDECL(S1, S3)
{
    VZ(ev_halt_n2)
    VR(S3, ev_move_r, 1)
    VEND
};

VDECL(mfuse::Listener, T0)
{
    VR(T0, ev_fire_r, 0)
    VEND
};

VDECLN(nsB, mfuse::SimpleEntity, E0)
{
    VR(E0, ev_move_n, 0)
    VR(E0, ev_size_s, 1)
    VEND
};

// pure inheritors of the library's own classes: they declare nothing, so every command of the
// parent - in particular the one holding the highest (and the lowest) event number of the
// registry - must reach the parent's handler through the inherited table
VCLASS(XParm, mfuse::Parm)
VCLASS(XGame, mfuse::Game)
VCLASS(XLevel, mfuse::Level)
VCLASS(XMutex, mfuse::ScriptMutex)
VCLASS(XEnt, mfuse::SimpleEntity)
VCLASS(XEnt2, XEnt)

VDECL(mfuse::Parm, XParm) { VEND };
VDECL(mfuse::Game, XGame) { VEND };
VDECL(mfuse::Level, XLevel) { VEND };
VDECL(mfuse::ScriptMutex, XMutex) { VEND };
VDECL(mfuse::SimpleEntity, XEnt) { VEND };
VDECL(XEnt, XEnt2) { VEND };

// command definitions that live in a growing std::vector: each growth step move-constructs the
// definitions into the new storage and destroys the moved-from ones (a host that builds its
// commands at run time).  Every one of them must keep its own event number.
static std::vector<mfuse::EventDef>& movedEvs()
{
    static std::vector<mfuse::EventDef> v = [] {
        std::vector<mfuse::EventDef> w;        // no reserve: 1 -> 2 -> 4 -> 8 relocations
        static const char* const names[] = { "vc16_mv0", "vc16_mv1", "vc16_mv2", "vc16_mv3", "vc16_mv4" };
        for (const char* n : names) w.emplace_back(n, 0, nullptr, nullptr, "C16 harness command (moved)", mfuse::evType_e::Normal);
        w.emplace_back("vc16_mv0", 0, nullptr, nullptr, "C16 harness command (moved)", mfuse::evType_e::Return);
        return w;
    }();
    return v;
}
static const char* const movedNames[] = { "vc16_mv0", "vc16_mv1", "vc16_mv2", "vc16_mv3", "vc16_mv4", "vc16_mv0" };
static const int movedKinds[] = { (int)mfuse::evType_e::Normal, (int)mfuse::evType_e::Normal, (int)mfuse::evType_e::Normal,
                                  (int)mfuse::evType_e::Normal, (int)mfuse::evType_e::Normal, (int)mfuse::evType_e::Return };
static RegEv regev_mv0(&movedEvs()[0], movedNames[0], movedKinds[0], nullptr);
static RegEv regev_mv1(&movedEvs()[1], movedNames[1], movedKinds[1], nullptr);
static RegEv regev_mv2(&movedEvs()[2], movedNames[2], movedKinds[2], nullptr);
static RegEv regev_mv3(&movedEvs()[3], movedNames[3], movedKinds[3], nullptr);
static RegEv regev_mv4(&movedEvs()[4], movedNames[4], movedKinds[4], nullptr);
static RegEv regev_mv5(&movedEvs()[5], movedNames[5], movedKinds[5], nullptr);
// a command defined after the relocations: it must not be handed a number that is still in use
VEV(ev_after_moves_n, "vc16_after_moves", Normal)

VCLASS(M0, mfuse::Listener)
VCLASS(M1, M0)
static RegCls regcls_M0("M0", &clsOf<M0>);
MFUS_CLASS_DECLARATION(mfuse::Listener, M0, nullptr)
{
    { &movedEvs()[0], &M0::On<0> },
    { &movedEvs()[2], &M0::On<1> },
    { &movedEvs()[4], &M0::On<2> },
    { &movedEvs()[5], &M0::On<3> },
    { &ev_after_moves_n, &M0::On<4> },
    VEND
};
VDECL(M0, M1)
{
    { &movedEvs()[1], &M1::On<0> },
    { &movedEvs()[0], &M1::On<1> },     // override
    VEND
};
