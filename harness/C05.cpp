// C05 harness: the host call/return protocol on the real engine (injected clock).
//   ops:  C <lbl> <np> <prog> <args>   host call: a fresh script with the label `go` declaring np
//                                      parameters (np = a number: local.p1.., or @t.t.. with t = <j> for
//                                      local.p<j> | v<k> for a variable of the level / game / parm object) is compiled, an Event with the args is filled and
//                                      ScriptMaster::ExecuteThread(script, event, label) is called
//                                      (label = "go" when lbl=1, a missing label when lbl=0).  The
//                                      Event becomes the next record.
//            prog = level ('/' level)*  one thread each: the host-started thread, then the sub-thread
//                                      started by the level before it with `local.sr = thread s<i>`
//            level = steps ',' final   steps: w<d> wait d ms | p<d> pause, a helper thread resumes
//                                      this thread after d ms | t the sub-thread is started here |
//                                      P<w<n>|p>(:<d><W<e>|U|D>)* a helper is started that waits d ms and
//                                      then orders this thread `wait e` (W) / `pause` (U) / `delete` (D), ...;
//                                      then this thread does `wait n` or `pause`
//                                      final: e<val> end <literal> | r<j> end local.p<j> | g<k> end of a
//                                      level/game/parm variable | L end local.sr
//                                      (the sub-thread's result, possibly still pending) | x end |
//                                      o fall off the end | k<d> pause, a helper deletes the thread
//                                      after d ms | q<d> wait 50 ms, a helper deletes the thread
//                                      after d ms | h pause for ever | S `local delete` (the thread deletes
//                                      itself while it executes) | K<n> it starts a thread that (n levels
//                                      deep) deletes it | N it is deleted by an endon that a callee triggers
//            args = tok,tok,.. | -     tok: n NIL | i<k> | f<k> | s<k> | z NULL | l<k> listener |
//                                      v<k> vector | a<k> array | c<k> const array
//         Y <rid>        copy the record (Event copy constructor): next record
//         V <rid>        relocate the record's cells (ReserveArguments beyond the capacity)
//         M <rid>        move the record into a new Event (Event move constructor)
//         D <rid>        destroy the record
//         S <r1> <r2>    result cell of r1 = result cell of r2          (copy assignment)
//         U <r1> <r2>    result cell of r1 = std::move(result cell of r2) (move assignment)
//         T <dt>         advance the clock     X  ScriptContext::Execute()     Z  ScriptMaster::Reset()
//   out:  m <call> | <records> | n=<running scripts> th=<threads> vm=<VMs>
//         call: - | nolabel | ok:<alive>:<param tokens>      records: r<rid>=<tok,..>
#include "engine.h"
#include <morfuse/Script/StateScript.h>
#include <morfuse/Script/ScriptException.h>
#include <cctype>
#include <cmath>
#include <cstring>
#include <memory>
using namespace mfuse;

static const long long INTS[] = { 0, 1, -1, 7, 2147483647LL, 4294967297LL };
static const float FLOATS[] = { 0.5f, 1.5f, 2.25f, 0.125f, 1000.5f };
static const char* STRS[] = { "", "a", "hello world", "x_y" };
static const float VECS[][3] = { {0, 0, 0}, {1, 2, 3}, {-1, 0.5f, 2} };
static const int NI = 6, NF = 5, NS = 4, NV = 3, NL = 3, NA = 3;

struct Host {
    vh::Engine e;
    std::vector<Listener*> listeners;
    std::vector<ScriptVariable> arrays, carrays;
    struct Rec { Event* ev; size_t nargs; };
    std::vector<Rec> recs;     // index = rid; ev == nullptr: destroyed
    int ncalls = 0;

    Host()
    {
        for (int i = 0; i < NL; ++i) listeners.push_back(new Listener());
        arrays.resize(NA);
        carrays.resize(NA);
        for (int i = 0; i < NA; ++i) {
            ScriptVariable idx, val;
            idx.setIntValue(1);
            val.setIntValue(i);
            arrays[i].setArrayAtRef(idx, val);
            ScriptVariable* p = new ScriptVariable[2];
            p[0].setIntValue(i);
            p[1].setIntValue(i + 1);
            carrays[i].setConstArrayValue(p, 2);
            delete[] p;
        }
    }
    ~Host()
    {
        for (Rec& r : recs) delete r.ev;
        arrays.clear();
        carrays.clear();
        for (Listener* l : listeners) delete l;
    }
};

static std::string fmt3(float f) { char b[64]; std::snprintf(b, sizeof b, "%.3f", f); return b; }

// canonical token of a value held by the host
static std::string token(Host& h, ScriptVariable& v)
{
    switch (v.GetType()) {
    case variableType_e::None: return "n";
    case variableType_e::Pointer: return "p";
    case variableType_e::Integer: {
        const long long x = (long long)(int64_t)v.longValue();
        for (int i = 0; i < NI; ++i) if (INTS[i] == x) return "i" + std::to_string(i);
        return "i?" + std::to_string(x);
    }
    case variableType_e::Float: {
        const float f = v.floatValue();
        for (int i = 0; i < NF; ++i) if (std::memcmp(&FLOATS[i], &f, sizeof f) == 0) return "f" + std::to_string(i);
        return "f?" + fmt3(f);
    }
    case variableType_e::String:
    case variableType_e::ConstString: {
        const str s = v.stringValue();
        for (int i = 0; i < NS; ++i) if (std::strcmp(STRS[i], s.c_str()) == 0) return "s" + std::to_string(i);
        return std::string("s?") + s.c_str();
    }
    case variableType_e::Listener: {
        Listener* l = v.listenerValue();
        if (!l) return "z";
        for (int i = 0; i < NL; ++i) if (h.listeners[i] == l) return "l" + std::to_string(i);
        return "l?";
    }
    case variableType_e::Vector: {
        const Vector w = v.vectorValue();
        for (int i = 0; i < NV; ++i) {
            const float a[3] = { w[0], w[1], w[2] };
            if (std::memcmp(a, VECS[i], sizeof a) == 0) return "v" + std::to_string(i);
        }
        return "v?" + fmt3(w[0]) + "_" + fmt3(w[1]) + "_" + fmt3(w[2]);
    }
    case variableType_e::Array: {
        ScriptVariable idx;
        idx.setIntValue(1);
        ScriptVariable& el = v[idx];
        if (el.GetType() == variableType_e::Integer) return "a" + std::to_string((long long)(int64_t)el.longValue());
        return "a?";
    }
    case variableType_e::ConstArray: {
        ScriptVariable& el = v.constArrayElement(1);
        if (el.GetType() == variableType_e::Integer) return "c" + std::to_string((long long)(int64_t)el.longValue());
        return "c?";
    }
    default: return std::string("?") + v.GetTypeName();
    }
}

// the script text of a literal
static std::string literal(const std::string& t, std::string& pre)
{
    const int k = t.size() > 1 ? std::atoi(t.c_str() + 1) : 0;
    char b[128];
    switch (t[0]) {
    case 'n': return "NIL";
    case 'z': return "NULL";
    case 'i': return "( " + std::to_string(INTS[k % NI]) + " )";
    case 'f': std::snprintf(b, sizeof b, "( %.3f )", FLOATS[k % NF]); return b;
    case 's': return std::string("(\"\" + \"") + STRS[k % NS] + "\")";
    case 'v': std::snprintf(b, sizeof b, "( %g %g %g )", VECS[k % NV][0], VECS[k % NV][1], VECS[k % NV][2]); return b;
    case 'a': pre += "local.r[1] = " + std::to_string(k) + "\n"; return "local.r";
    case 'c': return "(" + std::to_string(k) + "::" + std::to_string(k + 1) + ")";
    default: return "NIL";
    }
}

static void addArg(Host& h, Event& ev, const std::string& t)
{
    const int k = t.size() > 1 ? std::atoi(t.c_str() + 1) : 0;
    switch (t[0]) {
    case 'n': ev.AddNil(); break;
    case 'z': ev.AddListener(nullptr); break;
    case 'i': if (k % NI == 5) ev.AddLong(INTS[5]); else ev.AddInteger(int32_t(INTS[k % NI])); break;
    case 'f': ev.AddFloat(FLOATS[k % NF]); break;
    case 's': ev.AddString(STRS[k % NS]); break;
    case 'l': ev.AddListener(h.listeners[k % NL]); break;
    case 'v': ev.AddVector(Vector(VECS[k % NV][0], VECS[k % NV][1], VECS[k % NV][2])); break;
    case 'a': ev.AddValue(h.arrays[k % NA]); break;
    case 'c': ev.AddValue(h.carrays[k % NA]); break;
    default: ev.AddNil(); break;
    }
}

static std::vector<std::string> split(const std::string& s, char sep)
{
    std::vector<std::string> r;
    std::string cur;
    for (char c : s) { if (c == sep) { if (!cur.empty()) r.push_back(cur); cur.clear(); } else cur += c; }
    if (!cur.empty()) r.push_back(cur);
    return r;
}

static std::string levelVar(int k);

static std::string waitText(int ms) { char b[64]; std::snprintf(b, sizeof b, "wait %.3f\n", ms / 1000.0); return b; }

// one thread of the call: level 0 is the host-started thread (label go), level i > 0 the sub-thread s<i>
static std::string levelBody(const std::string& lvl, int index, bool hasNext, std::string& helpers, int& nh)
{
    std::string body, pre;
    bool spawned = false, ended = false;
    auto spawnText = [&]() { spawned = true; return hasNext ? "local.sr = thread s" + std::to_string(index + 1) + "\n" : std::string(); };
    std::vector<std::string> toks = split(lvl, ',');
    bool hasT = false;
    for (const std::string& st : toks) if (st == "t") hasT = true;
    if (!hasT) body += spawnText();            // no position given: the sub-thread is started first
    for (const std::string& st : toks) {
        const int d = st.size() > 1 ? std::atoi(st.c_str() + 1) : 0;
        const std::string hn = "h" + std::to_string(nh);
        switch (st[0]) {
        case 't': body += spawnText(); break;
        case 'w': body += waitText(d); break;
        case 'p':
            helpers += hn + " local.t:\n" + waitText(d) + "local.t wait 0\nend\n";
            body += "thread " + hn + " local\npause\n";
            ++nh;
            break;
        case 'P': {                     // P<w<n>|p>(:<d><W<e>|U|D>)*  park with a helper that gives orders to this thread
            std::vector<std::string> parts = split(st, ':');
            std::string hb;
            for (size_t i = 1; i < parts.size(); ++i) {
                const std::string& a = parts[i];
                size_t j = 0;
                while (j < a.size() && std::isdigit((unsigned char)a[j])) ++j;
                hb += waitText(j ? std::atoi(a.substr(0, j).c_str()) : 0);
                const char c = j < a.size() ? a[j] : 'U';
                if (c == 'W') hb += "local.t " + waitText(a.size() > j + 1 ? std::atoi(a.c_str() + j + 1) : 0);
                else if (c == 'D') hb += "local.t delete\n";
                else hb += "local.t pause\n";
            }
            if (parts.size() > 1) {
                helpers += hn + " local.t:\n" + hb + "end\n";
                body += "thread " + hn + " local\n";
                ++nh;
            }
            if (parts[0].size() > 1 && parts[0][1] == 'w') body += waitText(std::atoi(parts[0].c_str() + 2));
            else body += "pause\n";
            break;
        }
        case 'k':
            helpers += hn + " local.t:\n" + waitText(d) + "local.t delete\nend\n";
            body += "thread " + hn + " local\npause\nend 99\n";
            ++nh; ended = true;
            break;
        case 'q':
            helpers += hn + " local.t:\n" + waitText(d) + "local.t delete\nend\n";
            body += "thread " + hn + " local\n" + waitText(50) + "end 99\n";
            ++nh; ended = true;
            break;
        case 'h': body += "pause\nend 98\n"; ended = true; break;
        case 'S': body += "local delete\nend 97\n"; ended = true; break;          // deletes itself while executing
        case 'K': {                                                                 // deleted by a thread it starts (depth d)
            helpers += hn + " local.t:\nlocal.t delete\nend\n";
            std::string callee = hn;
            for (int i = 1; i < (d < 1 ? 1 : d); ++i) {
                ++nh;
                const std::string outer = "h" + std::to_string(nh);
                helpers += outer + " local.t:\nthread " + callee + " local.t\nend\n";
                callee = outer;
            }
            body += "thread " + callee + " local\nend 96\n";
            ++nh; ended = true;
            break;
        }
        case 'N':                                                                   // deleted by an endon that a callee triggers
            helpers += hn + " local.o:\nlocal.o notify \"stop\"\nlocal.o delete\nend\n";
            body += "local.lst = local CreateListener\nlocal.lst endon \"stop\"\nthread " + hn + " local.lst\nend 95\n";
            ++nh; ended = true;
            break;
        case 'e': { const std::string lit = literal(st.substr(1), pre); body += pre + "end " + lit + "\n"; ended = true; break; }
        case 'r': body += "end local.p" + std::to_string(d) + "\n"; ended = true; break;
        case 'L': body += "end local.sr\n"; ended = true; break;
        case 'g': body += "end " + levelVar(d) + "\n"; ended = true; break;
        case 'x': body += "end\n"; ended = true; break;
        case 'o': if (index > 0) { body += "end\n"; ended = true; } break;   // only the last label can fall off the end
        default: break;
        }
        if (ended) break;
    }
    if (!ended && index > 0) body += "end\n";
    return body;
}

// the persistent variable number k: a variable of the level object
static std::string levelVar(int k)
{
    return "level.q" + std::to_string(k);
}

// the declared parameters: "3" = local.p1 local.p2 local.p3; "@1.v0.1" = local.p1 level.q0 local.p1
static std::vector<std::string> paramNames(const std::string& np)
{
    std::vector<std::string> r;
    if (!np.empty() && np[0] == '@') {
        for (const std::string& t : split(np.substr(1), '.'))
            r.push_back(t[0] == 'v' ? levelVar(std::atoi(t.c_str() + 1)) : "local.p" + t);
    } else {
        for (int i = 1; i <= std::atoi(np.c_str()); ++i) r.push_back("local.p" + std::to_string(i));
    }
    return r;
}

static std::string program(const std::string& npTok, const std::string& prog)
{
    const std::vector<std::string> names = paramNames(npTok);
    const int np = int(names.size());
    std::string helpers, subs;
    int nh = 0;
    std::vector<std::string> levels = split(prog, '/');
    if (levels.empty()) levels.push_back("o");
    std::vector<std::string> bodies;
    for (size_t i = 0; i < levels.size(); ++i)
        bodies.push_back(levelBody(levels[i], int(i), i + 1 < levels.size(), helpers, nh));
    for (size_t i = levels.size(); i-- > 1;) subs += "s" + std::to_string(i) + ":\n" + bodies[i];
    std::string src = "never:\nend\n" + helpers + subs + "go";
    for (int i = 1; i <= np; ++i) src += " " + names[i - 1];
    src += ":\n";
    for (int i = 1; i <= np; ++i)
        src += "println \"P\" " + std::to_string(i) + " (typeof " + names[i - 1] + ") " + names[i - 1] + "\n";
    src += bodies[0];
    return src;
}

// "P <i> <typename> <text>" -> canonical parameter token (identity of listeners / arrays is not printable)
static std::string paramToken(const std::string& line)
{
    static const char* names[] = { "const string", "const array", "none", "string", "int", "float", "listener", "array", "vector", "pointer", "char", "ref" };
    std::istringstream is(line);
    std::string p, idx;
    is >> p >> idx;
    std::string rest;
    std::getline(is, rest);
    if (!rest.empty() && rest[0] == ' ') rest.erase(0, 1);
    std::string ty;
    for (const char* n : names) {
        if (rest.rfind(n, 0) == 0) { ty = n; rest.erase(0, ty.size()); break; }
    }
    if (!rest.empty() && rest[0] == ' ') rest.erase(0, 1);
    if (ty == "none") return "n";
    if (ty == "int") { for (int i = 0; i < NI; ++i) if (std::to_string(INTS[i]) == rest) return "i" + std::to_string(i); return "i?" + rest; }
    if (ty == "float") { for (int i = 0; i < NF; ++i) if (fmt3(FLOATS[i]) == rest) return "f" + std::to_string(i); return "f?" + rest; }
    if (ty == "string" || ty == "const string") { for (int i = 0; i < NS; ++i) if (rest == STRS[i]) return "s" + std::to_string(i); return "s?" + rest; }
    if (ty == "listener") return rest == "NULL" ? "z" : "l";
    if (ty == "vector") {
        for (int i = 0; i < NV; ++i)
            if (rest == "( " + fmt3(VECS[i][0]) + " " + fmt3(VECS[i][1]) + " " + fmt3(VECS[i][2]) + " )") return "v" + std::to_string(i);
        return "v?" + rest;
    }
    if (ty == "array") return "a";
    if (ty == "const array") return "c";
    return "?" + ty + ":" + rest;
}

static void observe(Host& h, const std::string& call)
{
    std::string d;
    for (size_t rid = 0; rid < h.recs.size(); ++rid) {
        Host::Rec& r = h.recs[rid];
        if (!r.ev) continue;
        if (!d.empty()) d += " ";
        d += "r" + std::to_string(rid) + "=";
        const size_t n = r.ev->NumArgs();
        if (!n) d += "-";
        for (size_t i = 1; i <= n; ++i) { if (i > 1) d += ","; d += token(h, r.ev->GetValue(i)); }
    }
    if (d.empty()) d = "-";
    std::printf("m %s | %s | n=%zu th=%zu vm=%zu\n", call.c_str(), d.c_str(), h.e.director().GetNumRunningScripts(),
                h.e.ctx->GetAllocator().ScriptThread_allocator.Count(), h.e.ctx->GetAllocator().ScriptVM_allocator.Count());
}

static Host::Rec* rec(Host& h, long rid)
{
    if (rid < 0 || size_t(rid) >= h.recs.size() || !h.recs[rid].ev) return nullptr;
    return &h.recs[rid];
}
static ScriptVariable* slot(Host::Rec* r)
{
    if (!r || r->ev->NumArgs() <= r->nargs) return nullptr;
    return &r->ev->GetValue(r->nargs + 1);
}

int main()
{
    vh::globalStreamsToStderr();
    return vh::caseLoop([](const std::string& id, const std::string&, const std::vector<std::string>& ops) {
        std::printf("case %s\n", id.c_str());
        std::fflush(stdout);
        verif_case_watchdog(ops.size());
        {
            Host h;
            for (const std::string& line : ops) {
                std::istringstream is(line);
                std::string c, call = "-";
                is >> c;
                if (c == "C") {
                    int lbl;
                    std::string np, prog, args;
                    is >> lbl >> np >> prog >> args;
                    Event* ev = new Event();
                    size_t nargs = 0;
                    if (args != "-") for (const std::string& t : split(args, ',')) { addArg(h, *ev, t); ++nargs; }
                    h.recs.push_back({ ev, nargs });
                    const std::string name = "c" + std::to_string(h.ncalls++);
                    h.e.takeOutput();
                    try {
                        const ProgramScript* scr = h.e.compile(name, program(np, prog));
                        if (!scr) call = "nocompile";
                        else {
                            ScriptThread* t = h.e.director().ExecuteThread(scr, *ev, lbl ? "go" : "nolabel");
                            call = std::string("ok:") + (t ? "1" : "0") + ":";
                            std::string ps;
                            for (const std::string& l : h.e.takeOutput()) {
                                if (l.rfind("P ", 0) == 0) { if (!ps.empty()) ps += ","; ps += paramToken(l); }
                                else ps += "?" + l;
                            }
                            call += ps.empty() ? "-" : ps;
                        }
                    } catch (StateScriptErrors::LabelNotFound&) { call = "nolabel"; }
                    catch (std::exception& ex) { call = std::string("exc:") + ex.what(); }
                } else if (c == "Y") {
                    long r; is >> r;
                    if (Host::Rec* p = rec(h, r)) h.recs.push_back({ new Event(*p->ev), p->nargs });
                } else if (c == "V") {
                    long r; is >> r;
                    if (Host::Rec* p = rec(h, r)) p->ev->ReserveArguments(p->ev->NumArgs() + 5 + (p->ev->NumArgs() % 3));
                } else if (c == "M") {
                    long r; is >> r;
                    if (Host::Rec* p = rec(h, r)) { Event* n = new Event(std::move(*p->ev)); delete p->ev; p->ev = n; }
                } else if (c == "D") {
                    long r; is >> r;
                    if (Host::Rec* p = rec(h, r)) { delete p->ev; p->ev = nullptr; }
                } else if (c == "S" || c == "U") {
                    long r1, r2; is >> r1 >> r2;
                    ScriptVariable* a = slot(rec(h, r1));
                    ScriptVariable* b = slot(rec(h, r2));
                    if (a && b && a != b) { if (c == "S") *a = *b; else *a = std::move(*b); }
                } else if (c == "T") { long long dt; is >> dt; vh::g_clock += dt; }
                else if (c == "X") h.e.ctx->Execute();
                else if (c == "Z") h.e.director().Reset();
                const std::vector<std::string> stray = h.e.takeOutput();
                for (const std::string& l : stray) call += " stray:" + l;
                if (!h.e.io.warn.str().empty()) {
                    std::fprintf(stderr, "[warn] %s\n", h.e.io.warn.str().c_str());
                    call += " warn";
                    h.e.io.warn.str("");
                    h.e.io.warn.clear();
                }
                observe(h, call);
                std::fflush(stdout);
            }
            for (Host::Rec& r : h.recs) { delete r.ev; r.ev = nullptr; }
            h.e.director().Reset();
        }
        verif_watchdog_off();
        std::printf("end\n");
        std::fflush(stdout);
    });
}
