// C12 harness: drives the real SafePtr<T> / AbstractClass with the model's op sequences.
//   stdin : "case <id> <no> <nr>", ops "NO s|DO s|NR r <src>|AS r <src>|CL r|DR r", "end"
//   stdout: "case <id>", one "m <obs>" line per op, "end"
// obs word per reference slot: d (no reference) | n (null) | <objslot>:<IsLast> | x:<IsLast>
// Destroyed objects are destructed in place and their memory is never reused, so a
// dangling pointer cannot alias a newer object.
#include <morfuse/Common/SafePtr.h>
#include <morfuse/Common/AbstractClass.h>
#include "common.h"

#include <cstdio>
#include <cstdlib>
#include <iostream>
#include <new>
#include <sstream>
#include <string>
#include <vector>

using namespace mfuse;

struct Obj : public AbstractClass {
    int tag;
    Obj() : tag(0x0B1) {}
    ~Obj() { tag = 0xDEAD; }
};

using Ref = SafePtr<Obj>;

struct World {
    std::vector<Obj*> objs;
    std::vector<Ref*> refs;
};

static Obj* srcPtr(World& w, std::istringstream& is)
{
    std::string k;
    is >> k;
    if (k == "O") {
        size_t s; is >> s;
        return s < w.objs.size() ? w.objs[s] : nullptr;
    }
    if (k == "R") {
        size_t r; is >> r;
        return (r < w.refs.size() && w.refs[r]) ? w.refs[r]->Pointer() : nullptr;
    }
    return nullptr;
}

static void observe(World& w)
{
    std::string out = "m";
    for (Ref* r : w.refs) {
        if (!r) { out += " d"; continue; }
        Obj* p = r->Pointer();
        if (!p) {
            out += r->Valid() ? " n!" : " n";
            continue;
        }
        int slot = -1;
        for (size_t i = 0; i < w.objs.size(); ++i) if (w.objs[i] == p) slot = (int)i;
        out += " ";
        out += slot >= 0 ? std::to_string(slot) : std::string("x");
        out += r->IsLastReference() ? ":1" : ":0";
        if (!r->Valid()) out += "!";
    }
    std::printf("%s\n", out.c_str());
}

static void runCase(const std::string& id, size_t no, size_t nr, const std::vector<std::string>& ops)
{
    World w;
    w.objs.assign(no, nullptr);
    w.refs.assign(nr, nullptr);
    std::printf("case %s\n", id.c_str());
    std::fflush(stdout);
    verif_case_watchdog(ops.size());
    for (const std::string& line : ops) {
        std::istringstream is(line);
        std::string c; size_t a = 0;
        is >> c >> a;
        if (c == "NO") {
            if (a < no && !w.objs[a]) w.objs[a] = new (std::malloc(sizeof(Obj))) Obj();
        } else if (c == "DO") {
            if (a < no && w.objs[a]) { w.objs[a]->~Obj(); w.objs[a] = nullptr; }
        } else if (c == "NR") {
            if (a < nr && !w.refs[a]) {
                std::streampos pos = is.tellg();
                std::string k; is >> k; is.seekg(pos);
                if (k == "N") w.refs[a] = new Ref();
                else if (k == "O") w.refs[a] = new Ref(srcPtr(w, is));
                else {
                    size_t r2; std::string kk; is >> kk >> r2;
                    if (r2 < nr && w.refs[r2]) w.refs[a] = new Ref(*w.refs[r2]);   // copy constructor
                    else w.refs[a] = new Ref((Obj*)nullptr);
                }
            }
        } else if (c == "AS") {
            if (a < nr && w.refs[a]) {
                std::streampos pos = is.tellg();
                std::string k; is >> k; is.seekg(pos);
                if (k == "R") {
                    size_t r2; std::string kk; is >> kk >> r2;
                    if (r2 < nr && w.refs[r2]) *w.refs[a] = *w.refs[r2];       // operator=(const SafePtr&)
                    else *w.refs[a] = (Obj*)nullptr;
                } else {
                    *w.refs[a] = srcPtr(w, is);                                  // operator=(T*)
                }
            }
        } else if (c == "CL") {
            if (a < nr && w.refs[a]) w.refs[a]->Clear();
        } else if (c == "DR") {
            if (a < nr && w.refs[a]) { delete w.refs[a]; w.refs[a] = nullptr; }
        }
        observe(w);
        std::fflush(stdout);
    }
    for (Ref*& r : w.refs) { delete r; r = nullptr; }
    for (Obj*& o : w.objs) { if (o) { o->~Obj(); o = nullptr; } }
    verif_watchdog_off();
    std::printf("end\n");
    std::fflush(stdout);
}

int main()
{
    std::string line, id;
    size_t no = 0, nr = 0;
    std::vector<std::string> ops;
    bool in = false;
    auto flush = [&]() { if (in) runCase(id, no, nr, ops); in = false; ops.clear(); };
    while (std::getline(std::cin, line)) {
        if (line.rfind("case ", 0) == 0) {
            flush();
            std::istringstream is(line.substr(5));
            is >> id >> no >> nr;
            in = true;
        } else if (line == "end") flush();
        else if (!line.empty()) ops.push_back(line);
    }
    flush();
    return 0;
}
