// C12 harness: drives the real SafePtr<T> / AbstractClass with the model's op sequences.
//   stdin : "case <id> <no> <nr>", ops "NO s|DO s|NR r <src>|AS r <src>|CL r|DR r", "end"
//   stdout: "case <id>", one "m <obs>" line per op, "end"
// obs word per reference slot: d (no reference) | n (null) | <objslot>:<IsLast> | x:<IsLast>
// Destroyed objects are destructed in place and their memory is never reused, so a
// dangling pointer cannot alias a newer object.
#include <morfuse/Common/SafePtr.h>
#include <morfuse/Common/AbstractClass.h>
#include "common.h"

#include <cstdio>
#include <cstdlib>
#include <iostream>
#include <new>
#include <sstream>
#include <string>
#include <vector>

using namespace mfuse;

struct Obj1 : public AbstractClass {
    int tag;
    Obj1() : tag(0x0B1) {}
    ~Obj1() { tag = 0xDEAD; }
};

// second object layout (cases whose id starts with 'L'): AbstractClass is NOT the first base,
// so the conversion from the object pointer to its AbstractClass part adjusts the address
struct Tag2 { virtual ~Tag2() {} long id = 0x7A67; };
struct Obj2 : public Tag2, public AbstractClass {
    int tag;
    Obj2() : tag(0x0B2) {}
    ~Obj2() { tag = 0xDEAD; }
};

template<typename Obj>
struct World {
    using Ref = SafePtr<Obj>;
    std::vector<Obj*> objs;
    std::vector<Ref*> refs;
};

template<typename Obj>
static Obj* srcPtr(World<Obj>& w, std::istringstream& is)
{
    std::string k;
    is >> k;
    if (k == "O") {
        size_t s; is >> s;
        return s < w.objs.size() ? w.objs[s] : nullptr;
    }
    if (k == "R") {
        size_t r; is >> r;
        return (r < w.refs.size() && w.refs[r]) ? w.refs[r]->Pointer() : nullptr;
    }
    return nullptr;
}

template<typename Obj>
static void observe(World<Obj>& w)
{
    using Ref = SafePtr<Obj>;
    std::string out = "m";
    for (Ref* r : w.refs) {
        if (!r) { out += " d"; continue; }
        Obj* p = r->Pointer();
        if (!p) {
            out += r->Valid() ? " n!" : " n";
            continue;
        }
        int slot = -1;
        for (size_t i = 0; i < w.objs.size(); ++i) if (w.objs[i] == p) slot = (int)i;
        out += " ";
        out += slot >= 0 ? std::to_string(slot) : std::string("x");
        out += r->IsLastReference() ? ":1" : ":0";
        if (!r->Valid()) out += "!";
    }
    // an object whose own fields were overwritten by list bookkeeping
    for (Obj* o : w.objs) if (o && o->tag != 0x0B1 && o->tag != 0x0B2) out += " !objfield";
    std::printf("%s\n", out.c_str());
}

template<typename Obj>
static void runCaseT(const std::string& id, size_t no, size_t nr, const std::vector<std::string>& ops)
{
    using Ref = SafePtr<Obj>;
    World<Obj> w;
    w.objs.assign(no, nullptr);
    w.refs.assign(nr, nullptr);
    std::printf("case %s\n", id.c_str());
    std::fflush(stdout);
    verif_case_watchdog(ops.size());
    for (const std::string& line : ops) {
        std::istringstream is(line);
        std::string c; size_t a = 0;
        is >> c >> a;
        if (c == "NO") {
            if (a < no && !w.objs[a]) w.objs[a] = new (std::malloc(sizeof(Obj))) Obj();
        } else if (c == "DO") {
            if (a < no && w.objs[a]) { w.objs[a]->~Obj(); w.objs[a] = nullptr; }
        } else if (c == "NR") {
            if (a < nr && !w.refs[a]) {
                std::streampos pos = is.tellg();
                std::string k; is >> k; is.seekg(pos);
                if (k == "N") w.refs[a] = new Ref();
                else if (k == "O") w.refs[a] = new Ref(srcPtr(w, is));
                else {
                    size_t r2; std::string kk; is >> kk >> r2;
                    if (r2 < nr && w.refs[r2]) w.refs[a] = new Ref(*w.refs[r2]);   // copy constructor
                    else w.refs[a] = new Ref((Obj*)nullptr);
                }
            }
        } else if (c == "AS") {
            if (a < nr && w.refs[a]) {
                std::streampos pos = is.tellg();
                std::string k; is >> k; is.seekg(pos);
                if (k == "R") {
                    size_t r2; std::string kk; is >> kk >> r2;
                    if (r2 < nr && w.refs[r2]) *w.refs[a] = *w.refs[r2];       // operator=(const SafePtr&)
                    else *w.refs[a] = (Obj*)nullptr;
                } else {
                    *w.refs[a] = srcPtr(w, is);                                  // operator=(T*)
                }
            }
        } else if (c == "CL") {
            if (a < nr && w.refs[a]) w.refs[a]->Clear();
        } else if (c == "DR") {
            if (a < nr && w.refs[a]) { delete w.refs[a]; w.refs[a] = nullptr; }
        }
        observe(w);
        std::fflush(stdout);
    }
    for (Ref*& r : w.refs) { delete r; r = nullptr; }
    for (Obj*& o : w.objs) { if (o) { o->~Obj(); o = nullptr; } }
    verif_watchdog_off();
    std::printf("end\n");
    std::fflush(stdout);
}

static void runCase(const std::string& id, size_t no, size_t nr, const std::vector<std::string>& ops)
{
    if (!id.empty() && id[0] == 'L') runCaseT<Obj2>(id, no, nr, ops);
    else runCaseT<Obj1>(id, no, nr, ops);
}

int main()
{
    std::string line, id;
    size_t no = 0, nr = 0;
    std::vector<std::string> ops;
    bool in = false;
    auto flush = [&]() { if (in) runCase(id, no, nr, ops); in = false; ops.clear(); };
    while (std::getline(std::cin, line)) {
        if (line.rfind("case ", 0) == 0) {
            flush();
            std::istringstream is(line.substr(5));
            is >> id >> no >> nr;
            in = true;
        } else if (line == "end") flush();
        else if (!line.empty()) ops.push_back(line);
    }
    flush();
    return 0;
}
