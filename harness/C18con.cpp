// C18con harness: drives the real con::Container<Elem, ProxyAlloc> with the model's op sequences.
//   stdin : "case <id> <nslots>", ops (see ocaml/C18con_driver.ml), "end"
//   stdout: "case <id>", one "m r=<ret> s0=[..] .. live=<n> bad=<n> cap=<c0>,.." line per op, "end"
// Elem counts constructions/destructions (live = constructions - destructions), marks
// itself on destruction and counts every operation applied to storage that does not hold a
// live Elem (bad).  Raw heap memory is filled by ASan (malloc_fill_byte), so it never looks live.
//
// Allocator: MEM::DefaultAlloc behind a thin wrapper whose Alloc() result converts to any
// object pointer.  Container::InsertObjectAt assigns the result of Alloc() to a Type* without
// a cast, so with an allocator returning void* (MEM::DefaultAlloc itself) InsertObjectAt does
// not compile at all; the wrapper makes the rest of that function testable.
#include <morfuse/Container/Container.h>
#include <morfuse/Container/ContainerView.h>
#include "common.h"

#include <cstdio>
#include <cstdlib>
#include <iostream>
#include <new>
#include <sstream>
#include <string>
#include <vector>

using namespace mfuse;

extern "C" const char* __asan_default_options()
{
    // fill every malloc'ed block completely (default: first 4096 bytes only)
    return "max_malloc_fill_size=1073741824:malloc_fill_byte=190";
}

static long g_ctor = 0, g_dtor = 0, g_bad = 0;

static const unsigned ALIVE = 0xA11FE5EDu;
static const unsigned DEAD = 0xDEADDEADu;
static const int POISON = -99;
static const int MOVED = -7;

struct Elem {
    int v;
    unsigned magic;

    Elem() : v(0), magic(ALIVE) { ++g_ctor; }
    explicit Elem(int x) : v(x), magic(ALIVE) { ++g_ctor; }
    Elem(const Elem& o) : v(o.read()), magic(ALIVE) { ++g_ctor; }
    Elem(Elem&& o) noexcept : v(o.take()), magic(ALIVE) { ++g_ctor; }
    ~Elem()
    {
        if (magic != ALIVE) ++g_bad;
        ++g_dtor;
        magic = DEAD;
        v = POISON;
    }
    Elem& operator=(const Elem& o)
    {
        const int x = o.read();
        if (magic != ALIVE) { ++g_bad; return *this; }
        v = x;
        return *this;
    }
    Elem& operator=(Elem&& o) noexcept
    {
        const int x = o.take();
        if (magic != ALIVE) { ++g_bad; return *this; }
        v = x;
        return *this;
    }
    int read() const
    {
        if (magic != ALIVE) { ++g_bad; return POISON; }
        return v;
    }
    int take()
    {
        if (magic != ALIVE) { ++g_bad; return POISON; }
        const int x = v;
        v = MOVED;
        return x;
    }
    int peek() const { return magic == ALIVE ? v : POISON; }
    bool operator==(const Elem& o) const
    {
        const int a = read();
        const int b = o.read();
        return a == b;
    }
};

struct AnyPtr {
    void* p;
    template<class T> operator T*() const { return static_cast<T*>(p); }
};

struct ProxyAlloc : public MEM::DefaultAlloc {
    AnyPtr Alloc(size_t n) { return AnyPtr{ MEM::DefaultAlloc::Alloc(n) }; }
};

using Cont = con::Container<Elem, ProxyAlloc>;

static int cmpElem(const void* a, const void* b)
{
    const int x = static_cast<const Elem*>(a)->peek();
    const int y = static_cast<const Elem*>(b)->peek();
    return x < y ? -1 : (x > y ? 1 : 0);
}

struct World {
    std::vector<Cont*> slots;     // always constructed; storage from malloc, never moved
};

static std::string g_direct;      // harness-level cross-checks that failed (part of the line)

static void observe(World& w, const std::string& ret)
{
    std::string out = "m r=" + ret;
    std::string caps;
    for (size_t s = 0; s < w.slots.size(); ++s) {
        Cont& c = *w.slots[s];
        out += " s" + std::to_string(s) + "=[";
        const size_t n = c.NumObjects();
        for (size_t i = 1; i <= n; ++i) {
            if (i > 1) out += ",";
            out += std::to_string(c.ObjectAt(i).peek());
        }
        out += "]";
        // the other read paths must agree with ObjectAt
        if (c.size() != n) g_direct += " size()!=NumObjects()";
        if ((size_t)(c.end() - c.begin()) != n) g_direct += " end()-begin()!=NumObjects()";
        con::ContainerView<Elem> view(c.Data(), n);
        if (view.NumObjects() != n) g_direct += " view.NumObjects()!=NumObjects()";
        size_t k = 0;
        for (const Elem& e : const_cast<const Cont&>(c)) {
            ++k;
            if (&e != &c.ObjectAt(k) || &e != &c[k - 1] || &e != &view.ObjectAt(k) || &e != &view[k - 1] || &e != &c.at(k - 1))
                g_direct += " iteration/operator[]/view disagree with ObjectAt at " + std::to_string(k);
        }
        if (k != n) g_direct += " iteration visits " + std::to_string(k) + " of " + std::to_string(n);
        if (s) caps += ",";
        caps += std::to_string(c.MaxObjects());
    }
    out += " live=" + std::to_string(g_ctor - g_dtor) + " bad=" + std::to_string(g_bad) + " cap=" + caps;
    if (!g_direct.empty()) out += " !" + g_direct;
    std::printf("%s\n", out.c_str());
    std::fflush(stdout);
}

static void runCase(const std::string& id, size_t ns, const std::vector<std::string>& ops)
{
    g_ctor = g_dtor = g_bad = 0;
    g_direct.clear();
    World w;
    for (size_t i = 0; i < ns; ++i) w.slots.push_back(new (std::malloc(sizeof(Cont))) Cont());
    std::printf("case %s\n", id.c_str());
    std::fflush(stdout);
    verif_case_watchdog(ops.size());
    for (const std::string& line : ops) {
        std::istringstream is(line);
        std::string c;
        size_t s = 0;
        is >> c >> s;
        std::string ret = "-";
        long a1 = 0, a2 = 0;
        is >> a1 >> a2;
        // two-slot operations: a1 = t
        const bool two = (c == "CC" || c == "MC" || c == "CA" || c == "MA");
        if (s >= ns || (two && (size_t)a1 >= ns)) {
            ret = "pre";
        } else {
            Cont& x = *w.slots[s];
            if (c == "AD") {
                const Elem e((int)a1);
                ret = "v" + std::to_string(x.AddObject(e));
            } else if (c == "AF") {
                ret = "v" + std::to_string(x.AddObject());
            } else if (c == "AN") {
                Elem* p = new (x) Elem((int)a1);
                ret = "v" + std::to_string((p - x.Data()) + 1);
            } else if (c == "AU") {
                const Elem e((int)a1);
                ret = "v" + std::to_string(x.AddUniqueObject(e));
            } else if (c == "AA") {
                if (a1 == 0) ret = "pre";
                else { const Elem e((int)a2); x.AddObjectAt((size_t)a1, e); }
            } else if (c == "IA") {
                const Elem e((int)a2);
                x.InsertObjectAt((size_t)a1, e);
            } else if (c == "SA") {
                if (a1 == 0 || (size_t)a1 > x.NumObjects()) ret = "pre";
                else { const Elem e((int)a2); x.SetObjectAt((size_t)a1, e); }
            } else if (c == "RA") {
                try { x.RemoveObjectAt((uintptr_t)a1); }
                catch (const con::OutOfRangeContainerException& ex) { ret = "e" + std::to_string(ex.getBadIndex()); }
            } else if (c == "RO") {
                const Elem e((int)a1);
                try { x.RemoveObject(e); }
                catch (const con::OutOfRangeContainerException& ex) { ret = "e" + std::to_string(ex.getBadIndex()); }
            } else if (c == "RP") {
                if ((size_t)a1 > x.NumObjects()) ret = "pre";
                else {
                    const Elem* p = x.Data() + a1;
                    try { x.RemoveObject(p); }
                    catch (const con::OutOfRangeContainerException& ex) { ret = "e" + std::to_string(ex.getBadIndex()); }
                }
            } else if (c == "OA") {
                if (a1 == 0 || (size_t)a1 > x.NumObjects()) ret = "pre";
                else ret = "v" + std::to_string(x.ObjectAt((size_t)a1).peek());
            } else if (c == "IO") {
                const Elem e((int)a1);
                ret = "v" + std::to_string(x.IndexOfObject(e));
            } else if (c == "IL") {
                const Elem e((int)a1);
                ret = x.ObjectInList(e) ? "v1" : "v0";
            } else if (c == "RS") {
                x.Resize((size_t)a1);
            } else if (c == "SN") {
                x.SetNumObjects((size_t)a1);
            } else if (c == "SU") {
                const size_t old = x.NumObjects(), n = (size_t)a1;
                for (size_t i = n + 1; i <= old; ++i) x.AddressOfObjectAt(i)->~Elem();
                x.SetNumObjectsUninitialized(n);
                for (size_t i = old + 1; i <= n; ++i) new (x.AddressOfObjectAt(i)) Elem((int)a2);
            } else if (c == "SH") {
                x.Shrink();
            } else if (c == "CL") {
                x.ClearObjectList();
            } else if (c == "FR") {
                x.FreeObjectList();
            } else if (c == "SO") {
                x.Sort(cmpElem);
            } else if (c == "CT") {
                x.~Cont();
                new (&x) Cont();
            } else if (c == "CN") {
                x.~Cont();
                new (&x) Cont((size_t)a1);
            } else if (c == "CC") {
                if (s == (size_t)a1) ret = "pre";
                else { x.~Cont(); new (&x) Cont(const_cast<const Cont&>(*w.slots[a1])); }
            } else if (c == "MC") {
                if (s == (size_t)a1) ret = "pre";
                else { x.~Cont(); new (&x) Cont(std::move(*w.slots[a1])); }
            } else if (c == "CA") {
                x = const_cast<const Cont&>(*w.slots[a1]);
            } else if (c == "MA") {
                x = std::move(*w.slots[a1]);
            } else {
                ret = "?";
            }
        }
        observe(w, ret);
    }
    for (Cont* c : w.slots) { c->~Cont(); std::free(c); }
    verif_watchdog_off();
    std::printf("end\n");
    std::fflush(stdout);
}

int main()
{
    std::string line, id;
    size_t ns = 0;
    std::vector<std::string> ops;
    bool in = false;
    auto flush = [&]() { if (in) runCase(id, ns, ops); in = false; ops.clear(); };
    while (std::getline(std::cin, line)) {
        if (line.rfind("case ", 0) == 0) {
            flush();
            std::istringstream is(line.substr(5));
            is >> id >> ns;
            in = true;
        } else if (line == "end") flush();
        else if (!line.empty()) ops.push_back(line);
    }
    flush();
    return 0;
}
