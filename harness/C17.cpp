// C17 harness: drives the real mfuse::StringDictionary (and, in master mode, the dictionary of a
// real ScriptContext/ScriptMaster with its predefined strings) with the model's op sequences.
//
//   C17 dump   : prints the engine's PredefinedString list as the running code has it:
//                "n <GetNumStrings()>", then per list element in list order
//                "p <GetIndex()> x<hex of GetString()> <Hash<str> of it, hex>"
//   C17 hash   : stdin lines "x<hex>" -> stdout lines "<Hash<str>()(str(text)) as uint64, hex>"
//   C17        : stdin "case <id> dict" | "case <id> master x<hex>:<hash>,x<hex>:<hash>,..."
//                (master: the predefined list python got from `dump`; checked against the
//                running code), ops, "end"
//     ops : add x<hex> <hash> [<how> [x<suffix> [x<junk>]]]     intern the text; <how> says how the text is
//                                handed to StringDictionary::Add(strview) (the model's op is the same for all):
//             exact  (default)   non-owning strview(ptr, len), the buffer is exactly the text + NUL
//             prefix             non-owning strview(ptr, len), the buffer is text + suffix + NUL: the view is a
//                                proper prefix of a longer NUL-terminated buffer (with an empty text: the empty
//                                view of a non-empty buffer)
//             mid                non-owning strview(ptr + |junk|, len) into the buffer junk + text + suffix + NUL
//             cstr               Add(const rawchar_t*): implicit strview(ptr), the length is taken up to the NUL
//             own                owning view: strview(const str&) built explicitly
//             str                Add(const str&): the str converts implicitly to an owning view
//           addd x<hex> <hash>   = add .. own
//           get x<hex> <hash> [<how> [x<junk>]]      Get(const rawchar_t*) (the only lookup by text);
//             cstr (default) the pointer is a buffer holding exactly the text; str: the c_str() of a str;
//             mid: a pointer into the middle of the buffer junk + text + NUL
//           txt <id>             Get(const_str)  - precondition 1 <= id <= size, otherwise the
//                                op is NOT executed, "m undef" is printed and the case ends
//           pre <n>              AllocateMoreString(n) - precondition size + n <= 89834777
//           reset                dict: StringDictionary::Reset(); master: ScriptMaster::Reset()
//     stdout: "case <id>", "m init | <size>", "d <allocated> i", then per op
//             "m <res> | <size>" (res: i<id> | t x<hex> | u) and "d <allocated> <a|g|t|p|r>",
//             then "x ..." (coverage measured on the real object), "end"
// <hash> on an op is the hash value the model uses for that text; the harness recomputes it with
// the real Hash<str> and marks a difference ("!hash").
// Checks made by the harness itself on the real object against its own shadow (std::map text ->
// id, std::vector id -> text), marked "!" in the m line and reported as direct violations:
//   !sameid / !newid  Add returned another id than the text already has / than size+1
//   !lookup           Get(text) is not the shadow id (0 when never interned since the last reset)
//   !text             Get(id) is not the text that got this id
//   !size             size() is not the number of distinct texts
//   !audit(..)        full sweep (every shadow text: Get(text) == id and Get(id) == text) after every
//                     op while size <= 64, before every reset and at the end of the case
//   !predef(..)       master mode, after construction and after every Reset: predefined string
//                     number k of the list has GetIndex() == k, Get(its text) == k, Get(k) == its text
//   !predef-list      the running code's predefined list differs from the case header
#include <morfuse/Common/StringDictionary.h>
#include <morfuse/Script/PredefinedString.h>
#include "engine.h"

#include <cstring>
#include <map>
#include <memory>
#include <string>
#include <unordered_map>
#include <vector>

using namespace mfuse;

// ---- access to the private arrayset of StringDictionary (size(), allocated()): an explicit
// instantiation may name a private member
using DictSet = con::arrayset<str, str, Hash<str>, EqualTo<str>, MEM::DefaultAlloc_set>;
struct DictTag {
    typedef DictSet StringDictionary::* type;
    friend type robGet(DictTag);
};
template<typename Tag, typename Tag::type M>
struct Rob {
    friend typename Tag::type robGet(Tag) { return M; }
};
template struct Rob<DictTag, &StringDictionary::stringDict>;
static const DictSet& setOf(const StringDictionary& d) { return d.*robGet(DictTag()); }

static const size_t MAX_LEN = 89834777;

static std::string hexOf(const char* p, size_t n)
{
    static const char* dg = "0123456789abcdef";
    std::string s = "x";
    for (size_t i = 0; i < n; ++i) {
        const unsigned char c = (unsigned char)p[i];
        s += dg[c >> 4];
        s += dg[c & 15];
    }
    return s;
}

static bool unhex(const std::string& w, std::string& out)
{
    out.clear();
    if (w.empty() || w[0] != 'x' || (w.size() % 2) != 1) return false;
    auto v = [](char c) -> int {
        if (c >= '0' && c <= '9') return c - '0';
        if (c >= 'a' && c <= 'f') return c - 'a' + 10;
        return -1;
    };
    for (size_t i = 1; i + 1 < w.size(); i += 2) {
        const int a = v(w[i]), b = v(w[i + 1]);
        if (a < 0 || b < 0) return false;
        out += (char)(a * 16 + b);
    }
    return true;
}

static std::string hex64(uint64_t h)
{
    char buf[32];
    std::snprintf(buf, sizeof buf, "%llx", (unsigned long long)h);
    return buf;
}

static uint64_t realHash(const std::string& t)
{
    return (uint64_t)Hash<str>()(str(t.c_str(), t.size()));
}

struct Pre {
    uint32_t index;
    std::string text;
};

static std::vector<Pre> predefinedList()
{
    std::vector<Pre> v;
    for (PredefinedString::List::iterator it = PredefinedString::GetList(); it; it = it.Next()) {
        v.push_back(Pre{ (uint32_t)it->GetIndex(), std::string(it->GetString()) });
    }
    return v;
}

struct Shadow {
    std::map<std::string, uint32_t> ids;
    std::vector<std::string> texts;     // texts[id - 1]
    void clear() { ids.clear(); texts.clear(); }
};

// coverage measured on the real object
struct Cover {
    std::vector<uint64_t> hashes;                    // of the present entries
    std::unordered_map<uint64_t, unsigned> bucket;   // hash % allocated -> entries
    std::unordered_map<uint64_t, unsigned> full;     // full hash -> entries
    size_t alloc = 1;
    size_t collided = 0, fullCollided = 0, maxChain = 0, maxSize = 0, grownAtThreshold = 0;
    std::string growth;
    void rebuild(size_t a)
    {
        alloc = a;
        bucket.clear();
        for (uint64_t h : hashes) {
            const unsigned c = ++bucket[h % alloc];
            if (c > maxChain) maxChain = c;
        }
    }
    void clear(size_t a) { hashes.clear(); full.clear(); rebuild(a); }
    void added(uint64_t h)
    {
        if (bucket[h % alloc] > 0) ++collided;
        if (full[h] > 0) ++fullCollided;
        hashes.push_back(h);
        ++full[h];
        const unsigned c = ++bucket[h % alloc];
        if (c > maxChain) maxChain = c;
        if (hashes.size() > maxSize) maxSize = hashes.size();
    }
};

static std::string audit(const StringDictionary& d, const Shadow& sh)
{
    const DictSet& set = setOf(d);
    if (set.size() != sh.texts.size()) return " !audit(size)";
    for (size_t i = 0; i < sh.texts.size(); ++i) {
        const std::string& t = sh.texts[i];
        const uint32_t id = (uint32_t)d.Get(t.c_str());
        if (id != i + 1) return " !audit(get " + hexOf(t.data(), t.size()) + " = " + std::to_string(id) + ", interned as " + std::to_string(i + 1) + ")";
        const str& back = d.Get(const_str((uint32_t)(i + 1)));
        if (back.length() != t.size() || std::memcmp(back.c_str(), t.data(), t.size()) != 0)
            return " !audit(text of id " + std::to_string(i + 1) + ")";
    }
    return "";
}

static std::string predefCheck(const StringDictionary& d, const std::vector<Pre>& pre)
{
    for (size_t k = 0; k < pre.size(); ++k) {
        if (pre[k].index != k + 1) return " !predef(index of list element " + std::to_string(k + 1) + " is " + std::to_string(pre[k].index) + ")";
        const uint32_t id = (uint32_t)d.Get(pre[k].text.c_str());
        if (id != k + 1) return " !predef(get of predefined " + std::to_string(k + 1) + " = " + std::to_string(id) + ")";
        const str& back = d.Get(const_str((uint32_t)(k + 1)));
        if (pre[k].text != std::string(back.c_str(), back.length())) return " !predef(text of id " + std::to_string(k + 1) + ")";
    }
    return "";
}

static void seedShadow(Shadow& sh, const std::vector<Pre>& pre)
{
    sh.clear();
    for (const Pre& p : pre) {
        if (!sh.ids.count(p.text)) {
            sh.ids[p.text] = (uint32_t)sh.texts.size() + 1;
            sh.texts.push_back(p.text);
        }
    }
}

static void runCase(const std::string& id, const std::string& header, const std::vector<std::string>& ops)
{
    std::printf("case %s\n", id.c_str());
    std::fflush(stdout);
    verif_case_watchdog(ops.size(), 10, 300);

    std::istringstream hs(header);
    std::string mode, plist;
    hs >> mode >> plist;
    const bool master = mode == "master";

    std::unique_ptr<vh::Engine> eng;
    std::unique_ptr<StringDictionary> own;
    StringDictionary* dict;
    std::vector<Pre> pre;
    std::string initMarks;
    if (master) {
        eng.reset(new vh::Engine());
        dict = &eng->director().GetDictionary();
        pre = predefinedList();
        // the header's list must be the list of the running code
        std::string mine;
        for (const Pre& p : pre) {
            if (!mine.empty()) mine += ",";
            mine += hexOf(p.text.data(), p.text.size()) + ":" + hex64(realHash(p.text));
        }
        if (mine != plist) initMarks += " !predef-list";
        if (PredefinedString::GetNumStrings() != pre.size()) initMarks += " !predef(GetNumStrings)";
    } else {
        own.reset(new StringDictionary());
        dict = own.get();
    }
    const DictSet& set = setOf(*dict);

    Shadow sh;
    Cover cov;
    seedShadow(sh, pre);
    cov.clear(set.allocated());
    for (const std::string& t : sh.texts) cov.added(realHash(t));
    initMarks += predefCheck(*dict, pre);
    initMarks += audit(*dict, sh);
    std::printf("m init | %zu%s\n", set.size(), initMarks.c_str());
    std::printf("d %zu i\n", set.allocated());
    std::fflush(stdout);

    for (const std::string& line : ops) {
        std::istringstream is(line);
        std::string c, a1, a2;
        is >> c >> a1 >> a2;
        std::string res, marks;
        char cls = '?';
        bool undef = false;
        const size_t allocBefore = set.allocated();
        const size_t sizeBefore = set.size();
        if (c == "add" || c == "addd" || c == "get") {
            std::string t;
            if (!unhex(a1, t)) marks += " !badhex";
            if (t.find('\0') != std::string::npos) marks += " !nul";
            const uint64_t h = realHash(t);
            if (hex64(h) != a2) marks += " !hash(real " + hex64(h) + ")";
            std::string how, w3, w4, suffix, junk;
            is >> how >> w3 >> w4;
            if (c == "addd") how = "own";
            if (c == "get") {
                cls = 'g';
                if (how.empty()) how = "cstr";
                if (!w3.empty() && !unhex(w3, junk)) marks += " !badhex";
                uint32_t got;
                if (how == "str") {
                    const str holder(t.c_str(), t.size());
                    got = (uint32_t)dict->Get(holder.c_str());
                } else if (how == "mid") {
                    const std::string buf = junk + t;
                    got = (uint32_t)dict->Get(buf.c_str() + junk.size());
                } else {
                    if (how != "cstr") marks += " !badhow";
                    got = (uint32_t)dict->Get(t.c_str());
                }
                res = "i" + std::to_string(got);
                auto it = sh.ids.find(t);
                if (got != (it == sh.ids.end() ? 0u : it->second)) marks += " !lookup";
            } else {
                cls = 'a';
                uint32_t got;
                if (how.empty()) how = "exact";
                if (!w3.empty() && !unhex(w3, suffix)) marks += " !badhex";
                if (!w4.empty() && !unhex(w4, junk)) marks += " !badhex";
                if (suffix.find('\0') != std::string::npos || junk.find('\0') != std::string::npos) marks += " !nul";
                if (how == "own") {
                    const str dyn(t.c_str(), t.size());
                    got = (uint32_t)dict->Add(strview(dyn));
                } else if (how == "str") {
                    const str dyn(t.c_str(), t.size());
                    got = (uint32_t)dict->Add(dyn);
                } else if (how == "cstr") {
                    got = (uint32_t)dict->Add(t.c_str());
                } else if (how == "prefix") {
                    const std::string buf = t + suffix;
                    got = (uint32_t)dict->Add(strview(buf.c_str(), t.size()));
                } else if (how == "mid") {
                    const std::string buf = junk + t + suffix;
                    got = (uint32_t)dict->Add(strview(buf.c_str() + junk.size(), t.size()));
                } else {
                    if (how != "exact") marks += " !badhow";
                    got = (uint32_t)dict->Add(strview(t.c_str(), t.size()));
                }
                res = "i" + std::to_string(got);
                auto it = sh.ids.find(t);
                if (it != sh.ids.end()) {
                    if (got != it->second) marks += " !sameid";
                } else {
                    if (got != sh.texts.size() + 1) marks += " !newid";
                    sh.ids[t] = (uint32_t)sh.texts.size() + 1;
                    sh.texts.push_back(t);
                    if (set.allocated() != allocBefore) {
                        cov.growth += (cov.growth.empty() ? "" : ",") + std::to_string(allocBefore) + ">" + std::to_string(set.allocated());
                        if (sizeBefore == allocBefore) ++cov.grownAtThreshold;
                        cov.rebuild(set.allocated());
                    }
                    cov.added(h);
                }
            }
        } else if (c == "txt") {
            cls = 't';
            const long long i = std::atoll(a1.c_str());
            if (i < 1 || (unsigned long long)i > set.size()) undef = true;
            else {
                const str& r = dict->Get(const_str((uint32_t)i));
                res = "t " + hexOf(r.c_str(), r.length());
                if ((size_t)i > sh.texts.size() || sh.texts[i - 1] != std::string(r.c_str(), r.length())) marks += " !text";
            }
        } else if (c == "pre") {
            cls = 'p';
            const unsigned long long n = std::strtoull(a1.c_str(), nullptr, 10);
            if (set.size() + n > MAX_LEN) undef = true;
            else {
                dict->AllocateMoreString((size_t)n);
                res = "u";
                if (set.allocated() != allocBefore) cov.rebuild(set.allocated());
            }
        } else if (c == "reset") {
            cls = 'r';
            marks += audit(*dict, sh);
            if (master) eng->director().Reset();
            else dict->Reset();
            res = "u";
            seedShadow(sh, pre);
            cov.clear(set.allocated());
            for (const std::string& t : sh.texts) cov.added(realHash(t));
            marks += predefCheck(*dict, pre);
        } else {
            res = "?";
        }
        if (undef) {
            std::printf("m undef\n");
            std::fflush(stdout);
            break;
        }
        if (set.size() != sh.texts.size()) marks += " !size";
        if (sh.texts.size() <= 64 && (cls == 'a' || cls == 'p' || cls == 'r')) marks += audit(*dict, sh);
        std::printf("m %s | %zu%s\n", res.c_str(), set.size(), marks.c_str());
        std::printf("d %zu %c\n", set.allocated(), cls);
        std::fflush(stdout);
    }
    {
        const std::string fin = audit(*dict, sh) + (master ? predefCheck(*dict, pre) : std::string());
        if (!fin.empty()) std::printf("m%s\n", fin.c_str());
    }
    std::printf("x growth=%s atthreshold=%zu collided=%zu fullcollided=%zu maxchain=%zu maxsize=%zu\n",
                cov.growth.c_str(), cov.grownAtThreshold, cov.collided, cov.fullCollided, cov.maxChain, cov.maxSize);
    eng.reset();
    own.reset();
    verif_watchdog_off();
    std::printf("end\n");
    std::fflush(stdout);
}

int main(int argc, char** argv)
{
    const std::string mode = argc > 1 ? argv[1] : "";
    if (mode == "dump") {
        const std::vector<Pre> pre = predefinedList();
        std::printf("n %zu\n", PredefinedString::GetNumStrings());
        for (const Pre& p : pre) {
            std::printf("p %u %s %s\n", p.index, hexOf(p.text.data(), p.text.size()).c_str(), hex64(realHash(p.text)).c_str());
        }
        std::fflush(stdout);
        std::_Exit(0);
    }
    if (mode == "hash") {
        std::string line, t;
        while (std::getline(std::cin, line)) {
            if (!unhex(line, t)) { std::printf("bad\n"); continue; }
            std::printf("%s\n", hex64(realHash(t)).c_str());
        }
        std::fflush(stdout);
        std::_Exit(0);
    }
    return vh::caseLoop(runCase);
}
