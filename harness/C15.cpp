// C15 harness: target names on the real engine.  One engine per case; objects are instances
// of a host class Ent (derived from SimpleEntity) numbered in spawn order; every `$name`
// expression, command and field assignment runs as a script; values are reported to the host
// through a command of a host listener (`level.probe report <expr>`).
//   a target t is  n<name 0..5>  (`$a`..`$d`, 5 = `$("")`)  or  c<slot>  (`level.c<slot>`)
//   ops:  S n | s n                 spawn by host API | by script; n = 0: no targetname
//         N k n | n k n | e k n     SetTargetName of object k: host | `level.o<k> targetname "x"` | `level.o<k>.targetname = "x"`
//         R k | r k | d k           destroy: host delete | `level.o<k> remove` | `level.o<k> delete`
//         Q t | Z t | I t i         report t | t.size | t[i]
//         C t T n | C t R | C t M | C t K j     t targetname "x" | t remove | t mark | t kill j
//         F t [G]                   t.tag = <fresh value>; reports who has it afterwards (ascending)
//         F t T n | F t U j | F t Z j     t.targetname = "x" | t.fuse = j | t.zap = j   (fuse, zap: host setters that log the
//                                   receiver; fuse raises a script error when the receiver is j, zap deletes object j)
//         K j n                     level.c<j> = $n
//         X <script, `|` = newline>     (corpus/probing only; reports nothing but warnings and the table)
//   out:  m <val> w=<warning classes|-> log=<receivers|-> t=<a>/<b>/<c>/<d>/<"">/<live objects in no list>
#include "engine.h"
#include <morfuse/Script/SimpleEntity.h>
#include <morfuse/Script/Level.h>
#include <morfuse/Script/TargetList.h>
#include <morfuse/Script/ScriptVariable.h>
#include <algorithm>
#include <cstdio>
#include <map>
using namespace mfuse;

static std::vector<int> g_log;            // receivers of mark / kill, in order
static std::string g_val;                 // the value reported by the script
static int g_nextId = 1;

class Ent;
static std::map<int, Ent*> g_live;        // id -> live object

class Ent : public SimpleEntity {
public:
    MFUS_CLASS_PROTOTYPE(Ent);
public:
    int id;
    Ent() { id = g_nextId++; g_live[id] = this; }
    ~Ent() { g_live.erase(id); }
    void Mark(Event&) { g_log.push_back(id); }
    void Fuse(Event& ev)
    {
        const int j = ev.GetInteger(1);
        g_log.push_back(id);
        if (j == id) throw ScriptException("blown fuse");
    }
    void Zap(Event& ev) { Kill(ev); }
    void Kill(Event& ev)
    {
        const int j = ev.GetInteger(1);
        g_log.push_back(id);
        auto it = g_live.find(j);
        if (it != g_live.end()) delete it->second;
    }
};

static std::string idOf(Listener* l)
{
    if (!l) return "0";
    for (auto& p : g_live) if (static_cast<Listener*>(p.second) == l) return std::to_string(p.first);
    return "?";      // a listener that is not one of ours
}

class Probe : public Listener {
public:
    MFUS_CLASS_PROTOTYPE(Probe);
public:
    void Report(Event& ev)
    {
        if (ev.NumArgs() < 1) { g_val = "noarg"; return; }
        ScriptVariable& v = ev.GetValue(1);
        switch (v.GetType()) {
        case variableType_e::None: g_val = "nil"; break;
        case variableType_e::Listener: {
            Listener* l = v.listenerValue();
            g_val = l ? "obj:" + idOf(l) : std::string("null");
            break;
        }
        case variableType_e::Integer: g_val = "int:" + std::to_string(v.intValue()); break;
        case variableType_e::Container:
        case variableType_e::SafeContainer:
        case variableType_e::ConstArray: {
            const size_t n = v.arraysize();
            g_val = "grp:";
            for (size_t k = 1; k <= n; ++k) {
                if (k > 1) g_val += ",";
                g_val += idOf(v.listenerAt(k));
            }
            break;
        }
        default: g_val = std::string("type:") + v.GetTypeName(); break;
        }
    }
};

EventDef evMark("mark", 0, nullptr, nullptr, "verification: log the receiver");
EventDef evKill("kill", 0, "i", "id", "verification: log the receiver and delete object id");
EventDef evFuse("fuse", 0, "i", "id", "verification: setter that logs the receiver and fails for object id", evType_e::Setter);
EventDef evZap("zap", 0, "i", "id", "verification: setter that logs the receiver and deletes object id", evType_e::Setter);
EventDef evReport("report", 0, nullptr, nullptr, "verification: report a value to the host");

MFUS_CLASS_DECLARATION(SimpleEntity, Ent, nullptr)
{
    { &evMark, &Ent::Mark },
    { &evKill, &Ent::Kill },
    { &evFuse, &Ent::Fuse },
    { &evZap, &Ent::Zap },
    { nullptr, nullptr }
};
MFUS_CLASS_DECLARATION(Listener, Probe, nullptr)
{
    { &evReport, &Probe::Report },
    { nullptr, nullptr }
};

static const char* const NAMES[6] = { nullptr, "a", "b", "c", "d", "" };

static std::string quoted(int n) { return std::string("\"") + NAMES[n] + "\""; }

// script text of a target
static std::string targetExpr(const std::string& t)
{
    const int v = std::atoi(t.c_str() + 1);
    if (t[0] == 'c') return "level.c" + std::to_string(v);
    if (v >= 1 && v <= 4) return std::string("$") + NAMES[v];
    if (v == 5) return "$(\"\")";
    return "$zz";     // name 0 is never listed: some name nobody bears
}

static std::string warnClasses(const std::string& w)
{
    // one class per "Script Warning" line
    std::string out;
    size_t pos = 0;
    static const char key[] = "Script Warning : ";
    while ((pos = w.find(key, pos)) != std::string::npos) {
        pos += sizeof(key) - 1;
        const size_t e = w.find('\n', pos);
        const std::string msg = w.substr(pos, e == std::string::npos ? std::string::npos : e - pos);
        const char* c = "Other";
        if (msg.find("Can't find target name") != std::string::npos) c = "NoTarget";
        else if (msg.find("applied to NULL listener") != std::string::npos) c = "Null";
        else if (msg.find("Cannot cast") != std::string::npos) c = "Cast";
        else if (msg.find("out of range") != std::string::npos) c = "Range";
        else if (msg.find("blown fuse") != std::string::npos) c = "Fail";
        else std::fprintf(stderr, "unclassified warning: %s\n", msg.c_str());
        if (!out.empty()) out += ",";
        out += c;
    }
    return out.empty() ? "-" : out;
}

struct Case {
    vh::Engine e;
    int nscript = 0;
    int fresh = 1000;

    std::string take(std::ostringstream& s) { std::string r = s.str(); s.str(""); s.clear(); return r; }

    void runScript(const std::string& body)
    {
        const std::string src = "main:\n" + body + "\nend\n";
        const ProgramScript* scr = e.compile("q" + std::to_string(nscript++), src);
        if (scr) e.director().ExecuteThread(scr);
        else g_val = "compile-error";
    }

    void setLevel(const std::string& name, Listener* l) { e.ctx->GetLevel()->Vars()->SetVariable(name.c_str(), l); }

    std::string table()
    {
        TargetList& tl = e.ctx->GetTargetList();
        std::string out;
        std::vector<int> listed;
        for (int n = 1; n <= 5; ++n) {
            const const_str cs = e.director().GetDictionary().Add(NAMES[n]);
            const ConTarget* l = tl.GetExistingConstTargetList(cs);
            if (l) {
                if (l->NumObjects() == 0) out += "EMPTY-ENTRY";
                for (uintptr_t i = 1; i <= l->NumObjects(); ++i) {
                    if (i > 1) out += ",";
                    Listener* p = l->ObjectAt(i);
                    out += idOf(p);
                    if (p) listed.push_back(std::atoi(idOf(p).c_str()));
                }
            }
            out += "/";
        }
        bool first = true;
        for (auto& p : g_live) {
            if (std::find(listed.begin(), listed.end(), p.first) != listed.end()) continue;
            if (!first) out += ",";
            out += std::to_string(p.first);
            first = false;
        }
        return out;
    }
};

int main()
{
    vh::globalStreamsToStderr();
    return vh::caseLoop([](const std::string& id, const std::string&, const std::vector<std::string>& ops) {
        Case c;
        g_nextId = 1;
        g_live.clear();
        Probe* probe = new Probe;
        c.setLevel("probe", probe);
        c.runScript("level.c1 = NULL\nlevel.c2 = NULL\nlevel.c3 = NULL");
        c.take(c.e.io.warn);
        std::printf("case %s\n", id.c_str());
        std::fflush(stdout);
        verif_case_watchdog(ops.size());
        for (const std::string& line : ops) {
            std::istringstream is(line);
            std::string o, t;
            is >> o;
            g_log.clear();
            g_val = "-";
            bool sortLog = false;
            if (o == "S" || o == "s") {
                int n; is >> n;
                const int k = g_nextId;
                if (o == "S") {
                    Ent* ent = new Ent;
                    if (n != 0) ent->GetTargetComponent().SetTargetName(StringResolvable(NAMES[n]));
                    c.setLevel("o" + std::to_string(k), ent);
                } else {
                    c.runScript("level.o" + std::to_string(k) + " = spawn Ent" + (n != 0 ? " targetname " + quoted(n) : std::string()));
                }
            } else if (o == "N" || o == "n" || o == "e") {
                int k, n; is >> k >> n;
                auto it = g_live.find(k);
                if (it == g_live.end()) g_val = "dead";
                else if (o == "N") it->second->GetTargetComponent().SetTargetName(n ? StringResolvable(NAMES[n]) : StringResolvable());
                else if (o == "n") c.runScript("level.o" + std::to_string(k) + " targetname " + quoted(n ? n : 5));
                else c.runScript("level.o" + std::to_string(k) + ".targetname = " + quoted(n ? n : 5));
            } else if (o == "R" || o == "r" || o == "d") {
                int k; is >> k;
                auto it = g_live.find(k);
                if (it == g_live.end()) g_val = "dead";
                else if (o == "R") delete it->second;
                else c.runScript("level.o" + std::to_string(k) + (o == "r" ? " remove" : " delete"));
            } else if (o == "Q") { is >> t; c.runScript("level.probe report " + targetExpr(t)); }
            else if (o == "Z") { is >> t; c.runScript("level.probe report " + targetExpr(t) + ".size"); }
            else if (o == "I") { int i; is >> t >> i; c.runScript("level.probe report " + targetExpr(t) + "[" + std::to_string(i) + "]"); }
            else if (o == "C") {
                std::string k; is >> t >> k;
                std::string cmd;
                if (k == "T") { int n; is >> n; cmd = "targetname " + quoted(n ? n : 5); }
                else if (k == "R") cmd = "remove";
                else if (k == "M") cmd = "mark";
                else { int j; is >> j; cmd = "kill " + std::to_string(j); }
                c.runScript(targetExpr(t) + " " + cmd);
            } else if (o == "F") {
                std::string k;
                is >> t >> k;
                if (k.empty() || k == "G") {
                    const int v = c.fresh++;
                    c.runScript(targetExpr(t) + ".tag = " + std::to_string(v));
                    for (auto& p : g_live) {
                        ScriptVariableList* vars = p.second->Vars();
                        const ScriptVariable* tv = vars ? vars->GetVariable(str("tag")) : nullptr;
                        if (tv && tv->GetType() == variableType_e::Integer && tv->intValue() == v) g_log.push_back(p.first);
                    }
                    sortLog = true;
                } else if (k == "T") { int n; is >> n; c.runScript(targetExpr(t) + ".targetname = " + quoted(n ? n : 5)); }
                else { int j; is >> j; c.runScript(targetExpr(t) + (k == "U" ? ".fuse = " : ".zap = ") + std::to_string(j)); }
            } else if (o == "K") {
                int j, n; is >> j >> n;
                c.runScript("level.c" + std::to_string(j) + " = " + targetExpr("n" + std::to_string(n)));
            } else if (o == "X") {
                std::string body;
                std::getline(is, body);
                for (char& ch : body) if (ch == '|') ch = '\n';
                c.runScript(body);
            }
            if (sortLog) std::sort(g_log.begin(), g_log.end());
            std::string lg;
            for (int x : g_log) { if (!lg.empty()) lg += ","; lg += std::to_string(x); }
            if (lg.empty()) lg = "-";
            const std::string w = warnClasses(c.take(c.e.io.warn));
            const std::string err = c.take(c.e.io.err);
            if (!err.empty()) std::fprintf(stderr, "error stream: %s\n", err.c_str());
            c.take(c.e.io.dbg);
            c.take(c.e.io.out);
            std::printf("m %s w=%s log=%s t=%s\n", g_val.c_str(), w.c_str(), lg.c_str(), c.table().c_str());
            std::fflush(stdout);
        }
        // tear down: delete the objects while the context exists
        while (!g_live.empty()) delete g_live.begin()->second;
        delete probe;
        c.e.director().Reset();
        verif_watchdog_off();
        std::printf("end\n");
        std::fflush(stdout);
    });
}
