// runscript: compile the script given on stdin, start it, run <frames> frames (clock +1 ms
// each), print what it printed and the diagnostics.  A development probe, not a check.
//   usage: runscript [frames] [nowarn] [nodbg]
#include "engine.h"
#include <iterator>
int main(int argc, char** argv)
{
    int frames = argc > 1 ? std::atoi(argv[1]) : 3;
    bool warn = true, dbg = true;
    for (int i = 2; i < argc; ++i) { if (std::string(argv[i]) == "nowarn") warn = false; if (std::string(argv[i]) == "nodbg") dbg = false; }
    std::string src((std::istreambuf_iterator<char>(std::cin)), std::istreambuf_iterator<char>());
    vh::globalStreamsToStderr();
    vh::Engine e(warn, true, dbg, true);
    try {
        const mfuse::ProgramScript* scr = e.compile("probe", src);
        if (!scr) { std::printf("compile: null\n"); }
        else {
            e.director().ExecuteThread(scr);
            for (int f = 0; f < frames; ++f) { vh::g_clock += 1; e.ctx->Execute(); }
        }
    } catch (std::exception& ex) { std::printf("exception: %s\n", ex.what()); }
    catch (...) { std::printf("exception: unknown type\n"); }
    for (const std::string& l : e.takeOutput()) std::printf("out: %s\n", l.c_str());
    std::printf("warn: %s\nerr: %s\nidle=%d\n", e.io.warn.str().c_str(), e.io.err.str().c_str(), e.ctx->IsIdle() ? 1 : 0);
    std::fflush(stdout);
    std::_Exit(0);
}
