// C07 harness: waittill / notify / endon / delete / waitthread on the real engine under the
// injected clock.
//   ops:  S <instr>*   start a thread (host ExecuteThread of a fresh script) running the program
//           instr: p<m> | r | w<ms> | t<o><n> (waittill) | y<o><n>+ (waittill_any) | n<o><n> (notify)
//                | u<o><ms><n> (waittill_timeout) | v<o><ms><n>+ (waittill_any_timeout)
//                | e<o><n> (endon) | d<o> (delete) | s<o> (level.o<o> = spawn Listener)
//                | th[ <instr>* ] (thread) | wt[ <instr>* ] (local.r = waitthread) | end | end<v>
//                | wg[ <instr>* | <instr>* .. ] (waitthread applied to a group of fresh Listeners, receiver k runs program k)
//         T <dt>       advance the clock
//         X            ScriptContext::Execute()
//   out:  m <prints|-> idle=<0|1> ns=<scripts> nt=<threads> tm=<0|1> sz=<RegisterSize a,b,c of o0,o1,o2>
// Every nested program is a label of the same script; a thread takes its number from the
// counter level.ntid when it starts (threads start running when they are created, so this is
// the creation order the model uses).
#include "engine.h"
#include <cstdio>
using namespace mfuse;

struct Gen {
    std::vector<std::string> labels;   // finished label bodies
    int next = 0;
    std::string term;                  // the token that ended the last body: "]" or "|" or ""

    // the statements of the program that starts at toks[pos]; advances pos past its "]" / "|"
    std::string body(const std::vector<std::string>& toks, size_t& pos)
    {
        std::string src;
        char buf[96];
        term = "";
        while (pos < toks.size()) {
            const std::string w = toks[pos++];
            if (w == "]" || w == "|") { term = w; break; }
            if (w == "th[") { const std::string l = program(toks, pos, false); src += "thread " + l + "\n"; }
            else if (w == "wt[") { const std::string l = program(toks, pos, false); src += "local.r = waitthread " + l + "\n"; }
            else if (w == "wg[") {
                // one label for all receivers; receiver k (self.k) runs program k
                const std::string label = "L" + std::to_string(next++);
                std::string lab = label + ":\nlocal.id = level.ntid\nlevel.ntid = level.ntid + 1\n";
                std::string grp;
                int k = 0;
                do {
                    const std::string b = body(toks, pos);
                    lab += "if (self.k == " + std::to_string(k) + ") {\n" + b + "end\n}\n";
                    src += "local.g" + std::to_string(k) + " = spawn Listener\nlocal.g" + std::to_string(k) + ".k = " + std::to_string(k) + "\n";
                    grp += (k ? "::" : "") + std::string("local.g") + std::to_string(k);
                    ++k;
                } while (term == "|");
                lab += "end\n";
                labels.push_back(lab);
                if (k == 1) src += "local.g0 waitthread " + label + "\n";
                else src += "local.grp = " + grp + "\nlocal.grp waitthread " + label + "\n";
                term = "";
            }
            else if (w == "end") src += "end\n";
            else if (w.rfind("end", 0) == 0) src += "end " + w.substr(3) + "\n";
            else if (w == "r") src += "println (local.id + \":r\")\nprintln local.r\n";
            else if (w[0] == 'p') src += "println (local.id + \":" + w.substr(1) + "\")\n";
            else if (w[0] == 'w') { std::snprintf(buf, sizeof buf, "wait %.3f\n", std::stoi(w.substr(1)) / 1000.0); src += buf; }
            else if (w[0] == 't') src += std::string("level.o") + w[1] + " waittill \"" + w[2] + "\"\n";
            else if (w[0] == 'y') {
                if (w.size() > 2) {
                    src += std::string("level.o") + w[1] + " waittill_any";
                    for (size_t i = 2; i < w.size(); ++i) src += std::string(" \"") + w[i] + "\"";
                    src += "\n";
                }
            }
            else if (w[0] == 'u') {
                std::snprintf(buf, sizeof buf, "level.o%c waittill_timeout %.3f \"%c\"\n", w[1], (w[2] - '0') / 1000.0, w[3]);
                src += buf;
            }
            else if (w[0] == 'v') {
                std::snprintf(buf, sizeof buf, "level.o%c waittill_any_timeout %.3f", w[1], (w[2] - '0') / 1000.0);
                src += buf;
                for (size_t i = 3; i < w.size(); ++i) src += std::string(" \"") + w[i] + "\"";
                src += "\n";
            }
            else if (w[0] == 'n') src += std::string("level.o") + w[1] + " notify \"" + w[2] + "\"\n";
            else if (w[0] == 'e') src += std::string("level.o") + w[1] + " endon \"" + w[2] + "\"\n";
            else if (w[0] == 'd') src += std::string("level.o") + w[1] + " delete\n";
            else if (w[0] == 's') src += std::string("level.o") + w[1] + " = spawn Listener\n";
        }
        return src;
    }

    // returns the label name of the program that starts at toks[pos]; advances pos past its "]"
    std::string program(const std::vector<std::string>& toks, size_t& pos, bool top)
    {
        const std::string label = top ? "main" : "L" + std::to_string(next++);
        std::string src = label + ":\nlocal.id = level.ntid\nlevel.ntid = level.ntid + 1\n";
        src += body(toks, pos);
        src += "end\n";
        labels.push_back(src);
        return label;
    }
};

static std::string script(const std::string& line)
{
    std::istringstream is(line);
    std::vector<std::string> toks;
    std::string w;
    is >> w;   // "S"
    while (is >> w) toks.push_back(w);
    Gen g;
    size_t pos = 0;
    g.program(toks, pos, true);
    std::string src;
    // main first (the script starts at its beginning), then the nested labels
    src += g.labels.back();
    for (size_t i = 0; i + 1 < g.labels.size(); ++i) src += g.labels[i];
    return src;
}

static void observe(vh::Engine& e)
{
    std::string d;
    const std::vector<std::string> out = e.takeOutput();
    for (size_t i = 0; i < out.size(); ++i) {
        std::string l = out[i];
        if (l.size() > 2 && l.compare(l.size() - 2, 2, ":r") == 0 && i + 1 < out.size()) {
            const std::string v = out[++i];
            if (v == "NIL") l += "=nil";
            else if (v.find("pointer") != std::string::npos) l += "=ptr";
            else l += "=" + v;
        }
        if (!d.empty()) d += ",";
        d += l;
    }
    if (d.empty()) d = "-";
    std::string sz;
    ScriptVariableList* vars = e.ctx->GetLevel()->Vars();
    StringDictionary& dict = e.director().GetDictionary();
    static const char* const names[3] = { "a", "b", "c" };
    for (int o = 0; o < 3; ++o) {
        const std::string vn = "o" + std::to_string(o);
        ScriptVariable* v = vars ? vars->GetVariable(str(vn.c_str())) : nullptr;
        Listener* l = (v && v->GetType() == variableType_e::Listener) ? v->listenerValue() : nullptr;
        for (int n = 0; n < 3; ++n) {
            if (!sz.empty()) sz += ",";
            sz += std::to_string(l ? l->RegisterSize(dict.Add(names[n])) : 0);
        }
    }
    std::printf("m %s idle=%d ns=%zu nt=%zu tm=%d sz=%s\n", d.c_str(), e.ctx->IsIdle() ? 1 : 0,
                e.director().GetNumRunningScripts(), e.ctx->GetAllocator().ScriptThread_allocator.Count(),
                e.director().GetTimerList().HasAnyElement() ? 1 : 0, sz.c_str());
}

int main()
{
    vh::globalStreamsToStderr();
    return vh::caseLoop([](const std::string& id, const std::string&, const std::vector<std::string>& ops) {
        vh::Engine e;
        std::printf("case %s\n", id.c_str());
        std::fflush(stdout);
        verif_case_watchdog(ops.size(), 20);   // generous: the machine is shared, a real hang is still caught
        {
            const ProgramScript* init = e.compile("init", "main:\nlevel.ntid = 0\nend\n");
            if (init) e.director().ExecuteThread(init);
            e.takeOutput();
        }
        int nscr = 0;
        for (const std::string& line : ops) {
            if (line[0] == 'S') {
                const std::string src = script(line);
                const ProgramScript* scr = e.compile("s" + std::to_string(nscr++), src);
                if (scr) e.director().ExecuteThread(scr);
                else std::fprintf(stderr, "compile failed:\n%s\n", src.c_str());
            } else if (line[0] == 'T') { vh::g_clock += std::stoll(line.substr(2)); }
            else if (line[0] == 'X') e.ctx->Execute();
            observe(e);
            std::fflush(stdout);
        }
        if (!e.io.err.str().empty()) std::fprintf(stderr, "script errors: %s\n", e.io.err.str().c_str());
        e.director().Reset();
        verif_watchdog_off();
        std::printf("end\n");
        std::fflush(stdout);
    });
}
