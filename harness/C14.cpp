// C14 harness: runaway / over-deep scripts on the real engine.
//   case <id> <prot> <warn> <err> <dbg> <limit> <nest> <step> [<x>]   x: bit 0 = a Verbose stream is attached,
//                     bit 1 = the Output stream is NOT attached (println markers are then not observable: out=~)
//   ops:  S <stmt>*   host ExecuteThread of a fresh script; stmt: k<n> n plain instructions |
//                     p<m> println | w<ms> wait | f `error "f"` (script warning) | a `error "f" 1`
//                     (script abort) | c( <stmt>* ) `thread label` | l<kind> endless loop
//                     (0 while, 1 for, 2 do-while, 3 goto self, 4 goto cycle, 5 while with body)
//                     | r endless mutual thread recursion
//         T <dt>      advance the clock
//         X           ScriptContext::Execute()
//         R           ScriptMaster::Reset()
//   The injected clock advances by <step> ms on EVERY reading (time = clock readings).
//   out:  m <outcome> dt=<ms consumed> curnull=<CurrentThread()==null> depth0=<GetStackDepth()==0>
//           out=<println markers|-> waiting=<timer has elements> w=<warnings> e=<error-stream
//           positions> d=<debug-stream deadline extensions> n=<instructions executed>
#include "engine.h"
#include <morfuse/Script/ScriptVM.h>
#include <morfuse/Script/ScriptException.h>
#include <cstdio>
using namespace mfuse;

static int64_t g_step = 0;
static int64_t stepClock() { vh::g_clock += g_step; return vh::g_clock; }
static long g_instr = 0;
static void stepHook(const void*, size_t, size_t, size_t) { ++g_instr; }

struct Gen {
    int labels = 0;
    std::string subs;
    std::vector<std::string> toks;
    size_t pos = 0;

    static std::string work(int n)
    {
        std::string s;
        if (n % 2) { s += "do { break } while (0)\n"; --n; }      // one JUMP
        for (; n > 0; n -= 2) s += "local.w = 1\n";                // STORE_INT1 + store to the local
        return s;
    }
    // statements up to ")" or the end; appends the `end`
    std::string seq()
    {
        std::string b;
        char buf[96];
        while (pos < toks.size()) {
            const std::string t = toks[pos++];
            if (t == ")") break;
            if (t == "c(") {
                const std::string name = "s" + std::to_string(labels++);
                const std::string body = seq();
                subs += name + ":\n" + body;
                b += "thread " + name + "\n";
            } else if (t == "r") {
                const std::string n = std::to_string(labels++);
                subs += "ra" + n + ":\nthread rb" + n + "\nend\n";
                subs += "rb" + n + ":\nthread ra" + n + "\nend\n";
                b += "thread ra" + n + "\n";
            } else if (t == "f") b += "error \"f\"\n";
            else if (t == "a") b += "error \"f\" 1\n";
            else if (t[0] == 'k') b += work(std::stoi(t.substr(1)));
            else if (t[0] == 'p') b += "println \"" + t.substr(1) + "\"\n";
            else if (t[0] == 'w') { std::snprintf(buf, sizeof buf, "wait %.3f\n", std::stoi(t.substr(1)) / 1000.0); b += buf; }
            else if (t[0] == 'l') {
                const std::string n = std::to_string(labels++);
                switch (std::stoi(t.substr(1))) {
                case 0: b += "while (1) {}\n"; break;
                case 1: b += "for (local.i = 0; 1; local.i++) {}\n"; break;
                case 2: b += "do {} while (1)\n"; break;
                case 3: b += "g" + n + ":\ngoto g" + n + "\n"; break;
                case 4: b += "g" + n + ":\ngoto h" + n + "\nh" + n + ":\ngoto g" + n + "\n"; break;
                default: b += "while (1) { local.w = 1 }\n"; break;
                }
            } else { std::fprintf(stderr, "bad statement %s\n", t.c_str()); std::exit(3); }
        }
        return b + "end\n";
    }
};

static size_t countSub(const std::string& s, const std::string& pat)
{
    size_t n = 0;
    for (size_t p = s.find(pat); p != std::string::npos; p = s.find(pat, p + pat.size())) ++n;
    return n;
}
// one source position = a caret line, or the "file '..', source pos" fallback
static size_t countPositions(const std::string& s)
{
    size_t n = 0;
    std::istringstream is(s);
    std::string l;
    while (std::getline(is, l)) {
        size_t a = l.find_first_not_of(' ');
        if (a != std::string::npos && l.substr(a) == "^") ++n;
        else if (l.rfind("file '", 0) == 0) ++n;
    }
    return n;
}
static void clearStream(std::ostringstream& o) { o.str(""); o.clear(); }

int main()
{
    vh::globalStreamsToStderr();
    mfuse::verif::clockHook = &stepClock;
    mfuse::verif::vmStepHook = &stepHook;
    return vh::caseLoop([](const std::string& id, const std::string& header, const std::vector<std::string>& ops) {
        int prot = 0, warn = 1, err = 1, dbg = 1, limit = 0, nest = 20, step = 1, x = 0;
        { std::istringstream hs(header); hs >> prot >> warn >> err >> dbg >> limit >> nest >> step; if (!(hs >> x)) x = 0; }
        g_step = 0;
        vh::Engine e(warn != 0, err != 0, dbg != 0, (x & 2) == 0);
        std::ostringstream verb;
        if (x & 1) e.ctx->GetOutputInfo().SetOutputStream(outputLevel_e::Verbose, &verb);
        e.director().GetThreadExecutionProtection().SetLoopProtection(prot != 0);
        e.director().GetThreadExecutionProtection().SetMaxExecutionTime((uinttime_t)limit);
        ScriptExecutionStack::SetMaxStackDepth((size_t)nest);
        int nextScript = 0;
        std::printf("case %s\n", id.c_str());
        std::fflush(stdout);
        verif_case_watchdog(ops.size(), 5);
        for (const std::string& line : ops) {
            std::istringstream is(line);
            std::string c;
            is >> c;
            const int64_t c0 = vh::g_clock;
            const long i0 = g_instr;
            clearStream(e.io.warn); clearStream(e.io.err); clearStream(e.io.dbg);
            const char* oc = "returned";
            std::string other;
            const ProgramScript* scr = nullptr;
            if (c == "S") {
                Gen g;
                std::string w;
                while (is >> w) g.toks.push_back(w);
                const std::string body = g.seq();
                scr = e.compile("t" + std::to_string(nextScript++), "main:\n" + body + g.subs);
                if (!scr) oc = "compile-error";
            }
            g_step = step;
            try {
                if (c == "S") { if (scr) e.director().ExecuteThread(scr); }
                else if (c == "T") { long long d; is >> d; vh::g_clock += d; }
                else if (c == "X") e.ctx->Execute();
                else if (c == "R") e.director().Reset();
            }
            catch (ScriptVMErrors::CommandOverflow&) { oc = "overflow"; }
            catch (ScriptVMErrors::MaxStackDepth&) { oc = "maxdepth"; }
            catch (ScriptAbortException&) { oc = "abort"; }
            catch (std::exception& ex) { other = std::string("other:") + ex.what(); for (char& ch : other) if (ch == ' ' || ch == '\n') ch = '_'; oc = other.c_str(); }
            catch (...) { oc = "unknown-exception"; }
            g_step = 0;
            std::string d;
            for (const std::string& l : e.takeOutput()) { if (!d.empty()) d += ","; d += l; }
            if (d.empty()) d = "-";
            if (x & 2) d = "~";
            clearStream(verb);
            std::printf("m %s dt=%lld curnull=%d depth0=%d out=%s waiting=%d w=%zu e=%zu d=%zu n=%ld\n", oc,
                        (long long)(vh::g_clock - c0), e.director().CurrentThread() == nullptr ? 1 : 0,
                        ScriptExecutionStack::GetStackDepth() == 0 ? 1 : 0, d.c_str(),
                        e.director().GetTimerList().HasAnyElement() ? 1 : 0,
                        countSub(e.io.warn.str(), "Script Warning"), countPositions(e.io.err.str()),
                        countSub(e.io.dbg.str(), "Update of script position"), g_instr - i0);
            std::fflush(stdout);
        }
        e.director().Reset();
        verif_watchdog_off();
        std::printf("end\n");
        std::fflush(stdout);
    });
}
