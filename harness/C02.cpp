// C02 harness: emitted bytecode is well-formed and keeps the operand stack disciplined.
//
//   C02 optable        print the opcode table of the running binary (enumerator, table name,
//                      OpcodeLength, OpcodeVarStackOffset, IsExternalOpcode for 0..OP_PREVIOUS-1; the
//                      table has no entry for OP_PREVIOUS), the operand sizes the VM reads and the
//                      numbers of the events that move the code position / end the thread.
//   C02 [frames]       stdin: cases  `case <id> [norun]` / `|<source line>`* / `end`.
//                      Compiles the script with the REAL compiler; when accepted dumps
//                        m prog <len> <requiredStackSize> <nstrings> <nevnames> <nevents>
//                        m code <hex>
//                        m labels <off,...>                  (labels of the script's StateScript, public and private)
//                        m switch <address> <off,...>        (one per switch StateScript, in creation order)
//                        m catch <trystart> <tryend> <off,...>
//                      then runs it (ExecuteThread from offset 0, <frames> frames, clock +10 ms each) with the
//                      H4 probes and prints the distinct (offset, stack index, marked) triples of every executed
//                      instruction (index -1 = the top pointer is outside the thread's stack, which
//                      OP_STORE_PARAM does on purpose) and the stack index at every VM end:
//                        m run steps=<n> warnings=<n> ends=<n> abort=<text|->
//                        m t <off>:<idx>:<marked> ...
//                        m e <idx> ...
#include <algorithm>
#include <array>
#include <atomic>
#include <cassert>
#include <cfloat>
#include <charconv>
#include <chrono>
#include <climits>
#include <cmath>
#include <condition_variable>
#include <cstdarg>
#include <cstddef>
#include <cstdint>
#include <cstdio>
#include <cstdlib>
#include <cstring>
#include <exception>
#include <fstream>
#include <functional>
#include <iomanip>
#include <ios>
#include <iostream>
#include <istream>
#include <limits>
#include <list>
#include <map>
#include <memory>
#include <mutex>
#include <new>
#include <ostream>
#include <set>
#include <shared_mutex>
#include <sstream>
#include <stdexcept>
#include <streambuf>
#include <string>
#include <thread>
#include <tuple>
#include <type_traits>
#include <typeinfo>
#include <unordered_map>
#include <utility>
#include <vector>
#define private public
#define protected public
#include "engine.h"
#include <morfuse/Script/ProgramScript.h>
#include <morfuse/Script/StateScript.h>
#include <morfuse/Script/ScriptOpcodes.h>
#include <morfuse/Script/ScriptVM.h>
#include <morfuse/Script/ScriptClass.h>
#include <morfuse/Script/SimpleEntity.h>
#include <morfuse/Script/ScriptException.h>
#include <morfuse/Common/StringDictionary.h>
#include <morfuse/Common/short3.h>
#include <morfuse/Common/Vector.h>
#undef private
#undef protected
using namespace mfuse;

// a host class whose fields and commands fail in every way a field opcode can see:
//   c02bad   getter that throws            c02ro    getter only (assignment: read-only)
//   c02wo    setter only (read: write-only) c02bads  working getter, setter that throws
//   c02fail  command that throws           c02failret  value-returning command that throws
//   c02ok    getter + setter that work
//   c02maybe getter + setter; the setter throws when the instance was armed with `c02arm = 1`
//            (stores through a group of hosts fail at a chosen member)
// It derives from SimpleEntity so that several instances can bear one targetname ($name = a group).
static EventDef ev_c02_bad_g("c02bad", EV_DEFAULT, nullptr, nullptr, "getter that throws", evType_e::Getter);
static EventDef ev_c02_ro_g("c02ro", EV_DEFAULT, nullptr, nullptr, "read-only field", evType_e::Getter);
static EventDef ev_c02_wo_s("c02wo", EV_DEFAULT, "i", "value", "write-only field", evType_e::Setter);
static EventDef ev_c02_bads_g("c02bads", EV_DEFAULT, nullptr, nullptr, "getter", evType_e::Getter);
static EventDef ev_c02_bads_s("c02bads", EV_DEFAULT, "i", "value", "setter that throws", evType_e::Setter);
static EventDef ev_c02_ok_g("c02ok", EV_DEFAULT, nullptr, nullptr, "getter", evType_e::Getter);
static EventDef ev_c02_ok_s("c02ok", EV_DEFAULT, "i", "value", "setter", evType_e::Setter);
static EventDef ev_c02_maybe_g("c02maybe", EV_DEFAULT, nullptr, nullptr, "getter", evType_e::Getter);
static EventDef ev_c02_maybe_s("c02maybe", EV_DEFAULT, "i", "value", "setter that throws when armed", evType_e::Setter);
static EventDef ev_c02_arm_g("c02arm", EV_DEFAULT, nullptr, nullptr, "getter", evType_e::Getter);
static EventDef ev_c02_arm_s("c02arm", EV_DEFAULT, "i", "value", "arms c02maybe", evType_e::Setter);
static EventDef ev_c02_fail("c02fail", EV_DEFAULT, nullptr, nullptr, "command that throws", evType_e::Normal);
static EventDef ev_c02_failret("c02failret", EV_DEFAULT, nullptr, nullptr, "returning command that throws", evType_e::Return);

class C02Host : public SimpleEntity
{
    MFUS_CLASS_PROTOTYPE(C02Host);
public:
    bool armed = false;
    void Throw(Event&) { throw ScriptException("c02 host failure"); }
    void Get(Event& ev) { ev.AddInteger(7); }
    void Set(Event&) {}
    void Arm(Event& ev) { armed = ev.GetInteger(1) != 0; }
    void Maybe(Event&) { if (armed) throw ScriptException("c02 armed member"); }
};

MFUS_CLASS_DECLARATION(SimpleEntity, C02Host, nullptr)
{
    { &ev_c02_maybe_g, &C02Host::Get },
    { &ev_c02_maybe_s, &C02Host::Maybe },
    { &ev_c02_arm_g, &C02Host::Get },
    { &ev_c02_arm_s, &C02Host::Arm },
    { &ev_c02_bad_g, &C02Host::Throw },
    { &ev_c02_ro_g, &C02Host::Get },
    { &ev_c02_wo_s, &C02Host::Set },
    { &ev_c02_bads_g, &C02Host::Get },
    { &ev_c02_bads_s, &C02Host::Throw },
    { &ev_c02_ok_g, &C02Host::Get },
    { &ev_c02_ok_s, &C02Host::Set },
    { &ev_c02_fail, &C02Host::Throw },
    { &ev_c02_failret, &C02Host::Throw },
    { nullptr, nullptr }
};

#define C02_OPS(X) \
    X(OP_DONE) X(OP_BOOL_JUMP_FALSE4) X(OP_BOOL_JUMP_TRUE4) X(OP_VAR_JUMP_FALSE4) X(OP_VAR_JUMP_TRUE4) \
    X(OP_BOOL_LOGICAL_AND) X(OP_BOOL_LOGICAL_OR) X(OP_VAR_LOGICAL_AND) X(OP_VAR_LOGICAL_OR) X(OP_BOOL_TO_VAR) \
    X(OP_JUMP4) X(OP_JUMP_BACK4) X(OP_STORE_INT0) X(OP_STORE_INT1) X(OP_STORE_INT2) X(OP_STORE_INT3) X(OP_STORE_INT4) \
    X(OP_STORE_INT8) X(OP_BOOL_STORE_FALSE) X(OP_BOOL_STORE_TRUE) X(OP_STORE_STRING) X(OP_STORE_FLOAT) X(OP_STORE_VECTOR) \
    X(OP_CALC_VECTOR) X(OP_STORE_NULL) X(OP_STORE_NIL) X(OP_EXEC_CMD0) X(OP_EXEC_CMD1) X(OP_EXEC_CMD2) X(OP_EXEC_CMD3) \
    X(OP_EXEC_CMD4) X(OP_EXEC_CMD5) X(OP_EXEC_CMD_COUNT1) X(OP_EXEC_CMD_METHOD0) X(OP_EXEC_CMD_METHOD1) X(OP_EXEC_CMD_METHOD2) \
    X(OP_EXEC_CMD_METHOD3) X(OP_EXEC_CMD_METHOD4) X(OP_EXEC_CMD_METHOD5) X(OP_EXEC_CMD_METHOD_COUNT1) X(OP_EXEC_METHOD0) \
    X(OP_EXEC_METHOD1) X(OP_EXEC_METHOD2) X(OP_EXEC_METHOD3) X(OP_EXEC_METHOD4) X(OP_EXEC_METHOD5) X(OP_EXEC_METHOD_COUNT1) \
    X(OP_LOAD_GAME_VAR) X(OP_LOAD_LEVEL_VAR) X(OP_LOAD_LOCAL_VAR) X(OP_LOAD_PARM_VAR) X(OP_LOAD_SELF_VAR) X(OP_LOAD_GROUP_VAR) \
    X(OP_LOAD_OWNER_VAR) X(OP_LOAD_FIELD_VAR) X(OP_LOAD_ARRAY_VAR) X(OP_LOAD_CONST_ARRAY1) X(OP_STORE_FIELD_REF) \
    X(OP_STORE_ARRAY_REF) X(OP_MARK_STACK_POS) X(OP_STORE_PARAM) X(OP_RESTORE_STACK_POS) X(OP_LOAD_STORE_GAME_VAR) \
    X(OP_LOAD_STORE_LEVEL_VAR) X(OP_LOAD_STORE_LOCAL_VAR) X(OP_LOAD_STORE_PARM_VAR) X(OP_LOAD_STORE_SELF_VAR) \
    X(OP_LOAD_STORE_GROUP_VAR) X(OP_LOAD_STORE_OWNER_VAR) X(OP_STORE_GAME_VAR) X(OP_STORE_LEVEL_VAR) X(OP_STORE_LOCAL_VAR) \
    X(OP_STORE_PARM_VAR) X(OP_STORE_SELF_VAR) X(OP_STORE_GROUP_VAR) X(OP_STORE_OWNER_VAR) X(OP_STORE_FIELD) X(OP_STORE_ARRAY) \
    X(OP_STORE_GAME) X(OP_STORE_LEVEL) X(OP_STORE_LOCAL) X(OP_STORE_PARM) X(OP_STORE_SELF) X(OP_STORE_GROUP) X(OP_STORE_OWNER) \
    X(OP_BIN_BITWISE_AND) X(OP_BIN_BITWISE_OR) X(OP_BIN_BITWISE_EXCL_OR) X(OP_BIN_EQUALITY) X(OP_BIN_INEQUALITY) \
    X(OP_BIN_LESS_THAN) X(OP_BIN_GREATER_THAN) X(OP_BIN_LESS_THAN_OR_EQUAL) X(OP_BIN_GREATER_THAN_OR_EQUAL) X(OP_BIN_PLUS) \
    X(OP_BIN_MINUS) X(OP_BIN_MULTIPLY) X(OP_BIN_DIVIDE) X(OP_BIN_PERCENTAGE) X(OP_UN_MINUS) X(OP_UN_COMPLEMENT) \
    X(OP_UN_TARGETNAME) X(OP_BOOL_UN_NOT) X(OP_VAR_UN_NOT) X(OP_UN_CAST_BOOLEAN) X(OP_UN_INC) X(OP_UN_DEC) X(OP_UN_SIZE) \
    X(OP_SWITCH) X(OP_FUNC) X(OP_NOP) X(OP_BIN_SHIFT_LEFT) X(OP_BIN_SHIFT_RIGHT) X(OP_END) X(OP_RETURN) X(OP_PREVIOUS)

struct OpName { int value; const char* name; };
static const OpName kOps[] = {
#define X(n) { (int)n, #n },
    C02_OPS(X)
#undef X
};

// events that move the code position of the thread executing them or end it
static const char* const kControl[] = { "end", "goto", "throw", "delaythrow", "delete", "remove", "immediateremove",
                                        "killclass", "removeclass" };

static int optable()
{
    EventSystem::Get();
    vh::Engine e;
    const size_t n = sizeof(kOps) / sizeof(kOps[0]);
    bool okEnum = n == (size_t)OP_MAX;
    for (size_t i = 0; i < n; ++i) if (kOps[i].value != (int)i) okEnum = false;
    std::printf("enum %s %d %d\n", okEnum ? "ok" : "MISMATCH", (int)OP_MAX, (int)OP_PREVIOUS);
    const uint32_t probe = 0x01020304u;
    unsigned char pb[4];
    std::memcpy(pb, &probe, 4);
    std::printf("endian %s\n", pb[0] == 4 ? "little" : "big");
    std::printf("sizeof opval_t %zu\n", sizeof(opval_t));
    std::printf("sizeof op_offset_t %zu\n", sizeof(op_offset_t));
    std::printf("sizeof op_name_t %zu\n", sizeof(op_name_t));
    std::printf("sizeof op_evName_t %zu\n", sizeof(op_evName_t));
    std::printf("sizeof op_ev_t %zu\n", sizeof(op_ev_t));
    std::printf("sizeof op_parmNum_t %zu\n", sizeof(op_parmNum_t));
    std::printf("sizeof op_arrayParmNum_t %zu\n", sizeof(op_arrayParmNum_t));
    std::printf("sizeof bool %zu\n", sizeof(bool));
    std::printf("sizeof uint8_t %zu\n", sizeof(uint8_t));
    std::printf("sizeof uint16_t %zu\n", sizeof(uint16_t));
    std::printf("sizeof short3 %zu\n", sizeof(short3));
    std::printf("sizeof uint32_t %zu\n", sizeof(uint32_t));
    std::printf("sizeof uint64_t %zu\n", sizeof(uint64_t));
    std::printf("sizeof float %zu\n", sizeof(float));
    std::printf("sizeof Vector %zu\n", sizeof(Vector));
    std::printf("sizeof StateScriptPtr %zu\n", sizeof(StateScript*));
    if (okEnum) {
        for (int i = 0; i < (int)OP_PREVIOUS; ++i) {
            std::printf("op %d %s %s %zu %d %d\n", i, kOps[i].name, OpcodeName((opval_t)i), OpcodeLength((opval_t)i),
                        OpcodeVarStackOffset((opval_t)i), IsExternalOpcode((opval_t)i) ? 1 : 0);
        }
    }
    for (const char* c : kControl) {
        std::printf("control %s %u\n", c, (unsigned)EventSystem::Get().FindNormalEventNum(c));
    }
    std::fflush(stdout);
    std::_Exit(0);
    return 0;
}

struct Step { long off; long idx; int marked; bool operator<(const Step& o) const { return std::tie(off, idx, marked) < std::tie(o.off, o.idx, o.marked); } };
static std::set<Step> g_steps;
static std::vector<long> g_ends;
static size_t g_nsteps = 0;
static const ProgramScript* g_scr = nullptr;
static long g_foreignProgram = 0;
static long g_sizeMismatch = 0;

static void stepHook(const void* vmp, size_t codeOffset, size_t stackIndex, size_t stackSize)
{
    const ScriptVM* vm = static_cast<const ScriptVM*>(vmp);
    ++g_nsteps;
    if (!g_scr || vm->m_ScriptClass->GetScript() != g_scr) { ++g_foreignProgram; return; }
    if (stackSize != std::max<size_t>(1, g_scr->GetRequiredStackSize())) ++g_sizeMismatch;
    const ScriptStack& st = vm->m_Stack;
    const bool inside = st.pTop >= st.localStack && st.pTop < st.stackBottom;
    g_steps.insert(Step{ (long)codeOffset, inside ? (long)stackIndex : -1L, vm->m_bMarkStack ? 1 : 0 });
}

static void endHook(const void*, size_t stackIndex)
{
    g_ends.push_back((long)stackIndex);
}

template<typename SS>
static std::string labelOffsets(SS& ss, const opval_t* base)
{
    std::vector<long> offs;
    con::set_enum<const_str, script_label_t, Hash<const_str>, EqualTo<const_str>, MEM::ChildPreAllocator_set> en(ss.label_list);
    while (const auto* ent = en.NextElement()) offs.push_back((long)(ent->Value().codepos - base));
    std::sort(offs.begin(), offs.end());
    std::string s;
    for (long o : offs) { if (!s.empty()) s += ","; s += std::to_string(o); }
    return s.empty() ? "-" : s;
}

static size_t countWarnings(const std::string& w)
{
    size_t n = 0, p = 0;
    while ((p = w.find("Script Warning", p)) != std::string::npos) { ++n; p += 5; }
    return n;
}

int main(int argc, char** argv)
{
    vh::globalStreamsToStderr();
    if (argc > 1 && std::string(argv[1]) == "optable") return optable();
    const int frames = argc > 1 ? std::atoi(argv[1]) : 6;
    mfuse::verif::vmStepHook = &stepHook;
    mfuse::verif::vmEndHook = &endHook;
    return vh::caseLoop([frames](const std::string& id, const std::string& header, const std::vector<std::string>& ops) {
        const bool norun = header.find("norun") != std::string::npos;
        const bool show = header.find("show") != std::string::npos;   // also print what the script printed and the warnings
        std::string src;
        for (const std::string& l : ops) if (!l.empty() && l[0] == '|') { src += l.substr(1); src += "\n"; }
        std::printf("case %s\n", id.c_str());
        std::fflush(stdout);
        verif_case_watchdog(ops.size(), 5);
        vh::Engine e(true, true, false, true);      // no Debug stream: the emitter's listing is not needed
        g_steps.clear(); g_ends.clear(); g_nsteps = 0; g_scr = nullptr; g_foreignProgram = 0; g_sizeMismatch = 0;
        const ProgramScript* scr = nullptr;
        std::string fail;
        try { scr = e.compile("c02", src); if (!scr) fail = "null"; }
        catch (std::exception& ex) { fail = std::string("exception ") + typeid(ex).name(); }
        catch (...) { fail = "exception unknown"; }
        if (!scr) {
            std::string msg = e.io.err.str();
            for (char& c : msg) if (c == '\n' || c == '\r') c = '~';
            if (msg.size() > 300) msg.resize(300);
            std::printf("m compile fail %s : %s\n", fail.c_str(), msg.c_str());
        } else {
            ProgramScript* ps = const_cast<ProgramScript*>(scr);
            const opval_t* base = scr->GetProgBuffer();
            const size_t len = scr->GetProgLength();
            std::printf("m compile ok\n");
            std::printf("m prog %zu %zu %zu %zu %zu\n", len, scr->GetRequiredStackSize(),
                        e.director().GetDictionary().stringDict.size(), EventSystem::Get().eventDefName.size(),
                        EventSystem::NumEventCommands());
            std::string hex;
            static const char* H = "0123456789abcdef";
            for (size_t i = 0; i < len; ++i) { hex += H[base[i] >> 4]; hex += H[base[i] & 15]; }
            std::printf("m code %s\n", hex.empty() ? "-" : hex.c_str());
            std::printf("m labels %s\n", labelOffsets(ps->m_State, base).c_str());
            for (size_t i = 1; i <= ps->m_StateScripts.NumObjects(); ++i) {
                StateScript& ss = ps->m_StateScripts.ObjectAt(i);
                std::printf("m switch %llu %s\n", (unsigned long long)(uintptr_t)&ss, labelOffsets(ss, base).c_str());
            }
            for (size_t i = 1; i <= ps->m_CatchBlocks.NumObjects(); ++i) {
                CatchBlock& cb = ps->m_CatchBlocks.ObjectAt(i);
                std::printf("m catch %ld %ld %s\n", (long)(cb.GetTryStartCodePos() - base), (long)(cb.GetTryEndCodePos() - base),
                            labelOffsets(cb.GetStateScript(), base).c_str());
            }
            std::fflush(stdout);
            if (!norun) {
                g_scr = scr;
                std::string abortText = "-";
                try {
                    e.director().ExecuteThread(scr);
                    for (int f = 0; f < frames; ++f) { vh::g_clock += 10; e.ctx->Execute(); }
                } catch (std::exception& ex) {
                    abortText = ex.what();
                    for (char& c : abortText) if (c == ' ' || c == '\n') c = '_';
                    if (abortText.empty()) abortText = typeid(ex).name();
                } catch (...) { abortText = "unknown"; }
                try { e.director().Reset(); } catch (...) {}
                const std::vector<std::string> printed = e.takeOutput();
                std::printf("m run steps=%zu warnings=%zu ends=%zu abort=%s foreign=%ld sizemismatch=%ld out=%zu\n", g_nsteps,
                            countWarnings(e.io.warn.str()), g_ends.size(), abortText.c_str(), g_foreignProgram, g_sizeMismatch,
                            printed.size());
                if (show) {
                    for (const std::string& l : printed) std::printf("m out %s\n", l.c_str());
                    std::istringstream ws(e.io.warn.str());
                    std::string wl;
                    while (std::getline(ws, wl)) if (wl.find("Script Warning") != std::string::npos) std::printf("m warn %s\n", wl.c_str());
                }
                std::string t = "m t";
                for (const Step& s : g_steps) t += " " + std::to_string(s.off) + ":" + std::to_string(s.idx) + ":" + std::to_string(s.marked);
                std::printf("%s\n", t.c_str());
                std::string en = "m e";
                for (long x : g_ends) en += " " + std::to_string(x);
                std::printf("%s\n", en.c_str());
                g_scr = nullptr;
            }
        }
        verif_watchdog_off();
        std::printf("end\n");
        std::fflush(stdout);
    });
}
