// C18set harness: drives the real con::set / con::map with the model's op sequences.
//   stdin : "case <id> <full>", ops, "end"
//     con::set ops: A k v (addKeyValue(k) = v) | I k v (addKeyValue(k, v)) | F k | R k | C (clear)
//                   | Z n (resize) | H (shrink) | S (size) | E (enumerate with set_enum)
//     con::map ops: MI k v (map[k] = v) | MF k | MR k | MS | MC | MZ n | ME (map_enum)
//   stdout: "case <id>", one "m <obs> | <detail>" line per op, "end"
//   obs:    r=<-|null|v<value>|true|false|#<n>> n=<size()> e=<-|[]|k:v,...>  sorted by (key, value);
//           e is taken after every op when full = 1, otherwise only by E / ME
//   detail: a=<allocated()> d=<defaultEntry != nullptr> b=<-|[]|bucket[keys in chain order];...>
//           read through a derived class (the members are protected); "-" for map ops
//   "!" in a line = a direct check failed: isEmpty() != (size() == 0), or the number of live
//   key objects (constructions - destructions) != size() of the set + size() of the map.
// Keys are ints wrapped in a type that counts constructions and destructions; the hash
// function collides modulo 7 and 17: h(k) = (k mod 4) * 119 + k / 4 (the driver uses the same).
#include <morfuse/Container/set.h>
#include "common.h"

#include <algorithm>
#include <cstdio>
#include <cstdlib>
#include <iostream>
#include <sstream>
#include <string>
#include <utility>
#include <vector>

using namespace mfuse;

struct CK {
    int k;
    static long live;
    CK() : k(0) { ++live; }
    CK(int v) : k(v) { ++live; }
    CK(const CK& o) : k(o.k) { ++live; }
    CK& operator=(const CK& o) { k = o.k; return *this; }
    ~CK() { --live; }
    bool operator==(const CK& o) const { return k == o.k; }
};
long CK::live = 0;

struct VHash {
    uintptr_t operator()(const CK& c) const { return (uintptr_t)((c.k % 4) * 119 + c.k / 4); }
};

using Set = con::set<CK, int, VHash>;
using Map = con::map<CK, int, VHash>;

struct PeekSet : public Set {
    size_t len() const { return tableLength; }
    bool hasDefault() const { return defaultEntry != nullptr; }
    con::Entry<CK, int>* head(size_t i) const { return table[i]; }
};

typedef std::vector<std::pair<int, int>> KVs;

static std::string enumStr(KVs kv)
{
    if (kv.empty()) return "[]";
    std::sort(kv.begin(), kv.end());
    std::string s;
    for (size_t i = 0; i < kv.size(); ++i) {
        if (i) s += ",";
        s += std::to_string(kv[i].first) + ":" + std::to_string(kv[i].second);
    }
    return s;
}

static KVs enumSet(PeekSet& s)
{
    KVs kv;
    con::set_enum<CK, int, VHash> en(s);
    while (const con::Entry<CK, int>* e = en.NextElement()) {
        kv.push_back(std::make_pair(e->Key().k, e->Value()));
    }
    return kv;
}

static KVs enumMap(Map& m)
{
    KVs kv;
    con::map_enum<CK, int, VHash> en(m);
    while (const CK* k = en.NextKey()) {
        const int* v = en.CurrentValue();
        kv.push_back(std::make_pair(k->k, v ? *v : -1));
    }
    return kv;
}

static std::string layoutStr(PeekSet& s)
{
    std::string out;
    for (size_t i = 0; i < s.len(); ++i) {
        con::Entry<CK, int>* e = s.head(i);
        if (!e) continue;
        if (!out.empty()) out += ";";
        out += std::to_string(i) + "[";
        bool first = true;
        for (; e; e = e->Next()) {
            if (!first) out += ",";
            first = false;
            out += std::to_string(e->Key().k);
        }
        out += "]";
    }
    return out.empty() ? "[]" : out;
}

static void runCase(const std::string& id, bool full, const std::vector<std::string>& ops)
{
    PeekSet* s = new PeekSet();
    Map* m = new Map();
    std::printf("case %s\n", id.c_str());
    std::fflush(stdout);
    verif_case_watchdog(ops.size());
    for (const std::string& line : ops) {
        std::istringstream is(line);
        std::string c;
        long a = 0, b = 0;
        is >> c >> a >> b;
        std::string r = "-";
        bool onMap = false, en = false, bad = false;
        if (c == "A") { s->addKeyValue(CK((int)a)) = (int)b; }
        else if (c == "I") { int& v = s->addKeyValue(CK((int)a), (int)b); r = "v" + std::to_string(v); }
        else if (c == "F") { int* v = s->findKeyValue(CK((int)a)); r = v ? "v" + std::to_string(*v) : std::string("null");
                             const Set* cs = s; const int* cv = cs->findKeyValue(CK((int)a)); if (cv != v) bad = true; }
        else if (c == "R") { r = s->remove(CK((int)a)) ? "true" : "false"; }
        else if (c == "C") { s->clear(); }
        else if (c == "Z") { s->resize((size_t)a); }
        else if (c == "H") { s->shrink(); }
        else if (c == "S") { r = "#" + std::to_string(s->size()); }
        else if (c == "E") { en = true; }
        else if (c == "MI") { onMap = true; (*m)[CK((int)a)] = (int)b; }
        else if (c == "MF") { onMap = true; int* v = m->find(CK((int)a)); r = v ? "v" + std::to_string(*v) : std::string("null");
                              const Map* cm = m; const int* cv = cm->find(CK((int)a)); if (cv != v) bad = true; }
        else if (c == "MR") { onMap = true; r = m->remove(CK((int)a)) ? "true" : "false"; }
        else if (c == "MS") { onMap = true; r = "#" + std::to_string(m->size()); }
        else if (c == "MC") { onMap = true; m->clear(); }
        else if (c == "MZ") { onMap = true; m->resize((size_t)a); }
        else if (c == "ME") { onMap = true; en = true; }
        else { r = "?"; bad = true; }
        std::string out = "m r=" + r;
        if (onMap) {
            out += " n=" + std::to_string(m->size());
            out += " e=" + ((full || en) ? enumStr(enumMap(*m)) : std::string("-"));
            out += " | -";
        } else {
            out += " n=" + std::to_string(s->size());
            out += " e=" + ((full || en) ? enumStr(enumSet(*s)) : std::string("-"));
            out += " | a=" + std::to_string(s->allocated()) + " d=" + (s->hasDefault() ? "1" : "0");
            out += " b=" + ((full || en) ? layoutStr(*s) : std::string("-"));
            if (s->isEmpty() != (s->size() == 0)) bad = true;
            if (s->allocated() != s->len()) bad = true;
        }
        if (CK::live != (long)(s->size() + m->size())) {
            bad = true;
            out += " live=" + std::to_string(CK::live);
        }
        if (bad) out += " !";
        std::printf("%s\n", out.c_str());
        std::fflush(stdout);
    }
    delete s;
    delete m;
    if (CK::live != 0) {
        std::printf("m ! live=%ld after the containers were destroyed\n", CK::live);
        CK::live = 0;
    }
    verif_watchdog_off();
    std::printf("end\n");
    std::fflush(stdout);
}

int main()
{
    std::string line, id;
    int full = 1;
    std::vector<std::string> ops;
    bool in = false;
    auto flush = [&]() { if (in) runCase(id, full != 0, ops); in = false; ops.clear(); };
    while (std::getline(std::cin, line)) {
        if (line.rfind("case ", 0) == 0) {
            flush();
            std::istringstream is(line.substr(5));
            full = 1;
            is >> id >> full;
            in = true;
        } else if (line == "end") flush();
        else if (!line.empty()) ops.push_back(line);
    }
    flush();
    std::fflush(stdout);
    // The static BlockAllocSafe_set<Entry<CK,int>>::allocator of this translation unit is
    // destroyed AFTER the library's static defaultMemoryManager (src/Common/MEM/Memory.cpp);
    // its destructor then calls IMemoryManager::get().free() on a destroyed object ("pure
    // virtual method called", abort at process exit).  That is a static-destruction-order
    // problem of the allocator, not of set/map (both containers are destroyed inside
    // runCase): skip the static destructors.
    _exit(0);
}
