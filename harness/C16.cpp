// C16 harness: command dispatch to the most-derived handler.
// Links the static library built from /repo, defines a host class family (C16_family.h or
// the header named by -DC16_FAMILY="..."), and
//   dump      prints the COMPLETE registry of this binary: every EventDef of the list, the
//             reconstructed sequence of declarations (list entries by number + the host's
//             duplicate EventDef objects), the name table, every ClassDef with parent,
//             declared responses and the ACTUAL responseLookup table;
//   dispatch  runs every host class x command spelling x kind x namespace filter x entry
//             point through the real Listener code and prints what happened;
//   all       both.
// Output is canonical: no addresses; classes/events are identified by list positions.
#include <morfuse/Script/Context.h>
#include <morfuse/Script/Listener.h>
#include <morfuse/Script/SimpleEntity.h>
#include <morfuse/Script/Parm.h>
#include <morfuse/Script/Game.h>
#include <morfuse/Script/Level.h>
#include <morfuse/Script/ScriptThread.h>
#include <morfuse/Script/Event.h>
#include <morfuse/Script/EventSystem.h>
#include <morfuse/Script/NamespaceManager.h>
#include <morfuse/Script/NamespaceDef.h>
#include <morfuse/Script/ClassDef.h>
#include <morfuse/Common/OutputInfo.h>
#include "common.h"

#include <algorithm>
#include <cctype>
#include <cstdarg>
#include <typeinfo>
#include <cstdio>
#include <cstring>
#include <map>
#include <set>
#include <string>
#include <vector>

// ------------------------------------------------------------------ host side tables
struct HostNs { const mfuse::NamespaceDef* def; const char* name; };
struct HostEv { mfuse::EventDef* def; const char* name; int kind; const mfuse::NamespaceDef* ns; };
struct HostCls { const char* name; mfuse::ClassDef* (*get)(); };

static std::vector<HostNs>& hostNss() { static std::vector<HostNs> v; return v; }
static std::vector<HostEv>& hostEvs() { static std::vector<HostEv> v; return v; }
static std::vector<HostCls>& hostClss() { static std::vector<HostCls> v; return v; }

struct RegNs { RegNs(const mfuse::NamespaceDef* d, const char* n) { hostNss().push_back({ d, n }); } };
struct RegEv { RegEv(mfuse::EventDef* d, const char* n, int k, const mfuse::NamespaceDef* ns) { hostEvs().push_back({ d, n, k, ns }); } };
struct RegCls { RegCls(const char* n, mfuse::ClassDef* (*g)()) { hostClss().push_back({ n, g }); } };

template<typename T> static mfuse::ClassDef* clsOf() { return &T::staticclass(); }

// what the last handler call recorded
static const char* g_hitClass = nullptr;
static int g_hitIdx = -1;
static int g_hits = 0;

#define VNS(var, name) \
    mfuse::NamespaceDef var(name, "C16 harness namespace"); \
    static RegNs regns_##var(&var, name);
#define VEV(var, name, K) \
    mfuse::EventDef var(name, 0, nullptr, nullptr, "C16 harness command", mfuse::evType_e::K); \
    static RegEv regev_##var(&var, name, (int)mfuse::evType_e::K, nullptr);
#define VEVN(var, ns, name, K) \
    mfuse::EventDef var(ns, name, 0, nullptr, nullptr, "C16 harness command", mfuse::evType_e::K); \
    static RegEv regev_##var(&var, name, (int)mfuse::evType_e::K, &ns);
#define VCLASS(NAME, PARENT) \
    class NAME : public PARENT { \
    public: MFUS_CLASS_PROTOTYPE(NAME); \
    public: template<int I> void On(mfuse::Event&) { g_hitClass = #NAME; g_hitIdx = I; ++g_hits; } \
    };
#define VDECL(PARENT, NAME) \
    static RegCls regcls_##NAME(#NAME, &clsOf<NAME>); \
    MFUS_CLASS_DECLARATION(PARENT, NAME, nullptr)
#define VDECLN(NS, PARENT, NAME) \
    static RegCls regcls_##NAME(#NAME, &clsOf<NAME>); \
    MFUS_CLASS_DECLARATION_NAMESPACE(NS, PARENT, NAME, nullptr)
#define VR(C, ev, I) { &ev, &C::On<I> },
#define VZ(ev) { &ev, nullptr },
#define VEND { nullptr, nullptr }

#ifndef C16_FAMILY
#define C16_FAMILY "C16_family.h"
#endif
#include C16_FAMILY

using namespace mfuse;

// ------------------------------------------------------------------------- helpers
static char kindLetter(int k)
{
    switch (k) { case 0: return 'n'; case 1: return 'r'; case 2: return 'g'; case 3: return 's'; default: return 'x'; }
}

static unsigned nsId(const NamespaceDef* d) { return d ? (unsigned)d->GetId() : 0u; }

static std::vector<const EventDef*> eventList()
{
    std::vector<const EventDef*> v;
    for (const EventDef* e = EventDef::GetHead(); e; e = e->GetNext()) v.push_back(e);
    return v;
}

static std::vector<ClassDef*> classList()
{
    std::vector<ClassDef*> v;
    for (auto c = ClassDef::GetList(); c; c = c.Next()) v.push_back(c.Node());
    return v;
}

static size_t countResponses(const ClassDef* c)
{
    size_t n = 0;
    for (const ResponseDefClass* r = c->GetResponseList(); r->event != nullptr; ++r) ++n;
    return n;
}

static void line(const char* fmt, ...)
{
    va_list ap;
    va_start(ap, fmt);
    std::vprintf(fmt, ap);
    va_end(ap);
    std::fputc('\n', stdout);
}

// ---------------------------------------------------------------------------- dump
static int dump()
{
    EventSystem& es = EventSystem::Get();
    const std::vector<const EventDef*> evl = eventList();
    const std::vector<ClassDef*> cls = classList();
    const size_t N = EventSystem::NumEventCommands();

    line("registry numevents %zu defcount %zu numclasses %zu listed %zu", N, EventDef::GetDefCount(), ClassDef::GetNumClasses(), cls.size());

    // host namespaces
    for (const HostNs& n : hostNss()) line("ns %u %s", nsId(n.def), n.name);

    // 1. the EventDef list in list order
    for (size_t i = 0; i < evl.size(); ++i) {
        const EventDefAttributes& a = evl[i]->GetAttributes();
        line("ev %zu %u %c %u %s", i, (unsigned)a.GetNum(), kindLetter((int)a.GetType()), nsId(evl[i]->GetNamespace()), a.GetString());
    }

    // 2. the sequence of declarations: the list entries in ascending number (= construction)
    //    order; the host's EventDef objects that were NOT added to the list (same folded name
    //    and kind as an earlier definition) are placed after their predecessor in this file.
    {
        std::vector<const EventDef*> seq(evl);
        std::stable_sort(seq.begin(), seq.end(), [](const EventDef* a, const EventDef* b) { return a->GetEventNum() < b->GetEventNum(); });
        std::set<const EventDef*> inList(evl.begin(), evl.end());
        std::map<const EventDef*, const HostEv*> host;
        for (const HostEv& h : hostEvs()) host[h.def] = &h;
        const std::vector<HostEv>& hv = hostEvs();
        for (size_t i = 0; i < hv.size(); ++i) {
            if (inList.count(hv[i].def)) continue;
            if (i == 0) { seq.push_back(hv[i].def); continue; }
            auto it = std::find(seq.begin(), seq.end(), (const EventDef*)hv[i - 1].def);
            if (it == seq.end()) seq.push_back(hv[i].def); else seq.insert(it + 1, hv[i].def);
        }
        for (size_t i = 0; i < seq.size(); ++i) {
            const EventDef* e = seq[i];
            auto h = host.find(e);
            if (h != host.end()) {
                // as constructed by the host (a duplicate's attributes are a copy of the original's)
                line("decl %zu %u %c %u %s %s", i, (unsigned)e->GetEventNum(), kindLetter(h->second->kind), nsId(h->second->ns), h->second->name,
                     inList.count(e) ? "hostdef" : "hostdup");
            } else {
                const EventDefAttributes& a = e->GetAttributes();
                line("decl %zu %u %c %u %s builtin", i, (unsigned)a.GetNum(), kindLetter((int)a.GetType()), nsId(e->GetNamespace()), a.GetString());
            }
        }
    }

    // 3. the name table through the public interface: index of every name, its 4 numbers
    {
        std::map<size_t, const char*> nameOf;
        size_t K = 0;
        for (const EventDef* e : evl) {
            const size_t idx = es.GetEventConstName(e->GetAttributes().GetString());
            if (!nameOf.count(idx)) nameOf[idx] = e->GetAttributes().GetString();   // the first key added
            K = std::max(K, idx);
        }
        for (size_t idx = 1; idx <= K; ++idx) {
            const eventInfo_t& in = es.FindEventInfoChecked(idx);
            line("name %zu %u %u %u %u %s", idx, (unsigned)in.normalNum, (unsigned)in.returnNum, (unsigned)in.setterNum, (unsigned)in.getterNum,
                 nameOf.count(idx) ? nameOf[idx] : "?");
            // FindEventInfo(eventName_t) = the interface used by the compiler, commanddelay and spawn arguments
            const eventInfo_t* p = es.FindEventInfo((eventName_t)idx);
            if (!p) line("nameprobe %zu null %s", idx, nameOf.count(idx) ? nameOf[idx] : "?");
        }
        const eventInfo_t& z = es.FindEventInfoChecked(0);
        line("name0 %u %u %u %u", (unsigned)z.normalNum, (unsigned)z.returnNum, (unsigned)z.setterNum, (unsigned)z.getterNum);
    }

    // 4. classes
    std::map<const ClassDef*, size_t> posOf;
    for (size_t i = 0; i < cls.size(); ++i) posOf[cls[i]] = i;
    std::set<const ClassDef*> hostSet;
    for (const HostCls& h : hostClss()) hostSet.insert(h.get());
    for (size_t i = 0; i < cls.size(); ++i) {
        const ClassDef* c = cls[i];
        const ClassDef* s = c->GetSuper();
        long parent = -1;
        if (s) parent = posOf.count(s) ? (long)posOf[s] : -2;
        line("class %zu %s %ld %u %d", i, c->GetClassName(), parent, nsId(c->GetNamespace()), hostSet.count(c) ? 1 : 0);
        size_t k = 0;
        for (const ResponseDefClass* r = c->GetResponseList(); r->event != nullptr; ++r, ++k)
            line("resp %zu %zu %u %d", i, k, (unsigned)r->event->GetEventNum(), r->response ? 1 : 0);
    }
    // 5. the actual lookup tables
    std::vector<size_t> nresp(cls.size());
    for (size_t i = 0; i < cls.size(); ++i) nresp[i] = countResponses(cls[i]);
    for (size_t i = 0; i < cls.size(); ++i) {
        ResponseLookup t = cls[i]->GetResponseLookupList();
        if (!t) { line("notable %zu", i); continue; }
        for (size_t ev = 1; ev <= N; ++ev) {
            const ResponseDefClass* p = t[ev];
            if (!p) continue;
            long dc = -1, di = -1;
            for (size_t k = 0; k < cls.size() && dc < 0; ++k) {
                const ResponseDefClass* base = cls[k]->GetResponseList();
                if (p >= base && p < base + nresp[k]) { dc = (long)k; di = (long)(p - base); }
            }
            line("slot %zu %zu %ld %ld %d", i, ev, dc, di, p->response ? 1 : 0);
        }
    }
    line("endregistry");
    std::fflush(stdout);
    return 0;
}

// ------------------------------------------------------------------------ dispatch
static std::string lowerOf(std::string s) { for (char& c : s) c = (char)std::tolower((unsigned char)c); return s; }
static std::string upperOf(std::string s) { for (char& c : s) c = (char)std::toupper((unsigned char)c); return s; }
static std::string altOf(std::string s)
{
    bool up = true;
    for (char& c : s) { if (std::isalpha((unsigned char)c)) { c = (char)(up ? std::toupper((unsigned char)c) : std::tolower((unsigned char)c)); up = !up; } }
    return s;
}

static eventNum_t resolve(EventSystem& es, const char* name, int kind)
{
    switch (kind) {
    case 0: return es.FindNormalEventNum(name);
    case 1: return es.FindReturnEventNum(name);
    case 2: return es.FindGetterEventNum(name);
    default: return es.FindSetterEventNum(name);
    }
}

static int dispatch()
{
    EventSystem& es = EventSystem::Get();
    ScriptContext ctx;
    ctx.EventContext::Set(&ctx);
    NamespaceManager& nm = ctx.GetNamespaceManager();

    // spellings
    std::vector<std::string> spell;
    {
        std::set<std::string> seen;
        auto add = [&](const std::string& s) { if (seen.insert(s).second) spell.push_back(s); };
        for (const HostEv& h : hostEvs()) { add(h.name); add(lowerOf(h.name)); add(upperOf(h.name)); add(altOf(h.name)); }
        add("vc16_no_such_command");
    }
    // namespace filter lists: every subset when there are at most 3 namespaces
    std::vector<std::vector<const NamespaceDef*>> lists;
    {
        const std::vector<HostNs>& ns = hostNss();
        if (ns.size() <= 3) {
            for (unsigned m = 0; m < (1u << ns.size()); ++m) {
                std::vector<const NamespaceDef*> l;
                for (size_t i = 0; i < ns.size(); ++i) if (m & (1u << i)) l.push_back(ns[i].def);
                lists.push_back(l);
            }
        } else {
            lists.push_back({});
            for (const HostNs& n : ns) lists.push_back({ n.def });
            std::vector<const NamespaceDef*> all;
            for (const HostNs& n : ns) all.push_back(n.def);
            lists.push_back(all);
        }
    }
    const namespaceFilterMode_e modes[3] = { namespaceFilterMode_e::None, namespaceFilterMode_e::Inclusive, namespaceFilterMode_e::Exclusive };
    const char modeLetter[3] = { 'N', 'I', 'X' };

    // one instance per host class
    std::vector<Listener*> inst;
    for (const HostCls& h : hostClss()) inst.push_back(static_cast<Listener*>(h.get()->createInstance()));

    size_t nq = 0;
    for (int mi = 0; mi < 3; ++mi) {
        for (const auto& l : lists) {
            nm.SetFilterMode(modes[mi]);
            std::vector<const NamespaceDef*> tmp(l);
            const NamespaceDef* dummy = nullptr;
            nm.SetFilteredNamespace(con::ContainerView<const NamespaceDef*>(tmp.empty() ? &dummy : tmp.data(), tmp.size()));
            std::string lst;
            for (const NamespaceDef* d : l) { if (!lst.empty()) lst += ","; lst += std::to_string(nsId(d)); }
            if (lst.empty()) lst = "-";
            for (size_t ci = 0; ci < inst.size(); ++ci) {
                for (const std::string& sp : spell) {
                    for (int kind = 0; kind < 4; ++kind) {
                        const eventNum_t num = resolve(es, sp.c_str(), kind);
                        for (int via = 0; via < 3; ++via) {
                            g_hitClass = nullptr; g_hitIdx = -1; g_hits = 0;
                            std::string res;
                            try {
                                Event ev(num);
                                if (via == 0) { inst[ci]->ProcessScriptEvent(ev); res = "Silent"; }
                                else if (via == 1) { res = inst[ci]->ProcessEvent(ev) ? "Silent" : "False"; }
                                else { inst[ci]->ProcessEventReturn(ev); res = "Silent"; }
                            }
                            catch (const ListenerErrors::EventNotFound&) { res = "NotFound"; }
                            catch (const ListenerErrors::EventListenerFailed&) { res = "Unsupported"; }
                            catch (const std::exception& e) { res = std::string("Other:") + typeid(e).name(); }
                            catch (...) { res = "Other:unknown"; }
                            if (g_hits == 1 && res == "Silent") res = std::string("H ") + g_hitClass + " " + std::to_string(g_hitIdx);
                            else if (g_hits != 0) res = "Anomaly:hits=" + std::to_string(g_hits) + ":" + res;
                            line("q %s %c %c %s %c %s %u %s", hostClss()[ci].name, kindLetter(kind), modeLetter[mi], lst.c_str(), "SER"[via], sp.c_str(), (unsigned)num, res.c_str());
                            ++nq;
                        }
                    }
                }
            }
        }
    }
    // built-in commands on the host classes, wherever the class's table holds no built-in
    // handler (built-in handlers have side effects and cannot report their identity): the
    // call must be rejected
    {
        nm.SetFilterMode(namespaceFilterMode_e::None);
        std::set<const ClassDef*> hostSet;
        for (const HostCls& h : hostClss()) hostSet.insert(h.get());
        std::set<const EventDef*> hostDefs;
        for (const HostEv& h : hostEvs()) hostDefs.insert(h.def);
        std::set<std::string> names;
        for (const EventDef* e = EventDef::GetHead(); e; e = e->GetNext())
            if (!hostDefs.count(e)) names.insert(e->GetAttributes().GetString());
        const std::vector<ClassDef*> all = classList();
        for (size_t ci = 0; ci < inst.size(); ++ci) {
            const ClassDef* cd = hostClss()[ci].get();
            for (const std::string& base : names) {
                for (int variant = 0; variant < 2; ++variant) {
                    const std::string sp = variant ? upperOf(base) : base;
                    for (int kind = 0; kind < 4; ++kind) {
                        const eventNum_t num = resolve(es, sp.c_str(), kind);
                        if (num) {
                            const ResponseDefClass* r = cd->GetResponse(num);
                            bool builtinHandler = false;
                            if (r) {
                                builtinHandler = true;
                                for (const ClassDef* c : all) {
                                    if (!hostSet.count(c)) continue;
                                    const ResponseDefClass* b = c->GetResponseList();
                                    if (r >= b && r < b + countResponses(c)) builtinHandler = false;
                                }
                            }
                            if (builtinHandler) continue;
                        }
                        g_hitClass = nullptr; g_hitIdx = -1; g_hits = 0;
                        std::string res;
                        try { Event ev(num); inst[ci]->ProcessScriptEvent(ev); res = "Silent"; }
                        catch (const ListenerErrors::EventNotFound&) { res = "NotFound"; }
                        catch (const ListenerErrors::EventListenerFailed&) { res = "Unsupported"; }
                        catch (const std::exception& e) { res = std::string("Other:") + typeid(e).name(); }
                        catch (...) { res = "Other:unknown"; }
                        if (g_hits == 1 && res == "Silent") res = std::string("H ") + g_hitClass + " " + std::to_string(g_hitIdx);
                        else if (g_hits != 0) res = "Anomaly:hits=" + std::to_string(g_hits) + ":" + res;
                        line("q %s %c N - S %s %u %s", hostClss()[ci].name, kindLetter(kind), sp.c_str(), (unsigned)num, res.c_str());
                        ++nq;
                    }
                }
            }
        }
    }
    // probe of FindEventInfo(eventName_t) through a caller: `commanddelay 0 <command>` posts the
    // command for later delivery; for every host statement command and the first host class
    // that handles it: is it pending afterwards?
    {
        const eventNum_t cd = es.FindNormalEventNum("commanddelay");
        size_t topIdx = 0;
        for (const EventDef* e = EventDef::GetHead(); e; e = e->GetNext())
            topIdx = std::max(topIdx, (size_t)es.GetEventConstName(e->GetAttributes().GetString()));
        std::set<size_t> done;
        for (const HostEv& h : hostEvs()) {
            const size_t idx = es.GetEventConstName(h.name);
            const eventNum_t num = es.FindNormalEventNum(h.name);
            if (!cd || !num || !done.insert(idx).second) continue;
            for (size_t ci = 0; ci < inst.size(); ++ci) {
                if (!hostClss()[ci].get()->GetResponse(num)) continue;
                nm.SetFilterMode(namespaceFilterMode_e::None);
                Event ev(cd);
                ev.AddFloat(0.f);
                ev.AddString(h.name);
                const bool ok = inst[ci]->ProcessEvent(ev);
                const EventDef* def = es.GetEventDef(num);
                const bool pending = def && inst[ci]->EventPending(*def);
                inst[ci]->CancelPendingEvents();
                line("cmddelay %s %s %zu %d %d %d", hostClss()[ci].name, h.name, idx, idx == topIdx ? 1 : 0, ok ? 1 : 0, pending ? 1 : 0);
                break;
            }
        }
    }
    line("enddispatch %zu", nq);
    std::fflush(stdout);
    return 0;
}

int main(int argc, char** argv)
{
    const std::string mode = argc > 1 ? argv[1] : "all";
    std::signal(SIGALRM, verif_on_alarm);
    alarm(120);
    EventSystem::Get();
    int rc = 0;
    if (mode == "dump" || mode == "all") rc |= dump();
    if (mode == "dispatch" || mode == "all") rc |= dispatch();
    std::fflush(stdout);
    std::_Exit(rc);
}
