// C03 harness: compile and run script programs on the real engine and print what the host
// can observe.
//   input :  case <id> <host arguments: decimal integers>
//            S <hex of the script source>          (one line per concrete layout of the program)
//            T <hex of the script source>          (trace mode: `level.v0 = <constant integer expression>`)
//            end
//   output:  case <id>
//            k <n>                                 (n-th source of the case)
//            compile-error <text> | exception <text>
//            o <escaped text printed through println>
//            r <value given to `end` by the main thread: nil | int n | str s | flt text | arr n | carr n | other t>
//            v <L|G|P><i> <value>                  level.v0..7, game.v0..3, parm.v0..1 after the run
//            w <escaped warnings/errors>           only when the engine reported a script error
//            notidle                               only when the engine is not idle after 50 frames
//            end
#include "engine.h"
#include <morfuse/Script/Level.h>
#include <morfuse/Script/Game.h>
#include <morfuse/Script/Parm.h>
#include <morfuse/Script/ScriptOpcodes.h>
#include <morfuse/Script/ProgramScript.h>
#include <cstdio>
using namespace mfuse;

static std::string unhex(const std::string& h)
{
    std::string s;
    if (h == "-") return s;
    for (size_t i = 0; i + 1 < h.size(); i += 2) s.push_back((char)std::stoi(h.substr(i, 2), nullptr, 16));
    return s;
}

static std::string escape(const std::string& s)
{
    std::string o;
    char buf[8];
    for (unsigned char c : s) {
        if (c == '\\') o += "\\\\";
        else if (c == '\n') o += "\\n";
        else if (c < 32 || c > 126) { std::snprintf(buf, sizeof buf, "\\x%02x", c); o += buf; }
        else o.push_back((char)c);
    }
    return o;
}

static std::string repr(const ScriptVariable* v)
{
    if (!v) return "nil";
    switch (v->GetType()) {
    case variableType_e::None: return "nil";
    case variableType_e::Integer: return "int " + std::to_string((long long)v->GetData().long64Value);
    case variableType_e::String:
    case variableType_e::ConstString: return "str " + escape(v->stringValue().c_str());
    case variableType_e::Float: return "flt " + escape(v->stringValue().c_str());
    case variableType_e::Array: return "arr " + std::to_string(v->size());
    case variableType_e::ConstArray: return "carr " + std::to_string(v->size());
    default: return std::string("other ") + v->GetTypeName();
    }
}

static void runSource(int k, const std::string& src, const std::vector<long long>& args)
{
    std::printf("k %d\n", k);
    std::fflush(stdout);
    vh::Engine e(true, true, false, true);
    const ProgramScript* scr = nullptr;
    try {
        scr = e.compile("c03", src);
    } catch (std::exception& ex) {
        std::printf("compile-error %s\n", escape(ex.what()).c_str());
        return;
    } catch (...) {
        std::printf("compile-error unknown\n");
        return;
    }
    if (!scr) { std::printf("compile-error null\n"); return; }
    Event parms;
    for (long long a : args) parms.AddLong(a);
    const size_t nin = parms.NumArgs();
    try {
        e.director().ExecuteThread(scr, parms);
        for (int f = 0; f < 50 && !e.ctx->IsIdle(); ++f) { vh::g_clock += 1; e.ctx->Execute(); }
    } catch (std::exception& ex) {
        std::printf("exception %s\n", escape(ex.what()).c_str());
    } catch (...) {
        std::printf("exception unknown\n");
    }
    std::printf("o %s\n", escape(e.io.out.str()).c_str());
    if (parms.NumArgs() > nin) std::printf("r %s\n", repr(&parms.GetValue(parms.NumArgs())).c_str());
    else std::printf("r nil\n");
    char name[16];
    for (int i = 0; i <= 7; ++i) { std::snprintf(name, sizeof name, "v%d", i); std::printf("v L%d %s\n", i, repr(e.ctx->GetLevel()->Vars()->GetVariable(str(name))).c_str()); }
    for (int i = 0; i <= 3; ++i) { std::snprintf(name, sizeof name, "v%d", i); std::printf("v G%d %s\n", i, repr(e.ctx->GetGame()->Vars()->GetVariable(str(name))).c_str()); }
    for (int i = 0; i <= 1; ++i) { std::snprintf(name, sizeof name, "v%d", i); std::printf("v P%d %s\n", i, repr(e.director().GetParm().Vars()->GetVariable(str(name))).c_str()); }
    const std::string w = e.io.warn.str() + e.io.err.str();
    if (!w.empty()) std::printf("w %s\n", escape(w).c_str());
    if (!e.ctx->IsIdle()) std::printf("notidle\n");
    e.director().Reset();
}

// ---- instruction trace of constant integer expressions (tie of coq/C03/Compile.v to the compiler)
static std::vector<size_t> g_offsets;
static const void* g_firstVm = nullptr;
static void stepHook(const void* vm, size_t codeOffset, size_t, size_t)
{
    if (!g_firstVm) g_firstVm = vm;
    if (vm == g_firstVm) g_offsets.push_back(codeOffset);
}

static const char* binName(unsigned op)
{
    switch (op) {
    case OP_BIN_PLUS: return "add"; case OP_BIN_MINUS: return "sub"; case OP_BIN_MULTIPLY: return "mul";
    case OP_BIN_DIVIDE: return "div"; case OP_BIN_PERCENTAGE: return "mod"; case OP_BIN_BITWISE_AND: return "band";
    case OP_BIN_BITWISE_OR: return "bor"; case OP_BIN_BITWISE_EXCL_OR: return "bxor"; case OP_BIN_SHIFT_LEFT: return "shl";
    case OP_BIN_SHIFT_RIGHT: return "shr"; case OP_BIN_EQUALITY: return "eq"; case OP_BIN_INEQUALITY: return "ne";
    case OP_BIN_LESS_THAN: return "lt"; case OP_BIN_LESS_THAN_OR_EQUAL: return "le"; case OP_BIN_GREATER_THAN: return "gt";
    case OP_BIN_GREATER_THAN_OR_EQUAL: return "ge";
    default: return nullptr;
    }
}

// executes `src` and prints the executed opcodes up to the first one outside the fragment:
//   t I<n>:<operand as unsigned decimal> | NEG | CPL | <binary operator> ... then v L0 <value>
static void traceSource(const std::string& src)
{
    vh::Engine e(true, true, false, true);
    const ProgramScript* scr = nullptr;
    try { scr = e.compile("c03t", src); } catch (std::exception& ex) { std::printf("compile-error %s\n", escape(ex.what()).c_str()); return; }
    if (!scr) { std::printf("compile-error null\n"); return; }
    g_offsets.clear();
    g_firstVm = nullptr;
    mfuse::verif::vmStepHook = &stepHook;
    try { e.director().ExecuteThread(scr); } catch (...) { std::printf("exception\n"); }
    mfuse::verif::vmStepHook = nullptr;
    const opval_t* code = scr->GetProgBuffer();
    const size_t len = scr->GetProgLength();
    std::string out = "t";
    for (size_t off : g_offsets) {
        if (off >= len) break;
        const unsigned op = code[off];
        unsigned long long operand = 0;
        int width = -1;
        switch (op) {
        case OP_STORE_INT0: width = 0; break; case OP_STORE_INT1: width = 1; break; case OP_STORE_INT2: width = 2; break;
        case OP_STORE_INT3: width = 3; break; case OP_STORE_INT4: width = 4; break; case OP_STORE_INT8: width = 8; break;
        default: break;
        }
        char buf[64];
        if (width >= 0) {
            if (off + 1 + (size_t)width > len) break;
            for (int i = width - 1; i >= 0; --i) operand = (operand << 8) | code[off + 1 + i];   // little endian host
            std::snprintf(buf, sizeof buf, " I%d:%llu", width, operand);
            out += buf;
        } else if (op == OP_UN_MINUS) out += " NEG";
        else if (op == OP_UN_COMPLEMENT) out += " CPL";
        else if (binName(op)) { out += " "; out += binName(op); }
        else break;
    }
    std::printf("%s\n", out.c_str());
    std::printf("v L0 %s\n", repr(e.ctx->GetLevel()->Vars()->GetVariable(str("v0"))).c_str());
    const std::string w = e.io.warn.str() + e.io.err.str();
    if (!w.empty()) std::printf("w %s\n", escape(w).c_str());
    e.director().Reset();
}

int main()
{
    vh::globalStreamsToStderr();
    return vh::caseLoop([](const std::string& id, const std::string& header, const std::vector<std::string>& ops) {
        std::printf("case %s\n", id.c_str());
        std::fflush(stdout);
        // wall-clock budget per case; C03_WATCHDOG (seconds) raises it for a confirmation run on a busy machine
        const char* wd = std::getenv("C03_WATCHDOG");
        verif_case_watchdog(ops.size(), wd ? (unsigned)std::atoi(wd) : 6, 50);
        std::vector<long long> args;
        {
            std::istringstream is(header);
            long long a;
            while (is >> a) args.push_back(a);
        }
        int k = 0;
        for (const std::string& line : ops) {
            if (line.rfind("S ", 0) == 0) {
                runSource(k++, unhex(line.substr(2)), args);
                std::fflush(stdout);
            } else if (line.rfind("T ", 0) == 0) {
                traceSource(unhex(line.substr(2)));
                std::fflush(stdout);
            }
        }
        verif_watchdog_off();
        std::printf("end\n");
        std::fflush(stdout);
    });
}
