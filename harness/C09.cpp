// C09 harness: save / reset / load transparency on the real engine (ASan, injected clock).
//
//   case <id> <mode> K=<all|none|k1,k2,..> [H=<host flags>] [Z]
//     Z (mode M): every generated script file ends without its last `end` (EOF ends the last block)
//     host flags (what the host puts into the archive besides director.Archive; default lrq):
//       l = ArchiveObject(level) and ArchiveObject(game)   q = the event queue
//       r = the entities named by E ops are archived, deleted at the reset and re-created from the
//           archive (ReadObject), and the target list is archived
//       e = instead: the entities survive the reset and are archived in place (ArchiveObject)
//       n = after the reset the engine is destroyed and the archive is loaded into a NEW engine
//           (a restarted host); the injected clock goes on
//     mode M: threads are structured programs (the alphabet of coq/C09/Model.v); every op is
//             printed as `m <obs>` in the canonical text of ocaml/C09_driver.ml
//     mode F: free script text (waittill/notify, waitthread, group/level variables, entities ..):
//             the observations of the run are printed as `a <obs>` (not compared with the model)
//   ops:  P <prog>            (M) host ExecuteThread of a fresh script generated from <prog>
//                             prog := instr* ; instr := p<m> | w<ms> | i<x>=<int> | s<x>=<hex> | f<x>=<bits>
//                                     | n<x> | a<x>.<k>=<int|nil> | A<x>.<k>=<y> | g<y>=<x>.<k> | c<x>=<y>
//                                     | C<x>=<l<int>|v<y>>,.. | v<x> | e<x>.<k> | z<x> (.size) | t[:<a>,<a>..]( instr* )
//                                     <k> = <int> | $<hex of a string key>
//         D <name> <text>     (F) register the script <name>; `\n` in <text> is a new line
//         S <name> [label]    (F) host ExecuteThread(script, label)
//         E <targetname>*     (F) entities (by targetname) that the host archives with the scripts
//         T <dt>              advance the clock
//         X                   ScriptContext::Execute()
//         L                   save, ScriptMaster::Reset(), load; the observation is the canonical
//                             dump of the loaded engine state
//   After the run itself (run A) the harness is the property's monitor: for every save point k in K
//   (k = 1-based index of an X op: the save/reset/load happens right before that X) it runs B_k on
//   a fresh engine and compares every observation with run A's:  `v k=<k> ok` | `v k=<k> DIFF ...`.
//   The last observation of every run is `fin <level variables>`.
#include <algorithm>
#include <cstdint>
#include <cstdio>
#include <cstdlib>
#include <cstring>
#include <exception>
#include <iostream>
#include <map>
#include <memory>
#include <sstream>
#include <string>
#include <typeinfo>
#include <vector>
#include <set>
#include <list>
#include <mutex>
#include <shared_mutex>
#include <functional>
#include <chrono>
#include <atomic>
#include <thread>
#include <fstream>
#include <iomanip>
#include <type_traits>
#include <utility>
#include <new>
#include <cassert>
#include <cstdarg>
#include <limits>
#include <cmath>
#include <tuple>
#include <array>
#include <unordered_map>
#include <condition_variable>
#include <istream>
#include <ostream>
#include <streambuf>
#include <stdexcept>
#define private public
#define protected public
#include "engine.h"
#include <morfuse/Script/ProgramScript.h>
#include <morfuse/Script/ScriptClass.h>
#include <morfuse/Script/ScriptVM.h>
#include <morfuse/Script/ScriptVariable.h>
#include <morfuse/Script/SimpleEntity.h>
#include <morfuse/Script/Level.h>
#include <morfuse/Script/Game.h>
#include <morfuse/Script/TargetList.h>
#include <morfuse/Script/EventQueue.h>
#include <morfuse/Script/timer.h>
#include <morfuse/Script/ScriptOpcodes.h>
#undef private
#undef protected
using namespace mfuse;

// ------------------------------------------------------------------ canonical values
struct Numbering {
    std::map<const void*, int> ids;
    int of(const void* p, bool& fresh)
    {
        auto it = ids.find(p);
        if (it != ids.end()) { fresh = false; return it->second; }
        fresh = true;
        int n = (int)ids.size() + 1;
        ids[p] = n;
        return n;
    }
};

static std::string esc(const std::string& s)
{
    std::string o;
    char b[8];
    for (unsigned char c : s) {
        if (std::isalnum(c) || c == '_' || c == '.' || c == ':' || c == '-') o.push_back((char)c);
        else { std::snprintf(b, sizeof b, "%%%02x", c); o += b; }
    }
    return o;
}

static std::string hexOf(const std::string& s)
{
    std::string o;
    char b[4];
    for (unsigned char c : s) { std::snprintf(b, sizeof b, "%02x", c); o += b; }
    return o;
}

static std::string unhex(const std::string& h)
{
    std::string s;
    auto v = [](char c) { return c <= '9' ? c - '0' : (c | 32) - 'a' + 10; };
    for (size_t i = 0; i + 1 < h.size(); i += 2) s.push_back((char)(v(h[i]) * 16 + v(h[i + 1])));
    return s;
}

static std::string fmtVar(const ScriptVariable& v, Numbering& num, int depth = 0);

static std::string fmtListener(Listener* l)
{
    if (!l) return "o:null";
    if (SimpleEntity* se = dynamic_cast<SimpleEntity*>(l)) {
        const StringResolvable& tn = se->targetComp.GetTargetName();
        return "o:ent:" + esc(tn.GetString(ScriptContext::Get().GetDirector().GetDictionary()).c_str());
    }
    return std::string("o:") + (dynamic_cast<ScriptThread*>(l) ? "thread" : dynamic_cast<ScriptClass*>(l) ? "scriptclass" : "listener");
}

static std::string fmtVar(const ScriptVariable& v, Numbering& num, int depth)
{
    char b[96];
    switch (v.GetType()) {
    case variableType_e::None: return "nil";
    case variableType_e::Integer: std::snprintf(b, sizeof b, "i:%lld", (long long)v.m_data.long64Value); return b;
    case variableType_e::Float: { uint32_t u; std::memcpy(&u, &v.m_data.floatValue, 4); std::snprintf(b, sizeof b, "f:%u", u); return b; }
    case variableType_e::Char: std::snprintf(b, sizeof b, "ch:%d", (int)v.m_data.charValue); return b;
    case variableType_e::String:
    case variableType_e::ConstString: return "s:" + hexOf(v.stringValue().c_str());
    case variableType_e::Vector: {
        uint32_t u[3]; std::memcpy(u, v.m_data.vectorValue, 12);
        std::snprintf(b, sizeof b, "v:%u/%u/%u", u[0], u[1], u[2]); return b; }
    case variableType_e::Listener: return fmtListener(v.m_data.listenerValue ? v.m_data.listenerValue->Pointer() : nullptr);
    case variableType_e::Array: {
        bool fresh; int n = num.of(v.m_data.arrayValue, fresh);
        std::string s = "a#" + std::to_string(n);
        if (!fresh || !v.m_data.arrayValue || depth > 6) return s;
        std::vector<std::pair<std::string, std::string>> kv;
        con::set_enum<ScriptVariable, ScriptVariable> en(v.m_data.arrayValue->arrayValue.m_set);
        std::vector<const con::Entry<ScriptVariable, ScriptVariable>*> ents;
        for (auto* e = en.NextElement(); e; e = en.NextElement()) ents.push_back(e);
        // number nested holders in key order, not in hash order
        std::vector<std::pair<std::string, const con::Entry<ScriptVariable, ScriptVariable>*>> sorted;
        Numbering dummy;
        for (auto* e : ents) sorted.push_back({ fmtVar(e->Key(), dummy, depth + 1), e });
        std::sort(sorted.begin(), sorted.end(), [](auto& a, auto& c) {
            if (a.first.size() != c.first.size()) return a.first.size() < c.first.size();
            return a.first < c.first; });
        s += "{";
        bool first = true;
        for (auto& p : sorted) { if (!first) s += ","; first = false; s += p.first + "=" + fmtVar(p.second->Value(), num, depth + 1); }
        return s + "}"; }
    case variableType_e::ConstArray: {
        bool fresh; int n = num.of(v.m_data.constArrayValue, fresh);
        std::string s = "c#" + std::to_string(n);
        if (!fresh || !v.m_data.constArrayValue || depth > 6) return s;
        s += "[";
        for (size_t i = 1; i <= v.m_data.constArrayValue->size; ++i) { if (i > 1) s += ","; s += fmtVar(v.m_data.constArrayValue->constArrayValue[i], num, depth + 1); }
        return s + "]"; }
    default: std::snprintf(b, sizeof b, "?type%d", (int)v.GetType()); return b;
    }
}

static std::string fmtVars(Listener* l, Numbering& num)
{
    if (!l || !l->vars) return "{}";
    StringDictionary& dict = ScriptContext::Get().GetDirector().GetDictionary();
    std::vector<std::pair<std::string, const ScriptVariable*>> vs;
    con::set_enum<const_str, ScriptVariable> en(l->vars->list);
    for (auto* e = en.NextElement(); e; e = en.NextElement()) vs.push_back({ std::string(dict.Get(e->Key()).c_str()), &e->Value() });
    std::sort(vs.begin(), vs.end(), [](auto& a, auto& c) { return a.first < c.first; });
    std::string s = "{";
    bool first = true;
    for (auto& p : vs) {
        if (p.second->GetType() == variableType_e::None) continue;   // an unset variable = no variable
        if (!first) s += ",";
        first = false;
        s += esc(p.first) + "=" + fmtVar(*p.second, num);
    }
    return s + "}";
}

// ------------------------------------------------------------------ structured programs (mode M)
struct Gen {
    std::string src;
    std::vector<std::string> blocks;      // finished label blocks
    int nlabels = 0;
};

// <int> or $<hex of a string key>
static std::string keyText(std::string key)
{
    if (!key.empty() && key[0] == '$') return "\"" + unhex(key.substr(1)) + "\"";
    if (!key.empty() && key[0] == '-') return "( " + key + ")";
    return key;
}

// parse instr* up to ")" or the end; returns the statements of this block
static std::vector<std::string> parseBlock(std::istringstream& is, Gen& g)
{
    std::vector<std::string> st;
    std::string w;
    char buf[96];
    while (is >> w) {
        if (w == ")") break;
        char c = w[0];
        std::string r = w.substr(1);
        if (c == 'p') st.push_back("println \"" + r + "\"");
        else if (c == 'w') { std::snprintf(buf, sizeof buf, "wait %.3f", std::stoi(r) / 1000.0); st.push_back(buf); }
        else if (c == 'i') { size_t q = r.find('='); std::string val = r.substr(q + 1); if (val[0] == '-') val = "( " + val + ")"; st.push_back("local.x" + r.substr(0, q) + " = " + val); }
        else if (c == 's') { size_t q = r.find('='); st.push_back("local.x" + r.substr(0, q) + " = \"" + unhex(r.substr(q + 1)) + "\""); }
        else if (c == 'f') { size_t q = r.find('='); uint32_t u = (uint32_t)std::stoul(r.substr(q + 1)); float f; std::memcpy(&f, &u, 4);
                             if (f < 0) std::snprintf(buf, sizeof buf, "( %.3f)", f); else std::snprintf(buf, sizeof buf, "%.3f", f);
                             st.push_back("local.x" + r.substr(0, q) + " = " + buf); }
        else if (c == 'n') st.push_back("local.x" + r + " = NIL");
        else if (c == 'a') { size_t d = r.find('.'), q = r.find('='); std::string val = r.substr(q + 1); if (val[0] == '-') val = "( " + val + ")"; if (val == "nil") val = "NIL";
                             std::string key = keyText(r.substr(d + 1, q - d - 1));
                             st.push_back("local.x" + r.substr(0, d) + "[" + key + "] = " + val); }
        else if (c == 'c') { size_t q = r.find('='); st.push_back("local.x" + r.substr(0, q) + " = local.x" + r.substr(q + 1)); }
        else if (c == 'A') { size_t d = r.find('.'), q = r.find('='); std::string key = keyText(r.substr(d + 1, q - d - 1));
                             st.push_back("local.x" + r.substr(0, d) + "[" + key + "] = local.x" + r.substr(q + 1)); }
        else if (c == 'g') { size_t q = r.find('='), d = r.find('.'); std::string key = keyText(r.substr(d + 1));
                             st.push_back("local.x" + r.substr(0, q) + " = local.x" + r.substr(q + 1, d - q - 1) + "[" + key + "]"); }
        else if (c == 'C') { size_t q = r.find('='); std::string items = r.substr(q + 1), expr, it; std::istringstream is2(items);
                             while (std::getline(is2, it, ',')) { if (!expr.empty()) expr += "::"; if (it[0] == 'v') expr += "local.x" + it.substr(1); else { std::string val = it.substr(1); if (val[0] == '-') val = "( " + val + ")"; expr += val; } }
                             st.push_back("local.x" + r.substr(0, q) + " = " + expr); }
        else if (c == 'v') st.push_back("println local.x" + r);
        else if (c == 'e') { size_t d = r.find('.'); std::string key = keyText(r.substr(d + 1)); st.push_back("println local.x" + r.substr(0, d) + "[" + key + "]"); }
        else if (c == 'z') st.push_back("println local.x" + r + ".size");
        else if (c == 't') {
            int lab = ++g.nlabels;
            // t( = no arguments; t:4,5( = thread lN local.x4 local.x5, the label binds local.x101 local.x102
            std::string args, parms;
            if (r.size() > 1 && r[0] == ':') {
                std::istringstream is2(r.substr(1, r.size() - 2)); std::string a; int pn = 101;
                while (std::getline(is2, a, ',')) { args += " local.x" + a; parms += " local.x" + std::to_string(pn++); }
            }
            std::vector<std::string> body = parseBlock(is, g);
            std::string blk = "l" + std::to_string(lab) + parms + ":\n";
            for (auto& s : body) blk += s + "\n";
            blk += "end\n";
            g.blocks.push_back(blk);
            st.push_back("thread l" + std::to_string(lab) + args);
        }
    }
    return st;
}

static std::string programText(const std::string& prog, bool noTrailingEnd = false)
{
    Gen g;
    std::istringstream is(prog);
    std::vector<std::string> main = parseBlock(is, g);
    std::string src = "main:\n";
    for (auto& s : main) src += s + "\n";
    src += "end\n";
    for (auto& b : g.blocks) src += b;
    // header word Z: the file ends without `end` (the OP_DONE the compiler appends at EOF ends the
    // last block): a thread whose last statement is a wait sleeps on the very last opcode of the file
    if (noTrailingEnd && src.size() >= 4 && src.compare(src.size() - 4, 4, "end\n") == 0) src.erase(src.size() - 4);
    return src;
}

// for the dump: remaining statements of the block that contains the source line
struct Layout { std::map<int, int> remAtLine; };      // 1-based line -> statements left incl. this one
static Layout layoutOf(const std::string& src)
{
    Layout l;
    std::vector<std::string> lines;
    std::istringstream is(src);
    std::string s;
    while (std::getline(is, s)) lines.push_back(s);
    // a block = label line .. `end`
    size_t i = 0;
    while (i < lines.size()) {
        size_t j = i + 1;
        while (j < lines.size() && lines[j] != "end") ++j;
        // statements are lines i+1 .. j-1; `end` at j counts 0
        for (size_t k = i + 1; k <= j && k < lines.size(); ++k) l.remAtLine[(int)k + 1] = (int)(j - k);
        i = j + 1;
    }
    return l;
}

// ------------------------------------------------------------------ one run
struct Options { bool level = true, ents = false, queue = true, recreate = true, fresh = false, noTrailingEnd = false; };

struct Run {
    std::unique_ptr<vh::Engine> ep{new vh::Engine()};
    std::string warnAcc, errAcc;      // diagnostics of engines that were replaced
    std::map<std::string, Layout> layouts;
    std::vector<std::string> entNames;
    int nextProg = 0;
    Options opt;
    std::vector<std::string> obs;

    static version_info_t info()
    {
        version_info_t i; i.header = "C09T"; i.version = 1; i.archiveName = "C09 harness archive"; return i;
    }

    // every live entity bearing one of the declared target names (a name may have several bearers)
    std::vector<SimpleEntity*> entities()
    {
        std::vector<SimpleEntity*> r;
        StringDictionary& dict = ep->director().GetDictionary();
        for (auto& n : entNames) {
            const_str cs = dict.Get(n.c_str());
            ConTarget* list = cs ? ep->ctx->GetTargetList().GetExistingTargetList(cs) : nullptr;
            if (!list) continue;
            for (size_t i = 1; i <= list->NumObjects(); ++i) {
                SimpleEntity* se = dynamic_cast<SimpleEntity*>(list->ObjectAt(i).Pointer());
                if (se && std::find(r.begin(), r.end(), se) == r.end()) r.push_back(se);
            }
        }
        return r;
    }

    // The host's part of the archive.  Protocol r (default): the host owns the entities, deletes
    // them when the engine is reset and re-creates them from the archive (ReadObject), and archives
    // the target list ($name -> entities).  Protocol e: the entities survive the reset and are
    // archived in place (ArchiveObject on the live object).
    void archiveHost(Archiver& arc, std::vector<SimpleEntity*>& es)
    {
        if (opt.recreate) {
            uint32_t n = (uint32_t)es.size();
            arc.ArchiveUInt32(n);
            if (arc.Loading()) {
                es.clear();
                for (uint32_t i = 0; i < n; ++i) {
                    Class* c = arc.ReadObject();
                    SimpleEntity* se = dynamic_cast<SimpleEntity*>(c);
                    es.push_back(se);
                    if (c) ep->ctx->GetTrackedInstances().Add(c);
                }
            } else for (SimpleEntity* se : es) arc.ArchiveObject(*se);
            ep->ctx->GetTargetList().Archive(arc);
        } else if (opt.ents) {
            for (SimpleEntity* se : es) if (se) arc.ArchiveObject(*se);
        }
        if (opt.level) { arc.ArchiveObject(*ep->ctx->GetLevel()); arc.ArchiveObject(*ep->ctx->GetGame()); }
        ep->director().Archive(arc);
        if (opt.queue) ep->ctx->GetEventQueue().Archive(arc);
    }

    std::string saveResetLoad()
    {
        std::stringstream ss(std::ios::in | std::ios::out | std::ios::binary);
        std::vector<SimpleEntity*> es;
        for (SimpleEntity* se : entities()) if (se) es.push_back(se);
        try {
            { Archiver arc = Archiver::CreateWrite(ss, info()); archiveHost(arc, es); }
        } catch (ArchiveErrors::Base& ex) { return "save-archive-error"; }
        catch (std::exception& ex) { return std::string("save-exception:") + esc(ex.what()); }
        try {
            if (opt.recreate) { for (SimpleEntity* se : es) delete se; es.clear(); }
            ep->director().Reset();
        } catch (std::exception& ex) { return std::string("reset-exception:") + esc(ex.what()); }
        if (opt.level && ep->ctx->GetLevel()->vars) { ep->ctx->GetLevel()->ClearVars(); }
        if (opt.level && ep->ctx->GetGame()->vars) { ep->ctx->GetGame()->ClearVars(); }
        if (opt.fresh) {
            // host flag n: the archive is loaded into a NEW engine (a restarted host); the clock goes on
            const int64_t clk = vh::g_clock;
            std::map<std::string, std::string> files = ep->files.files;
            warnAcc += ep->io.warn.str(); errAcc += ep->io.err.str();
            std::string pendingOut = ep->io.out.str();
            ep.reset();
            ep.reset(new vh::Engine());
            vh::g_clock = clk;
            ep->ctx->GetTimeManagerInternal().Reset();      // the new engine starts NOW, not at clock 1000
            ep->files.files = files;
            ep->io.out << pendingOut;
        }
        const std::string bytes = ss.str();
        imemstream is(bytes.data(), bytes.size());
        try {
            { Archiver arc = Archiver::CreateRead(is, info()); archiveHost(arc, es); }
        } catch (ArchiveErrors::Base& ex) { return "load-archive-error"; }
        catch (std::exception& ex) { return std::string("load-exception:") + esc(ex.what()); }
        lastStats = stats();
        return dump();
    }

    std::string lastStats;
    // shape of the state that was just loaded (coverage evidence)
    std::string stats()
    {
        int ni = 0, nt = 0, nw = 0, ntm = 0, multi = 0;
        ScriptMaster& d = ep->director();
        for (ScriptClass* c = d.headScript; c; c = c->GetNext()) {
            ++ni;
            int k = 0;
            for (ScriptVM* vm = c->FirstThread(); vm; vm = c->NextThread(vm)) {
                ++nt; ++k;
                ScriptThread* t = vm->GetScriptThread();
                if (t->m_ThreadState == threadState_e::Waiting) ++nw;
                else if (t->m_ThreadState == threadState_e::Timing) ++ntm;
            }
            if (k > 1) ++multi;
        }
        char b[160];
        std::snprintf(b, sizeof b, "inst=%d thr=%d waiting=%d timing=%d multi=%d events=%zu", ni, nt, nw, ntm, multi,
                      (size_t)ep->ctx->GetEventQueue().GetNumPendingEvents());
        return b;
    }

    // canonical dump of the engine state: instances -> threads -> (state, position, locals); timer
    std::string dump()
    {
        std::string s = "L";
        Numbering num;
        std::map<const void*, std::string> tname;
        ScriptMaster& d = ep->director();
        StringDictionary& dict = d.GetDictionary();
        int ii = 0;
        for (ScriptClass* c = d.headScript; c; c = c->GetNext()) {
            ++ii;
            s += " I[";
            int tj = 0;
            for (ScriptVM* vm = c->FirstThread(); vm; vm = c->NextThread(vm)) {
                ++tj;
                ScriptThread* t = vm->GetScriptThread();
                tname[t] = std::to_string(ii) + "." + std::to_string(tj);
                const char* st = t->m_ThreadState == threadState_e::Timing ? "timing" : t->m_ThreadState == threadState_e::Waiting ? "waiting" : "running";
                std::string pos = "?";
                const ProgramScript* scr = c->GetScript();
                if (scr && vm->m_CodePos) {
                    size_t off = vm->m_CodePos - scr->GetProgBuffer();
                    std::string name = dict.Get(scr->Filename()).c_str();
                    auto it = layouts.find(name);
                    str line; uint32_t col = 0, ln = 0;
                    if (it != layouts.end() && scr->GetSourceAt(off, line, col, ln)) {
                        auto r = it->second.remAtLine.find((int)ln);
                        pos = r != it->second.remAtLine.end() ? "rem" + std::to_string(r->second) : "line" + std::to_string(ln);
                    } else if (off < scr->GetProgLength() && *vm->m_CodePos == OP_DONE) pos = "rem0";     // the OP_DONE appended at EOF (no source line)
                    else pos = "off" + std::to_string(off);
                }
                if (tj > 1) s += " ";
                s += std::string("T(") + st + "," + pos + "," + fmtVars(t, num) + ")";
            }
            s += "]";
        }
        s += " timer(dirty=" + std::to_string(d.timerList.m_bDirty ? 1 : 0) + ",time=" + std::to_string((unsigned long long)d.timerList.m_time) + ")[";
        for (size_t i = 1; i <= d.timerList.m_Elements.NumObjects(); ++i) {
            const con::timer::Element& el = d.timerList.m_Elements.ObjectAt(i);
            auto it = tname.find(el.obj);
            if (i > 1) s += " ";
            s += (it != tname.end() ? it->second : std::string("unknown")) + "@" + std::to_string((unsigned long long)el.time);
        }
        return s + "]";
    }

    std::string observe()
    {
        std::string d;
        size_t n = 0;
        for (const std::string& l : ep->takeOutput()) { if (n++) d += ","; d += esc(l); }
        if (!n) d = "-";
        char b[64];
        std::snprintf(b, sizeof b, " idle=%d waiting=%d", ep->ctx->IsIdle() ? 1 : 0, ep->director().GetTimerList().HasAnyElement() ? 1 : 0);
        return d + b;
    }

    std::string finalObs()
    {
        Numbering num;
        std::string s = "fin level=" + fmtVars(ep->ctx->GetLevel(), num) + " game=" + fmtVars(ep->ctx->GetGame(), num);
        {
            std::vector<SimpleEntity*> es = entities();
            for (size_t i = 0; i < es.size(); ++i) s += " ent" + std::to_string(i) + ":" + fmtListener(es[i]) + "=" + fmtVars(es[i], num);
        }
        std::string w = warnAcc + ep->io.warn.str();
        // script diagnostics are observable behaviour too (count only: the text carries addresses)
        size_t n = 0, p = 0;
        while ((p = w.find("Script Warning", p)) != std::string::npos) { ++n; p += 5; }
        size_t ne = 0; p = 0;
        std::string er = errAcc + ep->io.err.str();
        while ((p = er.find('\n', p)) != std::string::npos) { ++ne; ++p; }
        return s + " warnings=" + std::to_string(n) + " errlines=" + std::to_string(ne);
    }

    // runs the ops; saveBeforeX = 1-based index of the X op before which to save/reset/load (0 = never)
    void run(bool modeM, const std::vector<std::string>& ops, int saveBeforeX)
    {
        int xcount = 0;
        for (const std::string& line : ops) {
            std::istringstream is(line);
            std::string c;
            is >> c;
            try {
                if (c == "P") {
                    std::string rest; std::getline(is, rest);
                    const std::string src = programText(rest, opt.noTrailingEnd);
                    const std::string name = "p" + std::to_string(nextProg++);
                    layouts[name] = layoutOf(src);
                    const ProgramScript* scr = ep->compile(name, src);
                    if (scr) ep->director().ExecuteThread(scr);
                } else if (c == "D") {
                    std::string name, text; is >> name; std::getline(is, text);
                    if (!text.empty() && text[0] == ' ') text.erase(0, 1);
                    std::string src;
                    for (size_t i = 0; i < text.size(); ++i) {
                        if (text[i] == '\\' && i + 1 < text.size() && text[i + 1] == 'n') { src.push_back('\n'); ++i; }
                        else src.push_back(text[i]);
                    }
                    src.push_back('\n');
                    ep->compile(name, src);
                    obs.push_back("def");
                    continue;
                } else if (c == "S") {
                    std::string name, label; is >> name; is >> label;
                    const ProgramScript* scr = ep->director().GetProgramScript(name.c_str());
                    if (scr) { if (label.empty()) ep->director().ExecuteThread(scr); else ep->director().ExecuteThread(scr, StringResolvable(label.c_str())); }
                } else if (c == "E") {
                    std::string n; while (is >> n) entNames.push_back(n);
                    obs.push_back("ents");
                    continue;
                } else if (c == "T") { long long dt; is >> dt; vh::g_clock += dt; }
                else if (c == "X") {
                    ++xcount;
                    if (xcount == saveBeforeX) {
                        std::string r = saveResetLoad();
                        if (r[0] != 'L') { obs.push_back("X " + r); break; }     // the save/load itself failed
                    }
                    ep->ctx->Execute();
                } else if (c == "L") {
                    obs.push_back(saveResetLoad());
                    continue;
                }
            } catch (std::exception& ex) {
                obs.push_back(std::string("exception:") + esc(ex.what()) + " " + observe());
                continue;
            } catch (ArchiveErrors::Base&) {
                obs.push_back("archive-exception " + observe());
                continue;
            }
            obs.push_back(observe());
        }
        obs.push_back(finalObs());
        try { ep->director().Reset(); } catch (...) {}
    }
};

int main()
{
    vh::globalStreamsToStderr();
    return vh::caseLoop([](const std::string& id, const std::string& header, const std::vector<std::string>& ops) {
        std::istringstream hs(header);
        std::string mode, w, kspec = "none";
        Options opt;
        hs >> mode;
        while (hs >> w) {
            if (w == "Z") opt.noTrailingEnd = true;
            else if (w.rfind("K=", 0) == 0) kspec = w.substr(2);
            else if (w.rfind("H=", 0) == 0) { std::string f = w.substr(2); opt.level = f.find('l') != std::string::npos; opt.ents = f.find('e') != std::string::npos; opt.queue = f.find('q') != std::string::npos; opt.recreate = f.find('r') != std::string::npos; opt.fresh = f.find('n') != std::string::npos; }
        }
        const bool modeM = mode == "M";
        std::printf("case %s\n", id.c_str());
        std::fflush(stdout);
        int nx = 0;
        for (auto& o : ops) if (o == "X") ++nx;
        std::vector<int> ks;
        if (kspec == "all") for (int k = 1; k <= nx; ++k) ks.push_back(k);
        else if (kspec != "none") { std::istringstream ks_(kspec); std::string t; while (std::getline(ks_, t, ',')) if (!t.empty()) ks.push_back(std::atoi(t.c_str())); }
        verif_case_watchdog(ops.size() * (1 + ks.size()), 5, 200);
        std::vector<std::string> A;
        {
            Run a; a.opt = opt;
            a.run(modeM, ops, 0);
            A = a.obs;
        }
        for (auto& o : A) { std::printf("%s %s\n", modeM ? "m" : "a", o.c_str()); std::fflush(stdout); }
        for (int k : ks) {
            Run b; b.opt = opt;
            b.run(modeM, ops, k);
            // the dumps of explicit L ops are internal state (instance order is not kept), not behaviour
            auto isDump = [](const std::string& o) { return o.rfind("L ", 0) == 0; };
            std::vector<std::string> Af, Bf;
            for (auto& o : A) if (!isDump(o)) Af.push_back(o);
            for (auto& o : b.obs) if (!isDump(o)) Bf.push_back(o);
            size_t i = 0;
            while (i < Af.size() && i < Bf.size() && Af[i] == Bf[i]) ++i;
            if (i == Af.size() && i == Bf.size()) std::printf("v k=%d %s ok\n", k, b.lastStats.c_str());
            else std::printf("v k=%d DIFF obs=%zu A=[%s] B=[%s]\n", k, i, i < Af.size() ? Af[i].c_str() : "<none>", i < Bf.size() ? Bf[i].c_str() : "<none>");
            std::fflush(stdout);
        }
        verif_watchdog_off();
        std::printf("end\n");
        std::fflush(stdout);
    });
}
