// C18str harness: drives the real mfuse::str with the model's op sequences.
//   stdin : "case <id> <nv>", ops (see ocaml/C18str_driver.ml), "end"
//   stdout: "case <id>", one "m <obs>" line per op, "end"
// obs: <ret> "<c_str()>":<length()> per variable; ret: - | c<byte> | e<==>,<cmp>,<icmp>
// An IMemoryManager is installed that fills every allocation with '?' (63), exactly what the
// model does with fresh storage: a read of uninitialised bytes shows up as '?' in the text.
// Memory errors (writes beyond the allocation, null m_data) are caught by ASan/UBSan: the
// process dies and the framework blames the case.
#include <morfuse/Common/str.h>
#include <morfuse/Common/MEM/Memory.h>
#include "common.h"

#include <cstdio>
#include <cstdlib>
#include <cstring>
#include <iostream>
#include <new>
#include <sstream>
#include <string>
#include <vector>

using namespace mfuse;

class PoisonMemoryManager : public IMemoryManager
{
public:
    void* allocate(size_t size) override
    {
        void* p = std::malloc(size);
        if (p) std::memset(p, '?', size);
        return p;
    }
    void free(void* ptr) noexcept override { std::free(ptr); }
};

static std::string esc(const char* s)
{
    std::string out;
    char tmp[8];
    for (; *s; ++s) {
        unsigned char c = (unsigned char)*s;
        if (c > 0x20 && c < 0x7f && c != 0x22 && c != 0x5c) out += (char)c;
        else { std::snprintf(tmp, sizeof tmp, "\\x%02x", c); out += tmp; }
    }
    return out;
}

struct World {
    size_t nv;
    str* v;     // nv slots, constructed in place
};

static void observe(const World& w, const std::string& ret)
{
    std::string out = "m " + ret;
    for (size_t i = 0; i < w.nv; ++i) {
        const str& s = w.v[i];
        out += " \"" + esc(s.c_str()) + "\":" + std::to_string(s.length());
    }
    std::printf("%s\n", out.c_str());
}

static std::string lit(const std::string& w) { return w == "_" ? std::string() : w; }

static void runCase(const std::string& id, size_t nv, const std::vector<std::string>& ops)
{
    World w;
    w.nv = nv;
    w.v = static_cast<str*>(std::malloc(sizeof(str) * (nv ? nv : 1)));
    for (size_t i = 0; i < nv; ++i) new (&w.v[i]) str();
    std::printf("case %s\n", id.c_str());
    std::fflush(stdout);
    verif_case_watchdog(ops.size());
    for (const std::string& line : ops) {
        std::istringstream is(line);
        std::string c, a2, a3;
        size_t a = 0;
        is >> c >> a >> a2 >> a3;
        std::string ret = "-";
        if (a < nv) {
            str& v = w.v[a];
            size_t b = a2.empty() ? 0 : (size_t)std::strtoul(a2.c_str(), nullptr, 10);   // second slot / number
            if (c == "SL") { std::string t = lit(a2); v = t.c_str(); }
            else if (c == "CP") { if (b < nv) v = w.v[b]; }
            else if (c == "CC") { if (b < nv && b != a) { v.~str(); new (&v) str(w.v[b]); } }
            else if (c == "AC") { if (b < nv) v = w.v[b].c_str(); }
            else if (c == "AL") { std::string t = lit(a2); v.append(t.c_str()); }
            else if (c == "PL") { std::string t = lit(a2); v += t.c_str(); }
            else if (c == "PC") { v += (char)b; }
            else if (c == "AH") { v.append((char)b); }
            else if (c == "AS") { if (b < nv) v.append(w.v[b]); }
            else if (c == "PS") { if (b < nv) v += w.v[b]; }
            else if (c == "SC") { v[(uintptr_t)b] = (char)std::atoi(a3.c_str()); }
            else if (c == "GC") { const str& cv = v; ret = "c" + std::to_string((unsigned)(unsigned char)cv[(uintptr_t)b]); }
            else if (c == "CL") { v.CapLength(b); }
            else if (c == "MI") { v -= std::atoi(a2.c_str()); }
            else if (c == "DE") { v--; }
            else if (c == "CR") { v.clear(); }
            else if (c == "LO") { v.tolower(); }
            else if (c == "UP") { v.toupper(); }
            else if (c == "CM") {
                if (b < nv) {
                    const str& o = w.v[b];
                    ret = "e" + std::to_string((v == o) ? 1 : 0) + "," + std::to_string(str::cmp(v.c_str(), o.c_str()))
                        + "," + std::to_string(v.icmp(o));
                }
            }
            else if (c == "RS") { v.resize(b); }
            else if (c == "RV") { v.reserve(b); }
            else if (c == "AN") { std::string t = lit(a2); v.assign(t.c_str(), t.size()); }
        }
        observe(w, ret);
        std::fflush(stdout);
    }
    for (size_t i = 0; i < nv; ++i) w.v[i].~str();
    std::free(w.v);
    verif_watchdog_off();
    std::printf("end\n");
    std::fflush(stdout);
}

int main()
{
    static PoisonMemoryManager mgr;
    IMemoryManager::set(&mgr);
    std::string line, id;
    size_t nv = 0;
    std::vector<std::string> ops;
    bool in = false;
    auto flush = [&]() { if (in) runCase(id, nv, ops); in = false; ops.clear(); };
    while (std::getline(std::cin, line)) {
        if (line.rfind("case ", 0) == 0) {
            flush();
            std::istringstream is(line.substr(5));
            is >> id >> nv;
            in = true;
        } else if (line == "end") flush();
        else if (!line.empty()) ops.push_back(line);
    }
    flush();
    IMemoryManager::set(nullptr);
    return 0;
}
