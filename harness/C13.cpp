// C13 harness: the resource view of the real engine ("nothing outlives its script").
// One engine per case.  After EVERY host op the harness reports what the engine holds.
//
//   case <id> [ext]            ext = the case uses instructions outside the Coq model: its lines are
//                              printed with the prefix `x` (not compared with the model) and only the
//                              direct checks below apply
//   ops:  S <instr>*           compile a fresh script t<k> (k = start order) from the program and
//                              ExecuteThread it
//         T <dt>               the clock moves
//         X                    ScriptContext::Execute()
//         R                    director.Reset() at a frame boundary
//         C <k>                recompile script t<k> (same text) at a frame boundary
//         M <k> | MO | MF      a host ExecuteThread that is refused: label missing in t<k> / in other.scr / file missing
//         D                    destroy the context (only as the last op)
//   instr (model):  p<m>  println marker | w<ms>  wait | T( .. )  thread block | W( .. )  waitthread block
//                   R  `level.host host_reset` (Reset from inside a host command)
//                   C  `level.host host_recompile` (recompile the RUNNING script from inside a host command)
//                   st<k>  level.r<k> = local | ps  pause | xw<k>.<ms>  level.r<k> wait | xf<k>  level.r<k> waitframe | xp<k>  level.r<k> pause
//                   (timing commands applied to ANOTHER thread through a stored reference)
//                   Wm  waitthread nolabel (a new instance whose start fails)
//                   gs<v>.<x>  level|game|parm.va|vb|vc = x | gp<v>  prints 9100 + 10 v + its value (0 when it is not set)
//   instr (ext):    tm om ow em tf wf ef eo: failing starts of the other kinds (same instance / by an object / other file / missing file)
//   instr (ext):    o<k> local.o<k> = spawn Ent targetname "n<k>" | g<k> level.g<k> = spawn Ent | x<k> $n<k> remove
//                   t<k>.<n> $n<k> waittill "s<n>" | n<k>.<n> $n<k> notify "s<n>" | e<k>.<n> local endon? (not used)
//                   wp  local.parent waittill "never" (the parent thread is passed to every thread block)
//                   a  array traffic | l  local.l = local CreateListener | d<ms> local commanddelay <s> println "d"
//                   f<n> a counting loop printing n markers | q pause (never resumed)
//   out:  m|x <prints|-> idle=<0|1> cls=<n> thr=<n> vm=<n> scr=<n> tmr=<timer elements> ev=<n> trk=<n> ent=<live Ent>
//         V <text>             a direct violation found by the harness itself
// the timer keeps its element list private: the harness counts the elements
#define private public
#include <morfuse/Script/timer.h>
#undef private
#include "engine.h"
#include <morfuse/Script/SimpleEntity.h>
#include <morfuse/Script/Level.h>
#include <morfuse/Script/ScriptClass.h>
#include <morfuse/Script/ScriptVM.h>
#include <morfuse/Script/ProgramScript.h>
#include <morfuse/Script/TrackedInstances.h>
#include <morfuse/Script/EventQueue.h>
#include <cstdio>
#include <set>
using namespace mfuse;

static vh::Engine* g_engine = nullptr;
static std::map<std::string, std::string> g_sources;     // script name -> text (for recompiles)
static std::vector<std::string> g_viol;
static int g_resets = 0, g_recompiles = 0;

// ---- host classes -------------------------------------------------------------------------
static std::set<int> g_liveEnt;
static int g_nextEnt = 1;
static int g_doubleDtor = 0;

class Ent : public SimpleEntity {
public:
    MFUS_CLASS_PROTOTYPE(Ent);
    int id;
    unsigned magic;
    Ent() : id(g_nextEnt++), magic(0xE17E17u) { g_liveEnt.insert(id); }
    ~Ent()
    {
        if (magic != 0xE17E17u || !g_liveEnt.count(id)) ++g_doubleDtor;
        magic = 0xDEADu;
        g_liveEnt.erase(id);
    }
};

// unpublished script-created object (only local variables refer to it)
static std::set<int> g_liveTmp;
class Tmp : public SimpleEntity {
public:
    MFUS_CLASS_PROTOTYPE(Tmp);
    int id;
    Tmp() : id(g_nextEnt++) { g_liveTmp.insert(id); }
    ~Tmp() { if (!g_liveTmp.count(id)) ++g_doubleDtor; g_liveTmp.erase(id); }
};

static void installHost();

class Host : public Listener {
public:
    MFUS_CLASS_PROTOTYPE(Host);
    void Reset(Event&)
    {
        ++g_resets;
        g_engine->director().Reset();
        g_sources.clear();
    }
    void Recompile(Event&)
    {
        ScriptThread* t = g_engine->director().CurrentThread();
        if (!t || !t->GetScriptClass()) { g_viol.push_back("host_recompile: no current thread"); return; }
        const std::string name = g_engine->director().GetDictionary().Get(t->GetScriptClass()->Filename()).c_str();
        auto it = g_sources.find(name);
        if (it == g_sources.end()) { g_viol.push_back("host_recompile: unknown script " + name); return; }
        ++g_recompiles;
        const std::string src = it->second;
        g_engine->compile(name, src, true);
    }
};

EventDef evHostReset("host_reset", 0, nullptr, nullptr, "verification: director.Reset() from inside a host command");
EventDef evHostRecompile("host_recompile", 0, nullptr, nullptr, "verification: recompile the running script from inside a host command");

MFUS_CLASS_DECLARATION(SimpleEntity, Ent, nullptr)
{
    { nullptr, nullptr }
};
MFUS_CLASS_DECLARATION(SimpleEntity, Tmp, nullptr)
{
    { nullptr, nullptr }
};
MFUS_CLASS_DECLARATION(Listener, Host, nullptr)
{
    { &evHostReset, &Host::Reset },
    { &evHostRecompile, &Host::Recompile },
    { nullptr, nullptr }
};

static Host* g_host = nullptr;
static void installHost()
{
    g_engine->ctx->GetLevel()->Vars()->SetVariable("host", g_host);
}

// ---- programs -> script text --------------------------------------------------------------
struct Gen {
    std::vector<std::string> blocks;     // finished label blocks
    int nlabel = 0;
    bool bad = false;

    // parses instructions up to the matching ")" (or the end) and returns the statements
    std::string body(std::istringstream& is, bool nested)
    {
        std::string out, w;
        char buf[96];
        while (is >> w) {
            if (w == ")") { if (!nested) bad = true; return out; }
            if (w == "T(" || w == "W(") {
                const int l = ++nlabel;
                const std::string inner = body(is, true);
                blocks.push_back("L" + std::to_string(l) + " local.parent:\n" + inner + "end\n");
                out += std::string(w == "T(" ? "thread" : "waitthread") + " L" + std::to_string(l) + " local\n";
            }
            else if (w == "R") out += "level.host host_reset\n";
            else if (w == "C") out += "level.host host_recompile\n";
            else if ((w.rfind("gs", 0) == 0 || w.rfind("gp", 0) == 0) && w.size() > 2 && isdigit((unsigned char)w[2])) {
                // a variable of level / game / parm (v / 3) named va / vb / vc (v % 3)
                static const char* const NS[3] = { "level", "game", "parm" };
                static const char* const NM[3] = { "va", "vb", "vc" };
                const int v = std::atoi(w.c_str() + 2);
                const std::string var = std::string(NS[(v / 3) % 3]) + "." + NM[v % 3];
                if (w[1] == 's') out += var + " = " + w.substr(w.find('.') + 1) + "\n";
                else {
                    const std::string base = std::to_string(9100 + 10 * v);
                    out += "if (" + var + ") { println (" + base + " + " + var + ") } else { println " + base + " }\n";
                }
            }
            else if (w == "Wm") out += "waitthread nolabel local\n";                 // a NEW instance of this script, label missing
            else if (w == "tm") out += "thread nolabel local\n";                     // same instance, label missing
            else if (w == "om") out += "local.mo = local CreateListener\nlocal.mo thread nolabel\n";       // an object starts it: new instance
            else if (w == "ow") out += "local.mo = local CreateListener\nlocal.mo waitthread nolabel\n";
            else if (w == "em") out += "exec other.scr::nolabel\n";                  // other file, label missing
            else if (w == "tf") out += "thread other.scr::nolabel\n";
            else if (w == "wf") out += "waitthread other.scr::nolabel\n";
            else if (w == "ef") out += "exec nofile.scr\n";                          // missing file
            else if (w == "eo") out += "exec other.scr\n";                           // (a start that succeeds, for contrast)
            else if (w == "ps") out += "pause\n";
            else if (w.rfind("st", 0) == 0 && w.size() > 2 && isdigit((unsigned char)w[2])) out += "level.r" + w.substr(2) + " = local\n";
            else if (w.rfind("xp", 0) == 0 && w.size() > 2) out += "level.r" + w.substr(2) + " pause\n";
            else if (w.rfind("xf", 0) == 0 && w.size() > 2) out += "level.r" + w.substr(2) + " waitframe\n";
            else if (w.rfind("xw", 0) == 0 && w.find('.') != std::string::npos) {
                const size_t dot = w.find('.');
                std::snprintf(buf, sizeof buf, " wait %.3f\n", std::atoi(w.c_str() + dot + 1) / 1000.0);
                out += "level.r" + w.substr(2, dot - 2) + buf;
            }
            else if (w == "sv") out += "level.th = local\n";
            else if (w == "wl") out += "level.th waittill \"never\"\n";
            else if (w == "wp") out += "local.parent waittill \"never\"\n";
            else if (w == "a") out += "local.a[1] = 5\nlocal.a[2] = local.a\nlocal.b = local.a[2][1] + 1\nlocal.c = makeArray\n1 2\n3 4\nendArray\n";
            else if (w == "l") out += "local.l = local CreateListener\n";
            else if (w == "q") out += "pause\n";
            else if (w[0] == 'p') out += "println \"" + w.substr(1) + "\"\n";
            else if (w[0] == 'w') { std::snprintf(buf, sizeof buf, "wait %.3f\n", std::atoi(w.c_str() + 1) / 1000.0); out += buf; }
            else if (w[0] == 'o') out += "local.o" + w.substr(1) + " = spawn Ent targetname \"n" + w.substr(1) + "\"\n";
            else if (w[0] == 'g') out += "level.g" + w.substr(1) + " = spawn Ent\n";
            else if (w[0] == 'x') out += "$n" + w.substr(1) + " remove\n";
            else if (w[0] == 'z') out += "println (\"z" + w.substr(1) + "=\" + $n" + w.substr(1) + ".size)\n";
            else if (w[0] == 'u') out += "local.u" + w.substr(1) + " = spawn Tmp\n";
            else if (w[0] == 't' || w[0] == 'n') {
                const size_t dot = w.find('.');
                if (dot == std::string::npos) { bad = true; continue; }
                out += "$n" + w.substr(1, dot - 1) + (w[0] == 't' ? " waittill" : " notify") + " \"s" + w.substr(dot + 1) + "\"\n";
            }
            else if (w[0] == 'd') { std::snprintf(buf, sizeof buf, "local commanddelay %.3f println \"d\"\n", std::atoi(w.c_str() + 1) / 1000.0); out += buf; }
            else if (w[0] == 'f') out += "for (local.i = 0; local.i < " + w.substr(1) + "; local.i++) {\nprintln (\"f\" + local.i)\n}\n";
            else bad = true;
        }
        if (nested) bad = true;
        return out;
    }

    std::string script(std::istringstream& is)
    {
        std::string src = "main:\n" + body(is, false) + "end\n";
        for (const std::string& b : blocks) src += b;
        return src;
    }
};

// ---- observation --------------------------------------------------------------------------
static size_t g_mem0 = 0;
extern "C" size_t __sanitizer_get_current_allocated_bytes();

static void observe(vh::Engine& e, char prefix, const std::string& op)
{
    std::string d;
    for (const std::string& l : e.takeOutput()) { if (!d.empty()) d += ","; d += l; }
    if (d.empty()) d = "-";
    e.ctx->GetTrackedInstances().Cleanup();
    auto& al = e.ctx->GetAllocator();
    const bool idle = e.ctx->IsIdle();
    const size_t cls = al.ScriptClass_allocator.Count(), thr = al.ScriptThread_allocator.Count(), vm = al.ScriptVM_allocator.Count();
    if (cls != e.director().GetNumRunningScripts()) g_viol.push_back("GetNumRunningScripts differs from the instance pool count");
    // the chain of instances the director walks must hold exactly the pooled instances
    size_t chain = 0;
    for (const ScriptClass* c = e.director().GetHeadContainer(); c && chain <= cls + 1; c = c->GetNext()) ++chain;
    if (chain != cls) g_viol.push_back("instance chain holds " + std::to_string(chain) + " instances, the pool " + std::to_string(cls));
    if (g_doubleDtor) { g_viol.push_back("a script-created object was destroyed twice"); g_doubleDtor = 0; }
    std::printf("%c %s %s idle=%d cls=%zu thr=%zu vm=%zu scr=%zu tmr=%zu ev=%zu trk=%zu ent=%zu tmp=%zu\n", prefix, op.c_str(), d.c_str(), idle ? 1 : 0,
                cls, thr, vm, e.director().GetNumScripts(), (size_t)e.director().GetTimerList().m_Elements.NumObjects(),
                e.ctx->GetEventQueue().GetNumPendingEvents(), e.ctx->GetTrackedInstances().GetNumInstances(), g_liveEnt.size(), g_liveTmp.size());
    for (const std::string& v : g_viol) std::printf("V %s\n", v.c_str());
    g_viol.clear();
    const std::string w = e.io.err.str();
    e.io.err.str(""); e.io.err.clear();
    std::fflush(stdout);
}

int main(int argc, char** argv)
{
    vh::globalStreamsToStderr();
    const bool showWarn = argc > 1 && std::string(argv[1]) == "warn";
    return vh::caseLoop([showWarn](const std::string& id, const std::string& header, const std::vector<std::string>& ops) {
        const char prefix = header.find("ext") != std::string::npos ? 'x' : 'm';
        g_liveEnt.clear(); g_liveTmp.clear(); g_nextEnt = 1; g_doubleDtor = 0; g_viol.clear(); g_sources.clear();
        vh::Engine* e = new vh::Engine;
        g_engine = e;
        g_host = new Host;
        installHost();
        e->files.files["other.scr"] = "main:\nend\n";
        int nextTid = 0;
        bool destroyed = false;
        std::printf("case %s\n", id.c_str());
        std::fflush(stdout);
        verif_case_watchdog(ops.size());
        for (const std::string& line : ops) {
            if (destroyed) break;
            std::istringstream is(line);
            std::string c;
            is >> c;
            try {
                if (c == "S") {
                    const int tid = nextTid++;
                    Gen g;
                    const std::string src = g.script(is);
                    if (g.bad) g_viol.push_back("harness: malformed program");
                    const std::string name = "t" + std::to_string(tid);
                    installHost();
                    const ProgramScript* scr = e->compile(name, src);
                    g_sources[name] = src;
                    if (scr && scr->IsCompileSuccess()) e->director().ExecuteThread(scr);
                    else g_viol.push_back("harness: script did not compile");
                } else if (c == "M" || c == "MO" || c == "MF") {
                    // a host-side thread start that fails: label missing in script t<k> / in other.scr / missing file
                    int k = 0; is >> k;
                    installHost();
                    try {
                        if (c == "MF") e->director().ExecuteThread(StringResolvable("nofile.scr"), StringResolvable("main"));
                        else {
                            const std::string nm = "t" + std::to_string(k);
                            const ProgramScript* scr = c == "MO" ? e->director().GetProgramScript("other.scr")
                                                     : g_sources.count(nm) ? e->director().GetProgramScript(nm.c_str()) : nullptr;
                            if (scr && scr->IsCompileSuccess()) e->director().ExecuteThread(scr, StringResolvable("nolabel"));
                        }
                    } catch (std::exception&) { /* expected: the start is refused */ }
                } else if (c == "E") {
                    int k; is >> k;
                    installHost();
                    const ProgramScript* scr = e->director().GetProgramScript(("t" + std::to_string(k)).c_str());
                    if (scr && scr->IsCompileSuccess()) e->director().ExecuteThread(scr);
                } else if (c == "T") { long long dt; is >> dt; vh::g_clock += dt; }
                else if (c == "X") e->ctx->Execute();
                else if (c == "Q") {
                    // sentinel: a fresh script must compile and run as on a new engine
                    const std::string name = "q" + std::to_string(nextTid++);
                    installHost();
                    const std::vector<std::string> before = e->takeOutput();
                    const ProgramScript* scr = e->compile(name, "main:\nlocal.x = 3 * 4 + 1\nthread sub local.x\nprintln \"q2\"\nend\nsub local.v:\nprintln (\"q\" + local.v)\nend\n");
                    if (scr && scr->IsCompileSuccess()) e->director().ExecuteThread(scr);
                    const std::vector<std::string> out = e->takeOutput();
                    if (out.size() != 2 || out[0] != "q13" || out[1] != "q2") {
                        std::string got;
                        for (const std::string& l : out) got += l + ",";
                        g_viol.push_back("sentinel script did not run as on a new engine: printed [" + got + "]");
                    }
                    for (const std::string& l : before) e->io.out << l << "\n";
                }
                else if (c == "R") { e->director().Reset(); g_sources.clear(); }
                else if (c == "C") {
                    int k; is >> k;
                    const std::string name = "t" + std::to_string(k);
                    auto it = g_sources.find(name);
                    if (it != g_sources.end()) { const std::string src = it->second; e->compile(name, src, true); }
                } else if (c == "D") {
                    delete g_host; g_host = nullptr;
                    const std::vector<std::string> rest = e->takeOutput();
                    delete e; e = nullptr; g_engine = nullptr;
                    destroyed = true;
                    std::printf("%c D destroyed ent=%zu tmp=%zu\n", prefix, g_liveEnt.size(), g_liveTmp.size());
                    if (g_doubleDtor) std::printf("V a script-created object was destroyed twice\n");
                    std::fflush(stdout);
                    continue;
                }
            } catch (std::exception& ex) {
                g_viol.push_back(std::string("host op threw: ") + ex.what());
            }
            if (showWarn) { std::fprintf(stderr, "%s", e->io.warn.str().c_str()); }
            e->io.warn.str(""); e->io.warn.clear();
            e->io.dbg.str(""); e->io.dbg.clear();
            observe(*e, prefix, c);
        }
        if (!destroyed) { delete g_host; g_host = nullptr; delete e; g_engine = nullptr; }
        verif_watchdog_off();
        std::printf("end\n");
        std::fflush(stdout);
    });
}
