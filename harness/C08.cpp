// C08 harness: drives the real EventQueue through Listener::PostEvent / Cancel* / delete and
// EventContext::ProcessEvents, under the injected clock (hook H1).
//   stdin : "case <id>", ops (see ocaml/C08_driver.ml), "end"
//   stdout: "case <id>", "m <deliveries|-> <npending> <9 bits IsEventPending(l,ty)>" per op, "end"
#include <morfuse/Script/Context.h>
#include <morfuse/Script/Listener.h>
#include <morfuse/Script/Event.h>
#include <morfuse/Script/EventSystem.h>
#include <morfuse/Script/EventQueue.h>
#include <morfuse/Common/OutputInfo.h>
#include <morfuse/Common/VerifHooks.h>
#include "common.h"

#include <cstdio>
#include <iostream>
#include <map>
#include <memory>
#include <sstream>
#include <string>
#include <vector>

using namespace mfuse;

static int64_t g_clock = 1000;
static int64_t clockFn() { return g_clock; }

struct Act {
    std::string kind;          // P CT CA CF D
    int l = 0, ty = 0, flags = 0;
    long long delay = 0;
    std::vector<Act> handler;
};

static std::vector<Act> parseActs(std::vector<std::string>& t, size_t& i)
{
    std::vector<Act> out;
    while (i < t.size()) {
        const std::string k = t[i];
        if (k == "]") { ++i; break; }
        Act a; a.kind = k; ++i;
        if (k == "P") {
            a.l = std::stoi(t[i++]); a.ty = std::stoi(t[i++]); a.delay = std::stoll(t[i++]); a.flags = std::stoi(t[i++]);
            ++i; // "["
            a.handler = parseActs(t, i);
        } else if (k == "CT") { a.l = std::stoi(t[i++]); a.ty = std::stoi(t[i++]); }
        else if (k == "CA" || k == "D") { a.l = std::stoi(t[i++]); }
        else if (k == "CF") { a.l = std::stoi(t[i++]); a.flags = std::stoi(t[i++]); }
        else break;
        out.push_back(a);
    }
    return out;
}

class Probe;
struct World {
    Probe* lis[3] = { nullptr, nullptr, nullptr };
    int nextSeq = 0;
    std::map<int, std::vector<Act>> handlers;   // seq -> handler
    std::vector<std::string> delivered;
};
static World* g_w = nullptr;
static void doAct(const Act& a);

extern EventDef ev0, ev1, ev2;

class Probe : public Listener {
public:
    MFUS_CLASS_PROTOTYPE(Probe);
public:
    int id = -1;
    void On(Event& ev, int ty)
    {
        const int seq = ev.GetInteger(1);
        g_w->delivered.push_back(std::to_string(seq) + "/" + std::to_string(id) + "/" + std::to_string(ty));
        auto it = g_w->handlers.find(seq);
        if (it != g_w->handlers.end()) {
            const std::vector<Act> h = it->second;
            for (const Act& a : h) doAct(a);
        }
    }
    void On0(Event& ev) { On(ev, 0); }
    void On1(Event& ev) { On(ev, 1); }
    void On2(Event& ev) { On(ev, 2); }
};

EventDef ev0("verif_ev0", 0, "i", "seq", "probe event 0", evType_e::Normal);
EventDef ev1("verif_ev1", 0, "i", "seq", "probe event 1", evType_e::Normal);
EventDef ev2("verif_ev2", 0, "i", "seq", "probe event 2", evType_e::Normal);

MFUS_CLASS_DECLARATION(Listener, Probe, nullptr)
{
    { &ev0, &Probe::On0 },
    { &ev1, &Probe::On1 },
    { &ev2, &Probe::On2 },
    { nullptr, nullptr }
};

static EventDef* defOf(int ty) { return ty == 0 ? &ev0 : ty == 1 ? &ev1 : &ev2; }

static void doAct(const Act& a)
{
    World& w = *g_w;
    if (a.l < 0 || a.l > 2 || !w.lis[a.l]) return;
    Probe* p = w.lis[a.l];
    if (a.kind == "P") {
        const int seq = w.nextSeq++;
        w.handlers[seq] = a.handler;
        Event* e = new Event(*defOf(a.ty));
        e->AddInteger(seq);
        p->PostEvent(e, (inttime_t)a.delay, a.flags);
    } else if (a.kind == "CT") p->CancelEventsOfType(*defOf(a.ty));
    else if (a.kind == "CA") p->CancelPendingEvents();
    else if (a.kind == "CF") p->CancelFlaggedEvents(a.flags);
    else if (a.kind == "D") { w.lis[a.l] = nullptr; delete p; }
}

static void observe(ScriptContext& ctx)
{
    World& w = *g_w;
    std::string d;
    for (size_t i = 0; i < w.delivered.size(); ++i) { if (i) d += ","; d += w.delivered[i]; }
    if (d.empty()) d = "-";
    std::string bits;
    for (int l = 0; l < 3; ++l) for (int ty = 0; ty < 3; ++ty)
        bits += (w.lis[l] && w.lis[l]->EventPending(*defOf(ty))) ? "1" : "0";
    std::printf("m %s %zu %s\n", d.c_str(), ctx.GetEventQueue().GetNumPendingEvents(), bits.c_str());
    w.delivered.clear();
}

static void runCase(const std::string& id, const std::vector<std::string>& ops)
{
    g_clock = 1000;
    std::printf("case %s\n", id.c_str());
    std::fflush(stdout);
    verif_case_watchdog(ops.size());
    {   // the context is destroyed inside the watched region: a corrupted queue can hang its destructor
    ScriptContext ctx;
    ctx.EventContext::Set(&ctx);
    World w;
    g_w = &w;
    for (int i = 0; i < 3; ++i) { w.lis[i] = new Probe(); w.lis[i]->id = i; }
    for (const std::string& line : ops) {
        std::istringstream is(line);
        std::vector<std::string> t;
        std::string x;
        while (is >> x) t.push_back(x);
        if (t.empty()) continue;
        if (t[0] == "X") ctx.ProcessEvents();
        else if (t[0] == "T") g_clock += std::stoll(t[1]);
        else { size_t i = 0; std::vector<Act> as = parseActs(t, i); for (const Act& a : as) doAct(a); }
        observe(ctx);
        std::fflush(stdout);
    }
    for (int i = 0; i < 3; ++i) { delete w.lis[i]; w.lis[i] = nullptr; }
    ctx.GetEventQueue().ClearEventList();
    g_w = nullptr;
    }
    verif_watchdog_off();
    std::printf("end\n");
    std::fflush(stdout);
}

int main()
{
    verif::clockHook = &clockFn;
    GlobalOutput::Get().SetOutputStream(outputLevel_e::Debug, &std::cerr);
    GlobalOutput::Get().SetOutputStream(outputLevel_e::Warn, &std::cerr);
    GlobalOutput::Get().SetOutputStream(outputLevel_e::Error, &std::cerr);
    EventSystem::Get();
    std::string line, id;
    std::vector<std::string> ops;
    bool in = false;
    auto flush = [&]() { if (in) runCase(id, ops); in = false; ops.clear(); };
    while (std::getline(std::cin, line)) {
        if (line.rfind("case ", 0) == 0) { flush(); std::istringstream is(line.substr(5)); is >> id; in = true; }
        else if (line == "end") flush();
        else if (!line.empty()) ops.push_back(line);
    }
    flush();
    return 0;
}
