// C11 harness: writes an item sequence with the real Archiver (harness/C10.cpp), damages the
// bytes (truncation / byte substitution) and reads them back with the same call sequence,
// classifying how the read ends: ok same | ok changed | err <ArchiveErrors kind> | exc <other>.
// A crash or a sanitizer report ends the process and is blamed on the case by the framework.
//   stdin : "case <id> <magic-hex> <version> <name-hex|-> | item | item ...", ops, "end"
//           op: "T <n>"  |  "S <pos>:<hexbyte>[,...] [flag [classes]]"
//   stdout: "case <id>", one "m <op> => <outcome>" line per op, "end"
#include "common.h"

#include <cstdio>
#include <iostream>
#include <sstream>
#include <string>
#include <vector>

struct CaseSpec {
    std::string magic, name;
    unsigned version = 1;
    std::vector<std::string> items;
};

std::string c10_write(const CaseSpec& cs, std::string& bytesOut);
std::string c10_read(const CaseSpec& cs, const std::string& bytes, std::vector<std::string>& lines);
void c10_setup();
bool c10_parse_header(const std::string& line, std::string& id, CaseSpec& cs);

static std::string trim(const std::string& s)
{
    size_t a = s.find_first_not_of(" \t"), b = s.find_last_not_of(" \t");
    return a == std::string::npos ? std::string() : s.substr(a, b - a + 1);
}

static void runCase(const std::string& id, const CaseSpec& cs, const std::vector<std::string>& ops)
{
    std::printf("case %s\n", id.c_str());
    std::fflush(stdout);
    verif_case_watchdog(ops.size(), 10, 40);
    std::string bytes;
    std::vector<std::string> intact, lines;
    std::string wr = c10_write(cs, bytes);
    std::string ir = wr == "ok" ? c10_read(cs, bytes, intact) : std::string("not-written");
    for (const std::string& opl : ops) {
        const std::string op = trim(opl);
        std::string out;
        if (wr != "ok" || ir != "ok") {
            out = "intact-archive-failed " + wr + " / " + ir;
        } else {
            std::string dmg = bytes;
            std::istringstream is(op);
            std::string k, a;
            is >> k >> a;
            if (k == "T") {
                const size_t n = (size_t)std::stoull(a);
                if (n < dmg.size()) dmg.resize(n);
            } else if (k == "S") {
                std::istringstream subs(a);
                std::string one;
                while (std::getline(subs, one, ',')) {
                    const size_t c = one.find(':');
                    if (c == std::string::npos) continue;
                    const size_t p = (size_t)std::stoull(one.substr(0, c));
                    const int v = std::stoi(one.substr(c + 1), nullptr, 16);
                    if (p < dmg.size()) dmg[p] = (char)v;
                }
            }
            out = c10_read(cs, dmg, lines);
            if (out == "ok") out = lines == intact ? "ok same" : "ok changed";
        }
        std::printf("m %s => %s\n", op.c_str(), out.c_str());
        std::fflush(stdout);
    }
    verif_watchdog_off();
    std::printf("end\n");
    std::fflush(stdout);
}

int main()
{
    c10_setup();
    std::string line, id;
    CaseSpec cs;
    std::vector<std::string> ops;
    bool in = false;
    auto flush = [&]() { if (in) runCase(id, cs, ops); in = false; ops.clear(); };
    while (std::getline(std::cin, line)) {
        if (line.rfind("case ", 0) == 0) {
            flush();
            // header words up to the first " | ", then the items
            std::vector<std::string> parts;
            size_t start = 0;
            while (true) {
                size_t bar = line.find(" | ", start);
                if (bar == std::string::npos) { parts.push_back(line.substr(start)); break; }
                parts.push_back(line.substr(start, bar - start));
                start = bar + 3;
            }
            c10_parse_header(parts[0], id, cs);
            for (size_t i = 1; i < parts.size(); ++i) { std::string it = trim(parts[i]); if (!it.empty()) cs.items.push_back(it); }
            in = true;
        } else if (line == "end") flush();
        else if (!line.empty()) ops.push_back(line);
    }
    flush();
    std::fflush(stdout);
    _exit(0);      // not exit(): the static BlockAlloc of con::set frees its blocks through a memory manager that is already gone
}
