// C01 harness: compilation is total; the script table survives rejections.
// One engine per case; `case <id> dev=<0|1>`: developer mode of the context (program-to-source map, source
// positions in diagnostics); the context is DESTROYED before `end` is printed, with the watchdog armed, so a
// crash or hang in teardown is blamed on the case.  ops (one per line):
//   Z                         ScriptMaster::Reset()
//   S <name> <hex>            register <hex> as the file content of <name> (memory file manager), no compile
//   C <name> <r> <hex>        ScriptMaster::GetProgramScript(name, stream(<hex>), recompile=<r>)
//   F <name> <r>              ScriptMaster::GetProgramScript(name, recompile=<r>)   (file variant)
//   R <name>                  FindScript(name): absent | failed | run it (ExecuteThread) and print what it printed
//   E <name>                  ScriptMaster::ExecuteThread(name) (file variant + run): the path of exec/thread "x.scr"
//   T <name>                  like R but the script is not run: absent | failed | loaded (it has a non-empty program)
//   K <skeleton tokens>       compile the loop skeleton (W( D( S( T( | I( ) b c f) and print the outcome class and,
//                             for every break/continue in source order, the construct that owns its jump target
// out: `m <obs>` per op.  Outcome classes of C/F:
//   ok | parse | compile:<Type> | notloaded | failedptr | nofile | null | scriptexc | other:<type>
//   (+ ` nodiag` when a rejection printed nothing on the Error stream, ` arena-overflow` when the
//   arena's bump pointer ended beyond its block)
#include <algorithm>
#include <cstdint>
#include <cstdio>
#include <cstdlib>
#include <cstring>
#include <cxxabi.h>
#include <exception>
#include <iostream>
#include <map>
#include <memory>
#include <sstream>
#include <string>
#include <typeinfo>
#include <vector>
#include <set>
#include <list>
#include <mutex>
#include <shared_mutex>
#include <functional>
#include <chrono>
#include <atomic>
#include <thread>
#include <fstream>
#include <iomanip>
#include <type_traits>
#include <utility>
#include <new>
#include <cassert>
#include <cstdarg>
#include <charconv>
#include <limits>
#include <cmath>
#include <tuple>
#include <array>
#include <unordered_map>
#include <condition_variable>
#include <istream>
#include <ostream>
#include <streambuf>
#include <stdexcept>
#define private public
#define protected public
#include "engine.h"
#include <morfuse/Script/ProgramScript.h>
#include <morfuse/Script/SourceException.h>
#include <morfuse/Script/ScriptException.h>
#include <morfuse/Script/ScriptOpcodes.h>
#include <Script/Compiler.h>
#undef private
#undef protected
using namespace mfuse;

static std::string unhex(const std::string& h)
{
    std::string s;
    auto v = [](char c) { return c <= '9' ? c - '0' : (c | 32) - 'a' + 10; };
    for (size_t i = 0; i + 1 < h.size(); i += 2) s.push_back((char)(v(h[i]) * 16 + v(h[i + 1])));
    return s;
}

static std::string typeName(const std::exception& e)
{
    int st = 0;
    char* d = abi::__cxa_demangle(typeid(e).name(), nullptr, nullptr, &st);
    std::string n = d ? d : typeid(e).name();
    std::free(d);
    size_t k = n.rfind("::");
    return k == std::string::npos ? n : n.substr(k + 2);
}

struct Outcome {
    std::string cls;
    const ProgramScript* scr = nullptr;
};

template<typename F>
static Outcome attempt(vh::Engine& e, F f)
{
    Outcome o;
    e.io.err.str("");
    e.io.err.clear();
    bool rejected = false;
    try {
        o.scr = f();
        if (!o.scr) o.cls = "null";
        else if (!o.scr->IsCompileSuccess()) o.cls = "failedptr";
        else {
            o.cls = "ok";
            MEM::PreAllocator& a = const_cast<ProgramScript*>(o.scr)->GetAllocator();
            if (a.allocatedBlock && a.current > a.endBlock) o.cls += " arena-overflow";
        }
    }
    catch (ParseException::Base& ex) { o.cls = "parse"; rejected = true; }
    catch (CompileException::Base& ex) { o.cls = "compile:" + typeName(ex); rejected = true; }
    catch (CompileErrors::Base& ex) { o.cls = "compile:" + typeName(ex); rejected = true; }
    catch (ScriptException& ex) {
        o.cls = std::strstr(ex.what(), "was not properly loaded") ? "notloaded" : "scriptexc";
    }
    catch (FileExceptions::NotFound& ex) { o.cls = "nofile"; }
    catch (std::exception& ex) { o.cls = "other:" + typeName(ex); }
    catch (...) { o.cls = "other:unknown"; }
    if (rejected && e.io.err.str().empty()) o.cls += " nodiag";
    return o;
}

static std::string runScript(vh::Engine& e, const ProgramScript* scr, bool show)
{
    e.takeOutput();
    std::string res = "run";
    try {
        e.director().ExecuteThread(scr);
        for (int f = 0; f < 3; ++f) { vh::g_clock += 1; e.ctx->Execute(); }
    }
    catch (std::exception& ex) { res = "run-exc:" + typeName(ex); }
    catch (...) { res = "run-exc:unknown"; }
    std::vector<std::string> out = e.takeOutput();
    if (show) for (const std::string& l : out) res += " " + l;
    return res;
}

// ---------------------------------------------------------------- loop skeletons
struct Skel {
    std::string src;
    std::vector<char> jumps;     // source order: 'b' break, 'c' continue, 's' switch entry, 't' catch skip
};

static void skelEmit(const std::vector<std::string>& tk, Skel& s)
{
    std::vector<char> open;
    s.src = "main:\n";
    for (const std::string& t : tk) {
        if (t == "W(") { s.src += "while (1) {\n"; open.push_back('W'); }
        else if (t == "D(") { s.src += "do {\n"; open.push_back('D'); }
        else if (t == "S(") { s.src += "switch (1) {\ncase 1:\n"; open.push_back('S'); s.jumps.push_back('s'); }
        else if (t == "T(") { s.src += "try {\n"; open.push_back('T'); }
        else if (t == "I(") { s.src += "if (local.a) {\n"; open.push_back('I'); }
        else if (t == "|") { s.src += "} catch {\n"; s.jumps.push_back('t'); }
        else if (t == ")") {
            char o = open.empty() ? '?' : open.back();
            if (!open.empty()) open.pop_back();
            s.src += (o == 'D') ? "} while (1)\n" : "}\n";
        }
        else if (t == "b") { s.src += "break\n"; s.jumps.push_back('b'); }
        else if (t == "c") { s.src += "continue\n"; s.jumps.push_back('c'); }
        else if (t == "f") { s.src += "local.a = 1\n"; }
    }
    s.src += "end\n";
}

struct Construct { size_t start, end, cont; bool loop; };

static std::string skelOwners(const ProgramScript* scr, const Skel& s)
{
    const opval_t* p = scr->GetProgBuffer();
    const size_t n = scr->GetProgLength();
    struct J { size_t pos, target; };
    std::vector<J> jumps;
    std::vector<Construct> cons;
    size_t i = 0;
    while (i < n) {
        const opval_t op = p[i];
        size_t len = OpcodeLength(op);
        if (!len) len = 1;                               // OP_DONE / padding zeros: table length 0
        if (op == OP_JUMP4) {
            op_offset_t off; std::memcpy(&off, p + i + 1, sizeof off);
            jumps.push_back({i, i + 1 + sizeof(op_offset_t) + (size_t)off});
        } else if (op == OP_JUMP_BACK4) {
            op_offset_t off; std::memcpy(&off, p + i + 1, sizeof off);
            cons.push_back({i + 1 - (size_t)off, i + 1 + sizeof(op_offset_t), 0, true});
        } else if (op == OP_SWITCH) {
            // the switch's own exit jump follows the opcode; its target is the end of the switch
            size_t j = i + len;
            if (j < n && p[j] == OP_JUMP4) {
                op_offset_t off; std::memcpy(&off, p + j + 1, sizeof off);
                cons.push_back({i, j + 1 + sizeof(op_offset_t) + (size_t)off, 0, false});
            }
        }
        i += len;
    }
    if (jumps.size() != s.jumps.size()) {
        return " jump-count-mismatch:" + std::to_string(jumps.size()) + "/" + std::to_string(s.jumps.size());
    }
    // number the constructs in source (= code start) order; outer before inner at equal start
    std::sort(cons.begin(), cons.end(), [](const Construct& a, const Construct& b) {
        return a.start != b.start ? a.start < b.start : a.end > b.end; });
    std::string res;
    for (size_t k = 0; k < jumps.size(); ++k) {
        const char kind = s.jumps[k];
        if (kind != 'b' && kind != 'c') continue;
        const size_t pos = jumps[k].pos, tg = jumps[k].target;
        long owner = -1;
        for (size_t c = 0; c < cons.size(); ++c) {
            const Construct& q = cons[c];
            if (!(q.start <= pos && pos < q.end)) continue;
            if (kind == 'b') { if (q.end == tg) owner = (long)c; }                           // innermost wins (later in order)
            else { if (q.loop && q.start <= tg && tg < q.end && tg > pos) owner = (long)c; }  // innermost loop holding the target
        }
        res += " ";
        res += kind;
        res += owner < 0 ? std::string("?") : std::to_string(owner);
    }
    return res;
}

int main()
{
    vh::globalStreamsToStderr();
    return vh::caseLoop([](const std::string& id, const std::string& header, const std::vector<std::string>& ops) {
        std::unique_ptr<vh::Engine> engine(new vh::Engine());
        vh::Engine& e = *engine;
        const bool dev = header.find("dev=0") == std::string::npos;
        e.ctx->GetSettings().SetDeveloperEnabled(dev);
        int knum = 0;
        std::printf("case %s\n", id.c_str());
        std::fflush(stdout);
        for (const std::string& line : ops) {
            std::istringstream is(line);
            std::string c, name, hex;
            int r = 0;
            is >> c;
            std::signal(SIGALRM, verif_on_alarm);
            alarm(20);                                   // the property's own bound: 20 s per compilation
            if (c == "Z") {
                e.director().Reset();
                std::printf("m Z\n");
            } else if (c == "S") {
                is >> name >> hex;
                e.files.files[name] = unhex(hex);
                std::printf("m S\n");
            } else if (c == "C") {
                is >> name >> r >> hex;
                const std::string src = unhex(hex);
                Outcome o = attempt(e, [&]() {
                    imemstream stream(src.data(), src.size());
                    return e.director().GetProgramScript(name.c_str(), stream, r != 0);
                });
                if (std::getenv("C01_DIAG")) {       // development aid: the diagnostic on one line
                    std::string d = e.io.err.str();
                    for (char& ch : d) if (ch == '\n' || ch == '\r') ch = '|';
                    std::printf("d %s\n", d.c_str());
                }
                std::printf("m C %s\n", o.cls.c_str());
            } else if (c == "F") {
                is >> name >> r;
                Outcome o = attempt(e, [&]() { return e.director().GetProgramScript(name.c_str(), r != 0); });
                std::printf("m F %s\n", o.cls.c_str());
            } else if (c == "R" || c == "T") {
                is >> name;
                const const_str cs = e.director().GetDictionary().Add(name.c_str());
                ProgramScript* scr = e.director().FindScript(cs);
                if (!scr) std::printf("m %s absent\n", c.c_str());
                else if (!scr->IsCompileSuccess()) std::printf("m %s failed\n", c.c_str());
                else {
                    if (c == "T") {
                        // an arbitrary accepted text is not executed here (C02/C03/C04 execute programs): only that a program exists
                        const bool has = scr->GetProgBuffer() != nullptr && scr->GetProgLength() > 0;
                        std::printf("m T %s\n", has ? "loaded" : "loaded-without-program");
                    } else {
                        const std::string rr = runScript(e, scr, true);
                        std::printf("m %s %s\n", c.c_str(), rr.c_str());
                    }
                }
            } else if (c == "E") {
                // the path taken by script commands (exec/thread "other.scr"): ExecuteThread by NAME
                is >> name;
                e.takeOutput();
                std::string res = "run";
                try {
                    e.director().ExecuteThread(StringResolvable(name.c_str()));
                    for (int f = 0; f < 3; ++f) { vh::g_clock += 1; e.ctx->Execute(); }
                }
                catch (ScriptException& ex) { res = std::strstr(ex.what(), "was not properly loaded") ? "notloaded" : "scriptexc"; }
                catch (FileExceptions::NotFound& ex) { res = "nofile"; }
                catch (ParseException::Base& ex) { res = "parse"; }
                catch (CompileException::Base& ex) { res = "compile:" + typeName(ex); }
                catch (std::exception& ex) { res = "exc:" + typeName(ex); }
                for (const std::string& l : e.takeOutput()) res += " " + l;
                std::printf("m E %s\n", res.c_str());
            } else if (c == "K") {
                std::vector<std::string> tk;
                std::string t;
                while (is >> t) tk.push_back(t);
                Skel s;
                skelEmit(tk, s);
                const std::string nm = "k" + std::to_string(knum++);
                Outcome o = attempt(e, [&]() {
                    imemstream stream(s.src.data(), s.src.size());
                    return e.director().GetProgramScript(nm.c_str(), stream, false);
                });
                std::string extra;
                if (o.cls == "ok") extra = skelOwners(o.scr, s);
                std::printf("m K %s%s\n", o.cls.c_str(), extra.c_str());
            } else {
                std::printf("m ? unknown op\n");
            }
            alarm(0);
            std::fflush(stdout);
        }
        alarm(20);
        e.director().Reset();
        engine.reset();                                  // ~ScriptContext inside the watched region
        verif_watchdog_off();
        std::printf("end\n");
        std::fflush(stdout);
    });
}
