// engine.h — shared host set-up for harnesses that drive the whole scripting engine:
// injected clock (hook H1), a ScriptContext with every diagnostic stream captured,
// script compilation from a string.
#pragma once
#include <morfuse/Script/Context.h>
#include <morfuse/Script/ScriptMaster.h>
#include <morfuse/Script/ScriptThread.h>
#include <morfuse/Script/EventSystem.h>
#include <morfuse/Script/Event.h>
#include <morfuse/Common/OutputInfo.h>
#include <morfuse/Common/membuf.h>
#include <morfuse/Common/VerifHooks.h>
#include <morfuse/Script/interfaces/file.h>
#include <morfuse/Script/Archiver.h>
#include "common.h"

#include <cstdint>
#include <cstdio>
#include <cstdlib>
#include <iostream>
#include <map>
#include <memory>
#include <sstream>
#include <string>
#include <vector>

namespace vh {

static thread_local int64_t g_clock = 1000;   // one clock per host thread (C20 runs several engines)
static int64_t clockFn() { return g_clock; }

// file management: scripts are served from memory by name (needed when an archive is loaded:
// the engine re-opens every script it finds in the archive)
struct MemFile : public mfuse::IFile {
    std::string text;
    mfuse::imemstream stream;
    explicit MemFile(const std::string& t) : text(t), stream(text.data(), text.size()) {}
    std::istream& getStream() noexcept override { return stream; }
};
struct MemFiles : public mfuse::IFileManagement {
    std::map<std::string, std::string> files;
    mfuse::IFile* OpenFile(const char* fname) override
    {
        auto it = files.find(fname);
        if (it == files.end()) throw mfuse::FileExceptions::NotFound(fname);
        return new MemFile(it->second);
    }
    void CloseFile(mfuse::IFile* file) noexcept override { delete file; }
};

struct Streams {
    std::ostringstream out, warn, err, dbg;
};

// one engine instance with captured output
struct Engine {
    Streams io;
    MemFiles files;
    std::unique_ptr<mfuse::ScriptContext> ctx;

    explicit Engine(bool attachWarn = true, bool attachErr = true, bool attachDbg = true, bool attachOut = true)
    {
        g_clock = 1000;
        if (!mfuse::verif::clockHook) mfuse::verif::clockHook = &clockFn;   // C20 sets it once before starting threads
        mfuse::EventSystem::Get();
        ctx.reset(new mfuse::ScriptContext());
        ctx->EventContext::Set(ctx.get());
        if (attachOut) ctx->GetOutputInfo().SetOutputStream(mfuse::outputLevel_e::Output, &io.out);
        if (attachWarn) ctx->GetOutputInfo().SetOutputStream(mfuse::outputLevel_e::Warn, &io.warn);
        if (attachErr) ctx->GetOutputInfo().SetOutputStream(mfuse::outputLevel_e::Error, &io.err);
        if (attachDbg) ctx->GetOutputInfo().SetOutputStream(mfuse::outputLevel_e::Debug, &io.dbg);
        ctx->GetSettings().SetDeveloperEnabled(true);
        ctx->GetScriptInterfaces().fileManagement = &files;
    }

    mfuse::ScriptMaster& director() { return ctx->GetDirector(); }

    const mfuse::ProgramScript* compile(const std::string& name, const std::string& src, bool recompile = false)
    {
        files.files[name] = src;
        mfuse::imemstream stream(src.data(), src.size());
        return director().GetProgramScript(name.c_str(), stream, recompile);
    }

    // the text printed through `println` since the last call, split into lines
    std::vector<std::string> takeOutput()
    {
        std::vector<std::string> lines;
        std::istringstream is(io.out.str());
        std::string l;
        while (std::getline(is, l)) lines.push_back(l);
        io.out.str("");
        io.out.clear();
        return lines;
    }
};

inline void globalStreamsToStderr()
{
    mfuse::GlobalOutput::Get().SetOutputStream(mfuse::outputLevel_e::Debug, &std::cerr);
    mfuse::GlobalOutput::Get().SetOutputStream(mfuse::outputLevel_e::Warn, &std::cerr);
    mfuse::GlobalOutput::Get().SetOutputStream(mfuse::outputLevel_e::Error, &std::cerr);
}

// generic case reader: calls run(id, header words, op lines) per case
template<typename F>
inline int caseLoop(F run)
{
    std::string line, id, header;
    std::vector<std::string> ops;
    bool in = false;
    auto flush = [&]() { if (in) run(id, header, ops); in = false; ops.clear(); };
    while (std::getline(std::cin, line)) {
        if (line.rfind("case ", 0) == 0) {
            flush();
            std::istringstream is(line.substr(5));
            is >> id;
            std::getline(is, header);
            in = true;
        } else if (line == "end") flush();
        else if (!line.empty()) ops.push_back(line);
    }
    flush();
    // skip static destruction: its order between the statically linked library and the
    // harness differs from the shared-library build (the memory manager dies first)
    std::fflush(stdout);
    std::_Exit(0);
    return 0;
}

} // namespace vh
