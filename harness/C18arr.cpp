// C18arr harness: drives the real con::arrayset with the model's op sequences.
//   stdin : "case <id> <hmod> <u> <variant>", ops
//           "add k|find k|at i|resize n|shrink|clear|size|rm k", "end"
//   stdout: "case <id>", per op one "m <obs>" line and one "d <allocated()>" line, "end"
// obs: <res> | <size()> <findKeyIndex(k)>:<operator[] of that index> ... for k = 0..u-1
//      res: u | i<index> | k<key> | n<size> | b0/b1 ; "undef" = the op's precondition
//      (operator[] needs 1 <= i <= size(); resize(n) needs 1 <= n, size() <= n <= 89834777)
//      does not hold: the op is NOT executed and the case ends (as in model and spec).
// hash(k) = k mod hmod (a custom HashT, so that keys collide).
// variant 0: arrayset<int,int,H,EqualTo<int>,MEM::DefaultAlloc_set>   (the StringDictionary allocator)
// variant 1: arrayset<K,V,...,MEM::DefaultAlloc_set> with V derived from K carrying a tag
//            computed from the key and counting constructions/destructions
// variant 2: arrayset<int,int,H> with the default allocator (MEM::BlockAllocSafe_set)
// Checks made by the harness itself on the real object (marked "!" in the m line, reported
// as direct violations): with `live` = the keys added and not removed since the last
// clear, every live key has a non-zero index whose operator[] is that key; every other key
// of the universe has index 0; size() is the number of live keys; remove(k) returns whether k
// was live; variant 1: the value's tag matches its key and no value object survives the set.
#include <morfuse/Container/arrayset.h>
#include <morfuse/Common/MEM/DefaultAlloc.h>
#include "common.h"

#include <cstdio>
#include <cstdlib>
#include <iostream>
#include <set>
#include <sstream>
#include <string>
#include <vector>

using namespace mfuse;

static size_t g_hmod = 1;

struct HInt {
    size_t operator()(const int& k) const { return (size_t)k % g_hmod; }
};

struct K {
    int id;
    K(int i) : id(i) {}
    bool operator==(const K& o) const { return id == o.id; }
};
struct V : K {
    int tag;
    static long live;
    V(const K& k) : K(k), tag(k.id * 7 + 3) { ++live; }
    V(const V& o) : K(o), tag(o.tag) { ++live; }
    ~V() { --live; tag = -1; }
};
long V::live = 0;
struct HK {
    size_t operator()(const K& k) const { return (size_t)k.id % g_hmod; }
};

using Set0 = con::arrayset<int, int, HInt, EqualTo<int>, MEM::DefaultAlloc_set>;
using Set1 = con::arrayset<K, V, HK, EqualTo<K>, MEM::DefaultAlloc_set>;
using Set2 = con::arrayset<int, int, HInt>;

template<typename S> struct Tr;
template<> struct Tr<Set0> {
    static int mk(int k) { return k; }
    static int keyOf(const int& v, bool&) { return v; }
    static long liveValues() { return -1; }
};
template<> struct Tr<Set2> : Tr<Set0> {};
template<> struct Tr<Set1> {
    static K mk(int k) { return K(k); }
    static int keyOf(const V& v, bool& bad) { if (v.tag != v.id * 7 + 3) bad = true; return v.id; }
    static long liveValues() { return V::live; }
};

static const size_t MAX_LEN = 89834777;

template<typename S>
static void runCase(const std::string& id, size_t u, const std::vector<std::string>& ops)
{
    using T = Tr<S>;
    std::printf("case %s\n", id.c_str());
    std::fflush(stdout);
    verif_case_watchdog(ops.size());
    {
        S s;
        std::set<int> live;
        for (const std::string& line : ops) {
            std::istringstream is(line);
            std::string c; long a = 0;
            is >> c >> a;
            std::string res;
            bool undef = false, bad = false, rmWrong = false;
            if (c == "add") {
                res = "i" + std::to_string(s.addKeyIndex(T::mk((int)a)));
                live.insert((int)a);
            } else if (c == "find") {
                const S& cs = s;
                res = "i" + std::to_string(cs.findKeyIndex(T::mk((int)a)));
            } else if (c == "at") {
                if (a < 1 || (size_t)a > s.size()) undef = true;
                else res = "k" + std::to_string(T::keyOf(s[(uintptr_t)a], bad));
            } else if (c == "resize") {
                if (a < 1 || (size_t)a < s.size() || (size_t)a > MAX_LEN) undef = true;
                else { s.resize((size_t)a); res = "u"; }
            } else if (c == "shrink") {
                s.shrink(); res = "u";
            } else if (c == "clear") {
                s.clear(); res = "u"; live.clear();
            } else if (c == "size") {
                res = "n" + std::to_string(s.size());
            } else if (c == "rm") {
                const bool r = s.remove(T::mk((int)a));
                res = r ? "b1" : "b0";
                if (r != (live.erase((int)a) != 0)) rmWrong = true;
            } else {
                res = "?";
            }
            if (undef) {
                std::printf("m undef\n");
                std::fflush(stdout);
                break;
            }
            std::string out = "m " + res + " | " + std::to_string(s.size());
            std::string marks;
            const S& cs = s;
            for (size_t k = 0; k < u; ++k) {
                const uintptr_t ix = cs.findKeyIndex(T::mk((int)k));
                out += " " + std::to_string(ix) + ":";
                const bool isLive = live.count((int)k) != 0;
                if (ix == 0) {
                    out += "-";
                    if (isLive) marks += " !lost(" + std::to_string(k) + ")";
                } else {
                    const int got = T::keyOf(cs[ix], bad);
                    out += std::to_string(got);
                    if (!isLive) marks += " !ghost(" + std::to_string(k) + ")";
                    else if (got != (int)k) marks += " !id(" + std::to_string(k) + ")";
                }
            }
            if (bad) marks += " !tag";
            if (rmWrong) marks += " !rm";
            if (s.size() != live.size()) marks += " !size";
            std::printf("%s%s\n", out.c_str(), marks.c_str());
            std::printf("d %zu\n", s.allocated());
            std::fflush(stdout);
        }
    }
    if (Tr<S>::liveValues() > 0) {
        std::printf("m !leak %ld value objects survive the set\n", Tr<S>::liveValues());
        V::live = 0;
    }
    verif_watchdog_off();
    std::printf("end\n");
    std::fflush(stdout);
}

int main()
{
    std::string line, id;
    size_t u = 0; int variant = 0;
    std::vector<std::string> ops;
    bool in = false;
    bool usedBlockAllocator = false;
    auto flush = [&]() {
        if (in) {
            if (variant == 1) runCase<Set1>(id, u, ops);
            else if (variant == 2) { usedBlockAllocator = true; runCase<Set2>(id, u, ops); }
            else runCase<Set0>(id, u, ops);
        }
        in = false; ops.clear();
    };
    while (std::getline(std::cin, line)) {
        if (line.rfind("case ", 0) == 0) {
            flush();
            std::istringstream is(line.substr(5));
            size_t hm = 1;
            is >> id >> hm >> u >> variant;
            g_hmod = hm ? hm : 1;
            in = true;
        } else if (line == "end") flush();
        else if (!line.empty()) ops.push_back(line);
    }
    flush();
    std::fflush(stdout);
    // The static BlockAllocSafe_set<...>::allocator of this translation unit is destroyed
    // AFTER the library's static defaultMemoryManager (src/Common/MEM/Memory.cpp); its
    // destructor then calls IMemoryManager::get().free() on a destroyed object ("pure
    // virtual method called" at process exit).  That is a static-destruction-order problem
    // of the allocator, not of arrayset (every set is destroyed inside runCase): skip the
    // static destructors when the block allocator was used.
    if (usedBlockAllocator) _exit(0);
    return 0;
}
