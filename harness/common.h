// common.h — shared by all harnesses: a per-case watchdog so that a hang of the
// implementation ends the process quickly and is blamed on the case it was running.
#pragma once
#include <csignal>
#include <cstdio>
#include <cstdlib>
#include </usr/include/unistd.h>   // not the empty stub in /repo/src

static void verif_on_alarm(int)
{
    static const char msg[] = "\nwatchdog: case exceeded its time budget\n";
    ssize_t r = write(2, msg, sizeof(msg) - 1);
    (void)r;
    _exit(124);
}

// seconds = base + ops / opsPerSecond
static inline void verif_case_watchdog(size_t nops, unsigned base = 3, size_t opsPerSecond = 500)
{
    std::signal(SIGALRM, verif_on_alarm);
    // VERIF_WATCHDOG_SCALE multiplies the budget (used when a reported hang is re-run alone to
    // tell a real hang from a slow, loaded machine)
    unsigned scale = 1;
    if (const char* e = std::getenv("VERIF_WATCHDOG_SCALE")) { const int v = std::atoi(e); if (v > 1 && v <= 100) scale = (unsigned)v; }
    alarm((base + (unsigned)(nops / opsPerSecond)) * scale);
}

// between cases a generous budget stays armed, so that a hang in teardown code that runs
// after a case (destructors of the engine) still ends the process
static inline void verif_watchdog_off()
{
    std::signal(SIGALRM, verif_on_alarm);
    alarm(60);
}
