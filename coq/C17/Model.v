(* C17/Model.v - executable model of mfuse::StringDictionary (src/Common/StringDictionary.cpp)
   and of the way ScriptMaster fills it with the engine's predefined strings
   (ScriptMaster::InitConstStrings / ClearAll / Reset, src/Script/ScriptMaster.cpp), as a thin
   layer over the arrayset model of unit C18arr (C18arr/Model.v: the chained table, the reverse
   table, the inline defaultEntry slot, growth through set_primes, resize, clear).

   What is modelled
   - a text is a number: the injective code of its bytes, the base-256 number of the byte
     string with a leading 1 byte (the empty text has code 1).  The table is
     con::arrayset<str, str, Hash<str>, EqualTo<str>, DefaultAlloc_set>: Hash<str> and
     str::operator== both work on the NUL-terminated c_str() (case sensitive, byte-wise), so a
     key IS the byte string up to its first NUL; texts are NUL-free byte strings here.  The hash
     is a Section variable: any function from keys to numbers (the real one is
     h = h * 31 + (signed char) over the bytes, as an unsigned 64 bit number).
   - Add(text)                = stringDict.addKeyIndex(str)              [OIntern]
   - Get(const rawchar_t* s)  = stringDict.findKeyIndex(s), 0 = const_str::None() = absent
                                                                         [OLookup]
   - Get(const_str id)        = stringDict[id] = reverseTable[id]->Value(); the C++ has no
     check at all: id 0 (None) or an id above size() dereferences a foreign / null / stale
     pointer.  That is [Undef] here (C18arr's at_index).                 [OText]
   - AllocateMoreString(n)    : if (size() + n > allocated()) resize(size() + n);
     grow-only, to a caller-chosen (usually non-prime) table length     [OPresize]
   - Reset()                  = stringDict.clear()
   - ScriptMaster::InitConstStrings(): dict.AllocateMoreString(PredefinedString::GetNumStrings());
     then dict.Add(string) for every element of the static PredefinedString list in list
     order (the assert(value == index) is compiled out in the released library; it is theorem
     C17_predefined_ids_fixed instead).  The list is the parameter [predef]; the engine's
     actual list is C17/Generated.v, regenerated from the running code on every check.
     The ScriptMaster constructor runs InitConstStrings on the fresh dictionary [start];
     ScriptMaster::Reset = ClearAll = dict.Reset(); InitConstStrings().  [OReset]
     A bare StringDictionary is the instance predef = [] (InitConstStrings is then a no-op:
     AllocateMoreString(0) never resizes because size() <= allocated()).
   - every arrayset operation goes through C18arr's client-level [step], which adds the
     client preconditions of the container (resize(n) needs 1 <= n, size() <= n <= 89834777).
     For AllocateMoreString only the last one can fail (size() + n is at least 1 and at least
     size() whenever the guard holds).

   What is abstracted
   - const_str is a uint32_t, the arrayset index a uintptr_t: the truncation cannot happen below
     the capacity bound 89834777 < 2^32; size() + n is computed without size_t wrap-around;
     the two code paths of Add (strview over a char array -> a new str is built; strview over
     a str -> the str is shared) are one operation; ArchiveString (Add / operator[] behind a
     has-string byte) is not modelled separately. *)
From Coq Require Import NArith List Bool.
From Morfuse Require Import Base.Arr C18arr.Model.
Import ListNotations.
Local Open Scope N_scope.

Inductive dop :=
| OIntern (t : N)       (* Add(text) *)
| OLookup (t : N)       (* Get(text) *)
| OText (i : N)         (* Get(id) *)
| OPresize (n : N)      (* AllocateMoreString(n) *)
| OReset.               (* Reset(), followed by InitConstStrings() at the ScriptMaster level *)

(* what is observed after every operation: its result (RIdx id | RKey text | RUnit) and the
   number of interned strings *)
Inductive dobs :=
| DObs (r : res) (size : N)
| DUndef
| DHang.

Section Model.
  Variable hash : N -> N.

  (* StringDictionary::AllocateMoreString *)
  Definition presize (s : st) (n : N) : out st :=
    if tlen s <? cnt s + n
    then bind (step hash s (OResize (cnt s + n))) (fun p => Ok (fst p))
    else Ok s.

  (* the loop of InitConstStrings: dict.Add(it->GetString()) in list order *)
  Fixpoint add_all (s : st) (ts : list N) : out st :=
    match ts with
    | [] => Ok s
    | t :: ts' => bind (step hash s (OAdd t)) (fun p => add_all (fst p) ts')
    end.

  (* ScriptMaster::InitConstStrings *)
  Definition init_const (predef : list N) (s : st) : out st :=
    bind (presize s (N.of_nat (length predef))) (fun s1 => add_all s1 predef).

  Definition dstep (predef : list N) (s : st) (o : dop) : out (st * res) :=
    match o with
    | OIntern t => step hash s (OAdd t)
    | OLookup t => step hash s (OFind t)
    | OText i => step hash s (OAt i)
    | OPresize n => bind (presize s n) (fun s' => Ok (s', RUnit))
    | OReset => bind (step hash s OClear)
                     (fun p => bind (init_const predef (fst p)) (fun s' => Ok (s', RUnit)))
    end.

  (* the dictionary of a freshly constructed ScriptMaster *)
  Definition start (predef : list N) : out st := init_const predef init.

  (* ---- states reached by a history (every precondition met) -------------------------------- *)
  Fixpoint exec_from (predef : list N) (s : st) (ops : list dop) : out st :=
    match ops with
    | [] => Ok s
    | o :: ops' => bind (dstep predef s o) (fun p => exec_from predef (fst p) ops')
    end.

  Definition exec (predef : list N) (ops : list dop) : out st :=
    bind (start predef) (fun s => exec_from predef s ops).

  (* ---- observations -------------------------------------------------------------------------- *)
  Fixpoint run_from (predef : list N) (s : st) (ops : list dop) : list dobs :=
    match ops with
    | [] => []
    | o :: ops' =>
        match dstep predef s o with
        | Ok p => DObs (snd p) (cnt (fst p)) :: run_from predef (fst p) ops'
        | Undef => [DUndef]
        | Hang => [DHang]
        end
    end.

  Definition run (predef : list N) (ops : list dop) : list dobs :=
    match start predef with
    | Ok s => run_from predef s ops
    | Undef => [DUndef]
    | Hang => [DHang]
    end.

  (* ---- the functions the driver executes -----------------------------------------------------
     C18arr's [step] gives every chain walk the fuel [fuel_of s] = N.to_nat (nid s), a unary
     number that is rebuilt on every operation, and its resize loops convert their unary loop
     counter to a binary number on every iteration (N.of_nat j: quadratic in the table length) -
     hours for a history of 10^5 entries.  The driver therefore runs the same container
     functions (find_index, at_index, clear, rehash_chain, find_chain of C18arr/Model.v, and
     copies of add_key / add_new / resize whose two bucket loops carry the binary counter along)
     with a fuel that is threaded through the history and grows by one with every Add, and an
     accumulator instead of non-tail recursion.  The copies are proved equal to the originals and
     map fst (run_trace ..) = run .. (Proofs.v, theorem C17_driver_functions). *)

  (* rehash_buckets with a = N.of_nat i carried along *)
  Fixpoint rehash_buckets_q (fuel : nat) (i : nat) (a : N) (oldt : N) (s : st) : out st :=
    match i with
    | O => Ok s
    | S j => let b := N.pred a in
             bind (rehash_chain hash fuel s (get (cells s) (oldt + b)))
                  (rehash_buckets_q fuel j b oldt)
    end.

  (* copy_rev with a = N.of_nat i carried along *)
  Fixpoint copy_rev_q (i : nat) (a : N) (oldr : N) (s : st) : st :=
    match i with
    | O => s
    | S j => let b := N.pred a in
             copy_rev_q j b oldr
               (set_cells s (set (cells s) (rev1 s + b) (get (cells s) (oldr + b))))
    end.

  Definition resize_q (fuel : nat) (s : st) (n : N) : out st :=
    if n =? 0 then Undef
    else
      let t := brk s in
      let s1 := mkSt (cells s) t (t + n) n n (cnt s) (ekey s) (enext s) (eidx s) (elive s)
                     (nid s) (t + 2 * n) in
      bind (rehash_buckets_q fuel (N.to_nat (tlen s)) (tlen s) (tbl s) s1)
           (fun s2 => Ok (copy_rev_q (N.to_nat (N.min (tlen s) n)) (N.min (tlen s) n) (rev1 s) s2)).

  Definition add_new_q (fuel : nat) (s : st) (k idx : N) : out (st * N) :=
    bind (if thr s <=? cnt s
          then bind (resize_q fuel s (next_len (tlen s))) (fun s1 => Ok (s1, bucket hash s1 k))
          else Ok (s, idx))
         (fun p =>
            let s1 := fst p in
            let a := tbl s1 + snd p in
            let c := cnt s1 + 1 in
            let e := nid s1 in
            let nx0 := set (enext s1) e None in
            let c1 := match get (cells s1) 0 with
                      | None => set (cells s1) 0 (Some e)
                      | Some _ => cells s1
                      end in
            let nx1 := match get (cells s1) 0 with
                       | None => set nx0 e None
                       | Some _ => set nx0 e (get (cells s1) a)
                       end in
            let c2 := set c1 a (Some e) in
            let c3 := set c2 (rev1 s1 + (c - 1)) (Some e) in
            Ok (mkSt c3 (tbl s1) (rev1 s1) (tlen s1) (thr s1) c
                     (set (ekey s1) e k) nx1 (set (eidx s1) e c) (set (elive s1) e true)
                     (e + 1) (brk s1), e)).

  Definition add_key_q (fuel : nat) (s : st) (k : N) : out (st * N) :=
    let idx := bucket hash s k in
    bind (find_chain fuel s (get (cells s) (tbl s + idx)) k)
         (fun r => match r with
                   | Some x => Ok (s, x)
                   | None => add_new_q fuel s k idx
                   end).

  Definition stepf (fuel : nat) (s : st) (o : op) : out (st * res) :=
    match o with
    | OAdd k => bind (add_key_q fuel s k)
                     (fun p => Ok (fst p, RIdx (get (eidx (fst p)) (snd p))))
    | OFind k => bind (find_index hash fuel s k) (fun i => Ok (s, RIdx i))
    | OAt i => bind (at_index s i) (fun v => Ok (s, RKey v))
    | OResize n =>
        if (n =? 0) || (n <? cnt s) || (max_len <? n) then Undef
        else bind (resize_q fuel s n) (fun s' => Ok (s', RUnit))
    | OClear => bind (clear fuel s) (fun s' => Ok (s', RUnit))
    | _ => step hash s o
    end.

  Definition presizef (fuel : nat) (s : st) (n : N) : out st :=
    if tlen s <? cnt s + n
    then bind (stepf fuel s (OResize (cnt s + n))) (fun p => Ok (fst p))
    else Ok s.

  Fixpoint add_allf (fuel : nat) (s : st) (ts : list N) : out st :=
    match ts with
    | [] => Ok s
    | t :: ts' => bind (stepf fuel s (OAdd t)) (fun p => add_allf (S fuel) (fst p) ts')
    end.

  Definition init_constf (fuel : nat) (predef : list N) (s : st) : out st :=
    bind (presizef fuel s (N.of_nat (length predef))) (fun s1 => add_allf fuel s1 predef).

  Definition dstepf (fuel : nat) (predef : list N) (s : st) (o : dop) : out (st * res) :=
    match o with
    | OIntern t => stepf fuel s (OAdd t)
    | OLookup t => stepf fuel s (OFind t)
    | OText i => stepf fuel s (OAt i)
    | OPresize n => bind (presizef fuel s n) (fun s' => Ok (s', RUnit))
    | OReset => bind (stepf fuel s OClear)
                     (fun p => bind (init_constf fuel predef (fst p)) (fun s' => Ok (s', RUnit)))
    end.

  (* enough fuel for the state after the operation: one more per Add *)
  Definition next_fuel (predef : list N) (fuel : nat) (o : dop) : nat :=
    match o with
    | OIntern _ => S fuel
    | OReset => (length predef + fuel)%nat
    | _ => fuel
    end.

  (* observation and allocated() after every operation *)
  Fixpoint trace_acc (predef : list N) (fuel : nat) (s : st) (ops : list dop)
           (acc : list (dobs * N)) : list (dobs * N) :=
    match ops with
    | [] => rev_append acc []
    | o :: ops' =>
        match dstepf fuel predef s o with
        | Ok p => trace_acc predef (next_fuel predef fuel o) (fst p) ops'
                            ((DObs (snd p) (cnt (fst p)), tlen (fst p)) :: acc)
        | Undef => rev_append acc [(DUndef, 0)]
        | Hang => rev_append acc [(DHang, 0)]
        end
    end.

  Definition startf (predef : list N) : out st := init_constf O predef init.

  Definition run_trace (predef : list N) (ops : list dop) : list (dobs * N) :=
    match startf predef with
    | Ok s => trace_acc predef (length predef) s ops []
    | Undef => [(DUndef, 0)]
    | Hang => [(DHang, 0)]
    end.

  (* size() and allocated() of the freshly constructed dictionary *)
  Definition start_shape (predef : list N) : N * N :=
    match startf predef with
    | Ok s => (cnt s, tlen s)
    | _ => (0, 0)
    end.
End Model.
