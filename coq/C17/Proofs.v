(* C17/Proofs.v - the dictionary model refines the list specification: lifted from the
   per-step simulation of unit C18arr (C18arr/Proofs.v step_sim, invariant Inv). *)
From Coq Require Import Arith NArith List Bool Lia.
From Morfuse Require Import Base.Arr Base.ListX C18arr.Model C18arr.Spec C18arr.ProofsInv
     C18arr.Proofs C17.Model C17.Spec.
Import ListNotations.
Local Open Scope N_scope.

(* ---- the list of texts against C18arr's list of slots ------------------------------------- *)
Lemma index_from_pos_from t l : forall i, index_from i t (map Some l) = pos_from i t l.
Proof.
  induction l as [|t' l IH]; intro i; cbn [map index_from pos_from]; [reflexivity|].
  destruct (N.eqb t' t); [reflexivity|apply IH].
Qed.

Lemma index_of_id_of t l : index_of t (map Some l) = id_of t l.
Proof. apply index_from_pos_from. Qed.

Lemma len_size l : len (map Some l) = size l.
Proof. apply len_map. Qed.

Lemma lookup_id_text_of i l :
  lookup_id i (map Some l) = text_of i l.
Proof.
  unfold lookup_id, text_of. destruct (i =? 0); [reflexivity|].
  rewrite nth_error_map_some. destruct (nth_error l (N.to_nat (i - 1))); reflexivity.
Qed.

Lemma map_some_inj (a b : list N) : map Some a = map Some b -> a = b.
Proof.
  revert b. induction a as [|x a IH]; intros [|y b] H; cbn [map] in H; try discriminate; [reflexivity|].
  injection H as -> H. f_equal. apply IH, H.
Qed.

Lemma map_some_snoc (l : list N) (t : N) : map Some l ++ [Some t] = map Some (l ++ [t]).
Proof. rewrite map_app. reflexivity. Qed.

(* queries leave the state alone *)
Lemma find_keeps hash s t s' r : step hash s (OFind t) = Ok (s', r) -> s' = s.
Proof.
  cbn [step]. destruct (find_index hash (fuel_of s) s t); cbn [bind]; intro H; [|discriminate|discriminate].
  now injection H as <- _.
Qed.

Lemma at_keeps hash s i s' r : step hash s (OAt i) = Ok (s', r) -> s' = s.
Proof.
  cbn [step]. destruct (at_index s i); cbn [bind]; intro H; [|discriminate|discriminate].
  now injection H as <- _.
Qed.

Section Main.
  Variable hash : N -> N.

  Lemma inv_cnt s l : Inv hash s l -> cnt s = size l.
  Proof. intros [ents I]. exact (i_cnt _ _ _ _ I). Qed.

  Lemma inv_tlen s l : Inv hash s l -> 1 <= tlen s <= max_len.
  Proof. intros [ents I]. exact (i_tlen _ _ _ _ I). Qed.

  Lemma intern_sim s l t :
    Inv hash s l ->
    match s_intern l t with
    | None => step hash s (OAdd t) = Undef
    | Some p => exists s', step hash s (OAdd t) = Ok (s', snd p) /\ Inv hash s' (fst p)
    end.
  Proof.
    intro HI. pose proof (step_sim hash s l (OAdd t) HI I) as H.
    cbn [spec_step] in H. rewrite index_of_id_of, len_size in H. unfold s_intern.
    destruct (id_of t l =? 0).
    - destruct (size l <? max_len); [|exact H].
      destruct H as [s' [ks' [Hs [Hp HI']]]]. cbn [fst snd] in *.
      rewrite map_some_snoc in Hp. apply map_some_inj in Hp. subst ks'.
      exists s'. split; assumption.
    - destruct H as [s' [ks' [Hs [Hp HI']]]]. cbn [fst snd] in *.
      apply map_some_inj in Hp. subst ks'. exists s'. split; assumption.
  Qed.

  Lemma presize_sim s l n :
    Inv hash s l ->
    match s_presize l n with
    | None => presize hash s n = Undef
    | Some l' => exists s', presize hash s n = Ok s' /\ Inv hash s' l'
    end.
  Proof.
    intro HI. pose proof (inv_cnt s l HI) as Hc. pose proof (inv_tlen s l HI) as Ht.
    unfold presize, s_presize.
    destruct (N.ltb_spec (tlen s) (cnt s + n)) as [Hg|Hg].
    - pose proof (step_sim hash s l (OResize (cnt s + n)) HI I) as H.
      cbn [spec_step] in H. rewrite len_size in H.
      destruct (N.eqb_spec (cnt s + n) 0) as [E|_]; [lia|].
      destruct (N.ltb_spec (cnt s + n) (size l)) as [E|_]; [lia|].
      cbn [orb] in H. rewrite <- Hc.
      destruct (N.ltb_spec max_len (cnt s + n)) as [E|E];
        destruct (N.leb_spec (cnt s + n) max_len) as [E'|E']; try lia; cbv iota in H.
      + rewrite H. reflexivity.
      + destruct H as [s' [ks' [Hs [Hp HI']]]]. cbn [fst snd] in *.
        apply map_some_inj in Hp. subst ks'. rewrite Hs. cbn [bind fst]. exists s'. split; [reflexivity|exact HI'].
    - rewrite <- Hc. destruct (N.leb_spec (cnt s + n) max_len) as [E'|E']; [|lia].
      exists s. split; [reflexivity|exact HI].
  Qed.

  Lemma add_all_sim ts : forall s l,
    Inv hash s l ->
    match s_add_all l ts with
    | None => add_all hash s ts = Undef
    | Some l' => exists s', add_all hash s ts = Ok s' /\ Inv hash s' l'
    end.
  Proof.
    induction ts as [|t ts IH]; intros s l HI; cbn [s_add_all add_all].
    - exists s. split; [reflexivity|exact HI].
    - pose proof (intern_sim s l t HI) as H. destruct (s_intern l t) as [p|].
      + destruct H as [s' [Hs HI']]. rewrite Hs. cbn [bind fst]. apply IH, HI'.
      + rewrite H. reflexivity.
  Qed.

  Lemma init_const_sim predef s l :
    Inv hash s l ->
    match s_init_const predef l with
    | None => init_const hash predef s = Undef
    | Some l' => exists s', init_const hash predef s = Ok s' /\ Inv hash s' l'
    end.
  Proof.
    intro HI. unfold init_const, s_init_const.
    pose proof (presize_sim s l (N.of_nat (length predef)) HI) as H.
    destruct (s_presize l (N.of_nat (length predef))) as [l1|].
    - destruct H as [s1 [Hs HI1]]. rewrite Hs. cbn [bind]. apply add_all_sim, HI1.
    - rewrite H. reflexivity.
  Qed.

  Lemma dstep_sim predef s l o :
    Inv hash s l ->
    match sstep predef l o with
    | None => dstep hash predef s o = Undef
    | Some p => exists s', dstep hash predef s o = Ok (s', snd p) /\ Inv hash s' (fst p)
    end.
  Proof.
    intro HI. destruct o as [t|t|i|n|]; cbn [sstep dstep].
    - apply intern_sim, HI.
    - pose proof (step_sim hash s l (OFind t) HI I) as H. cbn [spec_step] in H.
      rewrite index_of_id_of in H. destruct H as [s' [ks' [Hs [Hp HI']]]]. cbn [fst snd] in *.
      apply map_some_inj in Hp. subst ks'. exists s'. split; assumption.
    - pose proof (step_sim hash s l (OAt i) HI I) as H. cbn [spec_step] in H.
      rewrite lookup_id_text_of in H. destruct (text_of i l) as [t|]; [|exact H].
      destruct H as [s' [ks' [Hs [Hp HI']]]]. cbn [fst snd] in *.
      apply map_some_inj in Hp. subst ks'. exists s'. split; assumption.
    - pose proof (presize_sim s l n HI) as H. destruct (s_presize l n) as [l'|].
      + destruct H as [s' [Hs HI']]. rewrite Hs. cbn [bind fst snd]. exists s'. split; [reflexivity|exact HI'].
      + rewrite H. reflexivity.
    - pose proof (step_sim hash s l OClear HI I) as H. cbn [spec_step] in H.
      destruct H as [s1 [ks1 [Hs [Hp HI1]]]]. cbn [fst snd] in *.
      change (@nil (option N)) with (map (@Some N) []) in Hp. apply map_some_inj in Hp. subst ks1.
      rewrite Hs. cbn [bind fst].
      pose proof (init_const_sim predef s1 [] HI1) as H. destruct (s_init_const predef []) as [l'|].
      + destruct H as [s' [Hs' HI']]. rewrite Hs'. cbn [bind fst snd]. exists s'. split; [reflexivity|exact HI'].
      + rewrite H. reflexivity.
  Qed.

  Lemma start_sim predef :
    match s_start predef with
    | None => start hash predef = Undef
    | Some l => exists s, start hash predef = Ok s /\ Inv hash s l
    end.
  Proof. apply init_const_sim. exists []. apply inv_init. Qed.

  Lemma run_from_ok predef : forall ops s l,
    Inv hash s l -> run_from hash predef s ops = spec_from predef l ops.
  Proof.
    induction ops as [|o ops IH]; intros s l HI; cbn [run_from spec_from]; [reflexivity|].
    pose proof (dstep_sim predef s l o HI) as H. destruct (sstep predef l o) as [p|].
    - destruct H as [s' [Hs HI']]. rewrite Hs. cbn [fst snd].
      rewrite (inv_cnt s' (fst p) HI'). f_equal. apply IH, HI'.
    - rewrite H. reflexivity.
  Qed.

  Theorem run_refines_spec predef ops : run hash predef ops = spec_run predef ops.
  Proof.
    unfold run, spec_run. pose proof (start_sim predef) as H. destruct (s_start predef) as [l|].
    - destruct H as [s [Hs HI]]. rewrite Hs. apply run_from_ok, HI.
    - rewrite H. reflexivity.
  Qed.

  (* ---- reached states ---------------------------------------------------------------------- *)
  Lemma exec_from_abs predef : forall ops s l s',
    Inv hash s l -> exec_from hash predef s ops = Ok s' ->
    exists l', sexec_from predef l ops = Some l' /\ Inv hash s' l'.
  Proof.
    induction ops as [|o ops IH]; intros s l s' HI He; cbn [exec_from sexec_from] in *.
    - injection He as <-. exists l. split; [reflexivity|exact HI].
    - pose proof (dstep_sim predef s l o HI) as H. destruct (sstep predef l o) as [p|].
      + destruct H as [s1 [Hs HI1]]. rewrite Hs in He. cbn [bind fst] in He.
        apply (IH s1 (fst p) s' HI1 He).
      + rewrite H in He. discriminate.
  Qed.

  Lemma exec_abs predef ops s :
    exec hash predef ops = Ok s -> exists l, sexec predef ops = Some l /\ Inv hash s l.
  Proof.
    unfold exec, sexec. pose proof (start_sim predef) as H. destruct (s_start predef) as [l|].
    - destruct H as [s0 [Hs HI]]. rewrite Hs. cbn [bind]. apply exec_from_abs, HI.
    - rewrite H. discriminate.
  Qed.

  Lemma exec_from_total predef : forall ops s l l',
    Inv hash s l -> sexec_from predef l ops = Some l' ->
    exists s', exec_from hash predef s ops = Ok s' /\ Inv hash s' l'.
  Proof.
    induction ops as [|o ops IH]; intros s l l' HI He; cbn [exec_from sexec_from] in *.
    - injection He as <-. exists s. split; [reflexivity|exact HI].
    - pose proof (dstep_sim predef s l o HI) as H. destruct (sstep predef l o) as [p|]; [|discriminate].
      destruct H as [s1 [Hs HI1]]. rewrite Hs. cbn [bind fst]. apply (IH s1 (fst p) l' HI1 He).
  Qed.

  Lemma exec_total predef ops l :
    sexec predef ops = Some l -> exists s, exec hash predef ops = Ok s /\ Inv hash s l.
  Proof.
    unfold exec, sexec. pose proof (start_sim predef) as H. destruct (s_start predef) as [l0|]; [|discriminate].
    destruct H as [s0 [Hs HI]]. rewrite Hs. cbn [bind]. intro He. apply (exec_from_total predef ops s0 l0 l HI He).
  Qed.

  (* ---- the accumulator versions used by the driver ---------------------------------------- *)
  Lemma trace_acc_ok predef : forall ops s acc,
    map fst (trace_acc hash predef s ops acc) = rev (map fst acc) ++ run_from hash predef s ops.
  Proof.
    induction ops as [|o ops IH]; intros s acc; cbn [trace_acc run_from].
    - rewrite rev_append_rev, !app_nil_r, map_rev. reflexivity.
    - destruct (dstep hash predef s o) as [p| |].
      + rewrite IH. cbn [map fst rev]. rewrite <- app_assoc. reflexivity.
      + rewrite rev_append_rev, map_app, map_rev. reflexivity.
      + rewrite rev_append_rev, map_app, map_rev. reflexivity.
  Qed.

  Theorem run_trace_ok predef ops : map fst (run_trace hash predef ops) = run hash predef ops.
  Proof.
    unfold run_trace, run. destruct (start hash predef) as [s| |]; [|reflexivity|reflexivity].
    rewrite trace_acc_ok. reflexivity.
  Qed.
End Main.

Lemma spec_acc_ok predef : forall ops l acc,
  spec_acc predef l ops acc = rev acc ++ spec_from predef l ops.
Proof.
  induction ops as [|o ops IH]; intros l acc; cbn [spec_acc spec_from].
  - rewrite rev_append_rev, !app_nil_r. reflexivity.
  - destruct (sstep predef l o) as [p|].
    + rewrite IH. cbn [rev]. rewrite <- app_assoc. reflexivity.
    + rewrite rev_append_rev. reflexivity.
Qed.

Theorem spec_run_tr_ok predef ops : spec_run_tr predef ops = spec_run predef ops.
Proof.
  unfold spec_run_tr, spec_run. destruct (s_start predef) as [l|]; [|reflexivity].
  rewrite spec_acc_ok. reflexivity.
Qed.

Lemma spec_no_hang predef : forall ops l, ~ In DHang (spec_from predef l ops).
Proof.
  induction ops as [|o ops IH]; intros l; cbn [spec_from]; [intros []|].
  destruct (sstep predef l o) as [p|].
  - intros [H|H]; [discriminate|]. apply (IH _ H).
  - intros [H|[]]. discriminate.
Qed.

Theorem run_never_hangs hash predef ops : ~ In DHang (run hash predef ops).
Proof.
  rewrite run_refines_spec. unfold spec_run. destruct (s_start predef) as [l|].
  - apply spec_no_hang.
  - intros [H|[]]. discriminate.
Qed.
