(* C17/Proofs.v - the dictionary model refines the list specification: lifted from the
   per-step simulation of unit C18arr (C18arr/Proofs.v step_sim, invariant Inv). *)
From Coq Require Import Arith NArith List Bool Lia.
From Morfuse Require Import Base.Arr Base.ListX C18arr.Model C18arr.Spec C18arr.ProofsInv
     C18arr.ProofsResize C18arr.ProofsOps C18arr.Proofs C17.Model C17.Spec.
Import ListNotations.
Local Open Scope N_scope.

(* ---- the list of texts against C18arr's list of slots ------------------------------------- *)
Lemma index_from_pos_from t l : forall i, index_from i t (map Some l) = pos_from i t l.
Proof.
  induction l as [|t' l IH]; intro i; cbn [map index_from pos_from]; [reflexivity|].
  destruct (N.eqb t' t); [reflexivity|apply IH].
Qed.

Lemma index_of_id_of t l : index_of t (map Some l) = id_of t l.
Proof. apply index_from_pos_from. Qed.

Lemma len_size l : len (map Some l) = size l.
Proof. apply len_map. Qed.

Lemma lookup_id_text_of i l :
  lookup_id i (map Some l) = text_of i l.
Proof.
  unfold lookup_id, text_of. destruct (i =? 0); [reflexivity|].
  rewrite nth_error_map_some. destruct (nth_error l (N.to_nat (i - 1))); reflexivity.
Qed.

Lemma map_some_inj (a b : list N) : map Some a = map Some b -> a = b.
Proof.
  revert b. induction a as [|x a IH]; intros [|y b] H; cbn [map] in H; try discriminate; [reflexivity|].
  injection H as -> H. f_equal. apply IH, H.
Qed.

Lemma map_some_snoc (l : list N) (t : N) : map Some l ++ [Some t] = map Some (l ++ [t]).
Proof. rewrite map_app. reflexivity. Qed.

(* queries leave the state alone *)
Lemma find_keeps hash s t s' r : step hash s (OFind t) = Ok (s', r) -> s' = s.
Proof.
  cbn [step]. destruct (find_index hash (fuel_of s) s t); cbn [bind]; intro H; [|discriminate|discriminate].
  now injection H as <- _.
Qed.

Lemma at_keeps hash s i s' r : step hash s (OAt i) = Ok (s', r) -> s' = s.
Proof.
  cbn [step]. destruct (at_index s i); cbn [bind]; intro H; [|discriminate|discriminate].
  now injection H as <- _.
Qed.

Section Main.
  Variable hash : N -> N.

  Lemma inv_cnt s l : Inv hash s l -> cnt s = size l.
  Proof. intros [ents I]. exact (i_cnt _ _ _ _ I). Qed.

  Lemma inv_tlen s l : Inv hash s l -> 1 <= tlen s <= max_len.
  Proof. intros [ents I]. exact (i_tlen _ _ _ _ I). Qed.

  Lemma intern_sim s l t :
    Inv hash s l ->
    match s_intern l t with
    | None => step hash s (OAdd t) = Undef
    | Some p => exists s', step hash s (OAdd t) = Ok (s', snd p) /\ Inv hash s' (fst p)
    end.
  Proof.
    intro HI. pose proof (step_sim hash s l (OAdd t) HI I) as H.
    cbn [spec_step] in H. rewrite index_of_id_of, len_size in H. unfold s_intern.
    destruct (id_of t l =? 0).
    - destruct (size l <? max_len); [|exact H].
      destruct H as [s' [ks' [Hs [Hp HI']]]]. cbn [fst snd] in *.
      rewrite map_some_snoc in Hp. apply map_some_inj in Hp. subst ks'.
      exists s'. split; assumption.
    - destruct H as [s' [ks' [Hs [Hp HI']]]]. cbn [fst snd] in *.
      apply map_some_inj in Hp. subst ks'. exists s'. split; assumption.
  Qed.

  Lemma presize_sim s l n :
    Inv hash s l ->
    match s_presize l n with
    | None => presize hash s n = Undef
    | Some l' => exists s', presize hash s n = Ok s' /\ Inv hash s' l'
    end.
  Proof.
    intro HI. pose proof (inv_cnt s l HI) as Hc. pose proof (inv_tlen s l HI) as Ht.
    unfold presize, s_presize.
    destruct (N.ltb_spec (tlen s) (cnt s + n)) as [Hg|Hg].
    - pose proof (step_sim hash s l (OResize (cnt s + n)) HI I) as H.
      cbn [spec_step] in H. rewrite len_size in H.
      destruct (N.eqb_spec (cnt s + n) 0) as [E|_]; [lia|].
      destruct (N.ltb_spec (cnt s + n) (size l)) as [E|_]; [lia|].
      cbn [orb] in H. rewrite <- Hc.
      destruct (N.ltb_spec max_len (cnt s + n)) as [E|E];
        destruct (N.leb_spec (cnt s + n) max_len) as [E'|E']; try lia; cbv iota in H.
      + rewrite H. reflexivity.
      + destruct H as [s' [ks' [Hs [Hp HI']]]]. cbn [fst snd] in *.
        apply map_some_inj in Hp. subst ks'. rewrite Hs. cbn [bind fst]. exists s'. split; [reflexivity|exact HI'].
    - rewrite <- Hc. destruct (N.leb_spec (cnt s + n) max_len) as [E'|E']; [|lia].
      exists s. split; [reflexivity|exact HI].
  Qed.

  Lemma add_all_sim ts : forall s l,
    Inv hash s l ->
    match s_add_all l ts with
    | None => add_all hash s ts = Undef
    | Some l' => exists s', add_all hash s ts = Ok s' /\ Inv hash s' l'
    end.
  Proof.
    induction ts as [|t ts IH]; intros s l HI; cbn [s_add_all add_all].
    - exists s. split; [reflexivity|exact HI].
    - pose proof (intern_sim s l t HI) as H. destruct (s_intern l t) as [p|].
      + destruct H as [s' [Hs HI']]. rewrite Hs. cbn [bind fst]. apply IH, HI'.
      + rewrite H. reflexivity.
  Qed.

  Lemma init_const_sim predef s l :
    Inv hash s l ->
    match s_init_const predef l with
    | None => init_const hash predef s = Undef
    | Some l' => exists s', init_const hash predef s = Ok s' /\ Inv hash s' l'
    end.
  Proof.
    intro HI. unfold init_const, s_init_const.
    pose proof (presize_sim s l (N.of_nat (length predef)) HI) as H.
    destruct (s_presize l (N.of_nat (length predef))) as [l1|].
    - destruct H as [s1 [Hs HI1]]. rewrite Hs. cbn [bind]. apply add_all_sim, HI1.
    - rewrite H. reflexivity.
  Qed.

  Lemma dstep_sim predef s l o :
    Inv hash s l ->
    match sstep predef l o with
    | None => dstep hash predef s o = Undef
    | Some p => exists s', dstep hash predef s o = Ok (s', snd p) /\ Inv hash s' (fst p)
    end.
  Proof.
    intro HI. destruct o as [t|t|i|n|]; cbn [sstep dstep].
    - apply intern_sim, HI.
    - pose proof (step_sim hash s l (OFind t) HI I) as H. cbn [spec_step] in H.
      rewrite index_of_id_of in H. destruct H as [s' [ks' [Hs [Hp HI']]]]. cbn [fst snd] in *.
      apply map_some_inj in Hp. subst ks'. exists s'. split; assumption.
    - pose proof (step_sim hash s l (OAt i) HI I) as H. cbn [spec_step] in H.
      rewrite lookup_id_text_of in H. destruct (text_of i l) as [t|]; [|exact H].
      destruct H as [s' [ks' [Hs [Hp HI']]]]. cbn [fst snd] in *.
      apply map_some_inj in Hp. subst ks'. exists s'. split; assumption.
    - pose proof (presize_sim s l n HI) as H. destruct (s_presize l n) as [l'|].
      + destruct H as [s' [Hs HI']]. rewrite Hs. cbn [bind fst snd]. exists s'. split; [reflexivity|exact HI'].
      + rewrite H. reflexivity.
    - pose proof (step_sim hash s l OClear HI I) as H. cbn [spec_step] in H.
      destruct H as [s1 [ks1 [Hs [Hp HI1]]]]. cbn [fst snd] in *.
      change (@nil (option N)) with (map (@Some N) []) in Hp. apply map_some_inj in Hp. subst ks1.
      rewrite Hs. cbn [bind fst].
      pose proof (init_const_sim predef s1 [] HI1) as H. destruct (s_init_const predef []) as [l'|].
      + destruct H as [s' [Hs' HI']]. rewrite Hs'. cbn [bind fst snd]. exists s'. split; [reflexivity|exact HI'].
      + rewrite H. reflexivity.
  Qed.

  Lemma start_sim predef :
    match s_start predef with
    | None => start hash predef = Undef
    | Some l => exists s, start hash predef = Ok s /\ Inv hash s l
    end.
  Proof. apply init_const_sim. exists []. apply inv_init. Qed.

  Lemma run_from_ok predef : forall ops s l,
    Inv hash s l -> run_from hash predef s ops = spec_from predef l ops.
  Proof.
    induction ops as [|o ops IH]; intros s l HI; cbn [run_from spec_from]; [reflexivity|].
    pose proof (dstep_sim predef s l o HI) as H. destruct (sstep predef l o) as [p|].
    - destruct H as [s' [Hs HI']]. rewrite Hs. cbn [fst snd].
      rewrite (inv_cnt s' (fst p) HI'). f_equal. apply IH, HI'.
    - rewrite H. reflexivity.
  Qed.

  Theorem run_refines_spec predef ops : run hash predef ops = spec_run predef ops.
  Proof.
    unfold run, spec_run. pose proof (start_sim predef) as H. destruct (s_start predef) as [l|].
    - destruct H as [s [Hs HI]]. rewrite Hs. apply run_from_ok, HI.
    - rewrite H. reflexivity.
  Qed.

  (* ---- reached states ---------------------------------------------------------------------- *)
  Lemma exec_from_abs predef : forall ops s l s',
    Inv hash s l -> exec_from hash predef s ops = Ok s' ->
    exists l', sexec_from predef l ops = Some l' /\ Inv hash s' l'.
  Proof.
    induction ops as [|o ops IH]; intros s l s' HI He; cbn [exec_from sexec_from] in *.
    - injection He as <-. exists l. split; [reflexivity|exact HI].
    - pose proof (dstep_sim predef s l o HI) as H. destruct (sstep predef l o) as [p|].
      + destruct H as [s1 [Hs HI1]]. rewrite Hs in He. cbn [bind fst] in He.
        apply (IH s1 (fst p) s' HI1 He).
      + rewrite H in He. discriminate.
  Qed.

  Lemma exec_abs predef ops s :
    exec hash predef ops = Ok s -> exists l, sexec predef ops = Some l /\ Inv hash s l.
  Proof.
    unfold exec, sexec. pose proof (start_sim predef) as H. destruct (s_start predef) as [l|].
    - destruct H as [s0 [Hs HI]]. rewrite Hs. cbn [bind]. apply exec_from_abs, HI.
    - rewrite H. discriminate.
  Qed.

  Lemma exec_from_total predef : forall ops s l l',
    Inv hash s l -> sexec_from predef l ops = Some l' ->
    exists s', exec_from hash predef s ops = Ok s' /\ Inv hash s' l'.
  Proof.
    induction ops as [|o ops IH]; intros s l l' HI He; cbn [exec_from sexec_from] in *.
    - injection He as <-. exists s. split; [reflexivity|exact HI].
    - pose proof (dstep_sim predef s l o HI) as H. destruct (sstep predef l o) as [p|]; [|discriminate].
      destruct H as [s1 [Hs HI1]]. rewrite Hs. cbn [bind fst]. apply (IH s1 (fst p) l' HI1 He).
  Qed.

  Lemma exec_total predef ops l :
    sexec predef ops = Some l -> exists s, exec hash predef ops = Ok s /\ Inv hash s l.
  Proof.
    unfold exec, sexec. pose proof (start_sim predef) as H. destruct (s_start predef) as [l0|]; [|discriminate].
    destruct H as [s0 [Hs HI]]. rewrite Hs. cbn [bind]. intro He. apply (exec_from_total predef ops s0 l0 l HI He).
  Qed.

  (* ---- the fuel-threaded functions the driver executes ----------------------------------- *)
  (* the loops that carry their binary counter along are the loops of C18arr/Model.v *)
  Lemma rehash_buckets_q_eq fuel oldt : forall i s,
    rehash_buckets_q hash fuel i (N.of_nat i) oldt s = rehash_buckets hash fuel i oldt s.
  Proof.
    induction i as [|j IH]; intro s; cbn [rehash_buckets_q rehash_buckets]; [reflexivity|].
    rewrite Nat2N.inj_succ, N.pred_succ.
    destruct (rehash_chain hash fuel s (get (cells s) (oldt + N.of_nat j))); cbn [bind]; [apply IH|reflexivity|reflexivity].
  Qed.

  Lemma copy_rev_q_eq oldr : forall i s,
    copy_rev_q i (N.of_nat i) oldr s = copy_rev i oldr s.
  Proof.
    induction i as [|j IH]; intro s; cbn [copy_rev_q copy_rev]; [reflexivity|].
    rewrite Nat2N.inj_succ, N.pred_succ. apply IH.
  Qed.

  Lemma resize_q_eq fuel s n : resize_q hash fuel s n = resize hash fuel s n.
  Proof.
    unfold resize_q, resize. destruct (n =? 0); [reflexivity|].
    rewrite <- (N2Nat.id (tlen s)) at 2. rewrite rehash_buckets_q_eq.
    match goal with |- bind ?x _ = bind ?x _ => destruct x; cbn [bind]; [|reflexivity|reflexivity] end.
    rewrite <- (N2Nat.id (N.min (tlen s) n)) at 2. rewrite copy_rev_q_eq. reflexivity.
  Qed.

  Lemma add_key_q_eq fuel s k : add_key_q hash fuel s k = add_key hash fuel s k.
  Proof.
    unfold add_key_q, add_key, add_new_q, add_new, rehash. rewrite resize_q_eq. reflexivity.
  Qed.

  (* the same step with C18arr's own functions *)
  Definition stepf0 (fuel : nat) (s : st) (o : op) : out (st * res) :=
    match o with
    | OAdd k => bind (add_key hash fuel s k)
                     (fun p => Ok (fst p, RIdx (get (eidx (fst p)) (snd p))))
    | OFind k => bind (find_index hash fuel s k) (fun i => Ok (s, RIdx i))
    | OAt i => bind (at_index s i) (fun v => Ok (s, RKey v))
    | OResize n =>
        if (n =? 0) || (n <? cnt s) || (max_len <? n) then Undef
        else bind (resize hash fuel s n) (fun s' => Ok (s', RUnit))
    | OClear => bind (clear fuel s) (fun s' => Ok (s', RUnit))
    | _ => step hash s o
    end.

  Lemma stepf_eq fuel s o : stepf hash fuel s o = stepf0 fuel s o.
  Proof.
    destruct o; cbn [stepf stepf0]; try reflexivity.
    - rewrite add_key_q_eq. reflexivity.
    - rewrite resize_q_eq. reflexivity.
  Qed.

  (* with the fuel C18arr's step computes it IS that step *)
  Lemma stepf_step s o : stepf hash (fuel_of s) s o = step hash s o.
  Proof. rewrite stepf_eq. destruct o; reflexivity. Qed.

  (* C18arr's step_sim, for an arbitrary sufficient fuel *)
  Lemma stepf_sim fuel s ks o :
    Inv hash s ks -> (length ks <= fuel)%nat -> not_remove o ->
    match spec_step (map Some ks) o with
    | None => stepf hash fuel s o = Undef
    | Some p => exists s' ks', stepf hash fuel s o = Ok (s', snd p) /\ fst p = map Some ks' /\ Inv hash s' ks'
    end.
  Proof.
    intros HI Hf Hnr. rewrite stepf_eq.
    destruct o as [k|k|i|n| | | |k]; try exact (step_sim hash s ks _ HI Hnr);
      destruct HI as [ents I]; pose proof (i_cnt _ _ _ _ I) as Hcnt; cbn [spec_step stepf0].
    - (* add *)
      unfold add_key.
      destruct (ProofsOps.find_chain_ok hash s ks ents fuel k I Hf) as [r [Hr Hs]]. rewrite Hr. cbn [bind].
      destruct r as [x|].
      + destruct Hs as [i [Hx Hk]]. unfold index_of.
        rewrite (index_from_nth k ks 1 i (i_ndk _ _ _ _ I) Hk).
        destruct (N.eqb_spec (1 + N.of_nat i) 0) as [E|_]; [lia|].
        exists s, ks. cbn [bind fst snd]. split; [|split; [reflexivity|exists ents; exact I]].
        destruct (i_ent _ _ _ _ I i x Hx) as [_ [_ [Hidx _]]]. rewrite Hidx. do 3 f_equal. lia.
      + unfold index_of. rewrite (index_from_notin k ks 1 Hs). cbn [N.eqb].
        pose proof (ProofsOps.add_new_ok hash s ks ents fuel k I Hs Hf) as Han.
        destruct (len (map Some ks) <? max_len).
        * destruct Han as [s' [e [Ha [I' Hidx]]]]. rewrite Ha. cbn [bind fst snd].
          exists s', (ks ++ [k]). split; [rewrite Hidx; reflexivity|].
          split; [rewrite map_app; reflexivity|exists (ents ++ [e]); exact I'].
        * rewrite Han. reflexivity.
    - (* find *)
      rewrite (ProofsOps.find_index_ok hash s ks ents fuel k I Hf). cbn [bind fst snd].
      exists s, ks. split; [reflexivity|]. split; [reflexivity|exists ents; exact I].
    - (* resize (operator[] takes no fuel: that case is step_sim itself) *)
      rewrite len_map, <- Hcnt.
      destruct ((n =? 0) || (n <? cnt s) || (max_len <? n)) eqn:G; [reflexivity|].
      apply orb_false_iff in G. destruct G as [G G3]. apply orb_false_iff in G. destruct G as [G1 G2].
      apply N.eqb_neq in G1. apply N.ltb_ge in G2. apply N.ltb_ge in G3.
      destruct (ProofsResize.resize_ok hash s ks ents n fuel I) as [s' [Hr [I' _]]]; try lia.
      rewrite Hr. cbn [bind fst snd]. exists s', ks.
      split; [reflexivity|]. split; [reflexivity|exists ents; exact I'].
    - (* clear *)
      destruct (ProofsOps.clear_ok hash s ks ents fuel I Hf) as [s' [Hr [I' _]]].
      rewrite Hr. cbn [bind fst snd]. exists s', []. split; [reflexivity|].
      split; [reflexivity|exists []; exact I'].
  Qed.

  Lemma s_intern_len l t p : s_intern l t = Some p -> (length (fst p) <= S (length l))%nat.
  Proof.
    unfold s_intern. destruct (id_of t l =? 0).
    - destruct (size l <? max_len); [|discriminate]. intros [= <-]. cbn [fst]. rewrite app_length. cbn [length]. lia.
    - intros [= <-]. cbn [fst]. lia.
  Qed.

  Lemma s_add_all_len ts : forall l l', s_add_all l ts = Some l' -> (length l' <= length l + length ts)%nat.
  Proof.
    induction ts as [|t ts IH]; intros l l' H; cbn [s_add_all length] in *.
    - injection H as <-. lia.
    - destruct (s_intern l t) as [p|] eqn:E; [|discriminate].
      pose proof (s_intern_len l t p E). pose proof (IH _ _ H). lia.
  Qed.

  Lemma s_init_const_len predef l l' :
    s_init_const predef l = Some l' -> (length l' <= length l + length predef)%nat.
  Proof.
    unfold s_init_const, s_presize. destruct (size l + N.of_nat (length predef) <=? max_len); [|discriminate].
    apply s_add_all_len.
  Qed.

  Lemma internf_sim fuel s l t :
    Inv hash s l -> (length l <= fuel)%nat ->
    match s_intern l t with
    | None => stepf hash fuel s (OAdd t) = Undef
    | Some p => exists s', stepf hash fuel s (OAdd t) = Ok (s', snd p) /\ Inv hash s' (fst p)
    end.
  Proof.
    intros HI Hf. pose proof (stepf_sim fuel s l (OAdd t) HI Hf I) as H.
    cbn [spec_step] in H. rewrite index_of_id_of, len_size in H. unfold s_intern.
    destruct (id_of t l =? 0).
    - destruct (size l <? max_len); [|exact H].
      destruct H as [s' [ks' [Hs [Hp HI']]]]. cbn [fst snd] in *.
      rewrite map_some_snoc in Hp. apply map_some_inj in Hp. subst ks'.
      exists s'. split; assumption.
    - destruct H as [s' [ks' [Hs [Hp HI']]]]. cbn [fst snd] in *.
      apply map_some_inj in Hp. subst ks'. exists s'. split; assumption.
  Qed.

  Lemma presizef_sim fuel s l n :
    Inv hash s l -> (length l <= fuel)%nat ->
    match s_presize l n with
    | None => presizef hash fuel s n = Undef
    | Some l' => exists s', presizef hash fuel s n = Ok s' /\ Inv hash s' l'
    end.
  Proof.
    intros HI Hf. pose proof (inv_cnt s l HI) as Hc. pose proof (inv_tlen s l HI) as Ht.
    unfold presizef, s_presize.
    destruct (N.ltb_spec (tlen s) (cnt s + n)) as [Hg|Hg].
    - pose proof (stepf_sim fuel s l (OResize (cnt s + n)) HI Hf I) as H.
      cbn [spec_step] in H. rewrite len_size in H.
      destruct (N.eqb_spec (cnt s + n) 0) as [E|_]; [lia|].
      destruct (N.ltb_spec (cnt s + n) (size l)) as [E|_]; [lia|].
      cbn [orb] in H. rewrite <- Hc.
      destruct (N.ltb_spec max_len (cnt s + n)) as [E|E];
        destruct (N.leb_spec (cnt s + n) max_len) as [E'|E']; try lia; cbv iota in H.
      + rewrite H. reflexivity.
      + destruct H as [s' [ks' [Hs [Hp HI']]]]. cbn [fst snd] in *.
        apply map_some_inj in Hp. subst ks'. rewrite Hs. cbn [bind fst]. exists s'. split; [reflexivity|exact HI'].
    - rewrite <- Hc. destruct (N.leb_spec (cnt s + n) max_len) as [E'|E']; [|lia].
      exists s. split; [reflexivity|exact HI].
  Qed.

  Lemma add_allf_sim ts : forall fuel s l,
    Inv hash s l -> (length l <= fuel)%nat ->
    match s_add_all l ts with
    | None => add_allf hash fuel s ts = Undef
    | Some l' => exists s', add_allf hash fuel s ts = Ok s' /\ Inv hash s' l'
    end.
  Proof.
    induction ts as [|t ts IH]; intros fuel s l HI Hf; cbn [s_add_all add_allf].
    - exists s. split; [reflexivity|exact HI].
    - pose proof (internf_sim fuel s l t HI Hf) as H. destruct (s_intern l t) as [p|] eqn:E.
      + destruct H as [s' [Hs HI']]. rewrite Hs. cbn [bind fst]. apply IH; [exact HI'|].
        pose proof (s_intern_len l t p E). lia.
      + rewrite H. reflexivity.
  Qed.

  Lemma init_constf_sim fuel predef s l :
    Inv hash s l -> (length l <= fuel)%nat ->
    match s_init_const predef l with
    | None => init_constf hash fuel predef s = Undef
    | Some l' => exists s', init_constf hash fuel predef s = Ok s' /\ Inv hash s' l'
    end.
  Proof.
    intros HI Hf. unfold init_constf, s_init_const.
    pose proof (presizef_sim fuel s l (N.of_nat (length predef)) HI Hf) as H.
    destruct (s_presize l (N.of_nat (length predef))) as [l1|] eqn:E.
    - destruct H as [s1 [Hs HI1]]. rewrite Hs. cbn [bind]. apply add_allf_sim; [exact HI1|].
      unfold s_presize in E. destruct (size l + N.of_nat (length predef) <=? max_len); [|discriminate].
      injection E as <-. exact Hf.
    - rewrite H. reflexivity.
  Qed.

  Lemma dstepf_sim fuel predef s l o :
    Inv hash s l -> (length l <= fuel)%nat ->
    match sstep predef l o with
    | None => dstepf hash fuel predef s o = Undef
    | Some p => exists s', dstepf hash fuel predef s o = Ok (s', snd p) /\ Inv hash s' (fst p) /\
                           (length (fst p) <= next_fuel predef fuel o)%nat
    end.
  Proof.
    intros HI Hf. destruct o as [t|t|i|n|]; cbn [sstep dstepf next_fuel].
    - pose proof (internf_sim fuel s l t HI Hf) as H. destruct (s_intern l t) as [p|] eqn:E; [|exact H].
      destruct H as [s' [Hs HI']]. exists s'. split; [exact Hs|]. split; [exact HI'|].
      pose proof (s_intern_len l t p E). lia.
    - pose proof (stepf_sim fuel s l (OFind t) HI Hf I) as H. cbn [spec_step] in H.
      rewrite index_of_id_of in H. destruct H as [s' [ks' [Hs [Hp HI']]]]. cbn [fst snd] in *.
      apply map_some_inj in Hp. subst ks'. exists s'. split; [exact Hs|]. split; [exact HI'|exact Hf].
    - pose proof (stepf_sim fuel s l (OAt i) HI Hf I) as H. cbn [spec_step] in H.
      rewrite lookup_id_text_of in H. destruct (text_of i l) as [t|]; [|exact H].
      destruct H as [s' [ks' [Hs [Hp HI']]]]. cbn [fst snd] in *.
      apply map_some_inj in Hp. subst ks'. exists s'. split; [exact Hs|]. split; [exact HI'|exact Hf].
    - pose proof (presizef_sim fuel s l n HI Hf) as H. destruct (s_presize l n) as [l'|] eqn:E.
      + destruct H as [s' [Hs HI']]. rewrite Hs. cbn [bind fst snd]. exists s'. split; [reflexivity|]. split; [exact HI'|].
        unfold s_presize in E. destruct (size l + n <=? max_len); [|discriminate]. injection E as <-. exact Hf.
      + rewrite H. reflexivity.
    - pose proof (stepf_sim fuel s l OClear HI Hf I) as H. cbn [spec_step] in H.
      destruct H as [s1 [ks1 [Hs [Hp HI1]]]]. cbn [fst snd] in *.
      change (@nil (option N)) with (map (@Some N) []) in Hp. apply map_some_inj in Hp. subst ks1.
      rewrite Hs. cbn [bind fst].
      pose proof (init_constf_sim fuel predef s1 [] HI1 (Nat.le_0_l fuel)) as H.
      destruct (s_init_const predef []) as [l'|] eqn:E.
      + destruct H as [s' [Hs' HI']]. rewrite Hs'. cbn [bind fst snd]. exists s'. split; [reflexivity|]. split; [exact HI'|].
        pose proof (s_init_const_len predef [] l' E). cbn [length] in *. lia.
      + rewrite H. reflexivity.
  Qed.

  Lemma trace_acc_ok predef : forall ops fuel s l acc,
    Inv hash s l -> (length l <= fuel)%nat ->
    map fst (trace_acc hash predef fuel s ops acc) = rev (map fst acc) ++ spec_from predef l ops.
  Proof.
    induction ops as [|o ops IH]; intros fuel s l acc HI Hf; cbn [trace_acc spec_from].
    - rewrite rev_append_rev, !app_nil_r, map_rev. reflexivity.
    - pose proof (dstepf_sim fuel predef s l o HI Hf) as H. destruct (sstep predef l o) as [p|].
      + destruct H as [s' [Hs [HI' Hf']]]. rewrite Hs. cbn [fst snd].
        rewrite (IH _ s' (fst p) _ HI' Hf'). cbn [map fst rev]. rewrite <- app_assoc.
        rewrite (inv_cnt s' (fst p) HI'). reflexivity.
      + rewrite H. rewrite rev_append_rev, map_app, map_rev. reflexivity.
  Qed.

  Theorem run_trace_ok predef ops : map fst (run_trace hash predef ops) = run hash predef ops.
  Proof.
    rewrite run_refines_spec. unfold run_trace, spec_run, startf.
    pose proof (init_constf_sim O predef init [] (ex_intro _ [] (inv_init hash)) (Nat.le_refl 0)) as H.
    unfold s_start. destruct (s_init_const predef []) as [l|] eqn:E.
    - destruct H as [s [Hs HI]]. rewrite Hs.
      rewrite (trace_acc_ok predef ops (length predef) s l [] HI); [reflexivity|].
      pose proof (s_init_const_len predef [] l E). cbn [length] in *. lia.
    - rewrite H. reflexivity.
  Qed.

  (* the size the driver prints for the fresh dictionary is the specification's *)
  Lemma start_shape_ok predef :
    fst (start_shape hash predef) = match s_start predef with Some l => size l | None => 0 end.
  Proof.
    unfold start_shape, startf, s_start.
    pose proof (init_constf_sim O predef init [] (ex_intro _ [] (inv_init hash)) (Nat.le_refl 0)) as H.
    destruct (s_init_const predef []) as [l|].
    - destruct H as [s [Hs HI]]. rewrite Hs. cbn [fst]. apply inv_cnt, HI.
    - rewrite H. reflexivity.
  Qed.
End Main.

Lemma spec_acc_ok predef : forall ops l acc,
  spec_acc predef l ops acc = rev acc ++ spec_from predef l ops.
Proof.
  induction ops as [|o ops IH]; intros l acc; cbn [spec_acc spec_from].
  - rewrite rev_append_rev, !app_nil_r. reflexivity.
  - destruct (sstep predef l o) as [p|].
    + rewrite IH. cbn [rev]. rewrite <- app_assoc. reflexivity.
    + rewrite rev_append_rev. reflexivity.
Qed.

Theorem spec_run_tr_ok predef ops : spec_run_tr predef ops = spec_run predef ops.
Proof.
  unfold spec_run_tr, spec_run. destruct (s_start predef) as [l|]; [|reflexivity].
  rewrite spec_acc_ok. reflexivity.
Qed.

Lemma spec_no_hang predef : forall ops l, ~ In DHang (spec_from predef l ops).
Proof.
  induction ops as [|o ops IH]; intros l; cbn [spec_from]; [intros []|].
  destruct (sstep predef l o) as [p|].
  - intros [H|H]; [discriminate|]. apply (IH _ H).
  - intros [H|[]]. discriminate.
Qed.

Theorem run_never_hangs hash predef ops : ~ In DHang (run hash predef ops).
Proof.
  rewrite run_refines_spec. unfold spec_run. destruct (s_start predef) as [l|].
  - apply spec_no_hang.
  - intros [H|[]]. discriminate.
Qed.
