(* C17/ProofsCor.v - what the list specification implies for the states the dictionary model
   reaches: one id per text, ids stable, absent stays absent, predefined ids fixed. *)
From Coq Require Import Arith NArith List Bool Lia.
From Morfuse Require Import Base.Arr Base.ListX C18arr.Model C18arr.Spec C18arr.ProofsInv
     C18arr.Proofs C17.Model C17.Spec C17.Proofs.
Import ListNotations.
Local Open Scope N_scope.

(* ---- positions in a list --------------------------------------------------------------------- *)
Lemma pos_from_range t l : forall i, pos_from i t l = 0 \/ i <= pos_from i t l < i + size l.
Proof.
  unfold size. induction l as [|t' l IH]; intro i; cbn [pos_from length]; [now left|].
  destruct (N.eqb t' t).
  - right. lia.
  - destruct (IH (i + 1)) as [H|H]; [now left|right; lia].
Qed.

Lemma pos_from_zero t l : forall i, i <> 0 -> (pos_from i t l = 0 <-> ~ In t l).
Proof.
  induction l as [|t' l IH]; intros i Hi; cbn [pos_from In].
  - split; [intros _ []|reflexivity].
  - destruct (N.eqb_spec t' t) as [->|Hne].
    + split; [intro H; contradiction|intro H; exfalso; apply H; now left].
    + rewrite (IH (i + 1)) by lia. split; [intros H [E|E]; [contradiction|now apply H]|intros H E; apply H; now right].
Qed.

Lemma pos_from_app t l e : forall i, pos_from i t l <> 0 -> pos_from i t (l ++ e) = pos_from i t l.
Proof.
  induction l as [|t' l IH]; intros i H; cbn [pos_from app] in *; [contradiction|].
  destruct (N.eqb t' t); [reflexivity|apply IH, H].
Qed.

Lemma pos_from_app_notin t l e : forall i,
  i <> 0 -> ~ In t l -> pos_from i t (l ++ e) = pos_from (i + size l) t e.
Proof.
  unfold size. induction l as [|t' l IH]; intros i Hi Hn; cbn [pos_from app length].
  - f_equal. cbn. lia.
  - destruct (N.eqb_spec t' t) as [->|Hne]; [exfalso; apply Hn; now left|].
    rewrite IH; [f_equal; lia|lia|intro H; apply Hn; now right].
Qed.

Lemma pos_from_nth t l : forall i j,
  pos_from i t l = j -> j <> 0 -> i <> 0 -> nth_error l (N.to_nat (j - i)) = Some t.
Proof.
  induction l as [|t' l IH]; intros i j H Hj Hi; cbn [pos_from] in H; [congruence|].
  destruct (N.eqb_spec t' t) as [->|Hne].
  - subst j. replace (i - i) with 0 by lia. reflexivity.
  - destruct (pos_from_range t l (i + 1)) as [E|E]; [congruence|].
    replace (N.to_nat (j - i)) with (S (N.to_nat (j - (i + 1)))) by lia.
    cbn [nth_error]. apply IH; [exact H|exact Hj|lia].
Qed.

Lemma pos_from_nodup_nth t l : forall i k,
  NoDup l -> nth_error l k = Some t -> pos_from i t l = i + N.of_nat k.
Proof.
  induction l as [|t' l IH]; intros i k Hnd Hk; [destruct k; discriminate|].
  cbn [pos_from]. inversion Hnd as [|? ? Hni Hnd']; subst.
  destruct k as [|k]; cbn [nth_error] in Hk.
  - injection Hk as ->. rewrite N.eqb_refl. cbn. lia.
  - destruct (N.eqb_spec t' t) as [->|Hne].
    + exfalso. apply Hni. eapply nth_error_In; eauto.
    + rewrite (IH (i + 1) k Hnd' Hk). lia.
Qed.

Lemma id_of_absent t l : id_of t l = 0 <-> ~ In t l.
Proof. apply pos_from_zero. discriminate. Qed.

Lemma id_of_app t l e : id_of t l <> 0 -> id_of t (l ++ e) = id_of t l.
Proof. apply pos_from_app. Qed.

Lemma text_of_id_of t l : id_of t l <> 0 -> text_of (id_of t l) l = Some t.
Proof.
  intro H. unfold text_of. destruct (N.eqb_spec (id_of t l) 0) as [E|_]; [contradiction|].
  apply (pos_from_nth t l 1 (id_of t l)); [reflexivity|exact H|discriminate].
Qed.

Lemma text_of_app i l e t : text_of i l = Some t -> text_of i (l ++ e) = Some t.
Proof.
  unfold text_of. destruct (i =? 0); [discriminate|]. intro H.
  rewrite nth_error_app1; [exact H|]. apply nth_error_Some. congruence.
Qed.

Lemma id_of_inj a b l : id_of a l <> 0 -> id_of a l = id_of b l -> a = b.
Proof.
  intros Ha E. pose proof (text_of_id_of a l Ha) as H1.
  assert (Hb : id_of b l <> 0) by congruence.
  pose proof (text_of_id_of b l Hb) as H2. rewrite E in H1. congruence.
Qed.

Lemma id_of_snoc t l : ~ In t l -> id_of t (l ++ [t]) = size l + 1.
Proof.
  intro Hn. unfold id_of. rewrite pos_from_app_notin by (try discriminate; exact Hn).
  cbn [pos_from]. rewrite N.eqb_refl. lia.
Qed.

(* ---- one specification step ------------------------------------------------------------------ *)
Lemma s_intern_facts l t l' r :
  s_intern l t = Some (l', r) ->
  exists i, r = RIdx i /\ i <> 0 /\ id_of t l' = i /\ (exists e, l' = l ++ e) /\
            (forall x, In x l' <-> In x l \/ x = t).
Proof.
  unfold s_intern. destruct (N.eqb_spec (id_of t l) 0) as [E|E].
  - destruct (size l <? max_len); [|discriminate]. intro H. injection H as <- <-.
    apply id_of_absent in E. exists (size l + 1). split; [reflexivity|]. split; [lia|].
    split; [apply id_of_snoc, E|]. split; [exists [t]; reflexivity|].
    intro x. rewrite in_app_iff. cbn [In]. intuition.
  - intro H. injection H as <- <-. exists (id_of t l). split; [reflexivity|]. split; [exact E|].
    split; [reflexivity|]. split; [exists []; now rewrite app_nil_r|].
    intro x. split; [now left|]. intros [H|E']; [exact H|subst x].
    destruct (in_dec N.eq_dec t l) as [Hi|Hn]; [exact Hi|]. apply id_of_absent in Hn. contradiction.
Qed.

Lemma s_presize_same l n l' : s_presize l n = Some l' -> l' = l.
Proof. unfold s_presize. destruct (size l + n <=? max_len); [|discriminate]. now intros [= <-]. Qed.

Lemma s_add_all_facts ts : forall l l',
  s_add_all l ts = Some l' ->
  (exists e, l' = l ++ e) /\ (forall x, In x l' <-> In x l \/ In x ts).
Proof.
  induction ts as [|t ts IH]; intros l l' H; cbn [s_add_all] in H.
  - injection H as <-. split; [exists []; now rewrite app_nil_r|]. intro x. cbn [In]. intuition.
  - destruct (s_intern l t) as [[l1 r]|] eqn:E; [|discriminate]. cbn [fst] in H.
    destruct (s_intern_facts l t l1 r E) as [i [_ [_ [_ [[e1 ->] Hm]]]]].
    destruct (IH _ _ H) as [[e2 ->] Hm2]. split; [exists (e1 ++ e2); now rewrite app_assoc|].
    intro x. rewrite Hm2, Hm. cbn [In]. intuition.
Qed.

Lemma s_add_all_nodup ts : forall l,
  NoDup (l ++ ts) -> size (l ++ ts) <= max_len -> s_add_all l ts = Some (l ++ ts).
Proof.
  unfold size. induction ts as [|t ts IH]; intros l Hnd Hsz; cbn [s_add_all]; [now rewrite app_nil_r|].
  assert (Hn : ~ In t l).
  { intro Hi. apply (notin_app_l t l (t :: ts) Hnd Hi). now left. }
  unfold s_intern. apply id_of_absent in Hn. rewrite Hn. cbn [N.eqb].
  rewrite app_length in Hsz. cbn [length] in Hsz. unfold size.
  destruct (N.ltb_spec (N.of_nat (length l)) max_len) as [_|E]; [|lia]. cbn [fst].
  replace (l ++ t :: ts) with ((l ++ [t]) ++ ts) by (rewrite <- app_assoc; reflexivity).
  apply IH.
  - rewrite <- app_assoc. exact Hnd.
  - rewrite <- app_assoc. cbn [app]. rewrite app_length. cbn [length]. exact Hsz.
Qed.

Lemma s_start_nodup predef l :
  NoDup predef -> s_start predef = Some l -> l = predef.
Proof.
  unfold s_start, s_init_const, s_presize. intros Hnd.
  destruct (N.leb_spec (size [] + N.of_nat (length predef)) max_len) as [E|E]; [|discriminate].
  rewrite (s_add_all_nodup predef []); [now intros [= <-]|exact Hnd|].
  unfold size in *. cbn [app length] in *. lia.
Qed.

Lemma s_start_mem predef l : s_start predef = Some l -> forall x, In x l <-> In x predef.
Proof.
  unfold s_start, s_init_const. destruct (s_presize [] (N.of_nat (length predef))) as [l1|] eqn:E; [|discriminate].
  apply s_presize_same in E. subst l1. intro H. destruct (s_add_all_facts _ _ _ H) as [_ Hm].
  intro x. rewrite Hm. cbn [In]. intuition.
Qed.

Lemma sstep_prefix predef l o l' r :
  o <> OReset -> sstep predef l o = Some (l', r) -> exists e, l' = l ++ e.
Proof.
  intros Ho H. destruct o as [t|t|i|n|]; cbn [sstep] in H; [| | | |contradiction].
  - destruct (s_intern_facts l t l' r H) as [i [_ [_ [_ [He _]]]]]. exact He.
  - injection H as <- _. exists []. now rewrite app_nil_r.
  - destruct (text_of i l); [|discriminate]. injection H as <- _. exists []. now rewrite app_nil_r.
  - destruct (s_presize l n) as [l1|] eqn:E; [|discriminate]. apply s_presize_same in E.
    injection H as <- _. subst l1. exists []. now rewrite app_nil_r.
Qed.

Lemma sexec_from_prefix predef : forall ops l l',
  no_reset ops -> sexec_from predef l ops = Some l' -> exists e, l' = l ++ e.
Proof.
  induction ops as [|o ops IH]; intros l l' Hnr H; cbn [sexec_from] in H.
  - injection H as <-. exists []. now rewrite app_nil_r.
  - destruct (sstep predef l o) as [[l1 r]|] eqn:E; [|discriminate]. cbn [fst] in H.
    assert (Ho : o <> OReset) by (intro; subst o; apply Hnr; now left).
    destruct (sstep_prefix predef l o l1 r Ho E) as [e1 ->].
    destruct (IH _ _ (fun Hi => Hnr (or_intror Hi)) H) as [e2 ->].
    exists (e1 ++ e2). now rewrite app_assoc.
Qed.

(* the texts of a reached list: the predefined ones and those interned since the last reset *)
Lemma sexec_from_mem predef : forall ops l l' acc,
  (forall x, In x l <-> In x predef \/ In x acc) ->
  sexec_from predef l ops = Some l' ->
  forall x, In x l' <-> In x predef \/ In x (interned_acc acc ops).
Proof.
  induction ops as [|o ops IH]; intros l l' acc Hm H; cbn [sexec_from interned_acc] in *.
  - injection H as <-. exact Hm.
  - destruct (sstep predef l o) as [[l1 r]|] eqn:E; [|discriminate]. cbn [fst] in H.
    destruct o as [t|t|i|n|]; cbn [sstep] in E.
    + apply (IH l1 l' (t :: acc)); [|exact H].
      destruct (s_intern_facts l t l1 r E) as [i [_ [_ [_ [_ Hm1]]]]].
      intro x. rewrite Hm1, Hm. cbn [In]. intuition.
    + injection E as <- _. apply (IH l l' acc Hm H).
    + destruct (text_of i l); [|discriminate]. injection E as <- _. apply (IH l l' acc Hm H).
    + destruct (s_presize l n) as [l2|] eqn:E2; [|discriminate]. apply s_presize_same in E2.
      injection E as <- _. subst l2. apply (IH l l' acc Hm H).
    + destruct (s_init_const predef []) as [l2|] eqn:E2; [|discriminate]. injection E as <- _.
      apply (IH l2 l' [] ); [|exact H].
      intro x. rewrite (s_start_mem predef l2 E2 x). cbn [In]. intuition.
Qed.

Lemma sexec_mem predef ops l :
  sexec predef ops = Some l -> forall x, In x l <-> In x predef \/ In x (interned ops).
Proof.
  unfold sexec, interned. destruct (s_start predef) as [l0|] eqn:E; [|discriminate].
  apply sexec_from_mem. intro x. rewrite (s_start_mem predef l0 E x). cbn [In]. intuition.
Qed.

(* every reached list starts with the predefined texts (when they are pairwise different) *)
Lemma sexec_from_predef predef : forall ops l l',
  NoDup predef -> (exists e, l = predef ++ e) ->
  sexec_from predef l ops = Some l' -> exists e, l' = predef ++ e.
Proof.
  induction ops as [|o ops IH]; intros l l' Hnd Hl H; cbn [sexec_from] in H.
  - injection H as <-. exact Hl.
  - destruct (sstep predef l o) as [[l1 r]|] eqn:E; [|discriminate]. cbn [fst] in H.
    apply (IH l1 l' Hnd); [|exact H].
    destruct o as [t|t|i|n|];
      try (destruct Hl as [e0 ->];
           match type of E with
           | sstep _ ?l0 ?o0 = _ =>
               assert (Ho : o0 <> OReset) by discriminate;
               destruct (sstep_prefix predef l0 o0 l1 r Ho E) as [e1 ->]
           end;
           exists (e0 ++ e1); now rewrite app_assoc).
    cbn [sstep] in E. destruct (s_init_const predef []) as [l2|] eqn:E2; [|discriminate].
    injection E as <- _. rewrite (s_start_nodup predef l2 Hnd E2). exists []. now rewrite app_nil_r.
Qed.

Lemma sexec_predef predef ops l :
  NoDup predef -> sexec predef ops = Some l -> exists e, l = predef ++ e.
Proof.
  unfold sexec. intros Hnd. destruct (s_start predef) as [l0|] eqn:E; [|discriminate].
  apply sexec_from_predef; [exact Hnd|]. rewrite (s_start_nodup predef l0 Hnd E). exists []. now rewrite app_nil_r.
Qed.

(* ---- the model ------------------------------------------------------------------------------------ *)
Section Cor.
  Variable hash : N -> N.

  Lemma lookup_exact predef s l t :
    Inv hash s l -> dstep hash predef s (OLookup t) = Ok (s, RIdx (id_of t l)).
  Proof.
    intro HI. pose proof (dstep_sim hash predef s l (OLookup t) HI) as H. cbn [sstep fst snd] in H.
    destruct H as [s' [Hs _]]. cbn [dstep] in *. rewrite (find_keeps hash s t s' _ Hs) in Hs. exact Hs.
  Qed.

  Lemma text_exact predef s l i t :
    Inv hash s l -> text_of i l = Some t -> dstep hash predef s (OText i) = Ok (s, RKey t).
  Proof.
    intros HI Ht. pose proof (dstep_sim hash predef s l (OText i) HI) as H. cbn [sstep] in H.
    rewrite Ht in H. cbn [fst snd] in H.
    destruct H as [s' [Hs _]]. cbn [dstep] in *. rewrite (at_keeps hash s i s' _ Hs) in Hs. exact Hs.
  Qed.

  Lemma intern_abs predef s l t s' r :
    Inv hash s l -> dstep hash predef s (OIntern t) = Ok (s', r) ->
    exists l', s_intern l t = Some (l', r) /\ Inv hash s' l'.
  Proof.
    intros HI Hs. pose proof (dstep_sim hash predef s l (OIntern t) HI) as H. cbn [sstep] in H.
    destruct (s_intern l t) as [[l' r']|].
    - destruct H as [s1 [Hs1 HI1]]. cbn [fst snd] in *. rewrite Hs in Hs1. injection Hs1 as <- <-.
      exists l'. split; [reflexivity|exact HI1].
    - rewrite H in Hs. discriminate.
  Qed.

  (* the situation of the first three corollaries: t was interned with result r in a reached
     state, then a history without reset ran *)
  Lemma later_list predef ops1 s1 t s2 r ops2 s3 :
    exec hash predef ops1 = Ok s1 ->
    dstep hash predef s1 (OIntern t) = Ok (s2, r) ->
    no_reset ops2 -> exec_from hash predef s2 ops2 = Ok s3 ->
    exists i l3, r = RIdx i /\ i <> 0 /\ Inv hash s3 l3 /\ id_of t l3 = i.
  Proof.
    intros H1 Hi Hnr H2.
    destruct (exec_abs hash predef ops1 s1 H1) as [l1 [_ HI1]].
    destruct (intern_abs predef s1 l1 t s2 r HI1 Hi) as [l2 [Hs2 HI2]].
    destruct (s_intern_facts l1 t l2 r Hs2) as [i [-> [Hi0 [Hid _]]]].
    destruct (exec_from_abs hash predef ops2 s2 l2 s3 HI2 H2) as [l3 [Hs3 HI3]].
    destruct (sexec_from_prefix predef ops2 l2 l3 Hnr Hs3) as [e ->].
    exists i, (l2 ++ e). split; [reflexivity|]. split; [exact Hi0|]. split; [exact HI3|].
    rewrite id_of_app; [exact Hid|congruence].
  Qed.

  Theorem same_text_same_id predef ops1 s1 t s2 r ops2 s3 :
    exec hash predef ops1 = Ok s1 ->
    dstep hash predef s1 (OIntern t) = Ok (s2, r) ->
    no_reset ops2 -> exec_from hash predef s2 ops2 = Ok s3 ->
    (exists i, r = RIdx i /\ 1 <= i) /\
    (exists s4, dstep hash predef s3 (OIntern t) = Ok (s4, r) /\ cnt s4 = cnt s3) /\
    dstep hash predef s3 (OLookup t) = Ok (s3, r).
  Proof.
    intros H1 Hi Hnr H2.
    destruct (later_list predef ops1 s1 t s2 r ops2 s3 H1 Hi Hnr H2) as [i [l3 [-> [Hi0 [HI3 Hid]]]]].
    split; [exists i; split; [reflexivity|lia]|]. split.
    - pose proof (dstep_sim hash predef s3 l3 (OIntern t) HI3) as H. cbn [sstep] in H.
      unfold s_intern in H. rewrite Hid in H. destruct (N.eqb_spec i 0) as [E|_]; [contradiction|].
      cbn [fst snd] in H. destruct H as [s4 [Hs4 HI4]]. exists s4. split; [exact Hs4|].
      rewrite (inv_cnt hash s4 l3 HI4), (inv_cnt hash s3 l3 HI3). reflexivity.
    - rewrite <- Hid. apply lookup_exact, HI3.
  Qed.

  Theorem distinct_text_distinct_id predef ops1 s1 t s2 i ops2 s3 t' s4 j :
    exec hash predef ops1 = Ok s1 ->
    dstep hash predef s1 (OIntern t) = Ok (s2, RIdx i) ->
    no_reset ops2 -> exec_from hash predef s2 ops2 = Ok s3 ->
    dstep hash predef s3 (OIntern t') = Ok (s4, RIdx j) ->
    t <> t' -> i <> j.
  Proof.
    intros H1 Hi Hnr H2 Hj Hne.
    destruct (later_list predef ops1 s1 t s2 (RIdx i) ops2 s3 H1 Hi Hnr H2) as [i' [l3 [E [Hi0 [HI3 Hid]]]]].
    injection E as <-.
    destruct (intern_abs predef s3 l3 t' s4 (RIdx j) HI3 Hj) as [l4 [Hs4 _]].
    destruct (s_intern_facts l3 t' l4 (RIdx j) Hs4) as [j' [E [Hj0 [Hjd [[e ->] _]]]]].
    injection E as <-. intro Eij. apply Hne.
    apply (id_of_inj t t' (l3 ++ e)).
    - rewrite id_of_app; congruence.
    - rewrite id_of_app by congruence. congruence.
  Qed.

  Theorem id_stable predef ops1 s1 t s2 i ops2 s3 :
    exec hash predef ops1 = Ok s1 ->
    dstep hash predef s1 (OIntern t) = Ok (s2, RIdx i) ->
    no_reset ops2 -> exec_from hash predef s2 ops2 = Ok s3 ->
    dstep hash predef s3 (OText i) = Ok (s3, RKey t) /\
    dstep hash predef s3 (OLookup t) = Ok (s3, RIdx i).
  Proof.
    intros H1 Hi Hnr H2.
    destruct (later_list predef ops1 s1 t s2 (RIdx i) ops2 s3 H1 Hi Hnr H2) as [i' [l3 [E [Hi0 [HI3 Hid]]]]].
    injection E as <-. split.
    - apply (text_exact predef s3 l3 i t HI3). rewrite <- Hid. apply text_of_id_of. congruence.
    - rewrite <- Hid. apply lookup_exact, HI3.
  Qed.

  Theorem lookup_absent predef ops s t :
    exec hash predef ops = Ok s ->
    (~ In t predef /\ ~ In t (interned ops) ->
       dstep hash predef s (OLookup t) = Ok (s, RIdx 0)) /\
    (In t predef \/ In t (interned ops) ->
       exists i, 1 <= i <= cnt s /\ dstep hash predef s (OLookup t) = Ok (s, RIdx i) /\
                 dstep hash predef s (OText i) = Ok (s, RKey t)).
  Proof.
    intro H. destruct (exec_abs hash predef ops s H) as [l [Hs HI]].
    pose proof (sexec_mem predef ops l Hs t) as Hm. split.
    - intros [Hp Hn]. assert (E : id_of t l = 0) by (apply id_of_absent; rewrite Hm; tauto).
      rewrite <- E. apply lookup_exact, HI.
    - intro Hin. apply Hm in Hin.
      assert (E : id_of t l <> 0) by (intro E; apply id_of_absent in E; contradiction).
      exists (id_of t l). split; [|split].
      + rewrite (inv_cnt hash s l HI). unfold id_of in *.
        destruct (pos_from_range t l 1) as [E0|E1]; [contradiction|lia].
      + apply lookup_exact, HI.
      + apply (text_exact predef s l _ t HI), text_of_id_of, E.
  Qed.

  Theorem predefined_fixed predef ops s :
    NoDup predef -> exec hash predef ops = Ok s ->
    forall k t, nth_error predef k = Some t ->
      dstep hash predef s (OLookup t) = Ok (s, RIdx (N.of_nat k + 1)) /\
      dstep hash predef s (OText (N.of_nat k + 1)) = Ok (s, RKey t).
  Proof.
    intros Hnd H k t Hk. destruct (exec_abs hash predef ops s H) as [l [Hs HI]].
    destruct (sexec_predef predef ops l Hnd Hs) as [e ->].
    assert (E : id_of t (predef ++ e) = N.of_nat k + 1).
    { assert (E0 : id_of t predef = 1 + N.of_nat k) by (apply pos_from_nodup_nth; assumption).
      rewrite id_of_app; lia. }
    split.
    - rewrite <- E. apply lookup_exact, HI.
    - apply (text_exact predef s _ _ t HI). rewrite <- E. apply text_of_id_of. lia.
  Qed.
End Cor.

(* ---- a decidable NoDup, for the generated list --------------------------------------------- *)
Fixpoint memb (x : N) (l : list N) : bool :=
  match l with
  | [] => false
  | y :: l' => N.eqb y x || memb x l'
  end.

Fixpoint nodupb (l : list N) : bool :=
  match l with
  | [] => true
  | x :: l' => negb (memb x l') && nodupb l'
  end.

Lemma memb_in x l : memb x l = true <-> In x l.
Proof.
  induction l as [|y l IH]; cbn [memb In]; [split; [discriminate|intros []]|].
  rewrite orb_true_iff, IH, N.eqb_eq. reflexivity.
Qed.

Lemma nodupb_nodup l : nodupb l = true -> NoDup l.
Proof.
  induction l as [|x l IH]; cbn [nodupb]; intro H; [constructor|].
  apply andb_true_iff in H. destruct H as [H1 H2]. constructor; [|apply IH, H2].
  intro Hi. apply memb_in in Hi. rewrite Hi in H1. discriminate.
Qed.

(* positions 1, 2, 3, ... *)
Fixpoint positions_from (i : N) (l : list (N * N)) : bool :=
  match l with
  | [] => true
  | (idx, _) :: l' => N.eqb idx i && positions_from (i + 1) l'
  end.

Lemma positions_from_nth l : forall i k idx t,
  positions_from i l = true -> nth_error l k = Some (idx, t) -> idx = i + N.of_nat k.
Proof.
  induction l as [|[idx' t'] l IH]; intros i k idx t H Hk; [destruct k; discriminate|].
  cbn [positions_from] in H. apply andb_true_iff in H. destruct H as [H1 H2]. apply N.eqb_eq in H1.
  destruct k as [|k]; cbn [nth_error] in Hk.
  - injection Hk as <- _. cbn. lia.
  - rewrite (IH (i + 1) k idx t H2 Hk). lia.
Qed.
