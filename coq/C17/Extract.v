(* C17/Extract.v - extraction of the model and the specification (ExtrOcamlBasic only). *)
Require Extraction.
Require Import ExtrOcamlBasic.
From Morfuse Require Import C18arr.Model C17.Model C17.Spec C17.Generated.
Extraction "C17_model.ml" run_trace start_shape spec_run_tr s_start predefined.
