(* C17/ProofsGen.v - facts about the generated list of the engine's predefined strings
   (C17/Generated.v), by computation, and the remaining glue lemmas of Properties.v. *)
From Coq Require Import NArith List Bool.
From Morfuse Require Import Base.Arr C18arr.Model C18arr.Proofs C17.Model C17.Spec C17.Proofs
     C17.ProofsCor C17.Generated.
Import ListNotations.
Local Open Scope N_scope.

Lemma predefined_nodup : NoDup predefined.
Proof. apply nodupb_nodup. vm_compute. reflexivity. Qed.

Lemma predefined_positions :
  (forall (k : nat) (idx t : N), nth_error predefined_dump k = Some (idx, t) -> idx = N.of_nat k + 1) /\
  num_strings = N.of_nat (length predefined_dump).
Proof.
  split.
  - intros k idx t H. rewrite N.add_comm.
    apply (positions_from_nth predefined_dump 1 k idx t); [vm_compute; reflexivity|exact H].
  - vm_compute. reflexivity.
Qed.

Lemma predefined_ids_fixed hash ops s :
  exec hash predefined ops = Ok s ->
  forall (k : nat) (t : N), nth_error predefined k = Some t ->
    dstep hash predefined s (OLookup t) = Ok (s, RIdx (N.of_nat k + 1)) /\
    dstep hash predefined s (OText (N.of_nat k + 1)) = Ok (s, RKey t).
Proof. apply predefined_fixed, predefined_nodup. Qed.

Lemma driver_functions hash predef ops :
  map fst (run_trace hash predef ops) = run hash predef ops /\
  spec_run_tr predef ops = spec_run predef ops /\
  fst (start_shape hash predef) = match s_start predef with Some l => size l | None => 0 end.
Proof. split; [apply run_trace_ok|split; [apply spec_run_tr_ok|apply start_shape_ok]]. Qed.

Lemma exec_defined hash predef ops l :
  sexec predef ops = Some l -> exists s, exec hash predef ops = Ok s /\ cnt s = size l.
Proof.
  intro H. destruct (exec_total hash predef ops l H) as [s [He HI]].
  exists s. split; [exact He|apply (inv_cnt hash s l HI)].
Qed.
