(* C17/Spec.v - the abstract specification of the string dictionary: a list of texts without
   repetition; the id of a text is its 1-based position.

   intern t   : the position of t, or t is appended and gets the next position
   lookup t   : the position of t, or 0 (absent); the list is unchanged
   text i     : the text at position i
   presize n  : nothing observable
   reset      : the list becomes the predefined texts, interned in their order into the empty
                list (for a bare StringDictionary the predefined list is empty)
   the initial list is the same as after reset.

   Preconditions (violated = [DUndef], the rest of the history is unconstrained):
   text i needs 1 <= i <= number of texts; interning a NEW text needs fewer than
   max_len = 89834777 texts and presize n needs (number of texts) + n <= max_len (the growth
   table of the container ends there; the property ranges over 10^5 entries). *)
From Coq Require Import NArith List Bool.
From Morfuse Require Import C18arr.Model C17.Model.
Import ListNotations.
Local Open Scope N_scope.

Definition dict := list N.

Fixpoint pos_from (i : N) (t : N) (l : dict) : N :=
  match l with
  | [] => 0
  | t' :: l' => if N.eqb t' t then i else pos_from (i + 1) t l'
  end.

(* the id of a text, 0 = absent *)
Definition id_of (t : N) (l : dict) : N := pos_from 1 t l.

(* the text of an id *)
Definition text_of (i : N) (l : dict) : option N :=
  if i =? 0 then None else nth_error l (N.to_nat (i - 1)).

Definition size (l : dict) : N := N.of_nat (length l).

Definition s_intern (l : dict) (t : N) : option (dict * res) :=
  let i := id_of t l in
  if i =? 0
  then if size l <? max_len then Some (l ++ [t], RIdx (size l + 1)) else None
  else Some (l, RIdx i).

Definition s_presize (l : dict) (n : N) : option dict :=
  if size l + n <=? max_len then Some l else None.

Fixpoint s_add_all (l : dict) (ts : list N) : option dict :=
  match ts with
  | [] => Some l
  | t :: ts' => match s_intern l t with
                | Some p => s_add_all (fst p) ts'
                | None => None
                end
  end.

Definition s_init_const (predef : list N) (l : dict) : option dict :=
  match s_presize l (N.of_nat (length predef)) with
  | Some l1 => s_add_all l1 predef
  | None => None
  end.

Definition sstep (predef : list N) (l : dict) (o : dop) : option (dict * res) :=
  match o with
  | OIntern t => s_intern l t
  | OLookup t => Some (l, RIdx (id_of t l))
  | OText i => match text_of i l with
               | Some t => Some (l, RKey t)
               | None => None
               end
  | OPresize n => match s_presize l n with
                  | Some l' => Some (l', RUnit)
                  | None => None
                  end
  | OReset => match s_init_const predef [] with
              | Some l' => Some (l', RUnit)
              | None => None
              end
  end.

Definition s_start (predef : list N) : option dict := s_init_const predef [].

(* the list reached by a history (every precondition met) *)
Fixpoint sexec_from (predef : list N) (l : dict) (ops : list dop) : option dict :=
  match ops with
  | [] => Some l
  | o :: ops' => match sstep predef l o with
                 | Some p => sexec_from predef (fst p) ops'
                 | None => None
                 end
  end.

Definition sexec (predef : list N) (ops : list dop) : option dict :=
  match s_start predef with
  | Some l => sexec_from predef l ops
  | None => None
  end.

Fixpoint spec_from (predef : list N) (l : dict) (ops : list dop) : list dobs :=
  match ops with
  | [] => []
  | o :: ops' =>
      match sstep predef l o with
      | None => [DUndef]
      | Some p => DObs (snd p) (size (fst p)) :: spec_from predef (fst p) ops'
      end
  end.

Definition spec_run (predef : list N) (ops : list dop) : list dobs :=
  match s_start predef with
  | Some l => spec_from predef l ops
  | None => [DUndef]
  end.

(* with an accumulator, for the driver; spec_run_tr = spec_run is proved in Proofs.v *)
Fixpoint spec_acc (predef : list N) (l : dict) (ops : list dop) (acc : list dobs) : list dobs :=
  match ops with
  | [] => rev_append acc []
  | o :: ops' =>
      match sstep predef l o with
      | None => rev_append acc [DUndef]
      | Some p => spec_acc predef (fst p) ops' (DObs (snd p) (size (fst p)) :: acc)
      end
  end.

Definition spec_run_tr (predef : list N) (ops : list dop) : list dobs :=
  match s_start predef with
  | Some l => spec_acc predef l ops []
  | None => [DUndef]
  end.

(* the texts interned by a history since its last reset (newest first) *)
Fixpoint interned_acc (acc : list N) (ops : list dop) : list N :=
  match ops with
  | [] => acc
  | OIntern t :: ops' => interned_acc (t :: acc) ops'
  | OReset :: ops' => interned_acc [] ops'
  | _ :: ops' => interned_acc acc ops'
  end.

Definition interned (ops : list dop) : list N := interned_acc [] ops.

Definition no_reset (ops : list dop) : Prop := ~ In OReset ops.
