(* C17/Properties.v - the property theorems of unit C17 (mfuse::StringDictionary over
   con::arrayset, and the predefined strings ScriptMaster puts into it), and nothing else.
   Every theorem is closed by [exact <lemma>] and followed by Print Assumptions.

   Reading the statements: [hash] is any function from texts to numbers (so arbitrary
   collisions); [predef] is the list of predefined texts ([] = a bare StringDictionary);
   [exec hash predef ops = Ok s] says: s is the state of the dictionary model after the
   construction (InitConstStrings) and the history ops, no operation of which ran into
   undefined behaviour; [dstep hash predef s o = Ok (s', r)] says: operation o in state s
   returns r and leaves state s'.  Operations: OIntern t = Add, OLookup t = Get(text) (RIdx 0 =
   absent), OText i = Get(id), OPresize n = AllocateMoreString(n), OReset = Reset (+ the
   predefined strings again).  Undefined behaviour of the model = violated precondition of the
   specification: Get(id) with id = 0 or id > size; more than 89834777 strings (pre-sized or
   interned; the growth table of the container ends there, the property ranges over 10^5). *)
From Coq Require Import NArith List Bool.
From Morfuse Require Import Base.Arr C18arr.Model C17.Model C17.Spec C17.Proofs C17.ProofsCor
     C17.Generated C17.ProofsGen.
Import ListNotations.
Local Open Scope N_scope.

(* For EVERY hash function, every list of predefined texts and EVERY history of intern /
   lookup-by-text / lookup-by-id / pre-size(n) / reset, the dictionary model (the chained table
   with its reverse index table, growth through set_primes, pre-sizing to caller-chosen table
   lengths, clear and re-initialisation) shows after every operation exactly what a list of
   texts without repetition shows, the id of a text being its 1-based position: the
   operation's result and the number of strings; and it runs into undefined behaviour exactly
   where the list specification's precondition is violated. *)
Theorem C17_dict_refines_list :
  forall (hash : N -> N) (predef : list N) (ops : list dop),
    run hash predef ops = spec_run predef ops.
Proof. exact run_refines_spec. Qed.
Print Assumptions C17_dict_refines_list.

(* no chain walk of the container ever exhausts its fuel (no cyclic chain) *)
Theorem C17_never_hangs :
  forall (hash : N -> N) (predef : list N) (ops : list dop),
    ~ In DHang (run hash predef ops).
Proof. exact run_never_hangs. Qed.
Print Assumptions C17_never_hangs.

(* the functions the differential driver executes (the same container functions with a fuel
   threaded through the history instead of C18arr's per-operation unary fuel, and accumulators
   instead of non-tail recursion) compute the observations the theorems are about *)
Theorem C17_driver_functions :
  forall (hash : N -> N) (predef : list N) (ops : list dop),
    map fst (run_trace hash predef ops) = run hash predef ops /\
    spec_run_tr predef ops = spec_run predef ops /\
    fst (start_shape hash predef) = match s_start predef with Some l => size l | None => 0 end.
Proof. exact driver_functions. Qed.
Print Assumptions C17_driver_functions.

(* a history whose preconditions hold in the list specification is executed by the model
   without undefined behaviour (the hypotheses [exec .. = Ok s] below are satisfiable exactly
   then) *)
Theorem C17_exec_defined :
  forall (hash : N -> N) (predef : list N) (ops : list dop) (l : dict),
    sexec predef ops = Some l ->
    exists s, exec hash predef ops = Ok s /\ cnt s = size l.
Proof. exact exec_defined. Qed.
Print Assumptions C17_exec_defined.

(* Same text, same id: once interning t has returned r (an id >= 1), then after ANY later
   history without reset (more interning, growth, pre-sizing, lookups) interning t again
   returns r and adds nothing, and looking t up returns r. *)
Theorem C17_same_text_same_id :
  forall (hash : N -> N) (predef : list N) (ops1 : list dop) (s1 : st) (t : N) (s2 : st) (r : res)
         (ops2 : list dop) (s3 : st),
    exec hash predef ops1 = Ok s1 ->
    dstep hash predef s1 (OIntern t) = Ok (s2, r) ->
    no_reset ops2 -> exec_from hash predef s2 ops2 = Ok s3 ->
    (exists i, r = RIdx i /\ 1 <= i) /\
    (exists s4, dstep hash predef s3 (OIntern t) = Ok (s4, r) /\ cnt s4 = cnt s3) /\
    dstep hash predef s3 (OLookup t) = Ok (s3, r).
Proof. exact same_text_same_id. Qed.
Print Assumptions C17_same_text_same_id.

(* Different texts, different ids: an id handed out for t is never returned for another text
   (whether that text is new or old) until the next reset. *)
Theorem C17_distinct_text_distinct_id :
  forall (hash : N -> N) (predef : list N) (ops1 : list dop) (s1 : st) (t : N) (s2 : st) (i : N)
         (ops2 : list dop) (s3 : st) (t' : N) (s4 : st) (j : N),
    exec hash predef ops1 = Ok s1 ->
    dstep hash predef s1 (OIntern t) = Ok (s2, RIdx i) ->
    no_reset ops2 -> exec_from hash predef s2 ops2 = Ok s3 ->
    dstep hash predef s3 (OIntern t') = Ok (s4, RIdx j) ->
    t <> t' -> i <> j.
Proof. exact distinct_text_distinct_id. Qed.
Print Assumptions C17_distinct_text_distinct_id.

(* Ids are stable: the id interning t returned still denotes t (lookup by id gives t, lookup by
   text gives the id) after any later history without reset - however much the dictionary has
   grown, been pre-sized or rehashed - and these lookups leave the state untouched. *)
Theorem C17_id_stable_under_growth_and_presize :
  forall (hash : N -> N) (predef : list N) (ops1 : list dop) (s1 : st) (t : N) (s2 : st) (i : N)
         (ops2 : list dop) (s3 : st),
    exec hash predef ops1 = Ok s1 ->
    dstep hash predef s1 (OIntern t) = Ok (s2, RIdx i) ->
    no_reset ops2 -> exec_from hash predef s2 ops2 = Ok s3 ->
    dstep hash predef s3 (OText i) = Ok (s3, RKey t) /\
    dstep hash predef s3 (OLookup t) = Ok (s3, RIdx i).
Proof. exact id_stable. Qed.
Print Assumptions C17_id_stable_under_growth_and_presize.

(* Lookup of an absent text: a text that is not predefined and was not interned since the last
   reset is reported absent (id 0) and the dictionary is literally unchanged (so it is still
   absent afterwards); every other text is found, with an id between 1 and the number of
   strings that denotes this text. *)
Theorem C17_lookup_absent_does_not_add :
  forall (hash : N -> N) (predef : list N) (ops : list dop) (s : st) (t : N),
    exec hash predef ops = Ok s ->
    (~ In t predef /\ ~ In t (interned ops) ->
       dstep hash predef s (OLookup t) = Ok (s, RIdx 0)) /\
    (In t predef \/ In t (interned ops) ->
       exists i, 1 <= i <= cnt s /\ dstep hash predef s (OLookup t) = Ok (s, RIdx i) /\
                 dstep hash predef s (OText i) = Ok (s, RKey t)).
Proof. exact lookup_absent. Qed.
Print Assumptions C17_lookup_absent_does_not_add.

(* Predefined ids are fixed, for any list of pairwise different predefined texts: after the
   construction and after every history (with any number of resets) predefined text number
   k+1 of the list has id k+1. *)
Theorem C17_predefined_ids_fixed_general :
  forall (hash : N -> N) (predef : list N) (ops : list dop) (s : st),
    NoDup predef -> exec hash predef ops = Ok s ->
    forall (k : nat) (t : N), nth_error predef k = Some t ->
      dstep hash predef s (OLookup t) = Ok (s, RIdx (N.of_nat k + 1)) /\
      dstep hash predef s (OText (N.of_nat k + 1)) = Ok (s, RKey t).
Proof. exact predefined_fixed. Qed.
Print Assumptions C17_predefined_ids_fixed_general.

(* ---- the engine's actual predefined strings (C17/Generated.v, regenerated from the running
   code by every check) ------------------------------------------------------------------------ *)

(* they are pairwise different (by computation on the generated list: a predefined string
   defined twice in the C++ breaks this proof on the next run) *)
Theorem C17_predefined_nodup : NoDup predefined.
Proof. exact predefined_nodup. Qed.
Print Assumptions C17_predefined_nodup.

(* the index every PredefinedString object carries (GetIndex(), what the engine compares ids
   with) is its position in the list, and GetNumStrings() is the length of the list *)
Theorem C17_predefined_index_is_position :
  (forall (k : nat) (idx t : N), nth_error predefined_dump k = Some (idx, t) -> idx = N.of_nat k + 1) /\
  num_strings = N.of_nat (length predefined_dump).
Proof. exact predefined_positions. Qed.
Print Assumptions C17_predefined_index_is_position.

(* hence: in every dictionary of a ScriptMaster, after the construction and after every history
   with any number of resets, the predefined string with index k+1 has id k+1 and id k+1
   denotes it *)
Theorem C17_predefined_ids_fixed :
  forall (hash : N -> N) (ops : list dop) (s : st),
    exec hash predefined ops = Ok s ->
    forall (k : nat) (t : N), nth_error predefined k = Some t ->
      dstep hash predefined s (OLookup t) = Ok (s, RIdx (N.of_nat k + 1)) /\
      dstep hash predefined s (OText (N.of_nat k + 1)) = Ok (s, RKey t).
Proof. exact predefined_ids_fixed. Qed.
Print Assumptions C17_predefined_ids_fixed.

(* ---- non-vacuity: concrete histories ------------------------------------------------------------
   hash = t mod 3: texts 10, 13, 16, 19, 22, 25, 28, 31, 34 all collide.  Nine interned
   texts cross the growth steps 1 -> 7 -> 17; the eighth (34 is the ninth) triggers 7 -> 17;
   re-interning and looking up the text that triggered the growth; pre-size(3) with 4 strings in
   a table of 7 does nothing, pre-size(30) resizes to the non-prime 39; lookup by id; a text
   never interned is absent; id 10 does not exist: undefined. *)
Example C17_model_history :
  map fst (run_trace (fun t => t mod 3) []
      [OIntern 10; OIntern 13; OLookup 13; OIntern 13; OIntern 16; OIntern 19; OPresize 3;
       OIntern 22; OIntern 25; OIntern 28; OIntern 31; OLookup 31; OIntern 31; OText 8;
       OIntern 34; OPresize 30; OText 1; OText 9; OLookup 10; OLookup 11; OIntern 10; OText 10]) =
  [DObs (RIdx 1) 1; DObs (RIdx 2) 2; DObs (RIdx 2) 2; DObs (RIdx 2) 2; DObs (RIdx 3) 3;
   DObs (RIdx 4) 4; DObs RUnit 4; DObs (RIdx 5) 5; DObs (RIdx 6) 6; DObs (RIdx 7) 7;
   DObs (RIdx 8) 8; DObs (RIdx 8) 8; DObs (RIdx 8) 8; DObs (RKey 31) 8; DObs (RIdx 9) 9;
   DObs RUnit 9; DObs (RKey 10) 9; DObs (RKey 34) 9; DObs (RIdx 1) 9; DObs (RIdx 0) 9;
   DObs (RIdx 1) 9; DUndef].
Proof. vm_compute. reflexivity. Qed.

(* allocated() along the same history *)
Example C17_model_history_allocated :
  map snd (run_trace (fun t => t mod 3) []
      [OIntern 10; OIntern 13; OLookup 13; OIntern 13; OIntern 16; OIntern 19; OPresize 3;
       OIntern 22; OIntern 25; OIntern 28; OIntern 31; OLookup 31; OIntern 31; OText 8;
       OIntern 34; OPresize 30; OText 1]) =
  [1; 7; 7; 7; 7; 7; 7; 7; 7; 7; 17; 17; 17; 17; 17; 39; 39].
Proof. vm_compute. reflexivity. Qed.

Example C17_spec_history :
  spec_run []
      [OIntern 10; OIntern 13; OLookup 13; OIntern 13; OIntern 16; OIntern 19; OPresize 3;
       OIntern 22; OIntern 25; OIntern 28; OIntern 31; OLookup 31; OIntern 31; OText 8;
       OIntern 34; OPresize 30; OText 1; OText 9; OLookup 10; OLookup 11; OIntern 10; OText 10] =
  [DObs (RIdx 1) 1; DObs (RIdx 2) 2; DObs (RIdx 2) 2; DObs (RIdx 2) 2; DObs (RIdx 3) 3;
   DObs (RIdx 4) 4; DObs RUnit 4; DObs (RIdx 5) 5; DObs (RIdx 6) 6; DObs (RIdx 7) 7;
   DObs (RIdx 8) 8; DObs (RIdx 8) 8; DObs (RIdx 8) 8; DObs (RKey 31) 8; DObs (RIdx 9) 9;
   DObs RUnit 9; DObs (RKey 10) 9; DObs (RKey 34) 9; DObs (RIdx 1) 9; DObs (RIdx 0) 9;
   DObs (RIdx 1) 9; DUndef].
Proof. vm_compute. reflexivity. Qed.

(* the ScriptMaster level with the engine's own predefined strings, hash = t mod 2: the
   dictionary starts with them, pre-sized to their number; interning one of them again returns
   its index; after growth and a reset they are back under the same ids and the other texts
   are gone *)
Example C17_master_history :
  let n := N.of_nat (length predefined) in
  let p := nth 0 predefined 0 in
  map fst (run_trace (fun t => t mod 2) predefined
      [OIntern p; OIntern 7; OIntern 9; OLookup 9; OReset; OLookup 9; OLookup p; OText 1; OIntern 9]) =
  [DObs (RIdx 1) n; DObs (RIdx (n + 1)) (n + 1); DObs (RIdx (n + 2)) (n + 2);
   DObs (RIdx (n + 2)) (n + 2); DObs RUnit n; DObs (RIdx 0) n; DObs (RIdx 1) n; DObs (RKey p) n;
   DObs (RIdx (n + 1)) (n + 1)]
  /\ start_shape (fun t => t mod 2) predefined = (n, N.max 1 n).
Proof. vm_compute. split; reflexivity. Qed.

(* the hypotheses of the corollaries are satisfiable: the state after a history *)
Example C17_exec_example :
  exists s, exec (fun t => t mod 3) [5; 8] [OIntern 10; OIntern 13; OReset; OIntern 16; OPresize 40] = Ok s /\
            cnt s = 3 /\ tlen s = 43.
Proof. eexists. vm_compute. split; [reflexivity|split; reflexivity]. Qed.
