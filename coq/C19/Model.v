(* C19/Model.v — executable model of MEM::BlockAlloc<aclass, blocksize>
   (include/morfuse/Common/MEM/BlockAlloc.h, the !_DEBUG_MEMBLOCK branch).

   What is modelled at the level of the code:
     - block_s: the two index arrays next_data/prev_data, free_data, used_data and the
       two flags; the constructor's initial free ring 0 -> 1 -> ... -> b-1 -> 0;
     - Alloc (three ways to find a block, "last free slot" moves the block to the full
       list, first used slot makes a singleton ring, TakeFree otherwise);
     - Free (last used slot: block becomes the cached free block and a previously cached
       one is released; block was full: moves back to the used list; otherwise re-link);
     - FreeAll (restart from the list root after every destructor; the destructor of an
       object may delete other live pool objects), Count (ring traversal), BlockCount.
   What is abstracted: the two LinkedList<block_t*> lists are Coq lists of block ids
   (AddFirst = cons, Remove = remove the member, Root = head); raw addresses are pairs
   (block id, slot); a released block id is never reused.  *)
From Coq Require Import NArith List Bool Lia.
From Morfuse Require Import Base.Arr Base.Ring.
Import ListNotations.
Local Open Scope N_scope.

Record block := mkBlock {
  nx : arr N; pv : arr N;
  free_d : N; used_d : N;
  has_free : bool; has_used : bool }.

Definition dummy_block : block :=
  mkBlock (aempty 0) (aempty 0) 0 0 false false.

Record pool := mkPool {
  blocks : arr block;
  usedL : list N;          (* m_StartUsedBlock, root first *)
  fullL : list N;          (* m_StartFullBlock, root first *)
  freeB : option N;        (* m_FreeBlock *)
  nblocks : N;             (* m_BlockCount *)
  next_blk : N }.          (* fresh block identities (models MEM::Alloc) *)

Definition pool_init : pool :=
  mkPool (aempty dummy_block) [] [] None 0 0.

Notation addr := (N * N)%type (only parsing).     (* block id, slot index *)

Section WithBlockSize.
  Variable bn : nat.                 (* the template parameter blocksize *)
  Definition b : N := N.of_nat bn.

  Definition iota : list N := map N.of_nat (seq 0 bn).

  (* block_s::block_s() *)
  Definition new_block : block :=
    let nx0 := fold_right (fun i a => set a i (if N.eqb (i + 1) b then 0 else i + 1))
                          (aempty 0) iota in
    let pv0 := fold_right (fun i a => set a i (if N.eqb i 0 then b - 1 else i - 1))
                          (aempty 0) iota in
    mkBlock nx0 pv0 0 0 true false.

  (* BlockAlloc::TakeFree : link slot f into the used ring before used_data *)
  Definition take_free (bk : block) (f : N) : block :=
    let u := used_d bk in
    let p := get (pv bk) u in
    let nx1 := set (nx bk) p f in
    let pv1 := set (pv bk) u f in
    let nx2 := set nx1 f u in
    let pv2 := set pv1 f p in
    mkBlock nx2 pv2 (free_d bk) (used_d bk) (has_free bk) (has_used bk).

  (* common tail of Alloc: unlink f (successor n) from the free ring, then use it *)
  Definition alloc_common (bk : block) (f n : N) : block :=
    let p := get (pv bk) f in
    let nx1 := set (nx bk) p n in
    let pv1 := set (pv bk) n p in
    if has_used bk then
      take_free (mkBlock nx1 pv1 n (used_d bk) true true) f
    else
      mkBlock (set nx1 f f) (set pv1 f f) n f true true.

  Definition alloc (st : pool) : addr * pool :=
    match usedL st with
    | ub :: rest =>
        let bk := get (blocks st) ub in
        let f := free_d bk in
        let n := get (nx bk) f in
        if N.eqb n f then
          (* the last free slot: the block moves to the full list *)
          let bk' := take_free (mkBlock (nx bk) (pv bk) (free_d bk) (used_d bk)
                                        false (has_used bk)) f in
          ((ub, f),
           mkPool (set (blocks st) ub bk') rest (ub :: fullL st) (freeB st)
                  (nblocks st) (next_blk st))
        else
          ((ub, f),
           mkPool (set (blocks st) ub (alloc_common bk f n)) (usedL st) (fullL st)
                  (freeB st) (nblocks st) (next_blk st))
    | [] =>
        match freeB st with
        | Some fb =>
            let bk := get (blocks st) fb in
            let f := free_d bk in
            let n := get (nx bk) f in
            ((fb, f),
             mkPool (set (blocks st) fb (alloc_common bk f n)) [fb] (fullL st)
                    None (nblocks st) (next_blk st))
        | None =>
            let id := next_blk st in
            ((id, 0),
             mkPool (set (blocks st) id (alloc_common new_block 0 1)) [id] (fullL st)
                    None (nblocks st + 1) (next_blk st + 1))
        end
    end.

  Fixpoint remove_blk (x : N) (l : list N) : list N :=
    match l with
    | [] => []
    | y :: l' => if N.eqb x y then l' else y :: remove_blk x l'
    end.

  (* link slot u into the free ring before free_data *)
  Definition link_free (bk : block) (u : N) (nx1 pv1 : arr N) : arr N * arr N :=
    let f := free_d bk in
    let p := get pv1 f in
    (set (set nx1 p u) u f, set (set pv1 f u) u p).

  Definition free (st : pool) (a : addr) : pool :=
    let '(id, u) := a in
    let bk := get (blocks st) id in
    let n := get (nx bk) u in
    if N.eqb n u then
      (* the only used slot of this block *)
      let '(nx', pv') := link_free bk u (nx bk) (pv bk) in
      let bk' := mkBlock nx' pv' (free_d bk) (used_d bk) (has_free bk) false in
      mkPool (set (blocks st) id bk') (remove_blk id (usedL st)) (fullL st) (Some id)
             (match freeB st with Some _ => nblocks st - 1 | None => nblocks st end)
             (next_blk st)
    else
      let p := get (pv bk) u in
      let nx1 := set (nx bk) p n in
      let pv1 := set (pv bk) n p in
      if has_free bk then
        let '(nx', pv') := link_free bk u nx1 pv1 in
        let bk' := mkBlock nx' pv' (free_d bk) n true true in
        mkPool (set (blocks st) id bk') (usedL st) (fullL st) (freeB st)
               (nblocks st) (next_blk st)
      else
        let bk' := mkBlock (set nx1 u u) (set pv1 u u) u n true true in
        mkPool (set (blocks st) id bk') (id :: usedL st) (remove_blk id (fullL st))
               (freeB st) (nblocks st) (next_blk st).

  Fixpoint count_list (st : pool) (l : list N) : option nat :=
    match l with
    | [] => Some 0%nat
    | id :: l' =>
        let bk := get (blocks st) id in
        let here := if has_used bk then ring_walk (nx bk) (used_d bk) (used_d bk) bn
                    else Some 0%nat in
        match here, count_list st l' with
        | Some a, Some c => Some (a + c)%nat
        | _, _ => None
        end
    end.

  (* None = the traversal did not come back to its start within blocksize steps *)
  Definition count (st : pool) : option nat :=
    match count_list st (fullL st), count_list st (usedL st) with
    | Some a, Some c => Some (a + c)%nat
    | _, _ => None
    end.
End WithBlockSize.

(* ------------------------------------------------------------------------------------
   The history level: what a client (and the C++ harness) does with the pool.
   Objects are named by handles 0,1,2,... in allocation order.  An object may own
   "kids": handles of older objects that own nothing themselves.  Its destructor deletes
   every kid that is still alive (destructor, then Free) - this is how destructors "free
   other pool objects" during FreeAll. *)
Inductive op :=
| OAlloc (kids : list N)
| OFree (h : N)          (* delete object h (destructor, then Free); ignored if dead *)
| OFreeAll.

Inductive evk :=
| EAlloc (h : N) (a : addr)
| EFree (h : N) (dlog : list N)      (* destructor log of the delete, in call order *)
| ESkip
| EFreeAll (dlog : list N)           (* destructor log, in call order *)
| EHang.                             (* a loop of the model ran out of fuel *)

Record ev := mkEv { kind : evk; cnt : option nat; nb : N }.

Record hst := mkH {
  pl : pool;
  tbl : arr (option addr);     (* handle -> address while alive *)
  kidsOf : arr (list N);
  own : arr (arr N);           (* block id -> slot -> handle of the object placed there *)
  nexth : N }.

Definition h_init : hst := mkH pool_init (aempty None) (aempty []) (aempty (aempty 0)) 0.

Section History.
  Variable bn : nat.

  Definition is_nil {A} (l : list A) : bool := match l with [] => true | _ => false end.

  (* destructor of a kid: a live object that owns nothing *)
  Definition kill_kid (h : N) (acc : hst * list N) (k : N) : hst * list N :=
    let '(s, log) := acc in
    if (negb (N.eqb k h) && is_nil (get (kidsOf s) k))%bool then
      match get (tbl s) k with
      | Some a => (mkH (free (pl s) a) (set (tbl s) k None) (kidsOf s) (own s) (nexth s),
                   k :: log)
      | None => acc
      end
    else acc.

  (* delete object h: ~T() logs, deletes the live kids; then Free(h) *)
  Definition destroy (h : N) (a : addr) (s : hst) (log : list N) : hst * list N :=
    let '(s2, log2) := fold_left (kill_kid h) (get (kidsOf s) h) (s, h :: log) in
    (mkH (free (pl s2) a) (set (tbl s2) h None) (kidsOf s2) (own s2) (nexth s2), log2).

  (* BlockAlloc::FreeAll: restart from the root of the list after every destructor *)
  Fixpoint free_all (fuel : nat) (s : hst) (log : list N) : option (hst * list N) :=
    match fuel with
    | O => None
    | S f =>
        let p := pl s in
        match fullL p ++ usedL p with
        | id :: _ =>
            let bk := get (blocks p) id in
            if has_used bk then
              let h := get (get (own s) id) (used_d bk) in
              match get (tbl s) h with
              | Some a =>
                  let '(s', log') := destroy h a s log in
                  free_all f s' log'
              | None => None
              end
            else None
        | [] =>
            let p' := mkPool (blocks p) [] [] None
                             (match freeB p with Some _ => nblocks p - 1 | None => nblocks p end)
                             (next_blk p) in
            Some (mkH p' (tbl s) (kidsOf s) (own s) (nexth s), log)
        end
    end.

  Definition observe (k : evk) (s : hst) : ev :=
    mkEv k (count bn (pl s)) (nblocks (pl s)).

  Definition step (s : hst) (o : op) : hst * ev :=
    match o with
    | OAlloc kids =>
        let '(a, p') := alloc bn (pl s) in
        let h := nexth s in
        let s' := mkH p' (set (tbl s) h (Some a)) (set (kidsOf s) h kids)
                      (set (own s) (fst a) (set (get (own s) (fst a)) (snd a) h))
                      (h + 1) in
        (s', observe (EAlloc h a) s')
    | OFree h =>
        match get (tbl s) h with
        | None => (s, observe ESkip s)
        | Some a =>
            let '(s', log) := destroy h a s [] in
            (s', observe (EFree h (rev log)) s')
        end
    | OFreeAll =>
        match free_all (S (N.to_nat (nexth s))) s [] with
        | Some (s', log) => (s', observe (EFreeAll (rev log)) s')
        | None => (s, observe EHang s)
        end
    end.

  Fixpoint run_from (s : hst) (ops : list op) : list ev :=
    match ops with
    | [] => []
    | o :: ops' => let '(s', e) := step s o in e :: run_from s' ops'
    end.

  Definition run (ops : list op) : list ev := run_from h_init ops.
End History.
