(* C19/Main.v — each step of the history model is accepted by the specification monitor and
   keeps the history invariant; hence every history is accepted. *)
From Coq Require Import Arith NArith List Bool Lia Permutation.
From Morfuse Require Import Base.Arr Base.ListX Base.Ring C19.Model C19.Spec
  C19.BlockProofs C19.PoolProofs C19.PoolOps C19.HistProofs.
Import ListNotations.
Local Open Scope N_scope.

Section Main.
  Variable bn : nat.
  Hypothesis Hb : (2 <= bn)%nat.
  Notation b := (b bn).
  Notation HI := (HI bn).

  Lemma cnt_is_ok k s n : count bn (pl s) = Some n -> cnt_is (observe bn k s) n = true.
  Proof. intro H. unfold cnt_is, observe; cbn [cnt]. rewrite H. apply Nat.eqb_refl. Qed.

  Lemma forallb_memN dl l : (forall k, In k dl -> In k l) -> forallb (fun k => memN k l) dl = true.
  Proof. intro H. apply forallb_forall. intros k Hk. apply memN_In. auto. Qed.

  Lemma handles_lt s FU A h : HI s FU A -> In h (handles A) -> h < nexth s.
  Proof. intros H Hin. apply handles_ex in Hin. destruct Hin as [a Ha]. now apply (h_own _ _ _ _ H h a). Qed.

  Lemma step_alloc_ok s FU A kids :
    HI s FU A ->
    let '(s', e) := step bn s (OAlloc kids) in
    exists FU' A', spec_step b A (OAlloc kids) e = Some A' /\ HI s' FU' A'.
  Proof.
    intro H. cbn [step]. destruct (alloc bn (pl s)) as [a p'] eqn:Ea.
    destruct (alloc_ok bn Hb _ _ _ _ (h_pool _ _ _ _ H) Ea) as (FU' & I' & Hfresh & P' & Hnb).
    set (h := nexth s).
    set (s' := mkH p' (set (tbl s) h (Some a)) (set (kidsOf s) h kids)
                   (set (own s) (fst a) (set (get (own s) (fst a)) (snd a) h)) (h + 1)).
    set (A' := mkAbs ((h, a) :: live A) (nblocks p') (anext A + 1)).
    assert (Hna : ~ In a (map snd (live A))).
    { intro Hin. apply Hfresh. eapply Permutation_in; [apply (h_perm _ _ _ _ H) | exact Hin]. }
    assert (Hnh : ~ In h (map fst (live A))).
    { intro Hin. apply (handles_lt _ _ _ _ H) in Hin. unfold h in Hin. lia. }
    assert (H' : HI s' FU' A').
    { constructor; unfold s', A'; cbn [live anb anext pl tbl own nexth map fst snd].
      - exact I'.
      - rewrite P'. apply perm_skip. apply (h_perm _ _ _ _ H).
      - constructor; [exact Hnh | apply (h_ndh _ _ _ _ H)].
      - constructor; [exact Hna | apply (h_nda _ _ _ _ H)].
      - intros h' a'. rewrite get_set. destruct (N.eqb_spec h' h) as [->|Hne].
        + split.
          * intros [E|Hin]; [congruence|]. exfalso. apply Hnh.
            change h with (fst (h, a')). now apply in_map.
          * intro E. left. congruence.
        + rewrite <- (h_tbl _ _ _ _ H h' a'). cbn. intuition congruence.
      - intros h' a' [E|Hin].
        + injection E as <- <-. split; [lia|]. now rewrite !gss.
        + destruct (h_own _ _ _ _ H h' a' Hin) as [Hlt Ho]. split; [unfold h; lia|].
          assert (Hne : a' <> a).
          { intro; subst a'. apply Hna. change a with (snd (h', a)). now apply in_map. }
          destruct (N.eq_dec (fst a') (fst a)) as [E1|E1].
          * rewrite E1, gss. rewrite gso; [rewrite <- E1; exact Ho|].
            intro E2. apply Hne. destruct a, a'; cbn in *; congruence.
          * rewrite gso by exact E1. exact Ho.
      - rewrite (h_next _ _ _ _ H). reflexivity.
      - reflexivity. }
    exists FU', A'. split; [|exact H'].
    cbn [spec_step kind observe nb cnt].
    rewrite (h_next _ _ _ _ H), N.eqb_refl.
    rewrite existsb_addr_false by exact Hna.
    rewrite cnt_is_ok with (n := S (length (live A))).
    2:{ rewrite (HI_count bn Hb _ _ _ H'). reflexivity. }
    cbn [negb andb].
    replace (nblocks (pl s') =? anb A + (if N.of_nat (length (live A)) =? b * anb A then 1 else 0)) with true;
      [unfold A', s'; cbn [pl]; rewrite (h_next _ _ _ _ H); reflexivity|].
    symmetry. apply N.eqb_eq. cbn [pl s']. rewrite Hnb, (h_nb _ _ _ _ H). f_equal.
    unfold grow. rewrite <- (HI_len bn _ _ _ H).
    destruct (Nat.eqb_spec (length (live A)) (bn * N.to_nat (nblocks (pl s)))) as [E|E];
      destruct (N.eqb_spec (N.of_nat (length (live A))) (b * nblocks (pl s))) as [E'|E'];
      try reflexivity; unfold Model.b in E'; exfalso; nia.
  Qed.

  Lemma step_free_ok s FU A h :
    HI s FU A ->
    let '(s', e) := step bn s (OFree h) in
    exists FU' A', spec_step b A (OFree h) e = Some A' /\ HI s' FU' A'.
  Proof.
    intro H. cbn [step]. destruct (get (tbl s) h) as [a|] eqn:Eh.
    - pose proof (destroy_ok bn Hb s FU A h a [] H Eh) as Hd.
      destruct (destroy h a s []) as [s' log].
      destruct Hd as (dl & FU' & -> & Hin & H' & Pg). rewrite app_nil_r.
      exists FU', (after A (rev dl) (nblocks (pl s'))). split; [|exact H'].
      cbn [spec_step kind observe nb cnt]. rewrite N.eqb_refl.
      rewrite (proj2 (memN_In h (rev dl))) by now rewrite <- in_rev.
      rewrite (proj2 (nodupb_NoDup (rev dl)) (pg_nd _ _ _ _ Pg)).
      rewrite forallb_memN by apply (pg_in _ _ _ _ Pg).
      rewrite cnt_is_ok with (n := length (live (after A (rev dl) (nblocks (pl s'))))).
      2:{ apply (HI_count bn Hb _ _ _ H'). }
      cbn [after live] in *.
      rewrite (h_nb _ _ _ _ H).
      rewrite (proj2 (N.leb_le _ _) (pg_nb _ _ _ _ Pg)).
      replace (N.of_nat (length (filter (fun p => negb (memN (fst p) (rev dl))) (live A))) <=? b * nblocks (pl s')) with true;
        [reflexivity|].
      symmetry. apply N.leb_le.
      pose proof (plive_capacity bn Hb _ _ (h_pool _ _ _ _ H')) as [Hc _].
      rewrite <- (HI_len bn _ _ _ H') in Hc. cbn [after live] in Hc. unfold Model.b. nia.
    - exists FU, A. split; [|exact H].
      cbn [spec_step kind observe nb cnt].
      rewrite (proj2 (memN_false h (handles A))).
      2:{ intro Hin. apply handles_ex in Hin. destruct Hin as [a Ha].
          apply (h_tbl _ _ _ _ H) in Ha. congruence. }
      rewrite cnt_is_ok with (n := length (live A)) by apply (HI_count bn Hb _ _ _ H).
      rewrite (h_nb _ _ _ _ H), N.eqb_refl. destruct A; reflexivity.
  Qed.

  Lemma handles_after A dl nb' x : In x (handles (after A dl nb')) -> In x (handles A) /\ ~ In x dl.
  Proof.
    unfold handles, after. cbn [live]. rewrite in_map_iff. intros [p [E Hp]].
    apply filter_In in Hp. destruct Hp as [Hp Hn]. apply negb_true_iff, memN_false in Hn.
    subst x. split; [now apply in_map | exact Hn].
  Qed.

  Lemma free_all_ok : forall fuel s FU A log,
    HI s FU A -> (length (live A) < fuel)%nat ->
    exists s' dl FU', free_all fuel s log = Some (s', dl ++ log) /\
      NoDup dl /\ (forall k, In k dl -> In k (handles A)) /\ length dl = length (live A) /\
      HI s' FU' (mkAbs [] 0 (anext A)) /\ nblocks (pl s') = 0.
  Proof.
    induction fuel as [|f IH]; intros s FU A log H Hf; [lia|].
    cbn [free_all]. pose proof (h_pool _ _ _ _ H) as I.
    destruct (fullL (pl s) ++ usedL (pl s)) as [|id rest] eqn:El.
    - (* nothing left *)
      assert (Hlive : live A = []).
      { pose proof (h_perm _ _ _ _ H) as P. unfold plive in P. rewrite El in P.
        apply Permutation_sym, Permutation_nil in P. destruct (live A); [reflexivity|discriminate]. }
      apply app_eq_nil in El. destruct El as [Ef Eu].
      eexists _, [], FU. split; [reflexivity|]. rewrite Hlive.
      split; [constructor|]. split; [intros k []|]. split; [reflexivity|].
      assert (Hnb0 : match freeB (pl s) with Some _ => nblocks (pl s) - 1 | None => nblocks (pl s) end = 0).
      { rewrite (pi_nb _ _ _ I). unfold ids. rewrite Ef, Eu. destruct (freeB (pl s)); cbn; lia. }
      split; [|cbn [pl nblocks]; exact Hnb0].
      constructor; cbn [live anb anext pl tbl own nexth map].
      + rewrite Hnb0. constructor; unfold ids; cbn; try tauto; try discriminate; try constructor.
      + reflexivity.
      + constructor.
      + constructor.
      + intros h a. split; [intros []|]. intro E. apply (h_tbl _ _ _ _ H) in E. rewrite Hlive in E. destruct E.
      + intros h a [].
      + apply (h_next _ _ _ _ H).
      + cbn [nblocks]. now rewrite Hnb0.
    - (* destroy the first used object of the root block *)
      assert (Hid : In id (fullL (pl s) ++ usedL (pl s))) by (rewrite El; now left).
      assert (Hids : In id (ids (pl s))).
      { unfold ids. rewrite !in_app_iff in *. tauto. }
      pose proof (pi_rep _ _ _ I id Hids) as R.
      assert (HU : snd (FU id) <> []).
      { apply in_app_or in Hid. destruct Hid as [Hx|Hx].
        - pose proof (full_len bn Hb _ _ _ I Hx) as L. destruct (snd (FU id)); [cbn in L; lia | congruence].
        - apply (pi_used _ _ _ I id Hx). }
      rewrite (br_hu _ _ _ _ R). destruct (snd (FU id)) as [|u0 U0] eqn:EU; [congruence|].
      cbn [is_nil negb].
      pose proof (br_U _ _ _ _ R HU) as RU.
      set (u := used_d (get (blocks (pl s)) id)) in *.
      assert (Hu : In u (snd (FU id))) by (rewrite EU; eapply ring_in_head; eauto).
      assert (Ha : In (id, u) (plive (pl s) FU)).
      { unfold plive. apply in_lv. cbn. tauto. }
      assert (Hex : exists h, In (h, (id, u)) (live A)).
      { eapply Permutation_in in Ha; [|symmetry; apply (h_perm _ _ _ _ H)].
        apply in_map_iff in Ha. destruct Ha as [[h a'] [E Hin]]. cbn in E. subst a'. eauto. }
      destruct Hex as [h Hh].
      destruct (h_own _ _ _ _ H h _ Hh) as [_ Ho]. cbn [fst snd] in Ho. rewrite Ho.
      rewrite (proj1 (h_tbl _ _ _ _ H h _) Hh).
      pose proof (destroy_ok bn Hb s FU A h (id, u) log H (proj1 (h_tbl _ _ _ _ H h _) Hh)) as Hd.
      destruct (destroy h (id, u) s log) as [s1 log1].
      destruct Hd as (dl1 & FU1 & -> & Hin1 & H1 & Pg).
      assert (Hlen1 : (1 <= length dl1)%nat) by (destruct dl1; [destruct Hin1 | cbn; lia]).
      pose proof (pg_len _ _ _ _ Pg) as PL. rewrite rev_length in PL.
      destruct (IH s1 FU1 _ (dl1 ++ log) H1) as (s' & dl2 & FU' & E2 & ND2 & In2 & L2 & H' & Hz).
      { cbn [after live] in PL |- *. lia. }
      exists s', (dl2 ++ dl1), FU'. rewrite <- app_assoc.
      split; [exact E2|]. split; [|split; [|split; [|split]]].
      + apply nodup_app_intro; [exact ND2 | |].
        * rewrite <- (rev_involutive dl1). apply NoDup_rev. apply (pg_nd _ _ _ _ Pg).
        * intros x Hx Hx1. apply In2, handles_after in Hx. apply (proj2 Hx). now rewrite <- in_rev.
      + intros k Hk. apply in_app_or in Hk. destruct Hk as [Hk|Hk].
        * apply In2, handles_after in Hk. tauto.
        * apply (pg_in _ _ _ _ Pg). now rewrite <- in_rev.
      + rewrite app_length, L2. cbn [after live] in PL |- *. lia.
      + exact H'.
      + exact Hz.
  Qed.

  Lemma step_freeall_ok s FU A :
    HI s FU A ->
    let '(s', e) := step bn s OFreeAll in
    exists FU' A', spec_step b A OFreeAll e = Some A' /\ HI s' FU' A'.
  Proof.
    intro H. cbn [step].
    assert (Hf : (length (live A) < S (N.to_nat (nexth s)))%nat).
    { rewrite <- (map_length fst). apply Nat.lt_succ_r.
      apply nodup_lt_length; [apply (h_ndh _ _ _ _ H)|]. intros x Hx. eapply handles_lt; eauto. }
    destruct (free_all_ok _ s FU A [] H Hf) as (s' & dl & FU' & E & ND & Hin & L & H' & Hz).
    rewrite E, app_nil_r.
    exists FU', (mkAbs [] 0 (anext A)). split; [|exact H'].
    cbn [spec_step kind observe nb cnt].
    rewrite (proj2 (nodupb_NoDup (rev dl))) by now apply NoDup_rev.
    rewrite forallb_memN by (intros k Hk; apply Hin; now rewrite in_rev).
    rewrite rev_length, L, Nat.eqb_refl.
    rewrite cnt_is_ok with (n := 0%nat) by apply (HI_count bn Hb _ _ _ H').
    rewrite Hz. reflexivity.
  Qed.

  Theorem run_from_ok : forall ops s FU A,
    HI s FU A -> spec_from b A ops (run_from bn s ops) = true.
  Proof.
    induction ops as [|o ops IH]; intros s FU A H; [reflexivity|].
    cbn [run_from].
    assert (Hs : let '(s', e) := step bn s o in
                 exists FU' A', spec_step b A o e = Some A' /\ HI s' FU' A').
    { destruct o as [kids|h|]; [exact (step_alloc_ok s FU A kids H) | exact (step_free_ok s FU A h H) | exact (step_freeall_ok s FU A H)]. }
    destruct (step bn s o) as [s' e]. destruct Hs as (FU' & A' & Es & H').
    cbn [spec_from]. rewrite Es. eapply IH; eauto.
  Qed.

  Theorem run_ok ops : spec_ok b ops (run bn ops) = true.
  Proof. unfold spec_ok, run. eapply run_from_ok. apply HI_init. Qed.
End Main.
