(* C19/HistProofs.v — every history of the model is accepted by the specification monitor. *)
From Coq Require Import Arith NArith List Bool Lia Permutation.
From Morfuse Require Import Base.Arr Base.ListX Base.Ring C19.Model C19.Spec
  C19.BlockProofs C19.PoolProofs C19.PoolOps.
Import ListNotations.
Local Open Scope N_scope.

(* ---- boolean helpers of the monitor --------------------------------------------------- *)
Lemma memN_In x l : memN x l = true <-> In x l.
Proof.
  unfold memN. rewrite existsb_exists. split.
  - intros [y [Hy E]]. apply N.eqb_eq in E. now subst.
  - intro H. exists x. split; [exact H | apply N.eqb_refl].
Qed.

Lemma memN_false x l : memN x l = false <-> ~ In x l.
Proof.
  rewrite <- memN_In. destruct (memN x l); split; intro H; try congruence; try tauto.
Qed.

Lemma nodupb_NoDup l : nodupb l = true <-> NoDup l.
Proof.
  induction l as [|x l IH]; cbn.
  - split; [constructor | reflexivity].
  - rewrite andb_true_iff, negb_true_iff, memN_false, IH. split.
    + intros [A B]. now constructor.
    + intro H. inversion H. tauto.
Qed.

Lemma addr_eqb_eq a c : addr_eqb a c = true <-> a = c.
Proof.
  unfold addr_eqb. rewrite andb_true_iff, !N.eqb_eq. destruct a, c; cbn. split.
  - intros [-> ->]. reflexivity.
  - intro E. injection E as -> ->. tauto.
Qed.

Lemma existsb_addr_false ad (l : list (N * (N * N))) :
  ~ In ad (map snd l) -> existsb (fun p => addr_eqb ad (snd p)) l = false.
Proof.
  intro H. destruct (existsb _ l) eqn:E; [|reflexivity].
  apply existsb_exists in E. destruct E as [p [Hp Ep]]. apply addr_eqb_eq in Ep.
  exfalso. apply H. rewrite Ep. now apply in_map.
Qed.

Lemma filter_memN_cons (k : N) (dl : list N) (l : list (N * (N * N))) :
  filter (fun p => negb (memN (fst p) (k :: dl))) l =
  filter (fun p => negb (memN (fst p) dl)) (filter (fun p => negb (N.eqb (fst p) k)) l).
Proof.
  induction l as [|p l IH]; cbn [filter]; [reflexivity|].
  cbn [memN existsb]. fold (memN (fst p) dl).
  destruct (N.eqb (fst p) k); cbn [negb orb]; [exact IH|].
  cbn [filter]. destruct (negb (memN (fst p) dl)); [f_equal|]; exact IH.
Qed.

Lemma nodup_lt_length (l : list N) (n : N) :
  NoDup l -> (forall x, In x l -> x < n) -> (length l <= N.to_nat n)%nat.
Proof.
  intros Hnd Hlt.
  rewrite <- (seq_length (N.to_nat n) 0), <- (map_length N.of_nat).
  apply NoDup_incl_length; [exact Hnd|].
  intros x Hx. apply in_map_iff. exists (N.to_nat x). split; [lia|].
  apply in_seq. specialize (Hlt x Hx). lia.
Qed.

Section Hist.
  Variable bn : nat.
  Hypothesis Hb : (2 <= bn)%nat.
  Notation b := (b bn).
  Notation pinv := (pinv bn).

  Record HI (s : hst) (FU : FUmap) (A : abs) : Prop := {
    h_pool : pinv (pl s) FU;
    h_perm : Permutation (map snd (live A)) (plive (pl s) FU);
    h_ndh : NoDup (map fst (live A));
    h_nda : NoDup (map snd (live A));
    h_tbl : forall h a, In (h, a) (live A) <-> get (tbl s) h = Some a;
    h_own : forall h a, In (h, a) (live A) ->
            h < nexth s /\ get (get (own s) (fst a)) (snd a) = h;
    h_next : anext A = nexth s;
    h_nb : anb A = nblocks (pl s) }.

  Lemma HI_init : HI h_init (fun _ => ([], [])) abs_init.
  Proof.
    constructor; cbn [live abs_init h_init pl tbl own nexth map anb anext pool_init nblocks].
    - apply pinv_init.
    - reflexivity.
    - constructor.
    - constructor.
    - intros h a. rewrite get_empty. cbn. split; [tauto | discriminate].
    - intros h a [].
    - reflexivity.
    - reflexivity.
  Qed.

  Lemma HI_len s FU A : HI s FU A -> length (live A) = length (plive (pl s) FU).
  Proof. intro H. rewrite <- (Permutation_length (h_perm _ _ _ H)). now rewrite map_length. Qed.

  Lemma HI_count s FU A : HI s FU A -> count bn (pl s) = Some (length (live A)).
  Proof. intro H. rewrite (HI_len _ _ _ H). apply count_ok; [exact Hb | apply H]. Qed.

  Lemma handles_in A h a : In (h, a) (live A) -> In h (handles A).
  Proof. intro H. unfold handles. change h with (fst (h, a)). now apply in_map. Qed.

  Lemma handles_ex A h : In h (handles A) -> exists a, In (h, a) (live A).
  Proof.
    unfold handles. rewrite in_map_iff. intros [[h' a] [E Hin]]. cbn in E. subst. eauto.
  Qed.

  (* ---- deleting one object: Free of its address, table entry cleared ------------------ *)
  Definition del1 (s : hst) (k : N) (a : N * N) : hst :=
    mkH (free (pl s) a) (set (tbl s) k None) (kidsOf s) (own s) (nexth s).

  Definition drop (k : N) (A : abs) (nb' : N) : abs :=
    mkAbs (filter (fun p => negb (N.eqb (fst p) k)) (live A)) nb' (anext A).

  Lemma filter_split_nodup (l : list (N * (N * N))) k a :
    NoDup (map fst l) -> In (k, a) l ->
    exists l1 l2, l = l1 ++ (k, a) :: l2 /\
                  filter (fun p => negb (N.eqb (fst p) k)) l = l1 ++ l2.
  Proof.
    intros Hnd Hin. apply in_split in Hin. destruct Hin as [l1 [l2 ->]].
    exists l1, l2. split; [reflexivity|].
    rewrite map_app in Hnd. cbn in Hnd.
    assert (H1 : ~ In k (map fst l1)).
    { eapply notin_app_r; [exact Hnd | now left]. }
    assert (H2 : ~ In k (map fst l2)).
    { apply nodup_app_r in Hnd. now inversion Hnd. }
    rewrite filter_app. cbn [filter fst]. rewrite N.eqb_refl. cbn [negb].
    f_equal.
    - clear -H1. induction l1 as [|p l1 IH]; [reflexivity|]. cbn in *.
      destruct (N.eqb_spec (fst p) k) as [E|E]; [tauto|]. cbn. f_equal. apply IH. tauto.
    - clear -H2. induction l2 as [|p l2 IH]; [reflexivity|]. cbn in *.
      destruct (N.eqb_spec (fst p) k) as [E|E]; [tauto|]. cbn. f_equal. apply IH. tauto.
  Qed.

  Lemma del1_ok s FU A k a :
    HI s FU A -> get (tbl s) k = Some a ->
    exists FU', HI (del1 s k a) FU' (drop k A (nblocks (free (pl s) a))) /\
                nblocks (free (pl s) a) <= nblocks (pl s) /\
                S (length (live (drop k A (nblocks (free (pl s) a))))) = length (live A).
  Proof.
    intros H Hk. pose proof (proj2 (h_tbl _ _ _ H k a) Hk) as Hin.
    assert (Hpl : In a (plive (pl s) FU)).
    { eapply Permutation_in; [apply (h_perm _ _ _ H)|]. change a with (snd (k, a)). now apply in_map. }
    destruct (free_ok bn Hb _ _ _ (h_pool _ _ _ H) Hpl) as (FU' & I' & P' & Hnb).
    destruct (filter_split_nodup _ _ _ (h_ndh _ _ _ H) Hin) as (l1 & l2 & El & Ef).
    exists FU'. split; [|split; [exact Hnb|]].
    - pose proof (h_ndh _ _ _ H) as Nh. pose proof (h_nda _ _ _ H) as Na.
      pose proof (h_perm _ _ _ H) as P.
      rewrite El in Nh, Na, P. rewrite map_app in Nh, Na, P. cbn [map fst snd] in Nh, Na, P.
      constructor; unfold drop, del1; cbn [live anb anext pl tbl own nexth]; rewrite ?Ef.
      + exact I'.
      + rewrite map_app. rewrite <- Permutation_middle in P. rewrite P' in P.
        now apply Permutation_cons_inv in P.
      + rewrite map_app. now apply NoDup_remove_1 in Nh.
      + rewrite map_app. now apply NoDup_remove_1 in Na.
      + intros h a'. rewrite get_set. destruct (N.eqb_spec h k) as [->|Hne].
        * split; [|discriminate]. intro Hx. exfalso.
          apply NoDup_remove_2 in Nh. apply Nh. rewrite <- map_app.
          change k with (fst (k, a')). now apply in_map.
        * rewrite <- (h_tbl _ _ _ H h a'). rewrite El. rewrite !in_app_iff. cbn.
          intuition congruence.
      + intros h a' Hx. apply (h_own _ _ _ H). rewrite El.
        rewrite in_app_iff in *. cbn. tauto.
      + apply (h_next _ _ _ H).
      + reflexivity.
    - unfold drop; cbn [live]. rewrite Ef, El, !app_length. cbn. lia.
  Qed.

  (* ---- the destructor of one kid -------------------------------------------------------- *)
  Lemma kill_kid_ok h s FU A log k :
    HI s FU A ->
    let '(s', log') := kill_kid h (s, log) k in
    (s' = s /\ log' = log /\ True) \/
    (exists a FU', get (tbl s) k = Some a /\ k <> h /\ s' = del1 s k a /\ log' = k :: log /\
                   HI s' FU' (drop k A (nblocks (pl s')))).
  Proof.
    intro H. unfold kill_kid.
    destruct (negb (N.eqb k h) && is_nil (get (kidsOf s) k))%bool eqn:Ec; [|left; auto].
    destruct (get (tbl s) k) as [a|] eqn:Ek; [|left; auto].
    right. apply andb_true_iff in Ec. destruct Ec as [Ec _].
    apply negb_true_iff in Ec. apply N.eqb_neq in Ec.
    destruct (del1_ok _ _ _ _ _ H Ek) as (FU' & H' & _).
    exists a, FU'. split; [reflexivity|]. split; [exact Ec|]. split; [reflexivity|].
    split; [reflexivity|]. exact H'.
  Qed.

  (* what a run of destructors did: the log grew by distinct handles that were alive, the
     abstract state lost exactly those *)
  Definition after (A : abs) (dl : list N) (nb' : N) : abs :=
    mkAbs (filter (fun p => negb (memN (fst p) dl)) (live A)) nb' (anext A).

  Record progress (s : hst) (A : abs) (s' : hst) (dl : list N) : Prop := {
    pg_nd : NoDup dl;
    pg_in : forall k, In k dl -> In k (handles A);
    pg_tbl_keep : forall k, ~ In k dl -> get (tbl s') k = get (tbl s) k;
    pg_nb : nblocks (pl s') <= nblocks (pl s);
    pg_misc : nexth s' = nexth s /\ kidsOf s' = kidsOf s /\ own s' = own s;
    pg_len : (length (live (after A dl (nblocks (pl s')))) + length dl = length (live A))%nat }.

  Lemma after_nil A : after A [] (anb A) = A.
  Proof.
    unfold after. cbn. destruct A as [l n x]. cbn. f_equal.
    induction l as [|p l IH]; cbn; [reflexivity | now f_equal].
  Qed.

  Lemma after_cons A k dl nb1 nb2 :
    after (drop k A nb1) dl nb2 = after A (k :: dl) nb2.
  Proof. unfold after, drop. cbn [live anext]. now rewrite filter_memN_cons. Qed.

  Lemma handles_drop A k nb' x : In x (handles (drop k A nb')) -> In x (handles A) /\ x <> k.
  Proof.
    unfold handles, drop. cbn [live]. rewrite in_map_iff. intros [p [E Hp]].
    apply filter_In in Hp. destruct Hp as [Hp Hn]. apply negb_true_iff, N.eqb_neq in Hn.
    subst x. split; [now apply in_map | exact Hn].
  Qed.

  (* kids one after the other *)
  Lemma kill_kids_ok h ks : forall s FU A log,
    HI s FU A ->
    let '(s', log') := fold_left (kill_kid h) ks (s, log) in
    exists dl FU', log' = dl ++ log /\ HI s' FU' (after A (rev dl) (nblocks (pl s'))) /\
                   progress s A s' (rev dl) /\ ~ In h dl.
  Proof.
    induction ks as [|k ks IH]; intros s FU A log H.
    - cbn. exists [], FU. cbn [rev app]. split; [reflexivity|]. split; [|split; [|tauto]].
      + rewrite <- (h_nb _ _ _ H), after_nil. exact H.
      + constructor.
        * constructor.
        * intros x [].
        * reflexivity.
        * lia.
        * repeat split.
        * rewrite <- (h_nb _ _ _ H), after_nil. cbn [length]. lia.
    - cbn [fold_left]. pose proof (kill_kid_ok h s FU A log k H) as Hk.
      destruct (kill_kid h (s, log) k) as [s1 log1].
      destruct Hk as [(-> & -> & _) | (a & FU1 & Ek & Hne & -> & -> & H1)].
      + exact (IH s FU A log H).
      + specialize (IH _ FU1 _ (k :: log) H1).
        destruct (fold_left (kill_kid h) ks (del1 s k a, k :: log)) as [s' log'].
        destruct IH as (dl & FU' & -> & H' & Pg & Hh).
        exists (dl ++ [k]), FU'. rewrite rev_app_distr. cbn [rev app].
        split; [now rewrite <- app_assoc|]. split; [|split].
        * rewrite after_cons in H'. exact H'.
        * assert (Hkin : In k (handles A)).
          { eapply handles_in. apply (h_tbl _ _ _ H). exact Ek. }
          constructor.
          -- constructor; [|apply Pg]. intro Hin. apply (pg_in _ _ _ _ Pg) in Hin.
             apply handles_drop in Hin. tauto.
          -- intros x [<-|Hx]; [exact Hkin|]. apply (pg_in _ _ _ _ Pg) in Hx.
             apply handles_drop in Hx. tauto.
          -- intros x Hx. rewrite (pg_tbl_keep _ _ _ _ Pg) by (cbn in Hx; tauto).
             cbn [del1 tbl]. rewrite gso; [reflexivity|]. cbn in Hx. intro; subst; tauto.
          -- pose proof (pg_nb _ _ _ _ Pg) as P1. cbn [del1 pl] in P1.
             destruct (del1_ok _ _ _ _ _ H Ek) as (_ & _ & P2 & _). lia.
          -- apply Pg.
          -- pose proof (pg_len _ _ _ _ Pg) as P1. rewrite after_cons in P1.
             destruct (del1_ok _ _ _ _ _ H Ek) as (_ & _ & _ & P3).
             cbn [del1 pl] in P1. cbn [length]. lia.
        * rewrite in_app_iff. cbn. intuition congruence.
  Qed.

  (* delete object h *)
  Lemma destroy_ok s FU A h a log :
    HI s FU A -> get (tbl s) h = Some a ->
    let '(s', log') := destroy h a s log in
    exists dl FU', log' = dl ++ log /\ In h dl /\
                   HI s' FU' (after A (rev dl) (nblocks (pl s'))) /\ progress s A s' (rev dl).
  Proof.
    intros H Eh. unfold destroy.
    pose proof (kill_kids_ok h (get (kidsOf s) h) s FU A (h :: log) H) as Hk.
    destruct (fold_left (kill_kid h) (get (kidsOf s) h) (s, h :: log)) as [s2 log2].
    destruct Hk as (dl & FU2 & -> & H2 & Pg & Hh).
    assert (Eh2 : get (tbl s2) h = Some a).
    { rewrite (pg_tbl_keep _ _ _ _ Pg); [exact Eh|]. now rewrite <- in_rev. }
    destruct (del1_ok _ _ _ _ _ H2 Eh2) as (FU' & H' & Hnb & Hlen).
    exists (dl ++ [h]), FU'. rewrite rev_app_distr. cbn [rev app].
    split; [now rewrite <- app_assoc|]. split; [rewrite in_app_iff; cbn; tauto|].
    assert (Ea : forall nb', drop h (after A (rev dl) (nblocks (pl s2))) nb' = after A (h :: rev dl) nb').
    { intro nb'. unfold drop, after. cbn [live anext]. f_equal.
      rewrite filter_memN_cons.
      generalize (live A). intro l. induction l as [|p l IHl]; cbn [filter]; [reflexivity|].
      destruct (N.eqb (fst p) h) eqn:E1; cbn [negb filter].
      - destruct (negb (memN (fst p) (rev dl))); cbn [filter]; rewrite ?E1; cbn [negb]; exact IHl.
      - destruct (negb (memN (fst p) (rev dl))) eqn:E2; cbn [filter]; rewrite ?E1, ?E2; cbn [negb];
          [f_equal|]; exact IHl. }
    split.
    - change (mkH (free (pl s2) a) (set (tbl s2) h None) (kidsOf s2) (own s2) (nexth s2)) with (del1 s2 h a).
      rewrite <- Ea. exact H'.
    - assert (Hhin : In h (handles A)).
      { eapply handles_in. apply (h_tbl _ _ _ H). exact Eh. }
      constructor; cbn [pl tbl nexth kidsOf own].
      + constructor; [|apply Pg]. now rewrite <- in_rev.
      + intros x [<-|Hx]; [exact Hhin | now apply (pg_in _ _ _ _ Pg)].
      + intros x Hx. cbn in Hx. rewrite gso by (intro; subst; tauto).
        apply (pg_tbl_keep _ _ _ _ Pg). tauto.
      + pose proof (pg_nb _ _ _ _ Pg). lia.
      + apply Pg.
      + pose proof (pg_len _ _ _ _ Pg) as P1. rewrite <- Ea. cbn [length]. lia.
  Qed.
End Hist.
