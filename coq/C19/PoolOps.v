(* C19/PoolOps.v — Alloc and Free preserve the pool invariant and act on the abstract live
   set as insertion of a fresh address / removal of exactly the freed address. *)
From Coq Require Import Arith NArith List Bool Lia Permutation.
From Morfuse Require Import Base.Arr Base.ListX Base.Ring C19.Model C19.BlockProofs C19.PoolProofs.
Import ListNotations.
Local Open Scope N_scope.

Section PoolOps.
  Variable bn : nat.
  Hypothesis Hb : (2 <= bn)%nat.
  Notation b := (b bn).
  Notation blk_rep := (blk_rep bn).
  Notation pinv := (pinv bn).

  (* re-establishing the invariant after one block was rewritten and lists were moved *)
  Lemma pinv_update st FU id bk' F' U' uL fL fB nb' nxt' :
    pinv st FU ->
    blk_rep bk' F' U' ->
    NoDup (uL ++ fL ++ optl fB) ->
    (forall j, In j (uL ++ fL ++ optl fB) -> j = id \/ In j (ids st)) ->
    next_blk st <= nxt' -> id < nxt' ->
    (forall j, In j uL -> j <> id -> In j (usedL st)) ->
    (In id uL -> F' <> [] /\ U' <> []) ->
    (forall j, In j fL -> j <> id -> In j (fullL st)) ->
    (In id fL -> F' = []) ->
    (forall j, fB = Some j -> j <> id -> freeB st = Some j) ->
    (fB = Some id -> U' = []) ->
    nb' = N.of_nat (length (uL ++ fL ++ optl fB)) ->
    pinv (mkPool (set (blocks st) id bk') uL fL fB nb' nxt') (upd FU id (F', U')).
  Proof.
    intros I R Hnd Hsub Hn1 Hn2 Hu1 Hu2 Hf1 Hf2 Hb1 Hb2 Hnb.
    constructor; unfold ids; cbn [usedL fullL freeB nblocks next_blk blocks].
    - exact Hnd.
    - intros j Hj. destruct (Hsub j Hj) as [->|Hin]; [exact Hn2|].
      pose proof (pi_lt _ _ _ I j Hin). lia.
    - intros j Hj. destruct (N.eq_dec j id) as [->|Hne].
      + rewrite gss, upd_same. exact R.
      + rewrite gso, upd_other by exact Hne.
        destruct (Hsub j Hj) as [->|Hin]; [congruence|]. now apply (pi_rep _ _ _ I).
    - intros j Hj. destruct (N.eq_dec j id) as [->|Hne].
      + rewrite upd_same. cbn. now apply Hu2.
      + rewrite upd_other by exact Hne. apply (pi_used _ _ _ I). now apply Hu1.
    - intros j Hj. destruct (N.eq_dec j id) as [->|Hne].
      + rewrite upd_same. cbn. now apply Hf2.
      + rewrite upd_other by exact Hne. apply (pi_full _ _ _ I). now apply Hf1.
    - intros j Hj. destruct (N.eq_dec j id) as [->|Hne].
      + rewrite upd_same. cbn. now apply Hb2.
      + rewrite upd_other by exact Hne. apply (pi_free _ _ _ I). now apply Hb1.
    - exact Hnb.
  Qed.

  Lemma lv_split FU l id :
    NoDup l -> In id l ->
    Permutation (lv FU l) (map (pair id) (snd (FU id)) ++ lv FU (remove_blk id l)).
  Proof.
    intros Hnd Hin. rewrite (lv_perm FU _ _ (remove_blk_in id l Hin)). now rewrite lv_cons.
  Qed.

  Lemma lv_upd_split FU l id F' U' :
    NoDup l -> In id l ->
    Permutation (lv (upd FU id (F', U')) l) (map (pair id) U' ++ lv FU (remove_blk id l)).
  Proof.
    intros Hnd Hin. rewrite (lv_split _ l id Hnd Hin). rewrite upd_same. cbn [snd].
    rewrite lv_upd_notin; [reflexivity|]. now apply remove_blk_nodup.
  Qed.

  Lemma ids_parts st id :
    In id (ids st) <-> In id (usedL st) \/ In id (fullL st) \/ freeB st = Some id.
  Proof.
    unfold ids. rewrite !in_app_iff. destruct (freeB st); cbn; intuition congruence.
  Qed.

  Lemma nodup_parts st FU :
    pinv st FU -> NoDup (usedL st) /\ NoDup (fullL st) /\ NoDup (fullL st ++ usedL st) /\
    (forall id, In id (usedL st) -> ~ In id (fullL st)) /\
    (forall id, freeB st = Some id -> ~ In id (usedL st) /\ ~ In id (fullL st)).
  Proof.
    intro I. pose proof (pi_nd _ _ _ I) as H. unfold ids in H.
    pose proof (nodup_app_l _ _ H) as H1.
    pose proof (nodup_app_r _ _ H) as H2.
    pose proof (nodup_app_l _ _ H2) as H3.
    rewrite app_assoc in H. pose proof (nodup_app_l _ _ H) as H4.
    repeat split; auto.
    - now apply nodup_swap_app.
    - intros id Hu. eapply notin_app_l; eauto.
    - rewrite H0 in H. cbn in H. intro Hin. eapply (notin_app_r id _ _ H); [now left|].
      apply in_or_app. now left.
    - rewrite H0 in H. cbn in H. intro Hin. eapply (notin_app_r id _ _ H); [now left|].
      apply in_or_app. now right.
  Qed.

  Definition grow (st : pool) (FU : FUmap) : N :=
    if Nat.eqb (length (plive st FU)) (bn * N.to_nat (nblocks st)) then 1 else 0.

  Lemma grow_used st FU : pinv st FU -> usedL st <> [] -> grow st FU = 0.
  Proof.
    intros I H. unfold grow. destruct (Nat.eqb_spec (length (plive st FU)) (bn * N.to_nat (nblocks st))) as [E|E]; [|reflexivity].
    apply (plive_capacity bn Hb _ _ I) in E. tauto.
  Qed.

  Lemma grow_free st FU : pinv st FU -> freeB st <> None -> grow st FU = 0.
  Proof.
    intros I H. unfold grow. destruct (Nat.eqb_spec (length (plive st FU)) (bn * N.to_nat (nblocks st))) as [E|E]; [|reflexivity].
    apply (plive_capacity bn Hb _ _ I) in E. tauto.
  Qed.

  Lemma grow_none st FU : pinv st FU -> usedL st = [] -> freeB st = None -> grow st FU = 1.
  Proof.
    intros I H1 H2. unfold grow. destruct (Nat.eqb_spec (length (plive st FU)) (bn * N.to_nat (nblocks st))) as [E|E]; [reflexivity|].
    exfalso. apply E. apply (plive_capacity bn Hb _ _ I). tauto.
  Qed.

  Theorem alloc_ok st FU a st' :
    pinv st FU -> alloc bn st = (a, st') ->
    exists FU', pinv st' FU' /\ ~ In a (plive st FU) /\
                Permutation (plive st' FU') (a :: plive st FU) /\
                nblocks st' = nblocks st + grow st FU.
  Proof.
    intros I E. destruct (nodup_parts _ _ I) as (NDu & NDf & NDfu & Huf & Hfree).
    unfold alloc in E. destruct (usedL st) as [|ub rest] eqn:Eu.
    - (* no block with room in the used list *)
      destruct (freeB st) as [fb|] eqn:Efb.
      + (* reuse the cached free block *)
        assert (Hid : In fb (ids st)) by (apply ids_parts; auto).
        pose proof (pi_rep _ _ _ I fb Hid) as R.
        pose proof (pi_free _ _ _ I fb Efb) as HU.
        destruct (FU fb) as [F U] eqn:EFU. cbn [fst snd] in *. subst U.
        pose proof R as L. apply rep_length in L; try exact Hb. cbn [length] in L.
        destruct F as [|f [|n F']]; cbn [length] in L; try lia.
        destruct (rep_head_free bn _ _ _ R) as [t Et]; [congruence|].
        injection Et as Ef _.
        destruct (alloc_common_rep bn _ f n F' [] R (eq_sym Ef)) as [Hn R'].
        rewrite <- Ef, Hn in E. injection E as <- <-.
        exists (upd FU fb (n :: F', [f])). cbn [app] in R'.
        destruct (Hfree fb eq_refl) as [_ Hnf].
        split; [|split; [|split]].
        * apply (pinv_update st FU fb _ _ _ [fb] (fullL st) None (nblocks st) (next_blk st) I R').
          -- cbn. rewrite app_nil_r. constructor; assumption.
          -- intros j Hj. right. apply ids_parts. rewrite app_nil_r in Hj.
             destruct Hj as [<-|Hj]; auto.
          -- lia.
          -- now apply (pi_lt _ _ _ I).
          -- intros j [<-|[]] Hne. congruence.
          -- intros _. split; congruence.
          -- auto.
          -- intro Hin. contradiction.
          -- discriminate.
          -- discriminate.
          -- rewrite (pi_nb _ _ _ I). unfold ids. rewrite ?Eu, Efb. cbn. rewrite !app_length. cbn. f_equal. lia.
        * unfold plive. rewrite ?Eu, app_nil_r. intro Hin. apply in_lv in Hin. cbn in Hin. tauto.
        * unfold plive. cbn [usedL fullL]. rewrite ?Eu, app_nil_r.
          rewrite lv_app, lv_cons, lv_nil, app_nil_r, upd_same. cbn [snd map].
          rewrite lv_upd_notin by exact Hnf. apply Permutation_app_comm.
        * cbn [nblocks]. rewrite grow_free; [lia | exact I | congruence].
      + (* a brand new block *)
        set (id := next_blk st) in *.
        pose proof (rep_new bn Hb) as R0.
        assert (Ei : exists r, iota bn = 0 :: 1 :: r).
        { unfold iota. destruct bn as [|[|m]]; try lia. cbn. eauto. }
        destruct Ei as [r Er]. rewrite Er in R0.
        destruct (alloc_common_rep bn _ 0 1 r [] R0 eq_refl) as [_ R']. cbn [app] in R'.
        injection E as <- <-.
        assert (Hfresh : ~ In id (ids st)).
        { intro Hin. apply (pi_lt _ _ _ I) in Hin. unfold id in Hin. lia. }
        assert (Hnf : ~ In id (fullL st)) by (intro; apply Hfresh; apply ids_parts; auto).
        exists (upd FU id (1 :: r, [0])).
        split; [|split; [|split]].
        * apply (pinv_update st FU id _ _ _ [id] (fullL st) None (nblocks st + 1) (next_blk st + 1) I R').
          -- cbn. rewrite app_nil_r. constructor; assumption.
          -- intros j Hj. rewrite app_nil_r in Hj. destruct Hj as [<-|Hj]; [now left|].
             right. apply ids_parts. auto.
          -- lia.
          -- unfold id. lia.
          -- intros j [<-|[]] Hne. congruence.
          -- intros _. split; congruence.
          -- auto.
          -- intro Hin. contradiction.
          -- discriminate.
          -- discriminate.
          -- rewrite (pi_nb _ _ _ I). unfold ids. rewrite ?Eu, Efb. cbn. rewrite !app_length. cbn. lia.
        * unfold plive. rewrite ?Eu, app_nil_r. intro Hin. apply in_lv in Hin. cbn in Hin. tauto.
        * unfold plive. cbn [usedL fullL]. rewrite ?Eu, app_nil_r.
          rewrite lv_app, lv_cons, lv_nil, app_nil_r, upd_same. cbn [snd map].
          rewrite lv_upd_notin by exact Hnf. apply Permutation_app_comm.
        * cbn [nblocks]. rewrite grow_none; auto.
    - (* the root of the used list has room *)
      assert (Hid : In ub (ids st)) by (apply ids_parts; rewrite ?Eu; left; now left).
      pose proof (pi_rep _ _ _ I ub Hid) as R.
      destruct (pi_used _ _ _ I ub) as [HF HU]; [rewrite ?Eu; now left|].
      destruct (FU ub) as [F U] eqn:EFU. cbn [fst snd] in *.
      destruct (rep_head_free bn _ _ _ R HF) as [t Et].
      assert (Hnotfull : ~ In ub (fullL st)) by (apply Huf; rewrite ?Eu; now left).
      assert (Hnr : ~ In ub rest) by (rewrite ?Eu in NDu; now inversion NDu).
      assert (Hg : grow st FU = 0) by (apply grow_used; [exact I | rewrite ?Eu; congruence]).
      assert (Hfu : forall x, In x U -> ~ In x F).
      { intros x Hx. eapply notin_app_r; [apply (br_nodup _ _ _ _ R) | exact Hx]. }
      destruct t as [|n F'].
      + (* last free slot: the block becomes full *)
        subst F.
        destruct (alloc_last_rep bn Hb _ _ U R eq_refl) as [Hn R'].
        rewrite Hn, N.eqb_refl in E. injection E as <- <-.
        exists (upd FU ub ([], U ++ [free_d (get (blocks st) ub)])).
        split; [|split; [|split]].
        * apply (pinv_update st FU ub _ _ _ rest (ub :: fullL st) (freeB st) (nblocks st) (next_blk st) I R').
          -- eapply Permutation_NoDup; [|apply (pi_nd _ _ _ I)]. unfold ids. rewrite ?Eu.
             cbn. apply Permutation_middle.
          -- intros j Hj. right. unfold ids. rewrite ?Eu.
             rewrite !in_app_iff in *. cbn in *. tauto.
          -- lia.
          -- now apply (pi_lt _ _ _ I).
          -- intros j Hj _. rewrite ?Eu. now right.
          -- intro Hin. contradiction.
          -- intros j [<-|Hj] Hne; [congruence | exact Hj].
          -- reflexivity.
          -- auto.
          -- intro Ef. destruct (Hfree ub Ef) as [Hx _]. exfalso. apply Hx. rewrite ?Eu. now left.
          -- rewrite (pi_nb _ _ _ I). unfold ids. rewrite ?Eu. f_equal. rewrite !app_length. cbn. lia.
        * unfold plive. intro Hin. apply in_lv in Hin. cbn [fst snd] in Hin.
          rewrite EFU in Hin. cbn in Hin. destruct Hin as [_ Hin].
          apply (Hfu _ Hin). now left.
        * unfold plive. cbn [usedL fullL]. rewrite ?Eu.
          change ((ub :: fullL st) ++ rest) with (ub :: (fullL st ++ rest)).
          rewrite lv_cons, upd_same. cbn [snd].
          rewrite lv_upd_notin by (rewrite in_app_iff; tauto).
          rewrite (lv_perm FU (fullL st ++ ub :: rest) (ub :: fullL st ++ rest))
            by (symmetry; apply Permutation_middle).
          rewrite lv_cons, EFU. cbn [snd]. rewrite map_app. cbn [map].
          rewrite <- app_assoc. cbn [app].
          symmetry. apply Permutation_middle.
        * cbn [nblocks]. rewrite Hg. lia.
      + subst F.
        destruct (alloc_common_rep bn _ _ n F' U R eq_refl) as [Hn R'].
        rewrite Hn in E.
        assert (Hnf : n <> free_d (get (blocks st) ub)).
        { pose proof (br_nodup _ _ _ _ R) as Hnd. apply nodup_app_l in Hnd.
          apply NoDup_cons_iff in Hnd. destruct Hnd as [Hx _]. intro Ee. apply Hx. rewrite <- Ee. now left. }
        destruct (N.eqb_spec n (free_d (get (blocks st) ub))) as [Ee|_]; [contradiction|].
        injection E as <- <-.
        exists (upd FU ub (n :: F', U ++ [free_d (get (blocks st) ub)])).
        split; [|split; [|split]].
        * rewrite <- ?Eu.
          apply (pinv_update st FU ub _ _ _ (usedL st) (fullL st) (freeB st) (nblocks st) (next_blk st) I R').
          -- apply (pi_nd _ _ _ I).
          -- intros j Hj. now right.
          -- lia.
          -- now apply (pi_lt _ _ _ I).
          -- auto.
          -- intros _. split; [congruence|]. destruct U; [congruence | discriminate].
          -- auto.
          -- intro Hin. contradiction.
          -- auto.
          -- intro Ef. destruct (Hfree ub Ef) as [Hx _]. exfalso. apply Hx. rewrite ?Eu. now left.
          -- apply (pi_nb _ _ _ I).
        * unfold plive. intro Hin. apply in_lv in Hin. cbn [fst snd] in Hin.
          rewrite EFU in Hin. cbn in Hin. destruct Hin as [_ Hin].
          apply (Hfu _ Hin). now left.
        * unfold plive. cbn [usedL fullL]. rewrite ?Eu.
          rewrite (lv_perm _ (fullL st ++ ub :: rest) (ub :: fullL st ++ rest))
            by (symmetry; apply Permutation_middle).
          rewrite (lv_perm FU (fullL st ++ ub :: rest) (ub :: fullL st ++ rest))
            by (symmetry; apply Permutation_middle).
          rewrite !lv_cons, upd_same, EFU. cbn [snd].
          rewrite lv_upd_notin by (rewrite in_app_iff; tauto).
          rewrite map_app. cbn [map]. rewrite <- app_assoc. cbn [app].
          symmetry. apply Permutation_middle.
        * cbn [nblocks]. rewrite Hg. lia.
  Qed.

  Theorem free_ok st FU a :
    pinv st FU -> In a (plive st FU) ->
    exists FU', pinv (free st a) FU' /\
                Permutation (plive st FU) (a :: plive (free st a) FU') /\
                nblocks (free st a) <= nblocks st.
  Proof.
    intros I Hin. destruct (nodup_parts _ _ I) as (NDu & NDf & NDfu & Huf & Hfree).
    destruct a as [id u]. unfold plive in Hin. apply in_lv in Hin. cbn [fst snd] in Hin.
    destruct Hin as [Hid Hu].
    assert (Hids : In id (ids st)) by (apply ids_parts; apply in_app_or in Hid; tauto).
    pose proof (pi_rep _ _ _ I id Hids) as R.
    destruct (FU id) as [F U] eqn:EFU. cbn [fst snd] in *.
    pose proof R as L. apply rep_length in L; try exact Hb.
    assert (Hnotfree : freeB st <> Some id).
    { intro Ef. destruct (Hfree id Ef). apply in_app_or in Hid. tauto. }
    unfold free.
    destruct (le_lt_dec 2 (length U)) as [Hlen|Hlen].
    - (* other used slots remain in the block *)
      destruct (free_some_rep bn Hb _ F U u R Hu Hlen) as (Hne & U' & HP & HU' & RF & RE).
      destruct (N.eqb_spec (get (nx (get (blocks st) id)) u) u) as [Ee|_]; [contradiction|].
      rewrite (br_hf _ _ _ _ R).
      destruct F as [|f0 F0]; cbn [is_nil negb].
      + (* the block was full: it moves back to the used list *)
        specialize (RE eq_refl).
        assert (Hfull : In id (fullL st)).
        { apply in_app_or in Hid. destruct Hid as [H|H]; [exact H|].
          destruct (pi_used _ _ _ I id H) as [HF _]. rewrite EFU in HF. cbn in HF. congruence. }
        assert (Hnu : ~ In id (usedL st)) by (intro H; apply (Huf id H Hfull)).
        destruct (remove_blk_nodup id (fullL st) NDf) as [NDr Hnr].
        exists (upd FU id ([u], U')). split; [|split].
        * apply (pinv_update st FU id _ _ _ (id :: usedL st) (remove_blk id (fullL st)) (freeB st)
                 (nblocks st) (next_blk st) I RE).
          -- eapply Permutation_NoDup; [|apply (pi_nd _ _ _ I)]. unfold ids.
             rewrite (remove_blk_in id (fullL st) Hfull) at 1.
             cbn. rewrite <- Permutation_middle. reflexivity.
          -- intros j Hj. right. apply ids_parts.
             change (In j ((id :: usedL st) ++ remove_blk id (fullL st) ++ optl (freeB st))) in Hj.
             rewrite !in_app_iff in Hj. destruct Hj as [[<-|Hj]|[Hj|Hj]]; auto.
             ++ right. left. eapply remove_blk_incl; eauto.
             ++ right. right. destruct (freeB st); cbn in Hj; [destruct Hj as [<-|[]]; reflexivity | tauto].
          -- lia.
          -- now apply (pi_lt _ _ _ I).
          -- intros j [<-|Hj] Hn; [congruence | exact Hj].
          -- intros _. split; congruence.
          -- intros j Hj _. eapply remove_blk_incl; eauto.
          -- intro H. contradiction.
          -- auto.
          -- intro Ef. contradiction.
          -- rewrite (pi_nb _ _ _ I). unfold ids. f_equal.
             change (length ((id :: usedL st) ++ remove_blk id (fullL st) ++ optl (freeB st)))
               with (S (length (usedL st ++ remove_blk id (fullL st) ++ optl (freeB st)))).
             rewrite !app_length. rewrite <- (remove_blk_length id (fullL st) Hfull). lia.
        * unfold plive. cbn [usedL fullL].
          rewrite !lv_app. rewrite (lv_split FU (fullL st) id NDf Hfull), EFU. cbn [snd].
          rewrite lv_cons, upd_same. cbn [snd].
          rewrite !lv_upd_notin by assumption.
          rewrite (Permutation_map (pair id) HP). cbn [map].
          cbn [app]. apply perm_skip.
          rewrite (app_assoc (lv FU (remove_blk id (fullL st)))). apply Permutation_app_tail. apply Permutation_app_comm.
        * cbn [nblocks]. lia.
      + (* the block keeps its place in the used list *)
        assert (HFne : f0 :: F0 <> []) by congruence. specialize (RF HFne).
        unfold link_free in RF |- *.
        assert (Hused : In id (usedL st)).
        { apply in_app_or in Hid. destruct Hid as [H|H]; [|exact H].
          pose proof (pi_full _ _ _ I id H) as HF. rewrite EFU in HF. cbn in HF. congruence. }
        assert (Hnf : ~ In id (fullL st)) by (apply Huf; exact Hused).
        exists (upd FU id ((f0 :: F0) ++ [u], U')). split; [|split].
        * apply (pinv_update st FU id _ _ _ (usedL st) (fullL st) (freeB st)
                 (nblocks st) (next_blk st) I RF).
          -- apply (pi_nd _ _ _ I).
          -- intros j Hj. now right.
          -- lia.
          -- now apply (pi_lt _ _ _ I).
          -- auto.
          -- intros _. split; [destruct F0; discriminate | exact HU'].
          -- auto.
          -- intro H. contradiction.
          -- auto.
          -- intro Ef. contradiction.
          -- apply (pi_nb _ _ _ I).
        * unfold plive. cbn [usedL fullL].
          rewrite !lv_app. rewrite (lv_split FU (usedL st) id NDu Hused), EFU. cbn [snd].
          rewrite (lv_upd_split FU (usedL st) id _ U' NDu Hused).
          rewrite lv_upd_notin by assumption.
          rewrite (Permutation_map (pair id) HP). cbn [map].
          rewrite Permutation_app_comm. cbn [app]. apply perm_skip.
          rewrite Permutation_app_comm. reflexivity.
        * cbn [nblocks]. lia.
    - (* the only used slot: the block becomes the cached free block *)
      destruct U as [|u0 [|u1 U1]]; cbn [length] in Hlen; [contradiction | | lia].
      destruct Hu as [->|[]].
      assert (Hused : In id (usedL st)).
      { apply in_app_or in Hid. destruct Hid as [H|H]; [|exact H].
        pose proof (full_len bn Hb _ _ _ I H) as HL. rewrite EFU in HL. cbn in HL. lia. }
      destruct (pi_used _ _ _ I id Hused) as [HF _]. rewrite EFU in HF. cbn [fst] in HF.
      destruct (free_last_rep bn _ F u R HF) as [Hn RL].
      rewrite Hn, N.eqb_refl.
      unfold link_free in RL |- *.
      assert (Hnf : ~ In id (fullL st)) by (apply Huf; exact Hused).
      destruct (remove_blk_nodup id (usedL st) NDu) as [NDr Hnr].
      exists (upd FU id (F ++ [u], [])). split; [|split].
      * apply (pinv_update st FU id _ _ _ (remove_blk id (usedL st)) (fullL st) (Some id) _ (next_blk st) I RL).
        -- cbn [optl]. rewrite app_assoc. apply nodup_swap_app. cbn. constructor.
           ++ rewrite in_app_iff. tauto.
           ++ pose proof (pi_nd _ _ _ I) as H. unfold ids in H. rewrite app_assoc in H.
              apply nodup_app_l in H.
              eapply Permutation_NoDup; [|exact (NoDup_remove_1 [] _ id (Permutation_NoDup (Permutation_app_tail _ (remove_blk_in id (usedL st) Hused)) H))].
              reflexivity.
        -- intros j Hj. cbn [optl] in Hj. rewrite !in_app_iff in Hj.
           destruct Hj as [Hj|[Hj|[<-|[]]]]; [right|right|now left].
           ++ apply ids_parts. left. eapply remove_blk_incl; eauto.
           ++ apply ids_parts. auto.
        -- lia.
        -- now apply (pi_lt _ _ _ I).
        -- intros j Hj _. eapply remove_blk_incl; eauto.
        -- intro H. contradiction.
        -- auto.
        -- intro H. contradiction.
        -- intros j Ej Hne. congruence.
        -- reflexivity.
        -- rewrite (pi_nb _ _ _ I). unfold ids. cbn [optl]. rewrite !app_length.
           rewrite <- (remove_blk_length id (usedL st) Hused). cbn [length].
           destruct (freeB st); cbn [optl length]; lia.
      * unfold plive. cbn [usedL fullL].
        rewrite !lv_app. rewrite (lv_split FU (usedL st) id NDu Hused), EFU. cbn [snd map].
        rewrite !lv_upd_notin by assumption.
        rewrite Permutation_app_comm. cbn [app]. apply perm_skip. apply Permutation_app_comm.
      * cbn [nblocks]. destruct (freeB st); lia.
  Qed.
End PoolOps.
