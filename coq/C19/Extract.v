(* C19/Extract.v — extraction of the executable model and of the specification monitor.
   Directives: those of ExtrOcamlBasic only (bool, option, unit, list, prod, sumbool,
   sumor -> OCaml types); no Extract Constant; positive/N/nat stay Coq's datatypes. *)
Require Extraction.
Require Import ExtrOcamlBasic.
From Morfuse Require Import C19.Model C19.Spec.
Extraction "C19_model.ml" run spec_ok spec_first_bad abs_init.
