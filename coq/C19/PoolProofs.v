(* C19/PoolProofs.v — the pool invariant and the refinement of Alloc/Free/Count to a live
   set of addresses. *)
From Coq Require Import NArith List Bool Lia Permutation.
From Morfuse Require Import Base.Arr Base.ListX Base.Ring C19.Model C19.BlockProofs.
Import ListNotations.
Local Open Scope N_scope.

Definition optl {A} (o : option A) : list A := match o with Some x => [x] | None => [] end.

Definition FUmap := N -> (list N * list N)%type.
Definition upd (FU : FUmap) (id : N) (v : list N * list N) : FUmap :=
  fun j => if N.eqb j id then v else FU j.

Lemma upd_same FU id v : upd FU id v id = v.
Proof. unfold upd. now rewrite N.eqb_refl. Qed.
Lemma upd_other FU id v j : j <> id -> upd FU id v j = FU j.
Proof. unfold upd. intro H. destruct (N.eqb_spec j id); [contradiction|reflexivity]. Qed.

(* live addresses of the blocks in list l *)
Definition lv (FU : FUmap) (l : list N) : list addr :=
  flat_map (fun id => map (pair id) (snd (FU id))) l.

Lemma lv_upd_notin FU id v l : ~ In id l -> lv (upd FU id v) l = lv FU l.
Proof.
  unfold lv. induction l as [|j l IH]; cbn [flat_map]; intro H; [reflexivity|].
  rewrite upd_other by (intro; subst; cbn in H; tauto). rewrite IH by (cbn in H; tauto). reflexivity.
Qed.

Lemma lv_cons FU j l : lv FU (j :: l) = map (pair j) (snd (FU j)) ++ lv FU l.
Proof. reflexivity. Qed.
Lemma lv_nil FU : lv FU [] = [].
Proof. reflexivity. Qed.
Global Arguments lv : simpl never.

Lemma lv_app FU l1 l2 : lv FU (l1 ++ l2) = lv FU l1 ++ lv FU l2.
Proof. unfold lv. apply flat_map_app. Qed.

Lemma remove_blk_notin x l : ~ In x l -> remove_blk x l = l.
Proof.
  induction l as [|y l IH]; cbn; intro H; [reflexivity|].
  destruct (N.eqb_spec x y) as [->|Hn]; [tauto|]. rewrite IH by tauto. reflexivity.
Qed.

Lemma remove_blk_in x l : In x l -> Permutation l (x :: remove_blk x l).
Proof.
  induction l as [|y l IH]; cbn; intro H; [tauto|].
  destruct (N.eqb_spec x y) as [->|Hn]; [reflexivity|].
  destruct H as [->|H]; [congruence|]. rewrite (IH H) at 1. apply perm_swap.
Qed.

Lemma remove_blk_incl x l y : In y (remove_blk x l) -> In y l.
Proof.
  induction l as [|z l IH]; cbn; [tauto|].
  destruct (N.eqb_spec x z); cbn; tauto.
Qed.

Lemma remove_blk_nodup x l : NoDup l -> NoDup (remove_blk x l) /\ ~ In x (remove_blk x l).
Proof.
  induction l as [|y l IH]; cbn; intro H; [split; [constructor|tauto]|].
  inversion H; subst. destruct (N.eqb_spec x y) as [->|Hn]; [tauto|].
  destruct (IH H3) as [A B]. split.
  - constructor; [|exact A]. intro Hin. apply remove_blk_incl in Hin. contradiction.
  - cbn. intros [E|E]; [congruence|contradiction].
Qed.

Lemma remove_blk_length x l : In x l -> S (length (remove_blk x l)) = length l.
Proof. intro H. apply remove_blk_in in H. apply Permutation_length in H. cbn in H. lia. Qed.

Lemma lv_perm FU l1 l2 : Permutation l1 l2 -> Permutation (lv FU l1) (lv FU l2).
Proof.
  induction 1; rewrite ?lv_cons.
  - reflexivity.
  - now apply Permutation_app_head.
  - rewrite !app_assoc. apply Permutation_app_tail. apply Permutation_app_comm.
  - etransitivity; eauto.
Qed.

Lemma in_lv FU l a : In a (lv FU l) <-> In (fst a) l /\ In (snd a) (snd (FU (fst a))).
Proof.
  unfold lv. rewrite in_flat_map. split.
  - intros [id [Hid Hin]]. apply in_map_iff in Hin. destruct Hin as [s [<- Hs]]. cbn. tauto.
  - intros [H1 H2]. exists (fst a). split; [exact H1|]. apply in_map_iff.
    exists (snd a). split; [now destruct a | exact H2].
Qed.

Lemma lv_length_full FU l k :
  (forall id, In id l -> length (snd (FU id)) = k) -> length (lv FU l) = (length l * k)%nat.
Proof.
  induction l as [|j l IH]; intro H; [reflexivity|].
  rewrite lv_cons, app_length, map_length. rewrite IH by (intros; apply H; now right).
  rewrite (H j) by now left. cbn [length]. lia.
Qed.

Lemma lv_length_lt FU l k :
  l <> [] -> (forall id, In id l -> length (snd (FU id)) < k)%nat ->
  (length (lv FU l) < length l * k)%nat.
Proof.
  induction l as [|j l IH]; intros Hne H; [congruence|].
  rewrite lv_cons, app_length, map_length. pose proof (H j (or_introl eq_refl)).
  destruct l as [|j' l']; [rewrite lv_nil; cbn; lia|].
  assert (length (lv FU (j' :: l')) < length (j' :: l') * k)%nat.
  { apply IH; [congruence|]. intros; apply H; now right. }
  cbn [length] in *. lia.
Qed.

Section Pool.
  Variable bn : nat.
  Hypothesis Hb : (2 <= bn)%nat.
  Notation b := (b bn).
  Notation blk_rep := (blk_rep bn).

  Definition ids (st : pool) : list N := usedL st ++ fullL st ++ optl (freeB st).

  Record pinv (st : pool) (FU : FUmap) : Prop := {
    pi_nd : NoDup (ids st);
    pi_lt : forall id, In id (ids st) -> id < next_blk st;
    pi_rep : forall id, In id (ids st) ->
             blk_rep (get (blocks st) id) (fst (FU id)) (snd (FU id));
    pi_used : forall id, In id (usedL st) -> fst (FU id) <> [] /\ snd (FU id) <> [];
    pi_full : forall id, In id (fullL st) -> fst (FU id) = [];
    pi_free : forall id, freeB st = Some id -> snd (FU id) = [];
    pi_nb : nblocks st = N.of_nat (length (ids st)) }.

  Definition plive (st : pool) (FU : FUmap) : list addr := lv FU (fullL st ++ usedL st).

  Lemma pinv_init : pinv pool_init (fun _ => ([], [])).
  Proof.
    constructor; cbn; try tauto; try discriminate; try constructor.
  Qed.

  Lemma rep_head_free bk F U : blk_rep bk F U -> F <> [] -> exists t, F = free_d bk :: t.
  Proof. intros R HF. destruct (br_F _ _ _ _ R HF) as (_ & Ht & _). exact Ht. Qed.

  Lemma full_len st FU id : pinv st FU -> In id (fullL st) -> length (snd (FU id)) = bn.
  Proof.
    intros I Hin.
    assert (Hi : In id (ids st)) by (unfold ids; rewrite !in_app_iff; tauto).
    pose proof (pi_rep _ _ I id Hi) as L. apply rep_length in L; try exact Hb.
    rewrite (pi_full _ _ I id Hin) in L. exact L.
  Qed.

  Lemma used_len st FU id : pinv st FU -> In id (usedL st) -> (length (snd (FU id)) < bn)%nat.
  Proof.
    intros I Hin.
    assert (Hi : In id (ids st)) by (unfold ids; rewrite !in_app_iff; tauto).
    pose proof (pi_rep _ _ I id Hi) as L. apply rep_length in L; try exact Hb.
    destruct (pi_used _ _ I id Hin) as [HF _]. destruct (fst (FU id)); [congruence|]. cbn in L. lia.
  Qed.

  (* the number of live objects against the capacity of the blocks held *)
  Lemma plive_capacity st FU :
    pinv st FU ->
    (length (plive st FU) <= bn * N.to_nat (nblocks st))%nat /\
    (length (plive st FU) = bn * N.to_nat (nblocks st) <-> usedL st = [] /\ freeB st = None)%nat.
  Proof.
    intro I. unfold plive. rewrite lv_app, app_length.
    rewrite (lv_length_full FU (fullL st) bn) by (intros; eapply full_len; eauto).
    rewrite (pi_nb _ _ I). unfold ids. rewrite !app_length, Nat2N.id.
    destruct (usedL st) as [|u ul] eqn:Eu.
    - rewrite lv_nil. cbn [length]. destruct (freeB st); cbn [optl length]; split; try lia.
      + split; [nia | intros [_ HH]; discriminate].
      + split; auto; nia.
    - assert (Hlt : (length (lv FU (u :: ul)) < length (u :: ul) * bn)%nat).
      { apply lv_length_lt; [congruence|]. intros id Hid. eapply used_len; eauto. now rewrite Eu. }
      split; [nia|]. split; [nia | intros [HH _]; discriminate].
  Qed.

  (* ------------------------------------------------------------------------------- Count *)
  Lemma count_list_ok st FU l :
    pinv st FU -> (forall id, In id l -> In id (ids st)) ->
    count_list bn st l = Some (length (lv FU l)).
  Proof.
    intros I. induction l as [|id l IH]; intro Hl; [reflexivity|].
    cbn [count_list]. rewrite lv_cons.
    rewrite IH by (intros; apply Hl; now right).
    pose proof (pi_rep _ _ I id (Hl id (or_introl eq_refl))) as R.
    rewrite app_length, map_length.
    rewrite (br_hu _ _ _ _ R). destruct (snd (FU id)) as [|x U] eqn:EU; cbn [is_nil negb].
    - reflexivity.
    - assert (HU : x :: U <> []) by congruence.
      rewrite (ring_walk_ring _ _ _ _ bn (br_U _ _ _ _ R HU)); [reflexivity|].
      pose proof R as L. apply rep_length in L; try exact Hb. cbn [length] in L |- *. lia.
  Qed.

  Lemma count_ok st FU : pinv st FU -> count bn st = Some (length (plive st FU)).
  Proof.
    intro I. unfold count, plive.
    rewrite (count_list_ok st FU (fullL st) I), (count_list_ok st FU (usedL st) I).
    - now rewrite lv_app, app_length.
    - intros. unfold ids. rewrite !in_app_iff. tauto.
    - intros. unfold ids. rewrite !in_app_iff. tauto.
  Qed.
End Pool.
