(* C19/Properties.v — the property theorems of C19, and nothing else.
   Every theorem is closed by [exact <lemma>] and followed by Print Assumptions. *)
From Coq Require Import NArith List Permutation.
From Morfuse Require Import Base.Arr C19.Model C19.Spec C19.PoolProofs C19.PoolOps C19.Main.
Import ListNotations.
Local Open Scope N_scope.

(* For every block size >= 2 and EVERY history of alloc / delete / free-all (destructors may
   delete other live objects), the trace of the allocator model satisfies the
   specification monitor of C19/Spec.v: each returned block is not in use, the reported
   count is allocations minus frees, a new memory block is taken exactly when every slot of
   every block is in use (freed blocks are reused), a delete destroys exactly what its
   destructor log says, free-all destroys every live object exactly once. *)
Theorem C19_every_history_meets_the_spec :
  forall (bn : nat) (ops : list op), (2 <= bn)%nat ->
    spec_ok (N.of_nat bn) ops (run bn ops) = true.
Proof. intros bn ops H. exact (run_ok bn H ops). Qed.
Print Assumptions C19_every_history_meets_the_spec.

(* The same facts one operation at a time, for every state satisfying the pool invariant
   (which [pinv_init] establishes and both theorems preserve). *)
Theorem C19_alloc_returns_a_block_not_in_use :
  forall bn, (2 <= bn)%nat -> forall st FU a st',
    pinv bn st FU -> alloc bn st = (a, st') ->
    exists FU', pinv bn st' FU' /\ ~ In a (plive st FU) /\
                Permutation (plive st' FU') (a :: plive st FU) /\
                nblocks st' = nblocks st + grow bn st FU.
Proof. exact alloc_ok. Qed.
Print Assumptions C19_alloc_returns_a_block_not_in_use.

Theorem C19_free_releases_exactly_that_block :
  forall bn, (2 <= bn)%nat -> forall st FU a,
    pinv bn st FU -> In a (plive st FU) ->
    exists FU', pinv bn (free st a) FU' /\
                Permutation (plive st FU) (a :: plive (free st a) FU') /\
                nblocks (free st a) <= nblocks st.
Proof. exact free_ok. Qed.
Print Assumptions C19_free_releases_exactly_that_block.

Theorem C19_count_is_the_number_of_live_blocks :
  forall bn, (2 <= bn)%nat -> forall st FU,
    pinv bn st FU -> count bn st = Some (length (plive st FU)).
Proof. exact count_ok. Qed.
Print Assumptions C19_count_is_the_number_of_live_blocks.

(* Non-vacuity: a concrete history crossing empty -> partial -> full -> second block ->
   reuse -> free-all with a destructor that deletes another object; and the monitor does
   reject a trace that hands out a live block. *)
Example C19_history_example :
  map (fun e => (kind e, cnt e, nb e))
      (run 2 [OAlloc []; OAlloc []; OAlloc [0]; OFree 1; OAlloc []; OFreeAll]) =
  [ (EAlloc 0 (0, 0), Some 1%nat, 1); (EAlloc 1 (0, 1), Some 2%nat, 1);
    (EAlloc 2 (1, 0), Some 3%nat, 2); (EFree 1 [1], Some 2%nat, 2);
    (EAlloc 3 (0, 1), Some 3%nat, 2); (EFreeAll [0; 3; 2], Some 0%nat, 0) ].
Proof. vm_compute. reflexivity. Qed.

Example C19_monitor_rejects_live_block :
  spec_ok 2 [OAlloc []; OAlloc []]
          [ mkEv (EAlloc 0 (0, 0)) (Some 1%nat) 1; mkEv (EAlloc 1 (0, 0)) (Some 2%nat) 1 ] = false.
Proof. vm_compute. reflexivity. Qed.
