From Morfuse Require Import C19.Model C19.Spec.
