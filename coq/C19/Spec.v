(* C19/Spec.v — the abstract specification of the pool allocator as an executable
   monitor over observable traces.  It knows nothing about blocks, rings or lists: its
   state is the set of live objects (handle, address), the number of memory blocks the
   allocator says it holds, and the next handle.

   The same monitor is (a) the statement of the C19 theorem about the model
   ([forall ops, spec_ok b ops (run ops) = true]) and (b) extracted and run over the trace
   of the real BlockAlloc, which is how a concrete failing history is found. *)
From Coq Require Import NArith List Bool Lia.
From Morfuse Require Import Base.Arr C19.Model.
Import ListNotations.
Local Open Scope N_scope.

Record abs := mkAbs { live : list (N * addr); anb : N; anext : N }.

Definition abs_init : abs := mkAbs [] 0 0.

Definition addr_eqb (a c : addr) : bool := N.eqb (fst a) (fst c) && N.eqb (snd a) (snd c).
Definition memN (x : N) (l : list N) : bool := existsb (N.eqb x) l.
Fixpoint nodupb (l : list N) : bool :=
  match l with [] => true | x :: r => negb (memN x r) && nodupb r end.
Definition cnt_is (e : ev) (n : nat) : bool :=
  match cnt e with Some c => Nat.eqb c n | None => false end.
Definition handles (a : abs) : list N := map fst (live a).

Definition spec_step (b : N) (a : abs) (o : op) (e : ev) : option abs :=
  match o, kind e with
  | OAlloc _, EAlloc h ad =>
      (* the returned block is not in use; the count goes up by one; a new memory block
         is taken from the system exactly when every slot of every block is in use *)
      let n := length (live a) in
      if N.eqb h (anext a)
         && negb (existsb (fun p => addr_eqb ad (snd p)) (live a))
         && cnt_is e (S n)
         && N.eqb (nb e) (anb a + (if N.eqb (N.of_nat n) (b * anb a) then 1 else 0))
      then Some (mkAbs ((h, ad) :: live a) (nb e) (anext a + 1)) else None
  | OFree h, ESkip =>
      if negb (memN h (handles a)) && cnt_is e (length (live a)) && N.eqb (nb e) (anb a)
      then Some a else None
  | OFree h, EFree h' dlog =>
      (* exactly the logged objects die, each was alive, none twice *)
      let live' := filter (fun p => negb (memN (fst p) dlog)) (live a) in
      if N.eqb h h' && memN h dlog && nodupb dlog
         && forallb (fun k => memN k (handles a)) dlog
         && cnt_is e (length live')
         && N.leb (nb e) (anb a) && N.leb (N.of_nat (length live')) (b * nb e)
      then Some (mkAbs live' (nb e) (anext a)) else None
  | OFreeAll, EFreeAll dlog =>
      (* every live object is destroyed exactly once, nothing else is *)
      if nodupb dlog && forallb (fun k => memN k (handles a)) dlog
         && Nat.eqb (length dlog) (length (live a))
         && cnt_is e 0 && N.eqb (nb e) 0
      then Some (mkAbs [] 0 (anext a)) else None
  | _, _ => None
  end.

Fixpoint spec_from (b : N) (a : abs) (ops : list op) (evs : list ev) : bool :=
  match ops, evs with
  | [], [] => true
  | o :: ops', e :: evs' =>
      match spec_step b a o e with
      | Some a' => spec_from b a' ops' evs'
      | None => false
      end
  | _, _ => false
  end.

Definition spec_ok (b : N) (ops : list op) (evs : list ev) : bool :=
  spec_from b abs_init ops evs.

(* index of the first event the monitor rejects (for reporting) *)
Fixpoint spec_first_bad (b : N) (a : abs) (ops : list op) (evs : list ev) (i : nat) : option nat :=
  match ops, evs with
  | [], [] => None
  | o :: ops', e :: evs' =>
      match spec_step b a o e with
      | Some a' => spec_first_bad b a' ops' evs' (S i)
      | None => Some i
      end
  | _, _ => Some i
  end.
