(* C19/BlockProofs.v — one block: the free ring and the used ring partition 0..b-1 and
   every operation of Alloc/Free re-links them correctly. *)
From Coq Require Import NArith List Bool Lia Permutation.
From Morfuse Require Import Base.Arr Base.ListX Base.Ring C19.Model.
Import ListNotations.
Local Open Scope N_scope.

Lemma get_fold_set (f : N -> N) l a0 i :
  get (fold_right (fun i a => set a i (f i)) a0 l) i =
  if existsb (N.eqb i) l then f i else get a0 i.
Proof.
  induction l as [|j l IH]; cbn; [reflexivity|].
  rewrite get_set. destruct (N.eqb_spec i j) as [->|H]; cbn; [reflexivity | exact IH].
Qed.

Section Block.
  Variable bn : nat.
  Hypothesis Hb : (2 <= bn)%nat.
  Notation b := (b bn).
  Notation iota := (iota bn).

  Lemma in_iota i : In i iota <-> i < b.
  Proof.
    unfold Model.iota, Model.b. rewrite in_map_iff. split.
    - intros [k [<- Hk]]. apply in_seq in Hk. lia.
    - intro H. exists (N.to_nat i). split; [lia|]. apply in_seq. lia.
  Qed.

  Lemma existsb_iota i : existsb (N.eqb i) iota = (i <? b).
  Proof.
    destruct (N.ltb_spec i b) as [H|H].
    - apply existsb_exists. exists i. split; [now apply in_iota | apply N.eqb_refl].
    - destruct (existsb (N.eqb i) iota) eqn:E; [|reflexivity].
      apply existsb_exists in E. destruct E as [x [Hx Ex]].
      apply N.eqb_eq in Ex. subst x. apply in_iota in Hx. lia.
  Qed.

  Lemma nodup_iota : NoDup iota.
  Proof.
    unfold Model.iota. apply FinFun.Injective_map_NoDup; [|apply seq_NoDup].
    intros x y H. lia.
  Qed.

  Lemma length_iota : length iota = bn.
  Proof. unfold Model.iota. now rewrite map_length, seq_length. Qed.

  Lemma dom_length (l : list N) :
    NoDup l -> (forall i, In i l <-> i < b) -> length l = bn.
  Proof.
    intros Hnd Hd. rewrite <- length_iota. apply Permutation_length.
    apply NoDup_Permutation; [exact Hnd | apply nodup_iota|].
    intro x. rewrite Hd, in_iota. tauto.
  Qed.

  Definition nx0 := nx (new_block bn).
  Definition pv0 := pv (new_block bn).

  Lemma get_nx0 i : i < b -> get nx0 i = if N.eqb (i + 1) b then 0 else i + 1.
  Proof.
    intro H. unfold nx0, new_block; cbn [nx].
    rewrite (get_fold_set (fun i => if N.eqb (i + 1) b then 0 else i + 1)).
    rewrite existsb_iota. destruct (N.ltb_spec i b); [reflexivity | lia].
  Qed.

  Lemma get_pv0 i : i < b -> get pv0 i = if N.eqb i 0 then b - 1 else i - 1.
  Proof.
    intro H. unfold pv0, new_block; cbn [pv].
    rewrite (get_fold_set (fun i => if N.eqb i 0 then b - 1 else i - 1)).
    rewrite existsb_iota. destruct (N.ltb_spec i b); [reflexivity | lia].
  Qed.

  Lemma seg_nx0 : forall n k, (k + n = bn)%nat -> (0 < n)%nat ->
    seg nx0 (N.of_nat k) (map N.of_nat (seq k n)) 0.
  Proof.
    induction n as [|n IH]; intros k Hk Hn; [lia|].
    cbn [seq map seg]. split; [reflexivity|].
    assert (Hlt : N.of_nat k < b) by (unfold Model.b; lia).
    rewrite (get_nx0 _ Hlt).
    destruct n as [|n].
    - cbn. destruct (N.eqb_spec (N.of_nat k + 1) b) as [_|H]; [reflexivity|].
      unfold Model.b in H. lia.
    - destruct (N.eqb_spec (N.of_nat k + 1) b) as [H|_]; [unfold Model.b in H; lia|].
      replace (N.of_nat k + 1) with (N.of_nat (S k)) by lia.
      apply IH; lia.
  Qed.

  Lemma ring_new : ring nx0 pv0 0 iota.
  Proof.
    split; [apply nodup_iota|]. split; [|split].
    - unfold Model.iota. destruct bn as [|m]; [lia|]. cbn. eauto.
    - apply (seg_nx0 bn 0%nat); lia.
    - intros x Hx. apply in_iota in Hx. rewrite (get_nx0 _ Hx).
      destruct (N.eqb_spec (x + 1) b) as [E|E].
      + rewrite get_pv0 by (unfold Model.b in *; lia). cbn. lia.
      + rewrite get_pv0 by lia.
        destruct (N.eqb_spec (x + 1) 0); lia.
  Qed.

  (* ---- the representation predicate of one block ---------------------------------- *)
  Record blk_rep (bk : block) (F U : list N) : Prop := {
    br_nodup : NoDup (F ++ U);
    br_dom : forall i, In i (F ++ U) <-> i < b;
    br_hf : has_free bk = negb (is_nil F);
    br_hu : has_used bk = negb (is_nil U);
    br_F : F <> [] -> ring (nx bk) (pv bk) (free_d bk) F;
    br_U : U <> [] -> ring (nx bk) (pv bk) (used_d bk) U }.

  Lemma rep_new : blk_rep (new_block bn) iota [].
  Proof.
    constructor; rewrite ?app_nil_r.
    - apply nodup_iota.
    - apply in_iota.
    - cbn. unfold Model.iota. destruct bn; [lia | reflexivity].
    - reflexivity.
    - intros _. apply ring_new.
    - congruence.
  Qed.

  Lemma rep_length bk F U : blk_rep bk F U -> (length F + length U = bn)%nat.
  Proof.
    intros R. rewrite <- app_length. apply dom_length; [apply R | apply (br_dom _ _ _ R)].
  Qed.

  (* ring preserved by writes outside of it *)
  Lemma ring_frame2 nxa pva h l k1 v1 k2 v2 :
    ring nxa pva h l -> ~ In k1 l -> ~ In k2 l ->
    ring (set nxa k1 v1) (set pva k2 v2) h l.
  Proof. intros. apply ring_frame_pv; [apply ring_frame_nx|]; assumption. Qed.

  (* ---- TakeFree on a block whose used ring is not empty --------------------------- *)
  Lemma take_free_rep bk F U f hf :
    U <> [] -> ~ In f U -> ~ In f F ->
    ring (nx bk) (pv bk) (used_d bk) U ->
    (F <> [] -> ring (nx bk) (pv bk) (free_d bk) F) ->
    NoDup (F ++ U) ->
    let bk' := take_free (mkBlock (nx bk) (pv bk) (free_d bk) (used_d bk) hf (has_used bk)) f in
    ring (nx bk') (pv bk') (used_d bk') (U ++ [f]) /\
    (F <> [] -> ring (nx bk') (pv bk') (free_d bk') F) /\
    free_d bk' = free_d bk /\ used_d bk' = used_d bk /\
    has_free bk' = hf /\ has_used bk' = has_used bk.
  Proof.
    intros HU HfU HfF RU RF Hnd. cbn.
    destruct (ring_insert_tail _ _ _ _ f RU HfU) as [Hp R'].
    split; [exact R'|]. split; [|repeat split].
    intros HF. specialize (RF HF).
    assert (HpF : ~ In (get (pv bk) (used_d bk)) F) by (eapply notin_app_r; eauto).
    assert (HuF : ~ In (used_d bk) F).
    { eapply notin_app_r; eauto. eapply ring_in_head; eauto. }
    apply ring_frame2; [apply ring_frame2| |]; assumption.
  Qed.

  (* ---- Alloc, common tail: the block keeps at least one free slot ------------------- *)
  Lemma alloc_common_rep bk f n F' U :
    blk_rep bk (f :: n :: F') U -> free_d bk = f ->
    get (nx bk) f = n /\
    blk_rep (alloc_common bk f n) (n :: F') (U ++ [f]).
  Proof.
    intros R Hf.
    assert (RF : ring (nx bk) (pv bk) f (f :: n :: F')).
    { pose proof (br_F _ _ _ R) as H. rewrite Hf in H. apply H. congruence. }
    destruct (ring_unlink_head _ _ _ _ _ RF) as (Hn & Hp & RF').
    split; [exact Hn|].
    pose proof (br_nodup _ _ _ R) as Hnd.
    assert (HfF : ~ In f (n :: F')).
    { pose proof (nodup_app_l _ _ Hnd) as H0. now inversion H0. }
    assert (HfU : ~ In f U).
    { eapply notin_app_l; [exact Hnd | now left]. }
    assert (Hnd' : NoDup ((n :: F') ++ U)).
    { change (NoDup ([f] ++ (n :: F') ++ U)) in Hnd. exact (nodup_app_r _ _ Hnd). }
    assert (HnU : ~ In n U) by (eapply notin_app_l; [exact Hnd' | now left]).
    assert (HpU : ~ In (get (pv bk) f) U) by (eapply notin_app_l; eauto).
    assert (Hnd2 : NoDup ((n :: F') ++ U ++ [f])).
    { rewrite app_assoc. apply NoDup_rot. change (NoDup (f :: (n :: F') ++ U)).
      constructor; [|exact Hnd']. intro Hin. apply in_app_or in Hin. tauto. }
    assert (Hdom : forall i, In i ((n :: F') ++ U ++ [f]) <-> i < b).
    { intro i. rewrite <- (br_dom _ _ _ R i). cbn. rewrite !in_app_iff. cbn. tauto. }
    unfold alloc_common. destruct (has_used bk) eqn:Hhu.
    - (* used ring exists: TakeFree *)
      assert (HU : U <> []).
      { pose proof (br_hu _ _ _ R) as H. rewrite Hhu in H. destruct U; [discriminate|congruence]. }
      pose proof (br_U _ _ _ R HU) as RU.
      set (bk1 := mkBlock (set (nx bk) (get (pv bk) f) n) (set (pv bk) n (get (pv bk) f)) n (used_d bk) true true).
      assert (RU1 : ring (nx bk1) (pv bk1) (used_d bk1) U) by (apply ring_frame2; assumption).
      destruct (take_free_rep bk1 (n :: F') U f true HU HfU HfF RU1 (fun _ => RF') Hnd')
        as (A1 & A2 & A3 & A4 & A5 & A6).
      cbn [nx pv free_d used_d has_used has_free bk1] in *.
      constructor; auto.
      all: try (intros _; first [rewrite A3; apply A2; congruence | rewrite A4; exact A1]).
      all: try (cbn; destruct U; [congruence | reflexivity]).
    - (* first used slot of the block *)
      assert (HU : U = []).
      { pose proof (br_hu _ _ _ R) as H. rewrite Hhu in H. destruct U; [reflexivity|discriminate]. }
      subst U. cbn [app] in *.
      constructor; cbn [nx pv free_d used_d has_free has_used]; auto.
      + intros _. apply ring_frame2; assumption.
      + intros _. apply ring_single.
  Qed.

  (* ---- Alloc takes the last free slot: the block becomes full ----------------------- *)
  Lemma alloc_last_rep bk f U :
    blk_rep bk [f] U -> free_d bk = f ->
    get (nx bk) f = f /\
    blk_rep (take_free (mkBlock (nx bk) (pv bk) (free_d bk) (used_d bk) false (has_used bk)) f)
            [] (U ++ [f]).
  Proof.
    intros R Hf.
    assert (RF : ring (nx bk) (pv bk) f [f]).
    { pose proof (br_F _ _ _ R) as H. rewrite Hf in H. apply H. congruence. }
    split; [apply (ring_single_iff _ _ _ _ f RF); [now left | reflexivity]|].
    pose proof (br_nodup _ _ _ R) as Hnd. cbn in Hnd.
    assert (HfU : ~ In f U) by now inversion Hnd.
    assert (HU : U <> []).
    { pose proof (rep_length _ _ _ R) as L. cbn in L. destruct U; [cbn in L; lia | congruence]. }
    pose proof (br_U _ _ _ R HU) as RU.
    destruct (take_free_rep bk [] U f false HU HfU (fun x => x) RU (fun H => False_ind _ (H eq_refl)))
      as (A1 & A2 & A3 & A4 & A5 & A6); [now inversion Hnd|].
    apply Build_blk_rep; cbn [app].
    - apply NoDup_rot. exact Hnd.
    - intro i. rewrite <- (br_dom _ _ _ R i). cbn. rewrite in_app_iff. cbn. tauto.
    - exact A5.
    - rewrite A6. rewrite (br_hu _ _ _ R). destruct U; [congruence|reflexivity].
    - congruence.
    - intros _. rewrite A4. exact A1.
  Qed.

  (* ---- Free: the only used slot ------------------------------------------------------- *)
  Lemma free_last_rep bk F u :
    blk_rep bk F [u] -> F <> [] ->
    get (nx bk) u = u /\
    (let '(nx', pv') := link_free bk u (nx bk) (pv bk) in
     blk_rep (mkBlock nx' pv' (free_d bk) (used_d bk) (has_free bk) false) (F ++ [u]) []).
  Proof.
    intros R HF.
    assert (RU : ring (nx bk) (pv bk) (used_d bk) [u]) by (apply (br_U _ _ _ R); congruence).
    split; [apply (ring_single_iff _ _ _ _ u RU); [now left | reflexivity]|].
    pose proof (br_F _ _ _ R HF) as RF.
    pose proof (br_nodup _ _ _ R) as Hnd.
    assert (HuF : ~ In u F) by (eapply notin_app_r; [exact Hnd | now left]).
    destruct (ring_insert_tail _ _ _ _ u RF HuF) as [Hp R'].
    unfold link_free.
    apply Build_blk_rep; cbn [nx pv free_d used_d has_free has_used]; rewrite ?app_nil_r.
    - apply NoDup_rot. cbn. apply NoDup_rot in Hnd. exact Hnd.
    - intro i. rewrite <- (br_dom _ _ _ R i). tauto.
    - rewrite (br_hf _ _ _ R). destruct F; [congruence|reflexivity].
    - reflexivity.
    - intros _. exact R'.
    - congruence.
  Qed.

  (* ---- Free: one of several used slots -------------------------------------------------- *)
  Lemma free_some_rep bk F U u :
    blk_rep bk F U -> In u U -> (2 <= length U)%nat ->
    let n := get (nx bk) u in
    let p := get (pv bk) u in
    let nx1 := set (nx bk) p n in
    let pv1 := set (pv bk) n p in
    n <> u /\
    exists U', Permutation U (u :: U') /\ U' <> [] /\
      (F <> [] ->
       let '(nx', pv') := link_free bk u nx1 pv1 in
       blk_rep (mkBlock nx' pv' (free_d bk) n true true) (F ++ [u]) U') /\
      (F = [] ->
       blk_rep (mkBlock (set nx1 u u) (set pv1 u u) u n true true) [u] U').
  Proof.
    intros R Hin Hlen n p nx1 pv1.
    assert (HU : U <> []) by (destruct U; [cbn in Hlen; lia | congruence]).
    pose proof (br_U _ _ _ R HU) as RU.
    split.
    { intro E. apply (ring_single_iff _ _ _ _ u RU Hin) in E. subst U. cbn in Hlen. lia. }
    apply in_split in Hin. destruct Hin as [l1 [l2 EU]].
    rewrite EU in RU. apply ring_rot in RU.
    destruct (l2 ++ l1) as [|m t] eqn:Et.
    { apply (f_equal (@length N)) in EU. rewrite app_length in EU. cbn in EU.
      apply (f_equal (@length N)) in Et. rewrite app_length in Et. cbn in Et. lia. }
    destruct (ring_unlink_head _ _ _ _ _ RU) as (Hn & Hp & RU').
    fold n in Hn. subst m. fold p in Hp, RU'. fold n in RU'.
    exists (n :: t). split.
    { rewrite EU, <- Et. rewrite (Permutation_app_comm l2 l1).
      symmetry. apply Permutation_middle. }
    split; [congruence|].
    pose proof (br_nodup _ _ _ R) as Hnd.
    assert (Hperm : Permutation U (u :: n :: t)).
    { rewrite EU, <- Et. rewrite (Permutation_app_comm l2 l1).
      symmetry. apply Permutation_middle. }
    assert (Hnd3 : NoDup (F ++ u :: n :: t)).
    { eapply Permutation_NoDup; [|exact Hnd]. now apply Permutation_app_head. }
    assert (HuF : ~ In u F) by (eapply notin_app_r; [exact Hnd3 | now left]).
    assert (HnF : ~ In n F) by (eapply notin_app_r; [exact Hnd3 | right; now left]).
    assert (HpF : ~ In p F) by (eapply notin_app_r; [exact Hnd3 | now right]).
    assert (Hut : ~ In u (n :: t)).
    { pose proof (nodup_app_r _ _ Hnd3) as H0. now inversion H0. }
    assert (HndFt : NoDup (F ++ n :: t)).
    { apply NoDup_remove_1 in Hnd3. exact Hnd3. }
    assert (Hdom : forall i, In i ((F ++ [u]) ++ n :: t) <-> i < b).
    { intro i. rewrite <- (br_dom _ _ _ R i). rewrite !in_app_iff.
      rewrite (Permutation_in_iff i Hperm) || idtac.
      split.
      - intros [[H|[<-|[]]]|H]; [now left| |].
        + right. eapply Permutation_in; [symmetry; exact Hperm | now left].
        + right. eapply Permutation_in; [symmetry; exact Hperm | now right].
      - intros [H|H]; [left; now left|].
        eapply Permutation_in in H; [|exact Hperm]. destruct H as [<-|H]; [left; right; now left | now right]. }
    split.
    - intros HF. pose proof (br_F _ _ _ R HF) as RF.
      assert (RF1 : ring nx1 pv1 (free_d bk) F) by (apply ring_frame2; assumption).
      destruct (ring_insert_tail _ _ _ _ u RF1 HuF) as [Hpf RF2].
      unfold link_free.
      assert (HfF : In (free_d bk) F) by (eapply ring_in_head; eauto).
      apply Build_blk_rep; cbn [nx pv free_d used_d has_free has_used].
      + rewrite <- app_assoc. cbn. apply NoDup_rot. cbn.
        apply NoDup_rot in Hnd3. cbn in Hnd3. exact Hnd3.
      + exact Hdom.
      + destruct F; [congruence | reflexivity].
      + reflexivity.
      + intros _. exact RF2.
      + intros _.
        assert (A : ~ In (get pv1 (free_d bk)) (n :: t)) by (eapply notin_app_l; eauto).
        assert (B : ~ In (free_d bk) (n :: t)) by (eapply notin_app_l; eauto).
        apply ring_frame2; [apply ring_frame2| |]; assumption.
    - intros ->. cbn [app] in *.
      apply Build_blk_rep; cbn [nx pv free_d used_d has_free has_used app].
      + exact Hnd3.
      + exact Hdom.
      + reflexivity.
      + reflexivity.
      + intros _. apply ring_single.
      + intros _. apply ring_frame2; [exact RU' | exact Hut | exact Hut].
  Qed.
End Block.
