(* C05/ProofsHeap.v - the simulation relation between the code-level heap (cells, registries,
   VM return cells, records) and the specification's store (alive set, result map, records
   naming calls), and its preservation by every host / thread operation. *)
From Coq Require Import NArith List Bool Lia.
From Morfuse Require Import Base.Arr Base.ListX C05.Model C05.Spec C05.ProofsCells.
Import ListNotations.
Local Open Scope N_scope.

(* ---- association lists ------------------------------------------------------------------ *)
Section Assoc.
  Context {A B : Type} (P : N * A -> N * B -> Prop).
  Hypothesis Pkey : forall x y, P x y -> fst x = fst y.

  Lemma F2_lookup_some l sl r x : Forall2 P l sl -> lookup r l = Some x ->
    exists y, lookup r sl = Some y /\ P (r, x) (r, y).
  Proof.
    induction 1 as [|[k a] [k' b] l sl Hp Hf IH]; cbn; [discriminate|].
    pose proof (Pkey _ _ Hp) as E. cbn in E. subst k'.
    destruct (N.eqb_spec k r) as [->|Hn].
    - intro H. injection H as <-. exists b. split; [reflexivity|exact Hp].
    - exact IH.
  Qed.

  Lemma F2_lookup_none l sl r : Forall2 P l sl -> lookup r l = None -> lookup r sl = None.
  Proof.
    induction 1 as [|[k a] [k' b] l sl Hp Hf IH]; cbn; [reflexivity|].
    pose proof (Pkey _ _ Hp) as E. cbn in E. subst k'.
    destruct (N.eqb_spec k r); [discriminate|exact IH].
  Qed.

  Lemma F2_lookup_some_r l sl r y : Forall2 P l sl -> lookup r sl = Some y ->
    exists x, lookup r l = Some x /\ P (r, x) (r, y).
  Proof.
    induction 1 as [|[k a] [k' b] l sl Hp Hf IH]; cbn; [discriminate|].
    pose proof (Pkey _ _ Hp) as E. cbn in E. subst k'.
    destruct (N.eqb_spec k r) as [->|Hn].
    - intro H. injection H as <-. exists a. split; [reflexivity|exact Hp].
    - exact IH.
  Qed.

  Lemma F2_del l sl r : Forall2 P l sl -> Forall2 P (del r l) (del r sl).
  Proof.
    induction 1 as [|[k a] [k' b] l sl Hp Hf IH]; cbn; [constructor|].
    pose proof (Pkey _ _ Hp) as E. cbn in E. subst k'.
    destruct (k =? r); [exact IH|constructor; assumption].
  Qed.

  Lemma F2_upd l sl r x y : Forall2 P l sl -> P (r, x) (r, y) -> Forall2 P (upd r x l) (upd r y sl).
  Proof.
    intros H Hxy. induction H as [|[k a] [k' b] l sl Hp Hf IH]; cbn; [constructor|].
    pose proof (Pkey _ _ Hp) as E. cbn in E. subst k'.
    destruct (N.eqb_spec k r) as [->|Hn]; constructor; assumption.
  Qed.
End Assoc.

Lemma upd_same {A} r (x : A) l : lookup r l = Some x -> upd r x l = l.
Proof.
  induction l as [|[k a] l IH]; cbn; [reflexivity|].
  destruct (N.eqb_spec k r) as [->|Hn].
  - intro H. now injection H as ->.
  - intro H. f_equal. now apply IH.
Qed.

Lemma lookup_in {A} r (x : A) l : lookup r l = Some x -> In (r, x) l.
Proof.
  induction l as [|[k a] l IH]; cbn; [discriminate|].
  destruct (N.eqb_spec k r) as [->|Hn].
  - intro H. injection H as ->. now left.
  - intro H. right. now apply IH.
Qed.

Lemma lookup_key_in {A} r (x : A) l : lookup r l = Some x -> In r (map fst l).
Proof. intro H. apply lookup_in in H. apply in_map_iff. exists (r, x). now split. Qed.

Lemma in_lookup {A} r (x : A) l : NoDup (map fst l) -> In (r, x) l -> lookup r l = Some x.
Proof.
  induction l as [|[k a] l IH]; cbn; intros Hnd Hin; [destruct Hin|].
  inversion Hnd as [|k' l' Hk Hnd']; subst.
  destruct Hin as [E|Hin].
  - injection E as -> ->. now rewrite N.eqb_refl.
  - destruct (N.eqb_spec k r) as [->|Hn]; [|now apply IH].
    exfalso. apply Hk. apply in_map_iff. exists (r, x). now split.
Qed.

Lemma lookup_none_notin {A} r (l : list (N * A)) : lookup r l = None -> ~ In r (map fst l).
Proof.
  induction l as [|[k a] l IH]; cbn; [tauto|].
  destruct (N.eqb_spec k r) as [->|Hn]; [discriminate|].
  intros H [E|Hin]; [congruence|]. now apply IH.
Qed.

Lemma lookup_app {A} r (l1 l2 : list (N * A)) :
  lookup r (l1 ++ l2) = match lookup r l1 with Some x => Some x | None => lookup r l2 end.
Proof.
  induction l1 as [|[k a] l1 IH]; cbn; [reflexivity|].
  destruct (k =? r); [reflexivity|exact IH].
Qed.

Lemma map_fst_del {A} r (l : list (N * A)) : map fst (del r l) = delN r (map fst l).
Proof.
  induction l as [|[k a] l IH]; cbn; [reflexivity|].
  destruct (k =? r); cbn; [exact IH|now f_equal].
Qed.

Lemma map_fst_upd {A} r (x : A) l : map fst (upd r x l) = map fst l.
Proof.
  induction l as [|[k a] l IH]; cbn; [reflexivity|].
  destruct (N.eqb_spec k r) as [->|Hn]; cbn; [reflexivity|now f_equal].
Qed.

Lemma in_delN t x l : In x (delN t l) <-> In x l /\ x <> t.
Proof.
  unfold delN. rewrite filter_In. split.
  - intros [H E]. split; [exact H|]. destruct (N.eqb_spec x t); [discriminate|assumption].
  - intros [H E]. split; [exact H|]. destruct (N.eqb_spec x t); [contradiction|reflexivity].
Qed.

Lemma nodup_delN t l : NoDup l -> NoDup (delN t l).
Proof. intro H. unfold delN. now apply NoDup_filter. Qed.

Lemma memN_in t l : memN t l = true <-> In t l.
Proof.
  unfold memN. rewrite existsb_exists. split.
  - intros [x [Hx E]]. apply N.eqb_eq in E. now subst.
  - intro H. exists t. split; [exact H|apply N.eqb_refl].
Qed.

Lemma in_del {A} r k (x : A) l : In (k, x) (del r l) -> In (k, x) l /\ k <> r.
Proof.
  induction l as [|[k' a] l IH]; cbn; [tauto|].
  destruct (N.eqb_spec k' r) as [->|Hn].
  - intro H. apply IH in H. tauto.
  - intros [E|H]; [injection E as -> ->; split; [now left|exact Hn]|]. apply IH in H. tauto.
Qed.

Lemma in_del_intro {A} r k (x : A) l : In (k, x) l -> k <> r -> In (k, x) (del r l).
Proof.
  induction l as [|[k' a] l IH]; cbn; [tauto|].
  intros [E|H] Hn.
  - injection E as -> ->. destruct (N.eqb_spec k r); [contradiction|now left].
  - destruct (k' =? r); [now apply IH|right; now apply IH].
Qed.

(* ---- the relation ------------------------------------------------------------------------ *)
Definition sref_val (s : store) (rf : sref) : val :=
  match rf with
  | SNil => VD DNil
  | SCall t =>
      match lookup t (done s) with
      | Some (Some d) => VD d
      | Some None => VD DNil
      | None => VPtr t
      end
  end.

Definition cell_ok (c : ch) (s : store) (x : N) (rf : sref) : Prop :=
  get (cells c) x = Some (sref_val s rf).

Definition rec_rel (c : ch) (s : store) (x : N * rec) (y : N * srec) : Prop :=
  fst x = fst y /\ rargs (snd x) = sargs (snd y) /\
  match rslot (snd x), sslot (snd y) with
  | None, None => True
  | Some k, Some rf => cell_ok c s k rf
  | _, _ => False
  end.

Lemma rec_rel_key c s x y : rec_rel c s x y -> fst x = fst y.
Proof. now intros [H _]. Qed.

Record R (h : heap) (s : store) (xs : list (N * sref)) : Prop := mkR {
  r_good : good (hc h);
  r_nrec : nrec h = snrec s;
  r_ncall : ncall h = sncall s;
  r_alive : map fst (vms h) = alive s;
  r_ninst : ninst h = length (vms h);
  r_recs : Forall2 (rec_rel (hc h) s) (recs h) (srecs s);
  r_vms : forall t rc, In (t, rc) (vms h) -> get (cells (hc h)) rc = Some (VPtr t);
  r_nd_alive : NoDup (alive s);
  r_pending : forall t, In t (alive s) -> lookup t (done s) = None;
  r_xs : forall c rf, In (c, rf) xs -> cell_ok (hc h) s c rf;
  (* the tracked cells are pairwise different *)
  r_d_recs : forall r a r' a' c, In (r, mkRec a (Some c)) (recs h) ->
             In (r', mkRec a' (Some c)) (recs h) -> r = r';
  r_d_vr : forall t r a c, In (t, c) (vms h) -> In (r, mkRec a (Some c)) (recs h) -> False;
  r_d_xs : forall c rf, In (c, rf) xs ->
           (forall t, ~ In (t, c) (vms h)) /\ (forall r a, ~ In (r, mkRec a (Some c)) (recs h));
  r_ptr_fresh : forall c p, holds (hc h) c p -> p < ncall h;
  r_done_fresh : forall t x, lookup t (done s) = Some x -> t < sncall s;
  r_alive_fresh : forall t, In t (alive s) -> t < sncall s;
  r_rec_keys : NoDup (map fst (recs h));
  r_rec_fresh : forall rid, In rid (map fst (recs h)) -> rid < nrec h }.

Lemma recs_transfer c c' s s' l sl :
  Forall2 (rec_rel c s) l sl ->
  (forall r a k rf, In (r, mkRec a (Some k)) l -> cell_ok c s k rf -> cell_ok c' s' k rf) ->
  Forall2 (rec_rel c' s') l sl.
Proof.
  induction 1 as [|[r [a o]] [r' [a' o']] l sl Hp Hf IH]; intro Ht.
  - constructor.
  - constructor.
    + destruct Hp as (H1 & H2 & H3). cbn in *. repeat split; auto.
      destruct o as [k|], o' as [rf|]; auto. apply (Ht r a k rf); [left; reflexivity|exact H3].
    + apply IH. intros r0 a0 k0 rf0 Hin Hok. apply (Ht r0 a0 k0 rf0); [right; exact Hin|exact Hok].
Qed.

Lemma vms_nodup_fst h s xs : R h s xs -> NoDup (map fst (vms h)).
Proof. intro HR. rewrite (r_alive _ _ _ HR). apply (r_nd_alive _ _ _ HR). Qed.

Lemma vms_lookup_in h s xs t rc : R h s xs -> (lookup t (vms h) = Some rc <-> In (t, rc) (vms h)).
Proof.
  intro HR. split; [apply lookup_in|]. apply in_lookup. eapply vms_nodup_fst; eauto.
Qed.

Lemma vms_same_cell h s xs t t' rc : R h s xs -> In (t, rc) (vms h) -> In (t', rc) (vms h) -> t = t'.
Proof.
  intros HR H1 H2. apply (r_vms _ _ _ HR) in H1. apply (r_vms _ _ _ HR) in H2. congruence.
Qed.

Lemma alive_iff h s xs t : R h s xs -> (memN t (alive s) = true <-> exists rc, In (t, rc) (vms h)).
Proof.
  intro HR. rewrite memN_in, <- (r_alive _ _ _ HR), in_map_iff. split.
  - intros [[t' rc] [E H]]. cbn in E. subst. now exists rc.
  - intros [rc H]. exists (t, rc). now split.
Qed.
