(* C05/ProofsHeap.v - the simulation relation between the code-level heap (cells, registries,
   VM return cells, records) and the specification's store (alive set, result map, records
   naming calls), and its preservation by every host / thread operation. *)
From Coq Require Import NArith List Bool Lia.
From Morfuse Require Import Base.Arr Base.ListX C05.Model C05.Spec C05.ProofsCells.
Import ListNotations.
Local Open Scope N_scope.

(* ---- association lists ------------------------------------------------------------------ *)
Section Assoc.
  Context {A B : Type} (P : N * A -> N * B -> Prop).
  Hypothesis Pkey : forall x y, P x y -> fst x = fst y.

  Lemma F2_lookup_some l sl r x : Forall2 P l sl -> lookup r l = Some x ->
    exists y, lookup r sl = Some y /\ P (r, x) (r, y).
  Proof.
    induction 1 as [|[k a] [k' b] l sl Hp Hf IH]; cbn; [discriminate|].
    pose proof (Pkey _ _ Hp) as E. cbn in E. subst k'.
    destruct (N.eqb_spec k r) as [->|Hn].
    - intro H. injection H as <-. exists b. split; [reflexivity|exact Hp].
    - exact IH.
  Qed.

  Lemma F2_lookup_none l sl r : Forall2 P l sl -> lookup r l = None -> lookup r sl = None.
  Proof.
    induction 1 as [|[k a] [k' b] l sl Hp Hf IH]; cbn; [reflexivity|].
    pose proof (Pkey _ _ Hp) as E. cbn in E. subst k'.
    destruct (N.eqb_spec k r); [discriminate|exact IH].
  Qed.

  Lemma F2_lookup_some_r l sl r y : Forall2 P l sl -> lookup r sl = Some y ->
    exists x, lookup r l = Some x /\ P (r, x) (r, y).
  Proof.
    induction 1 as [|[k a] [k' b] l sl Hp Hf IH]; cbn; [discriminate|].
    pose proof (Pkey _ _ Hp) as E. cbn in E. subst k'.
    destruct (N.eqb_spec k r) as [->|Hn].
    - intro H. injection H as <-. exists a. split; [reflexivity|exact Hp].
    - exact IH.
  Qed.

  Lemma F2_del l sl r : Forall2 P l sl -> Forall2 P (del r l) (del r sl).
  Proof.
    induction 1 as [|[k a] [k' b] l sl Hp Hf IH]; cbn; [constructor|].
    pose proof (Pkey _ _ Hp) as E. cbn in E. subst k'.
    destruct (k =? r); [exact IH|constructor; assumption].
  Qed.

  Lemma F2_upd l sl r x y : Forall2 P l sl -> P (r, x) (r, y) -> Forall2 P (upd r x l) (upd r y sl).
  Proof.
    intros H Hxy. induction H as [|[k a] [k' b] l sl Hp Hf IH]; cbn; [constructor|].
    pose proof (Pkey _ _ Hp) as E. cbn in E. subst k'.
    destruct (N.eqb_spec k r) as [->|Hn]; constructor; assumption.
  Qed.
End Assoc.

Lemma upd_same {A} r (x : A) l : lookup r l = Some x -> upd r x l = l.
Proof.
  induction l as [|[k a] l IH]; cbn; [reflexivity|].
  destruct (N.eqb_spec k r) as [->|Hn].
  - intro H. now injection H as ->.
  - intro H. f_equal. now apply IH.
Qed.

Lemma lookup_in {A} r (x : A) l : lookup r l = Some x -> In (r, x) l.
Proof.
  induction l as [|[k a] l IH]; cbn; [discriminate|].
  destruct (N.eqb_spec k r) as [->|Hn].
  - intro H. injection H as ->. now left.
  - intro H. right. now apply IH.
Qed.

Lemma lookup_key_in {A} r (x : A) l : lookup r l = Some x -> In r (map fst l).
Proof. intro H. apply lookup_in in H. apply in_map_iff. exists (r, x). now split. Qed.

Lemma in_lookup {A} r (x : A) l : NoDup (map fst l) -> In (r, x) l -> lookup r l = Some x.
Proof.
  induction l as [|[k a] l IH]; cbn; intros Hnd Hin; [destruct Hin|].
  inversion Hnd as [|k' l' Hk Hnd']; subst.
  destruct Hin as [E|Hin].
  - injection E as -> ->. now rewrite N.eqb_refl.
  - destruct (N.eqb_spec k r) as [->|Hn]; [|now apply IH].
    exfalso. apply Hk. apply in_map_iff. exists (r, x). now split.
Qed.

Lemma lookup_none_notin {A} r (l : list (N * A)) : lookup r l = None -> ~ In r (map fst l).
Proof.
  induction l as [|[k a] l IH]; cbn; [tauto|].
  destruct (N.eqb_spec k r) as [->|Hn]; [discriminate|].
  intros H [E|Hin]; [congruence|]. now apply IH.
Qed.

Lemma lookup_app {A} r (l1 l2 : list (N * A)) :
  lookup r (l1 ++ l2) = match lookup r l1 with Some x => Some x | None => lookup r l2 end.
Proof.
  induction l1 as [|[k a] l1 IH]; cbn; [reflexivity|].
  destruct (k =? r); [reflexivity|exact IH].
Qed.

Lemma map_fst_del {A} r (l : list (N * A)) : map fst (del r l) = delN r (map fst l).
Proof.
  induction l as [|[k a] l IH]; cbn; [reflexivity|].
  destruct (k =? r); cbn; [exact IH|now f_equal].
Qed.

Lemma map_fst_upd {A} r (x : A) l : map fst (upd r x l) = map fst l.
Proof.
  induction l as [|[k a] l IH]; cbn; [reflexivity|].
  destruct (N.eqb_spec k r) as [->|Hn]; cbn; [reflexivity|now f_equal].
Qed.

Lemma in_delN t x l : In x (delN t l) <-> In x l /\ x <> t.
Proof.
  unfold delN. rewrite filter_In. split.
  - intros [H E]. split; [exact H|]. destruct (N.eqb_spec x t); [discriminate|assumption].
  - intros [H E]. split; [exact H|]. destruct (N.eqb_spec x t); [contradiction|reflexivity].
Qed.

Lemma nodup_delN t l : NoDup l -> NoDup (delN t l).
Proof. intro H. unfold delN. now apply NoDup_filter. Qed.

Lemma memN_in t l : memN t l = true <-> In t l.
Proof.
  unfold memN. rewrite existsb_exists. split.
  - intros [x [Hx E]]. apply N.eqb_eq in E. now subst.
  - intro H. exists t. split; [exact H|apply N.eqb_refl].
Qed.

Lemma in_del {A} r k (x : A) l : In (k, x) (del r l) -> In (k, x) l /\ k <> r.
Proof.
  induction l as [|[k' a] l IH]; cbn; [tauto|].
  destruct (N.eqb_spec k' r) as [->|Hn].
  - intro H. apply IH in H. tauto.
  - intros [E|H]; [injection E as -> ->; split; [now left|exact Hn]|]. apply IH in H. tauto.
Qed.

Lemma in_del_intro {A} r k (x : A) l : In (k, x) l -> k <> r -> In (k, x) (del r l).
Proof.
  induction l as [|[k' a] l IH]; cbn; [tauto|].
  intros [E|H] Hn.
  - injection E as -> ->. destruct (N.eqb_spec k r); [contradiction|now left].
  - destruct (k' =? r); [now apply IH|right; now apply IH].
Qed.

(* ---- the relation ------------------------------------------------------------------------ *)
Definition sref_val (s : store) (rf : sref) : val :=
  match rf with
  | SNil => VD DNil
  | SCall t =>
      match lookup t (done s) with
      | Some (Some d) => VD d
      | Some None => VD DNil
      | None => VPtr t
      end
  end.

Definition cell_ok (c : ch) (s : store) (x : N) (rf : sref) : Prop :=
  get (cells c) x = Some (sref_val s rf).

Definition rec_rel (c : ch) (s : store) (x : N * rec) (y : N * srec) : Prop :=
  fst x = fst y /\ rargs (snd x) = sargs (snd y) /\
  match rslot (snd x), sslot (snd y) with
  | None, None => True
  | Some k, Some rf => cell_ok c s k rf
  | _, _ => False
  end.

Lemma rec_rel_key c s x y : rec_rel c s x y -> fst x = fst y.
Proof. now intros [H _]. Qed.

Record R (h : heap) (s : store) (xs : list (N * sref)) : Prop := mkR {
  r_good : good (hc h);
  r_nrec : nrec h = snrec s;
  r_ncall : ncall h = sncall s;
  r_alive : map fst (vms h) = alive s;
  r_ninst : ninst h = length (vms h);
  r_recs : Forall2 (rec_rel (hc h) s) (recs h) (srecs s);
  r_vms : forall t rc, In (t, rc) (vms h) -> get (cells (hc h)) rc = Some (VPtr t);
  r_nd_alive : NoDup (alive s);
  r_pending : forall t, In t (alive s) -> lookup t (done s) = None;
  r_xs : forall c rf, In (c, rf) xs -> cell_ok (hc h) s c rf;
  (* the tracked cells are pairwise different *)
  r_d_recs : forall r a r' a' c, In (r, mkRec a (Some c)) (recs h) ->
             In (r', mkRec a' (Some c)) (recs h) -> r = r';
  r_d_vr : forall t r a c, In (t, c) (vms h) -> In (r, mkRec a (Some c)) (recs h) -> False;
  r_d_xs : forall c rf, In (c, rf) xs ->
           (forall t, ~ In (t, c) (vms h)) /\ (forall r a, ~ In (r, mkRec a (Some c)) (recs h));
  r_ptr_fresh : forall c p, holds (hc h) c p -> p < ncall h;
  r_done_fresh : forall t x, lookup t (done s) = Some x -> t < sncall s;
  r_alive_fresh : forall t, In t (alive s) -> t < sncall s;
  r_rec_keys : NoDup (map fst (recs h));
  r_rec_fresh : forall rid, In rid (map fst (recs h)) -> rid < nrec h }.

Lemma recs_transfer c c' s s' l sl :
  Forall2 (rec_rel c s) l sl ->
  (forall r a k rf, In (r, mkRec a (Some k)) l -> cell_ok c s k rf -> cell_ok c' s' k rf) ->
  Forall2 (rec_rel c' s') l sl.
Proof.
  induction 1 as [|[r [a o]] [r' [a' o']] l sl Hp Hf IH]; intro Ht.
  - constructor.
  - constructor.
    + destruct Hp as (H1 & H2 & H3). cbn in *. repeat split; auto.
      destruct o as [k|], o' as [rf|]; auto. apply (Ht r a k rf); [left; reflexivity|exact H3].
    + apply IH. intros r0 a0 k0 rf0 Hin Hok. apply (Ht r0 a0 k0 rf0); [right; exact Hin|exact Hok].
Qed.

Lemma vms_nodup_fst h s xs : R h s xs -> NoDup (map fst (vms h)).
Proof. intro HR. rewrite (r_alive _ _ _ HR). apply (r_nd_alive _ _ _ HR). Qed.

Lemma vms_lookup_in h s xs t rc : R h s xs -> (lookup t (vms h) = Some rc <-> In (t, rc) (vms h)).
Proof.
  intro HR. split; [apply lookup_in|]. apply in_lookup. eapply vms_nodup_fst; eauto.
Qed.

Lemma vms_same_cell h s xs t t' rc : R h s xs -> In (t, rc) (vms h) -> In (t', rc) (vms h) -> t = t'.
Proof.
  intros HR H1 H2. apply (r_vms _ _ _ HR) in H1. apply (r_vms _ _ _ HR) in H2. congruence.
Qed.

Lemma alive_iff h s xs t : R h s xs -> (memN t (alive s) = true <-> exists rc, In (t, rc) (vms h)).
Proof.
  intro HR. rewrite memN_in, <- (r_alive _ _ _ HR), in_map_iff. split.
  - intros [[t' rc] [E H]]. cbn in E. subst. now exists rc.
  - intros [rc H]. exists (t, rc). now split.
Qed.

(* ---- updates of association lists as maps -------------------------------------------------- *)
Definition amap {A} (f : N -> A -> A) (l : list (N * A)) : list (N * A) :=
  map (fun x => (fst x, f (fst x) (snd x))) l.

Lemma amap_id {A} (l : list (N * A)) : amap (fun _ b => b) l = l.
Proof. unfold amap. induction l as [|[k a] l IH]; cbn; [reflexivity|now f_equal]. Qed.

Lemma upd_amap {A} r (y : A) l : NoDup (map fst l) ->
  upd r y l = amap (fun k b => if k =? r then y else b) l.
Proof.
  unfold amap. induction l as [|[k a] l IH]; cbn; intro Hnd; [reflexivity|].
  inversion Hnd as [|k' l' Hk Hnd']; subst.
  destruct (N.eqb_spec k r) as [->|Hn].
  - f_equal. clear IH Hnd Hnd'. induction l as [|[k a'] l IH]; cbn; [reflexivity|].
    cbn in Hk. destruct (N.eqb_spec k r) as [->|Hn]; [exfalso; apply Hk; now left|].
    f_equal. apply IH. intro H. apply Hk. now right.
  - f_equal. now apply IH.
Qed.

Lemma F2_amap {A B} (P P' : N * A -> N * B -> Prop) f g l sl :
  Forall2 P l sl ->
  (forall x y, In x l -> In y sl -> P x y ->
               P' (fst x, f (fst x) (snd x)) (fst y, g (fst y) (snd y))) ->
  Forall2 P' (amap f l) (amap g sl).
Proof.
  unfold amap. induction 1 as [|x y l sl Hp Hf IH]; cbn; intro Hi; [constructor|].
  constructor.
  - apply (Hi x y); [left; reflexivity|left; reflexivity|exact Hp].
  - apply IH. intros x' y' Hx Hy. apply (Hi x' y'); right; assumption.
Qed.

Lemma F2_keys {A B} (P : N * A -> N * B -> Prop) l sl :
  (forall x y, P x y -> fst x = fst y) -> Forall2 P l sl -> map fst l = map fst sl.
Proof.
  intro Pk. induction 1 as [|x y l sl Hp Hf IH]; cbn; [reflexivity|].
  f_equal; [now apply Pk|exact IH].
Qed.

Lemma in_amap {A} (f : N -> A -> A) k z l : In (k, z) (amap f l) -> exists a, In (k, a) l /\ z = f k a.
Proof.
  unfold amap. rewrite in_map_iff. intros [[k' a] [E H]]. cbn in E. injection E as -> <-.
  now exists a.
Qed.

Lemma map_fst_amap {A} (f : N -> A -> A) l : map fst (amap f l) = map fst l.
Proof. unfold amap. rewrite map_map. cbn. reflexivity. Qed.

Lemma delN_notin t l : ~ In t l -> delN t l = l.
Proof.
  unfold delN. induction l as [|a l IH]; cbn; intro H; [reflexivity|].
  destruct (N.eqb_spec a t) as [->|Hn]; [exfalso; apply H; now left|].
  cbn. f_equal. apply IH. intro Hin. apply H. now right.
Qed.

Lemma del_notin {A} t (l : list (N * A)) : ~ In t (map fst l) -> del t l = l.
Proof.
  induction l as [|[k a] l IH]; cbn; intro H; [reflexivity|].
  destruct (N.eqb_spec k t) as [->|Hn]; [exfalso; apply H; now left|].
  f_equal. apply IH. intro Hin. apply H. now right.
Qed.

Lemma length_del {A} t (x : A) l : NoDup (map fst l) -> lookup t l = Some x ->
  length (del t l) = pred (length l).
Proof.
  induction l as [|[k a] l IH]; cbn; intros Hnd Hl; [discriminate|].
  inversion Hnd as [|k' l' Hk Hnd']; subst.
  destruct (N.eqb_spec k t) as [->|Hn].
  - now rewrite del_notin.
  - cbn. rewrite (IH Hnd' Hl). destruct l as [|y l]; [discriminate|reflexivity].
Qed.

Lemma store_eta s : mkStore (alive s) (done s) (srecs s) (snrec s) (sncall s) = s.
Proof. now destruct s. Qed.

Lemma heap_eta h : mkHeap (hc h) (vms h) (recs h) (nrec h) (ncall h) (ninst h) (tmp h) = h.
Proof. now destruct h. Qed.

Lemma tracked_live h s xs : R h s xs ->
  (forall t rc, In (t, rc) (vms h) -> live (hc h) rc) /\
  (forall r a k, In (r, mkRec a (Some k)) (recs h) -> live (hc h) k) /\
  (forall c rf, In (c, rf) xs -> live (hc h) c).
Proof.
  intro HR. repeat split.
  - intros t rc H. apply (r_vms _ _ _ HR) in H. unfold live. congruence.
  - intros r a k. generalize (r_recs _ _ _ HR). generalize (recs h) (srecs s).
    induction 1 as [|x y l sl Hp Hf IH]; intro H; [destruct H|].
    destruct H as [->|H]; [|now apply IH].
    destruct Hp as (_ & _ & Hs). cbn in Hs. destruct (sslot (snd y)); [|destruct Hs].
    unfold cell_ok in Hs. unfold live. congruence.
  - intros c rf H. apply (r_xs _ _ _ HR) in H. unfold cell_ok in H. unfold live. congruence.
Qed.

(* a cell that is not touched keeps satisfying its reference when the result map is unchanged *)
Lemma cell_ok_frame c c' s s' k rf :
  done s' = done s -> get (cells c') k = get (cells c) k -> cell_ok c s k rf -> cell_ok c' s' k rf.
Proof. unfold cell_ok, sref_val. intros -> ->. auto. Qed.

Ltac sp := cbn [hc vms recs nrec ncall ninst tmp alive done srecs snrec sncall fst snd].

(* ---- a thread is deleted ------------------------------------------------------------------ *)
Lemma vm_kill_R t h s xs : R h s xs -> R (vm_kill t h) (s_kill t s) xs /\ tmp (vm_kill t h) = tmp h.
Proof.
  intro HR. unfold vm_kill, s_kill.
  destruct (lookup t (vms h)) as [rc|] eqn:El.
  - (* alive *)
    assert (Hin : In (t, rc) (vms h)) by now apply lookup_in.
    assert (Hrc : get (cells (hc h)) rc = Some (VPtr t)) by now apply (r_vms _ _ _ HR).
    destruct (destroy_ok (hc h) rc (r_good _ _ _ HR)) as (G & C & Nc); [unfold live; congruence|].
    split; [|reflexivity].
    assert (Hother : forall t' rc', In (t', rc') (del t (vms h)) -> In (t', rc') (vms h) /\ rc' <> rc).
    { intros t' rc' H. apply in_del in H. destruct H as [H Hn]. split; [exact H|].
      intro E. subst. apply Hn. eapply vms_same_cell; eauto. }
    constructor; sp.
    + exact G.
    + apply (r_nrec _ _ _ HR).
    + apply (r_ncall _ _ _ HR).
    + rewrite map_fst_del. now rewrite (r_alive _ _ _ HR).
    + rewrite (r_ninst _ _ _ HR). symmetry. eapply length_del; eauto. eapply vms_nodup_fst; eauto.
    + eapply recs_transfer; [apply (r_recs _ _ _ HR)|].
      intros r a k rf Hk. apply cell_ok_frame; [reflexivity|].
      rewrite C, gso; [reflexivity|]. intro E. subst. eapply (r_d_vr _ _ _ HR); eauto.
    + intros t' rc' H. destruct (Hother _ _ H) as [H1 H2]. rewrite C, gso by exact H2.
      now apply (r_vms _ _ _ HR).
    + apply nodup_delN. apply (r_nd_alive _ _ _ HR).
    + intros t' H. apply in_delN in H. apply (r_pending _ _ _ HR). tauto.
    + intros c rf H. eapply cell_ok_frame; [reflexivity| |apply (r_xs _ _ _ HR); exact H].
      rewrite C, gso; [reflexivity|]. intro E. subst.
      destruct (r_d_xs _ _ _ HR _ _ H) as [H1 _]. eapply H1; eauto.
    + apply (r_d_recs _ _ _ HR).
    + intros t' r a c H. destruct (Hother _ _ H) as [H1 _]. eapply (r_d_vr _ _ _ HR); eauto.
    + intros c rf H. destruct (r_d_xs _ _ _ HR _ _ H) as [H1 H2]. split; [|exact H2].
      intros t' H'. destruct (Hother _ _ H') as [H3 _]. eapply H1; eauto.
    + intros c p H. unfold holds in H. rewrite C, get_set in H.
      destruct (c =? rc); [discriminate|]. now apply (r_ptr_fresh _ _ _ HR c).
    + apply (r_done_fresh _ _ _ HR).
    + intros t' H. apply in_delN in H. apply (r_alive_fresh _ _ _ HR). tauto.
    + apply (r_rec_keys _ _ _ HR).
    + apply (r_rec_fresh _ _ _ HR).
  - (* no such thread *)
    split; [|reflexivity].
    assert (Hn : ~ In t (alive s)).
    { rewrite <- (r_alive _ _ _ HR). now apply lookup_none_notin. }
    rewrite (delN_notin _ _ Hn), store_eta. exact HR.
Qed.

(* ---- a thread ends ------------------------------------------------------------------------ *)
Definition delivered (r : option dval) : val :=
  match r with Some d => VD d | None => VD DNil end.

Lemma vm_end_R t r h s xs : R h s xs -> R (vm_end t r h) (s_end t r s) xs /\ tmp (vm_end t r h) = tmp h.
Proof.
  intro HR. unfold vm_end, s_end.
  destruct (lookup t (vms h)) as [rc|] eqn:El.
  - assert (Hin : In (t, rc) (vms h)) by now apply lookup_in.
    assert (Hal : memN t (alive s) = true) by (apply (alive_iff _ _ _ t HR); now exists rc).
    rewrite Hal.
    assert (Hrc : get (cells (hc h)) rc = Some (VPtr t)) by now apply (r_vms _ _ _ HR).
    rewrite Hrc. split; [|reflexivity].
    pose proof (r_good _ _ _ HR) as Hg.
    destruct (re_cell _ _ (proj2 Hg) rc t) as [l [Hl _]]; [discriminate|exact Hrc|].
    assert (Hpend : lookup t (done s) = None) by (apply (r_pending _ _ _ HR); now apply memN_in).
    (* the delivery *)
    set (c1 := match r with
               | Some d => set_value_ref (hc h) t d rc
               | None => ptr_clear (hc h) t
               end).
    assert (D : good c1 /\ ncell c1 = ncell (hc h) /\
                forall k, (holds (hc h) k t -> k <> rc -> get (cells c1) k = Some (delivered r)) /\
                          (holds (hc h) k t -> exists d', get (cells c1) k = Some (VD d')) /\
                          (~ holds (hc h) k t -> get (cells c1) k = get (cells (hc h)) k)).
    { unfold c1. destruct r as [d|].
      - exact (set_value_ref_ok (hc h) t d rc l Hg Hl).
      - destruct (ptr_clear_ok (hc h) t l Hg Hl) as (G & Nc & C). split; [exact G|]. split; [exact Nc|].
        intro k. destruct (C k) as [C1 C2]. repeat split; auto.
        intro Hk. exists DNil. auto. }
    destruct D as (G1 & N1 & D).
    destruct (D rc) as (_ & [d' Hrc1] & _); [exact Hrc|].
    destruct (destroy_ok c1 rc G1) as (G2 & C2 & N2); [unfold live; congruence|].
    (* what a tracked cell other than rc holds afterwards *)
    assert (Hcell : forall k rf, k <> rc -> cell_ok (hc h) s k rf ->
              cell_ok (destroy c1 rc) (mkStore (delN t (alive s)) ((t, r) :: done s) (srecs s) (snrec s) (sncall s)) k rf).
    { intros k rf Hk Hok. unfold cell_ok in *. rewrite C2, gso by exact Hk.
      destruct (D k) as (Dv & _ & Dn). unfold sref_val in *. sp.
      destruct rf as [t'|].
      - cbn [lookup]. destruct (N.eqb_spec t t') as [<-|Hn].
        + rewrite Hpend in Hok. rewrite Dv by (exact Hok || exact Hk). destruct r; reflexivity.
        + rewrite Dn; [exact Hok|]. unfold holds. rewrite Hok.
          destruct (lookup t' (done s)) as [[d0|]|]; congruence.
      - rewrite Dn; [exact Hok|]. unfold holds. rewrite Hok. discriminate. }
    assert (Hother : forall t' rc', In (t', rc') (del t (vms h)) ->
                     In (t', rc') (vms h) /\ rc' <> rc /\ t' <> t).
    { intros t' rc' H. apply in_del in H. destruct H as [H Hn]. split; [exact H|]. split; [|exact Hn].
      intro E. subst. apply Hn. eapply vms_same_cell; eauto. }
    constructor; sp.
    + exact G2.
    + apply (r_nrec _ _ _ HR).
    + apply (r_ncall _ _ _ HR).
    + rewrite map_fst_del. now rewrite (r_alive _ _ _ HR).
    + rewrite (r_ninst _ _ _ HR). symmetry. eapply length_del; eauto. eapply vms_nodup_fst; eauto.
    + eapply recs_transfer; [apply (r_recs _ _ _ HR)|].
      intros r0 a k rf Hk. apply Hcell. intro E. subst. eapply (r_d_vr _ _ _ HR); eauto.
    + intros t' rc' H. destruct (Hother _ _ H) as (H1 & H2 & H3). rewrite C2, gso by exact H2.
      destruct (D rc') as (_ & _ & Dn). rewrite Dn; [now apply (r_vms _ _ _ HR)|].
      unfold holds. rewrite (r_vms _ _ _ HR _ _ H1). congruence.
    + apply nodup_delN. apply (r_nd_alive _ _ _ HR).
    + intros t' H. apply in_delN in H. destruct H as [H Hn]. cbn [lookup].
      destruct (N.eqb_spec t t'); [congruence|]. now apply (r_pending _ _ _ HR).
    + intros c rf H. apply Hcell; [|apply (r_xs _ _ _ HR); exact H]. intro E. subst.
      destruct (r_d_xs _ _ _ HR _ _ H) as [H1 _]. eapply H1; eauto.
    + apply (r_d_recs _ _ _ HR).
    + intros t' r0 a c H. destruct (Hother _ _ H) as [H1 _]. eapply (r_d_vr _ _ _ HR); eauto.
    + intros c rf H. destruct (r_d_xs _ _ _ HR _ _ H) as [H1 H2]. split; [|exact H2].
      intros t' H'. destruct (Hother _ _ H') as [H3 _]. eapply H1; eauto.
    + intros c p H. unfold holds in H. rewrite C2, get_set in H.
      destruct (c =? rc); [discriminate|].
      destruct (D c) as (_ & Dh & Dn).
      destruct (N.eq_dec p t) as [->|Hp].
      * apply (r_ptr_fresh _ _ _ HR rc). exact Hrc.
      * apply (r_ptr_fresh _ _ _ HR c). unfold holds. rewrite <- Dn; [exact H|].
        intro Hh. destruct (Dh Hh) as [d0 E]. congruence.
    + intros t' x. cbn [lookup]. destruct (N.eqb_spec t t') as [<-|Hn].
      * intros _. apply (r_alive_fresh _ _ _ HR). now apply memN_in.
      * apply (r_done_fresh _ _ _ HR).
    + intros t' H. apply in_delN in H. apply (r_alive_fresh _ _ _ HR). tauto.
    + apply (r_rec_keys _ _ _ HR).
    + apply (r_rec_fresh _ _ _ HR).
  - split; [|reflexivity].
    assert (Hn : memN t (alive s) = false).
    { destruct (memN t (alive s)) eqn:E; [|reflexivity].
      apply (alive_iff _ _ _ t HR) in E. destruct E as [rc H].
      apply (vms_lookup_in _ _ _ t rc HR) in H. congruence. }
    rewrite Hn. exact HR.
Qed.

(* ---- the host call: beginning ------------------------------------------------------------- *)
Lemma call_begin_nolabel_R h s :
  R h s [] -> R (fst (call_begin false h)) (fst (s_begin false s)) [] /\
              snd (call_begin false h) = snd (s_begin false s).
Proof.
  intro HR. unfold call_begin, s_begin. sp. split; [|apply (r_ncall _ _ _ HR)].
  constructor; sp.
  - apply (r_good _ _ _ HR).
  - apply (r_nrec _ _ _ HR).
  - rewrite (r_ncall _ _ _ HR). reflexivity.
  - apply (r_alive _ _ _ HR).
  - cbn. apply (r_ninst _ _ _ HR).
  - apply (r_recs _ _ _ HR).
  - apply (r_vms _ _ _ HR).
  - apply (r_nd_alive _ _ _ HR).
  - apply (r_pending _ _ _ HR).
  - apply (r_xs _ _ _ HR).
  - apply (r_d_recs _ _ _ HR).
  - apply (r_d_vr _ _ _ HR).
  - apply (r_d_xs _ _ _ HR).
  - intros c p H. pose proof (r_ptr_fresh _ _ _ HR c p H). lia.
  - intros t x H. pose proof (r_done_fresh _ _ _ HR t x H). lia.
  - intros t H. pose proof (r_alive_fresh _ _ _ HR t H). lia.
  - apply (r_rec_keys _ _ _ HR).
  - apply (r_rec_fresh _ _ _ HR).
Qed.

Lemma call_begin_R h s :
  R h s [] ->
  let h' := fst (call_begin true h) in
  let t := snd (call_begin true h) in
  R h' (fst (s_begin true s)) [(tmp h', SCall t)] /\ t = snd (s_begin true s) /\ t = ncall h.
Proof.
  intro HR. unfold call_begin, s_begin.
  pose proof (r_good _ _ _ HR) as G0.
  destruct (alloc_ok (hc h) DNil G0) as (G1 & S1 & C1 & N1).
  destruct (alloc (hc h) (VD DNil)) as [c1 rc] eqn:E1. cbn [fst snd] in *. subst rc.
  destruct (alloc_ok c1 DNil G1) as (G2 & S2 & C2 & N2).
  destruct (alloc c1 (VD DNil)) as [c2 tm] eqn:E2. cbn [fst snd] in *. subst tm.
  set (rc := ncell (hc h)) in *. set (tm := ncell c1) in *.
  assert (Htm : tm = rc + 1) by (unfold tm; exact N1).
  assert (Hc2 : forall k, get (cells c2) k =
            if k =? tm then Some (VD DNil) else if k =? rc then Some (VD DNil) else get (cells (hc h)) k).
  { intro k. rewrite C2, C1, !get_set. reflexivity. }
  set (t := ncall h).
  assert (Hnoh : forall k, ~ holds c2 k t).
  { intros k Hk. unfold holds in Hk. rewrite Hc2 in Hk.
    destruct (k =? tm); [discriminate|]. destruct (k =? rc); [discriminate|].
    pose proof (r_ptr_fresh _ _ _ HR k t Hk). unfold t in *. lia. }
  destruct (new_pointer_ok c2 tm t DNil G2) as (G3 & C3 & N3).
  { rewrite Hc2, N.eqb_refl. reflexivity. }
  { exact Hnoh. }
  destruct (copy_assign_ok (new_pointer c2 tm t) rc tm (VPtr t) G3) as (G4 & C4 & N4).
  { lia. }
  { unfold live. rewrite C3, gso by lia. rewrite Hc2.
    destruct (N.eqb_spec rc tm); [lia|]. rewrite N.eqb_refl. discriminate. }
  { rewrite C3. apply gss. }
  set (c4 := copy_assign (new_pointer c2 tm t) rc tm) in *.
  assert (Hc4 : forall k, get (cells c4) k =
            if k =? rc then Some (VPtr t) else if k =? tm then Some (VPtr t) else get (cells (hc h)) k).
  { intro k. rewrite C4, C3, !get_set, Hc2.
    destruct (k =? rc); [reflexivity|]. destruct (k =? tm); reflexivity. }
  assert (Hfresh : forall k, live (hc h) k -> k <> rc /\ k <> tm).
  { intros k Hk. destruct G0 as [_ [_ _ Hf]]. unfold live in Hk.
    split; intro E; apply Hk; apply Hf; unfold rc in *; lia. }
  assert (Hold : forall k, live (hc h) k -> get (cells c4) k = get (cells (hc h)) k).
  { intros k Hk. destruct (Hfresh k Hk) as [H1 H2]. rewrite Hc4.
    destruct (N.eqb_spec k rc); [contradiction|]. destruct (N.eqb_spec k tm); [contradiction|reflexivity]. }
  destruct (tracked_live _ _ _ HR) as (Lv & Lr & _).
  assert (Hnd : lookup t (done s) = None).
  { destruct (lookup t (done s)) eqn:E; [|reflexivity].
    pose proof (r_done_fresh _ _ _ HR _ _ E). rewrite <- (r_ncall _ _ _ HR) in H. unfold t in H. lia. }
  assert (Hna : ~ In t (alive s)).
  { intro H. pose proof (r_alive_fresh _ _ _ HR _ H). rewrite <- (r_ncall _ _ _ HR) in H0. unfold t in H0. lia. }
  sp. split; [|split; [apply (r_ncall _ _ _ HR)|reflexivity]].
  constructor; sp.
  - exact G4.
  - apply (r_nrec _ _ _ HR).
  - unfold t. rewrite (r_ncall _ _ _ HR). reflexivity.
  - rewrite map_app. cbn. rewrite (r_alive _ _ _ HR). unfold t. now rewrite (r_ncall _ _ _ HR).
  - rewrite app_length. cbn. rewrite (r_ninst _ _ _ HR). lia.
  - eapply recs_transfer; [apply (r_recs _ _ _ HR)|].
    intros r a k rf Hk. apply cell_ok_frame; [reflexivity|]. apply Hold. eapply Lr; eauto.
  - intros t' rc' H. apply in_app_or in H. destruct H as [H|[E|[]]].
    + rewrite Hold by (eapply Lv; eauto). now apply (r_vms _ _ _ HR).
    + injection E as <- <-. rewrite Hc4, N.eqb_refl. reflexivity.
  - rewrite <- (r_ncall _ _ _ HR). apply nodup_snoc; [apply (r_nd_alive _ _ _ HR)|exact Hna].
  - intros t' H. apply in_app_or in H. destruct H as [H|[E|[]]].
    + now apply (r_pending _ _ _ HR).
    + rewrite <- E, <- (r_ncall _ _ _ HR). exact Hnd.
  - intros c rf [E|[]]. injection E as <- <-. unfold cell_ok, sref_val. sp. fold t. rewrite Hnd.
    rewrite Hc4. destruct (tm =? rc); [reflexivity|]. now rewrite N.eqb_refl.
  - apply (r_d_recs _ _ _ HR).
  - intros t' r a c H Hr. apply in_app_or in H. destruct H as [H|[E|[]]].
    + eapply (r_d_vr _ _ _ HR); eauto.
    + injection E as <- <-. apply (Lr _ _ _) in Hr. apply Hfresh in Hr. tauto.
  - intros c rf [E|[]]. injection E as <- <-. split.
    + intros t' H. apply in_app_or in H. destruct H as [H|[E|[]]].
      * apply Lv in H. apply Hfresh in H. tauto.
      * injection E as _ E. lia.
    + intros r a H. apply Lr in H. apply Hfresh in H. tauto.
  - intros c p H. unfold holds in H. rewrite Hc4 in H.
    destruct (c =? rc); [injection H as <-; unfold t; lia|].
    destruct (c =? tm); [injection H as <-; unfold t; lia|].
    pose proof (r_ptr_fresh _ _ _ HR c p H). lia.
  - intros t' x H. pose proof (r_done_fresh _ _ _ HR t' x H). lia.
  - intros t' H. apply in_app_or in H. destruct H as [H|[E|[]]].
    + pose proof (r_alive_fresh _ _ _ HR t' H). lia.
    + lia.
  - apply (r_rec_keys _ _ _ HR).
  - apply (r_rec_fresh _ _ _ HR).
Qed.

(* ---- a record is added ---------------------------------------------------------------------- *)
Lemma R_add_rec h s xs c' a o o' tm' :
  R h s xs -> good c' ->
  (forall t rc, In (t, rc) (vms h) -> get (cells c') rc = get (cells (hc h)) rc) ->
  (forall r a k, In (r, mkRec a (Some k)) (recs h) -> get (cells c') k = get (cells (hc h)) k) ->
  (forall k p, holds c' k p -> p < ncall h) ->
  match o, o' with
  | None, None => True
  | Some k, Some rf => ~ live (hc h) k /\ cell_ok c' s k rf
  | _, _ => False
  end ->
  R (mkHeap c' (vms h) (recs h ++ [(nrec h, mkRec a o)]) (nrec h + 1) (ncall h) (ninst h) tm')
    (mkStore (alive s) (done s) (srecs s ++ [(snrec s, mkSRec a o')]) (snrec s + 1) (sncall s)) [].
Proof.
  intros HR G Hv Hr Hp Ho.
  destruct (tracked_live _ _ _ HR) as (Lv & Lr & _).
  constructor; sp.
  - exact G.
  - now rewrite (r_nrec _ _ _ HR).
  - apply (r_ncall _ _ _ HR).
  - apply (r_alive _ _ _ HR).
  - apply (r_ninst _ _ _ HR).
  - apply Forall2_app.
    + eapply recs_transfer; [apply (r_recs _ _ _ HR)|].
      intros r a0 k rf Hk. apply cell_ok_frame; [reflexivity|]. eapply Hr; eauto.
    + constructor; [|constructor]. split; [apply (r_nrec _ _ _ HR)|]. split; [reflexivity|].
      cbn. destruct o, o'; tauto.
  - intros t rc H. rewrite (Hv _ _ H). now apply (r_vms _ _ _ HR).
  - apply (r_nd_alive _ _ _ HR).
  - apply (r_pending _ _ _ HR).
  - intros c rf [].
  - intros r a1 r' a2 c H1 H2. apply in_app_or in H1. apply in_app_or in H2.
    destruct H1 as [H1|[E1|[]]], H2 as [H2|[E2|[]]].
    + eapply (r_d_recs _ _ _ HR); eauto.
    + injection E2 as <- <- ->. destruct o'; [|destruct Ho]. destruct Ho as [Hl _].
      exfalso. apply Hl. eapply Lr; eauto.
    + injection E1 as <- <- ->. destruct o'; [|destruct Ho]. destruct Ho as [Hl _].
      exfalso. apply Hl. eapply Lr; eauto.
    + congruence.
  - intros t r a1 c H1 H2. apply in_app_or in H2. destruct H2 as [H2|[E2|[]]].
    + eapply (r_d_vr _ _ _ HR); eauto.
    + injection E2 as <- <- ->. destruct o'; [|destruct Ho]. destruct Ho as [Hl _].
      apply Hl. eapply Lv; eauto.
  - intros c rf [].
  - exact Hp.
  - apply (r_done_fresh _ _ _ HR).
  - apply (r_alive_fresh _ _ _ HR).
  - rewrite map_app. cbn. apply nodup_snoc; [apply (r_rec_keys _ _ _ HR)|].
    intro H. apply (r_rec_fresh _ _ _ HR) in H. lia.
  - intros rid H. rewrite map_app in H. apply in_app_or in H. destruct H as [H|[E|[]]].
    + apply (r_rec_fresh _ _ _ HR) in H. lia.
    + cbn in E. lia.
Qed.

Lemma call_finish_nolabel_R t args h s :
  R h s [] -> R (call_finish false t args h) (s_finish false t args s) [].
Proof.
  intro HR. unfold call_finish, s_finish.
  apply (R_add_rec h s [] (hc h) args None None (tmp h) HR); auto.
  - apply (r_good _ _ _ HR).
  - apply (r_ptr_fresh _ _ _ HR).
Qed.

Lemma call_finish_R t args h s :
  R h s [(tmp h, SCall t)] -> R (call_finish true t args h) (s_finish true t args s) [].
Proof.
  intro HR. unfold call_finish, s_finish.
  pose proof (r_good _ _ _ HR) as G0.
  assert (Htmp : cell_ok (hc h) s (tmp h) (SCall t)) by (apply (r_xs _ _ _ HR); now left).
  destruct (r_d_xs _ _ _ HR (tmp h) (SCall t)) as [Dv Dr]; [now left|].
  unfold cell_ok in Htmp. rewrite Htmp.
  assert (Hl : live (hc h) (tmp h)) by (unfold live; congruence).
  assert (NoSlot : sref_val s (SCall t) = VD DNil ->
            R (mkHeap (destroy (hc h) (tmp h)) (vms h) (recs h ++ [(nrec h, mkRec args None)]) (nrec h + 1)
                      (ncall h) (ninst h) (tmp h))
              (mkStore (alive s) (done s) (srecs s ++ [(snrec s, mkSRec args None)]) (snrec s + 1) (sncall s)) []).
  { intros _. destruct (destroy_ok (hc h) (tmp h) G0 Hl) as (G1 & C1 & N1).
    apply (R_add_rec h s _ _ args None None (tmp h) HR); auto.
    - intros t' rc H. rewrite C1, gso; [reflexivity|]. intro E. subst. eapply Dv; eauto.
    - intros r a k H. rewrite C1, gso; [reflexivity|]. intro E. subst. eapply Dr; eauto.
    - intros k p H. unfold holds in H. rewrite C1, get_set in H. destruct (k =? tmp h); [discriminate|].
      now apply (r_ptr_fresh _ _ _ HR k). }
  assert (Slot : forall v, sref_val s (SCall t) = v ->
            R (let '(c1, sc) := move_construct (hc h) (tmp h) in
               mkHeap (destroy c1 (tmp h)) (vms h) (recs h ++ [(nrec h, mkRec args (Some sc))]) (nrec h + 1)
                      (ncall h) (ninst h) (tmp h))
              (mkStore (alive s) (done s) (srecs s ++ [(snrec s, mkSRec args (Some (SCall t)))]) (snrec s + 1) (sncall s)) []).
  { intros v Ev.
    destruct (move_construct_ok (hc h) (tmp h) (sref_val s (SCall t)) G0 Htmp) as (G1 & S1 & N1 & C1).
    destruct (move_construct (hc h) (tmp h)) as [c1 sc] eqn:Em. cbn [fst snd] in *. subst sc.
    assert (Hne : tmp h <> ncell (hc h)) by (eapply fresh_ne; eauto).
    destruct (destroy_ok c1 (tmp h) G1) as (G2 & C2 & N2).
    { unfold live. rewrite C1, N.eqb_refl. discriminate. }
    assert (Hc : forall k, get (cells (destroy c1 (tmp h))) k =
               if k =? tmp h then None else if k =? ncell (hc h) then Some (sref_val s (SCall t))
               else get (cells (hc h)) k).
    { intro k. rewrite C2, get_set, C1. destruct (k =? tmp h); reflexivity. }
    assert (Hfr : forall k, live (hc h) k -> k <> ncell (hc h)).
    { intros k Hk E. subst. apply Hk. destruct G0 as [_ [_ _ Hf]]. apply Hf. lia. }
    destruct (tracked_live _ _ _ HR) as (Lv & Lr & _).
    apply (R_add_rec h s _ _ args (Some (ncell (hc h))) (Some (SCall t)) (tmp h) HR); auto.
    - intros t' rc H. rewrite Hc.
      destruct (N.eqb_spec rc (tmp h)) as [->|_]; [exfalso; eapply Dv; eauto|].
      destruct (N.eqb_spec rc (ncell (hc h))) as [E|_]; [|reflexivity].
      exfalso. apply (Hfr rc); [eapply Lv; eauto|exact E].
    - intros r a k H. rewrite Hc.
      destruct (N.eqb_spec k (tmp h)) as [->|_]; [exfalso; eapply Dr; eauto|].
      destruct (N.eqb_spec k (ncell (hc h))) as [E|_]; [|reflexivity].
      exfalso. apply (Hfr k); [eapply Lr; eauto|exact E].
    - intros k p H. unfold holds in H. rewrite Hc in H. destruct (k =? tmp h); [discriminate|].
      destruct (k =? ncell (hc h)).
      + apply (r_ptr_fresh _ _ _ HR (tmp h)). unfold holds. congruence.
      + now apply (r_ptr_fresh _ _ _ HR k).
    - split.
      + intro Hk. apply (Hfr _ Hk). reflexivity.
      + unfold cell_ok. rewrite Hc. destruct (N.eqb_spec (ncell (hc h)) (tmp h)); [congruence|].
        now rewrite N.eqb_refl. }
  unfold sref_val in *. sp.
  destruct (lookup t (done s)) as [[[|k i]|]|] eqn:El.
  - apply NoSlot. reflexivity.
  - exact (Slot _ eq_refl).
  - apply NoSlot. reflexivity.
  - exact (Slot _ eq_refl).
Qed.

(* ---- records change ------------------------------------------------------------------------- *)
Lemma rec_rel_done c s1 s2 x y : done s1 = done s2 -> rec_rel c s1 x y -> rec_rel c s2 x y.
Proof.
  intros E (H1 & H2 & H3). repeat split; auto.
  destruct (rslot (snd x)), (sslot (snd y)); auto. unfold cell_ok, sref_val in *. now rewrite <- E.
Qed.

Lemma F2_impl {A B} (P Q : A -> B -> Prop) l sl :
  (forall x y, P x y -> Q x y) -> Forall2 P l sl -> Forall2 Q l sl.
Proof. intro Hi. induction 1; constructor; auto. Qed.

Lemma R_change h s c' recs' srecs' :
  R h s [] -> good c' ->
  (forall t rc, In (t, rc) (vms h) -> get (cells c') rc = get (cells (hc h)) rc) ->
  Forall2 (rec_rel c' s) recs' srecs' ->
  (forall r a r' a' c, In (r, mkRec a (Some c)) recs' -> In (r', mkRec a' (Some c)) recs' -> r = r') ->
  (forall t r a c, In (t, c) (vms h) -> In (r, mkRec a (Some c)) recs' -> False) ->
  (forall k p, holds c' k p -> p < ncall h) ->
  NoDup (map fst recs') -> (forall rid, In rid (map fst recs') -> rid < nrec h) ->
  R (mkHeap c' (vms h) recs' (nrec h) (ncall h) (ninst h) (tmp h))
    (mkStore (alive s) (done s) srecs' (snrec s) (sncall s)) [].
Proof.
  intros HR G Hv HF Hd1 Hd2 Hp Hk Hf.
  constructor; sp.
  - exact G.
  - apply (r_nrec _ _ _ HR).
  - apply (r_ncall _ _ _ HR).
  - apply (r_alive _ _ _ HR).
  - apply (r_ninst _ _ _ HR).
  - eapply F2_impl; [|exact HF]. intros x y. now apply rec_rel_done.
  - intros t rc H. rewrite (Hv _ _ H). now apply (r_vms _ _ _ HR).
  - apply (r_nd_alive _ _ _ HR).
  - apply (r_pending _ _ _ HR).
  - intros c rf [].
  - exact Hd1.
  - exact Hd2.
  - intros c rf [].
  - exact Hp.
  - apply (r_done_fresh _ _ _ HR).
  - apply (r_alive_fresh _ _ _ HR).
  - exact Hk.
  - exact Hf.
Qed.

Lemma in_amap_upd {A} r (y : A) k z l :
  In (k, z) (amap (fun k b => if k =? r then y else b) l) ->
  (k = r /\ z = y) \/ (k <> r /\ In (k, z) l).
Proof.
  intro H. apply in_amap in H. destruct H as [a [Hin E]].
  destruct (N.eqb_spec k r) as [->|Hn]; [left; now split|right; subst; now split].
Qed.

Lemma lookup_unique {A} r (x x' : A) l : NoDup (map fst l) -> lookup r l = Some x -> In (r, x') l -> x' = x.
Proof.
  intros Hnd Hl Hin. apply (in_lookup _ _ _ Hnd) in Hin. congruence.
Qed.

Lemma rec_rel_inv c s r a o y : rec_rel c s (r, mkRec a o) (r, y) ->
  match o with
  | None => y = mkSRec a None
  | Some k => exists rf, y = mkSRec a (Some rf) /\ cell_ok c s k rf
  end.
Proof.
  intros (_ & H2 & H3). cbn in *. destruct y as [a' o']. cbn in *. subst a'.
  destruct o, o'; try tauto. now exists s0.
Qed.

Lemma rec_copy_R r h s : R h s [] -> R (rec_copy r h) (s_copy r s) [].
Proof.
  intro HR. unfold rec_copy, s_copy.
  destruct (lookup r (recs h)) as [[a [c|]]|] eqn:El.
  - destruct (F2_lookup_some _ (rec_rel_key _ _) _ _ _ _ (r_recs _ _ _ HR) El) as [y [Ey Hy]].
    rewrite Ey. apply rec_rel_inv in Hy. destruct Hy as [rf [-> Hok]].
    pose proof (r_good _ _ _ HR) as G0.
    destruct (copy_construct_ok (hc h) c _ G0 Hok) as (G1 & S1 & N1 & C1).
    destruct (copy_construct (hc h) c) as [c1 c'] eqn:Ec. cbn [fst snd] in *. subst c'.
    destruct (tracked_live _ _ _ HR) as (Lv & Lr & _).
    assert (Hfr : forall k, live (hc h) k -> k <> ncell (hc h)).
    { intros k Hk E. subst. apply Hk. destruct G0 as [_ [_ _ Hf]]. apply Hf. lia. }
    apply (R_add_rec h s _ _ a (Some (ncell (hc h))) (Some rf) (tmp h) HR); auto.
    + intros t rc H. rewrite C1. destruct (N.eqb_spec rc (ncell (hc h))) as [E|_]; [|reflexivity].
      exfalso. apply (Hfr rc); [eapply Lv; eauto|exact E].
    + intros r0 a0 k H. rewrite C1. destruct (N.eqb_spec k (ncell (hc h))) as [E|_]; [|reflexivity].
      exfalso. apply (Hfr k); [eapply Lr; eauto|exact E].
    + intros k p H. unfold holds in H. rewrite C1 in H. destruct (k =? ncell (hc h)).
      * apply (r_ptr_fresh _ _ _ HR c). unfold holds. congruence.
      * now apply (r_ptr_fresh _ _ _ HR k).
    + split.
      * intro Hk. apply (Hfr _ Hk). reflexivity.
      * unfold cell_ok. rewrite C1, N.eqb_refl. reflexivity.
  - destruct (F2_lookup_some _ (rec_rel_key _ _) _ _ _ _ (r_recs _ _ _ HR) El) as [y [Ey Hy]].
    rewrite Ey. apply rec_rel_inv in Hy. subst y.
    apply (R_add_rec h s [] (hc h) a None None (tmp h) HR); auto.
    + apply (r_good _ _ _ HR).
    + apply (r_ptr_fresh _ _ _ HR).
  - rewrite (F2_lookup_none _ (rec_rel_key _ _) _ _ _ (r_recs _ _ _ HR) El). exact HR.
Qed.

Lemma rec_destroy_R r h s : R h s [] -> R (rec_destroy r h) (s_destroy r s) [].
Proof.
  intro HR. unfold rec_destroy, s_destroy.
  pose proof (r_good _ _ _ HR) as G0.
  destruct (tracked_live _ _ _ HR) as (Lv & Lr & _).
  assert (Hkeys : NoDup (map fst (del r (recs h)))).
  { rewrite map_fst_del. apply nodup_delN. apply (r_rec_keys _ _ _ HR). }
  assert (Hfr : forall rid, In rid (map fst (del r (recs h))) -> rid < nrec h).
  { intros rid H. rewrite map_fst_del in H. apply in_delN in H. apply (r_rec_fresh _ _ _ HR). tauto. }
  destruct (lookup r (recs h)) as [[a [c|]]|] eqn:El.
  - assert (Hin : In (r, mkRec a (Some c)) (recs h)) by now apply lookup_in.
    destruct (destroy_ok (hc h) c G0) as (G1 & C1 & N1); [eapply Lr; eauto|].
    apply R_change; auto.
    + intros t rc H. rewrite C1, gso; [reflexivity|]. intro E. subst. eapply (r_d_vr _ _ _ HR); eauto.
    + eapply recs_transfer; [apply F2_del; [apply rec_rel_key|apply (r_recs _ _ _ HR)]|].
      intros r0 a0 k rf Hk. apply cell_ok_frame; [reflexivity|].
      rewrite C1, gso; [reflexivity|]. intro E. subst. apply in_del in Hk. destruct Hk as [Hk Hn].
      apply Hn. eapply (r_d_recs _ _ _ HR); eauto.
    + intros r1 a1 r2 a2 k H1 H2. apply in_del in H1. apply in_del in H2.
      eapply (r_d_recs _ _ _ HR); [apply H1|apply H2].
    + intros t r1 a1 k H1 H2. apply in_del in H2. eapply (r_d_vr _ _ _ HR); [apply H1|apply H2].
    + intros k p H. unfold holds in H. rewrite C1, get_set in H. destruct (k =? c); [discriminate|].
      now apply (r_ptr_fresh _ _ _ HR k).
  - apply R_change; auto.
    + apply F2_del; [apply rec_rel_key|apply (r_recs _ _ _ HR)].
    + intros r1 a1 r2 a2 k H1 H2. apply in_del in H1. apply in_del in H2.
      eapply (r_d_recs _ _ _ HR); [apply H1|apply H2].
    + intros t r1 a1 k H1 H2. apply in_del in H2. eapply (r_d_vr _ _ _ HR); [apply H1|apply H2].
    + apply (r_ptr_fresh _ _ _ HR).
  - assert (E : del r (srecs s) = srecs s).
    { apply del_notin. rewrite <- (F2_keys _ _ _ (rec_rel_key _ _) (r_recs _ _ _ HR)).
      now apply lookup_none_notin. }
    rewrite E, store_eta. exact HR.
Qed.

Lemma rec_reserve_R r h s : R h s [] -> R (rec_reserve r h) s [].
Proof.
  intro HR. unfold rec_reserve.
  destruct (lookup r (recs h)) as [[a [c|]]|] eqn:El; try exact HR.
  destruct (F2_lookup_some _ (rec_rel_key _ _) _ _ _ _ (r_recs _ _ _ HR) El) as [y [Ey Hy]].
  apply rec_rel_inv in Hy. destruct Hy as [rf [-> Hok]].
  pose proof (r_good _ _ _ HR) as G0.
  pose proof (r_rec_keys _ _ _ HR) as Hkeys.
  assert (Hin : In (r, mkRec a (Some c)) (recs h)) by now apply lookup_in.
  destruct (copy_construct_ok (hc h) c _ G0 Hok) as (G1 & S1 & N1 & C1).
  destruct (copy_construct (hc h) c) as [c1 c'] eqn:Ec. cbn [fst snd] in *. subst c'.
  destruct (tracked_live _ _ _ HR) as (Lv & Lr & _).
  assert (Hfr : forall k, live (hc h) k -> k <> ncell (hc h)).
  { intros k Hk E. subst. apply Hk. destruct G0 as [_ [_ _ Hf]]. apply Hf. lia. }
  assert (Hcn : c <> ncell (hc h)) by (apply Hfr; eapply Lr; eauto).
  destruct (destroy_ok c1 c G1) as (G2 & C2 & N2).
  { unfold live. rewrite C1. destruct (N.eqb_spec c (ncell (hc h))); [contradiction|]. apply (Lr _ _ _ Hin). }
  assert (Hc : forall k, get (cells (destroy c1 c)) k =
             if k =? c then None else if k =? ncell (hc h) then Some (sref_val s rf) else get (cells (hc h)) k).
  { intro k. rewrite C2, get_set, C1. reflexivity. }
  rewrite <- (store_eta s).
  rewrite (upd_amap _ _ _ Hkeys).
  rewrite <- (amap_id (srecs s)).
  apply R_change; auto.
  - intros t rc H. rewrite Hc.
    destruct (N.eqb_spec rc c) as [->|_]; [exfalso; eapply (r_d_vr _ _ _ HR); eauto|].
    destruct (N.eqb_spec rc (ncell (hc h))) as [E|_]; [|reflexivity].
    exfalso. apply (Hfr rc); [eapply Lv; eauto|exact E].
  - eapply F2_amap; [apply (r_recs _ _ _ HR)|].
    intros [k x] [k' y] Hx Hy Hxy. pose proof (rec_rel_key _ _ _ _ Hxy) as Ek. cbn in Ek. subst k'. cbn [fst snd].
    destruct (N.eqb_spec k r) as [->|Hn].
    + assert (x = mkRec a (Some c)) by (eapply lookup_unique; eauto). subst x.
      assert (Hy' : lookup r (srecs s) = Some y).
      { apply in_lookup; [|exact Hy]. rewrite <- (F2_keys _ _ _ (rec_rel_key _ _) (r_recs _ _ _ HR)). exact Hkeys. }
      assert (y = mkSRec a (Some rf)) by congruence. subst y.
      repeat split; cbn. unfold cell_ok. rewrite Hc.
      destruct (N.eqb_spec (ncell (hc h)) c); [congruence|]. now rewrite N.eqb_refl.
    + destruct x as [ax [kx|]]; destruct Hxy as (H1 & H2 & H3); cbn [fst snd rargs rslot sargs sslot] in *;
        (split; [reflexivity|]); (split; [exact H2|]); cbn [fst snd rargs rslot sargs sslot]; auto.
      destruct (sslot y) as [rfy|]; [|exact H3].
      eapply cell_ok_frame; [reflexivity| |exact H3]. rewrite Hc.
      destruct (N.eqb_spec kx c) as [->|_]; [exfalso; apply Hn; eapply (r_d_recs _ _ _ HR); eauto|].
      destruct (N.eqb_spec kx (ncell (hc h))) as [E|_]; [|reflexivity].
      exfalso. apply (Hfr kx); [eapply Lr; eauto|exact E].
  - intros r1 a1 r2 a2 k H1 H2. apply in_amap_upd in H1. apply in_amap_upd in H2.
    destruct H1 as [[-> E1]|[N1' H1]], H2 as [[-> E2]|[N2' H2]].
    + reflexivity.
    + injection E1 as _ ->. exfalso. apply (Hfr _ (Lr _ _ _ H2)). reflexivity.
    + injection E2 as _ ->. exfalso. apply (Hfr _ (Lr _ _ _ H1)). reflexivity.
    + eapply (r_d_recs _ _ _ HR); eauto.
  - intros t r1 a1 k H1 H2. apply in_amap_upd in H2. destruct H2 as [[-> E2]|[N2' H2]].
    + injection E2 as _ ->. apply (Hfr _ (Lv _ _ H1)). reflexivity.
    + eapply (r_d_vr _ _ _ HR); eauto.
  - intros k p H. unfold holds in H. rewrite Hc in H. destruct (k =? c); [discriminate|].
    destruct (k =? ncell (hc h)).
    + apply (r_ptr_fresh _ _ _ HR c). unfold holds. congruence.
    + now apply (r_ptr_fresh _ _ _ HR k).
  - rewrite map_fst_amap. exact Hkeys.
  - rewrite map_fst_amap. apply (r_rec_fresh _ _ _ HR).
Qed.

Lemma slot_corr r h s : R h s [] ->
  match slot_of r h, sslot_of r s with
  | None, None => True
  | Some k, Some rf =>
      exists a, lookup r (recs h) = Some (mkRec a (Some k)) /\
                lookup r (srecs s) = Some (mkSRec a (Some rf)) /\ cell_ok (hc h) s k rf
  | _, _ => False
  end.
Proof.
  intro HR. unfold slot_of, sslot_of.
  destruct (lookup r (recs h)) as [[a [k|]]|] eqn:El.
  - destruct (F2_lookup_some _ (rec_rel_key _ _) _ _ _ _ (r_recs _ _ _ HR) El) as [y [Ey Hy]].
    apply rec_rel_inv in Hy. destruct Hy as [rf [-> Hok]]. rewrite Ey. cbn. now exists a.
  - destruct (F2_lookup_some _ (rec_rel_key _ _) _ _ _ _ (r_recs _ _ _ HR) El) as [y [Ey Hy]].
    apply rec_rel_inv in Hy. subst y. rewrite Ey. exact I.
  - rewrite (F2_lookup_none _ (rec_rel_key _ _) _ _ _ (r_recs _ _ _ HR) El). exact I.
Qed.

Lemma skeys h s xs : R h s xs -> NoDup (map fst (srecs s)).
Proof.
  intro HR. rewrite <- (F2_keys _ _ _ (rec_rel_key _ _) (r_recs _ _ _ HR)). apply (r_rec_keys _ _ _ HR).
Qed.

Lemma rec_assign_R r1 r2 h s : R h s [] -> R (rec_assign r1 r2 h) (s_assign r1 r2 s) [].
Proof.
  intro HR. unfold rec_assign, s_assign.
  destruct (N.eqb_spec r1 r2) as [E|Hne]; [exact HR|].
  pose proof (slot_corr r1 h s HR) as H1. pose proof (slot_corr r2 h s HR) as H2.
  destruct (slot_of r1 h) as [ka|], (sslot_of r1 s) as [rfa|]; try tauto; try exact HR;
    destruct (slot_of r2 h) as [kb|], (sslot_of r2 s) as [rfb|]; try tauto; try exact HR.
  destruct H1 as (a1 & L1 & S1 & O1). destruct H2 as (a2 & L2 & S2 & O2).
  pose proof (r_good _ _ _ HR) as G0.
  pose proof (r_rec_keys _ _ _ HR) as Hkeys.
  assert (I1 : In (r1, mkRec a1 (Some ka)) (recs h)) by now apply lookup_in.
  assert (I2 : In (r2, mkRec a2 (Some kb)) (recs h)) by now apply lookup_in.
  assert (Hab : ka <> kb) by (intro E; subst; apply Hne; eapply (r_d_recs _ _ _ HR); eauto).
  destruct (tracked_live _ _ _ HR) as (Lv & Lr & _).
  destruct (copy_assign_ok (hc h) ka kb _ G0 Hab (Lr _ _ _ I1) O2) as (G1 & C1 & N1).
  unfold with_hc, set_slot. rewrite S1. cbn [sargs].
  rewrite (upd_amap _ _ _ (skeys _ _ _ HR)).
  rewrite <- (amap_id (recs h)).
  apply R_change; auto.
  - intros t rc H. rewrite C1, gso; [reflexivity|]. intro E. subst. eapply (r_d_vr _ _ _ HR); eauto.
  - eapply F2_amap; [apply (r_recs _ _ _ HR)|].
    intros [k x] [k' y] Hx Hy Hxy. pose proof (rec_rel_key _ _ _ _ Hxy) as Ek. cbn in Ek. subst k'. cbn [fst snd].
    destruct (N.eqb_spec k r1) as [->|Hn].
    + assert (x = mkRec a1 (Some ka)) by (eapply lookup_unique; eauto). subst x.
      repeat split; cbn [fst snd rargs rslot sargs sslot]. unfold cell_ok. rewrite C1, gss. reflexivity.
    + destruct x as [ax [kx|]]; destruct Hxy as (E1 & E2 & E3); cbn [fst snd rargs rslot sargs sslot] in *;
        (split; [reflexivity|]); (split; [exact E2|]); cbn [fst snd rargs rslot sargs sslot]; auto.
      destruct (sslot y) as [rfy|]; [|exact E3].
      eapply cell_ok_frame; [reflexivity| |exact E3]. rewrite C1, gso; [reflexivity|].
      intro E. subst. apply Hn. eapply (r_d_recs _ _ _ HR); eauto.
  - rewrite amap_id. apply (r_d_recs _ _ _ HR).
  - rewrite amap_id. apply (r_d_vr _ _ _ HR).
  - intros k p H. unfold holds in H. rewrite C1, get_set in H. destruct (k =? ka).
    + apply (r_ptr_fresh _ _ _ HR kb). unfold holds. congruence.
    + now apply (r_ptr_fresh _ _ _ HR k).
  - rewrite amap_id. exact Hkeys.
  - rewrite amap_id. apply (r_rec_fresh _ _ _ HR).
Qed.

Lemma lookup_upd_other {A} r r' (y : A) l : r <> r' -> lookup r (upd r' y l) = lookup r l.
Proof.
  intro Hn. induction l as [|[k a] l IH]; cbn; [reflexivity|].
  destruct (N.eqb_spec k r') as [->|Hk]; cbn.
  - destruct (N.eqb_spec r' r); [congruence|reflexivity].
  - destruct (k =? r); [reflexivity|exact IH].
Qed.

Lemma amap_amap {A} (f g : N -> A -> A) l : amap g (amap f l) = amap (fun k b => g k (f k b)) l.
Proof. unfold amap. rewrite map_map. reflexivity. Qed.

Lemma rec_massign_R r1 r2 h s : R h s [] -> R (rec_massign r1 r2 h) (s_massign r1 r2 s) [].
Proof.
  intro HR. unfold rec_massign, s_massign.
  destruct (N.eqb_spec r1 r2) as [E|Hne]; [exact HR|].
  pose proof (slot_corr r1 h s HR) as H1. pose proof (slot_corr r2 h s HR) as H2.
  destruct (slot_of r1 h) as [ka|], (sslot_of r1 s) as [rfa|]; try tauto; try exact HR;
    destruct (slot_of r2 h) as [kb|], (sslot_of r2 s) as [rfb|]; try tauto; try exact HR.
  destruct H1 as (a1 & L1 & S1 & O1). destruct H2 as (a2 & L2 & S2 & O2).
  pose proof (r_good _ _ _ HR) as G0.
  pose proof (r_rec_keys _ _ _ HR) as Hkeys.
  pose proof (skeys _ _ _ HR) as Hsk.
  assert (I1 : In (r1, mkRec a1 (Some ka)) (recs h)) by now apply lookup_in.
  assert (I2 : In (r2, mkRec a2 (Some kb)) (recs h)) by now apply lookup_in.
  assert (Hab : ka <> kb) by (intro E; subst; apply Hne; eapply (r_d_recs _ _ _ HR); eauto).
  destruct (tracked_live _ _ _ HR) as (Lv & Lr & _).
  destruct (move_assign_ok (hc h) ka kb _ G0 Hab (Lr _ _ _ I1) O2) as (G1 & C1 & N1).
  unfold with_hc, set_slot. rewrite S1. cbn [sargs].
  rewrite lookup_upd_other by congruence. rewrite S2. cbn [sargs].
  rewrite (upd_amap r1 _ _ Hsk).
  rewrite upd_amap by (rewrite map_fst_amap; exact Hsk).
  rewrite amap_amap.
  rewrite <- (amap_id (recs h)).
  assert (Hc : forall k, get (cells (move_assign (hc h) ka kb)) k =
             if k =? kb then Some (VD DNil) else if k =? ka then Some (sref_val s rfb) else get (cells (hc h)) k).
  { intro k. rewrite C1, !get_set. reflexivity. }
  apply R_change; auto.
  - intros t rc H. rewrite Hc.
    destruct (N.eqb_spec rc kb) as [->|_]; [exfalso; eapply (r_d_vr _ _ _ HR); eauto|].
    destruct (N.eqb_spec rc ka) as [->|_]; [exfalso; eapply (r_d_vr _ _ _ HR); eauto|reflexivity].
  - eapply F2_amap; [apply (r_recs _ _ _ HR)|].
    intros [k x] [k' y] Hx Hy Hxy. pose proof (rec_rel_key _ _ _ _ Hxy) as Ek. cbn in Ek. subst k'. cbn [fst snd].
    destruct (N.eqb_spec k r2) as [->|Hn2].
    + assert (x = mkRec a2 (Some kb)) by (eapply lookup_unique; eauto). subst x.
      repeat split; cbn [fst snd rargs rslot sargs sslot]. unfold cell_ok. rewrite Hc, N.eqb_refl. reflexivity.
    + destruct (N.eqb_spec k r1) as [->|Hn1].
      * assert (x = mkRec a1 (Some ka)) by (eapply lookup_unique; eauto). subst x.
        repeat split; cbn [fst snd rargs rslot sargs sslot]. unfold cell_ok. rewrite Hc, N.eqb_refl.
        destruct (N.eqb_spec ka kb); [contradiction|reflexivity].
      * destruct x as [ax [kx|]]; destruct Hxy as (E1 & E2 & E3); cbn [fst snd rargs rslot sargs sslot] in *;
          (split; [reflexivity|]); (split; [exact E2|]); cbn [fst snd rargs rslot sargs sslot]; auto.
        destruct (sslot y) as [rfy|]; [|exact E3].
        eapply cell_ok_frame; [reflexivity| |exact E3]. rewrite Hc.
        destruct (N.eqb_spec kx kb) as [->|_]; [exfalso; apply Hn2; eapply (r_d_recs _ _ _ HR); eauto|].
        destruct (N.eqb_spec kx ka) as [->|_]; [exfalso; apply Hn1; eapply (r_d_recs _ _ _ HR); eauto|reflexivity].
  - rewrite amap_id. apply (r_d_recs _ _ _ HR).
  - rewrite amap_id. apply (r_d_vr _ _ _ HR).
  - intros k p H. unfold holds in H. rewrite Hc in H. destruct (k =? kb); [discriminate|]. destruct (k =? ka).
    + apply (r_ptr_fresh _ _ _ HR kb). unfold holds. congruence.
    + now apply (r_ptr_fresh _ _ _ HR k).
  - rewrite amap_id. exact Hkeys.
  - rewrite amap_id. apply (r_rec_fresh _ _ _ HR).
Qed.

(* ---- Reset ----------------------------------------------------------------------------------- *)
Lemma reset_cells l : forall c,
  good c -> NoDup (map snd l) ->
  (forall t rc, In (t, rc) l -> get (cells c) rc = Some (VPtr t)) ->
  let c' := fold_left (fun c (x : N * N) => destroy c (snd x)) l c in
  good c' /\ forall k, get (cells c') k = if existsb (N.eqb k) (map snd l) then None else get (cells c) k.
Proof.
  induction l as [|[t rc] l IH]; intros c G Hnd Hv; cbn [fold_left map existsb snd].
  - split; [exact G|reflexivity].
  - inversion Hnd as [|x l' Hn Hnd']; subst.
    destruct (destroy_ok c rc G) as (G1 & C1 & N1).
    { unfold live. rewrite (Hv t rc); [discriminate|now left]. }
    destruct (IH (destroy c rc) G1 Hnd') as (G2 & C2).
    { intros t' rc' H. rewrite C1, gso; [apply Hv; now right|].
      intro E. subst. apply Hn. apply in_map_iff. exists (t', rc). now split. }
    split; [exact G2|]. intro k. rewrite C2, C1, get_set.
    destruct (N.eqb_spec k rc) as [->|Hk]; cbn; [|reflexivity].
    destruct (existsb (N.eqb rc) (map snd l)); reflexivity.
Qed.

Lemma heap_reset_R h s : R h s [] -> R (heap_reset h) (s_reset s) [].
Proof.
  intro HR. unfold heap_reset, s_reset.
  assert (Hnd : NoDup (map snd (vms h))).
  { pose proof (vms_nodup_fst _ _ _ HR) as Hf.
    assert (Hinj : forall t t' rc, In (t, rc) (vms h) -> In (t', rc) (vms h) -> t = t')
      by (intros; eapply vms_same_cell; eauto).
    revert Hf Hinj. generalize (vms h). induction l as [|[t rc] l IH]; cbn; intros Hf Hinj; [constructor|].
    inversion Hf as [|x l' Hn Hf']; subst. constructor.
    - intro H. apply in_map_iff in H. destruct H as [[t' rc'] [E H]]. cbn in E. subst rc'.
      apply Hn. apply in_map_iff. exists (t', rc). split; [|exact H]. cbn.
      symmetry. apply (Hinj t t' rc); [now left|now right].
    - apply IH; [exact Hf'|]. intros t1 t2 rc0 H1 H2. apply (Hinj t1 t2 rc0); now right. }
  destruct (reset_cells (vms h) (hc h) (r_good _ _ _ HR) Hnd (r_vms _ _ _ HR)) as (G1 & C1).
  assert (Hex : forall k, existsb (N.eqb k) (map snd (vms h)) = true <-> exists t, In (t, k) (vms h)).
  { intro k. rewrite existsb_eqb_in, in_map_iff. split.
    - intros [[t rc] [E H]]. cbn in E. subst. now exists t.
    - intros [t H]. exists (t, k). now split. }
  constructor; sp.
  - exact G1.
  - apply (r_nrec _ _ _ HR).
  - apply (r_ncall _ _ _ HR).
  - reflexivity.
  - reflexivity.
  - eapply recs_transfer; [apply (r_recs _ _ _ HR)|].
    intros r a k rf Hk. apply cell_ok_frame; [reflexivity|]. rewrite C1.
    destruct (existsb (N.eqb k) (map snd (vms h))) eqn:E; [|reflexivity].
    apply Hex in E. destruct E as [t Ht]. exfalso. eapply (r_d_vr _ _ _ HR); eauto.
  - intros t rc [].
  - constructor.
  - intros t [].
  - intros c rf [].
  - apply (r_d_recs _ _ _ HR).
  - intros t r a c [].
  - intros c rf [].
  - intros k p H. unfold holds in H. rewrite C1 in H.
    destruct (existsb (N.eqb k) (map snd (vms h))); [discriminate|]. now apply (r_ptr_fresh _ _ _ HR k).
  - apply (r_done_fresh _ _ _ HR).
  - intros t [].
  - apply (r_rec_keys _ _ _ HR).
  - apply (r_rec_fresh _ _ _ HR).
Qed.

(* ---- what the host sees ---------------------------------------------------------------------- *)
Lemma obs_eq h s : R h s [] -> heap_obs h = s_obs s.
Proof.
  intro HR. unfold heap_obs, s_obs. f_equal; [f_equal|].
  - generalize (r_recs _ _ _ HR). generalize (recs h) (srecs s).
    induction 1 as [|[k x] [k' y] l sl Hp Hf IH]; cbn [map]; [reflexivity|].
    f_equal; [|exact IH]. destruct Hp as (E1 & E2 & E3). cbn [fst snd] in *. subst k'. f_equal.
    unfold rec_toks, srec_toks. rewrite E2. f_equal.
    destruct (rslot x) as [c|], (sslot y) as [rf|]; try tauto.
    unfold cell_ok in E3. unfold cell_tok. rewrite E3. f_equal.
    unfold sref_val, sref_tok. destruct rf as [t|]; [|reflexivity].
    destruct (lookup t (done s)) as [[d|]|]; reflexivity.
  - rewrite (r_ninst _ _ _ HR), <- (r_alive _ _ _ HR). now rewrite map_length.
  - apply (r_good _ _ _ HR).
Qed.

Lemma alive_eq t h s xs : R h s xs -> thread_alive t h = s_alive t s.
Proof.
  intro HR. unfold thread_alive, s_alive.
  destruct (lookup t (vms h)) as [rc|] eqn:El.
  - symmetry. apply (alive_iff _ _ _ t HR). exists rc. now apply lookup_in.
  - destruct (memN t (alive s)) eqn:E; [|reflexivity].
    apply (alive_iff _ _ _ t HR) in E. destruct E as [rc H].
    apply (vms_lookup_in _ _ _ t rc HR) in H. congruence.
Qed.

Lemma R_init : R heap_init store_init [].
Proof.
  constructor; cbn; try constructor; try (intros; contradiction); try reflexivity.
  - constructor; cbn.
    + intros p l H. rewrite get_empty in H. discriminate.
    + intros c p _ H. unfold holds in H. cbn in H. rewrite get_empty in H. discriminate.
    + intros. apply get_empty.
  - intros c p H. unfold holds in H. cbn in H. rewrite get_empty in H. discriminate.
  - intros t x H. discriminate.
Qed.
