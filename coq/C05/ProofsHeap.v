(* C05/ProofsHeap.v - the simulation relation between the code-level heap (cells, registries,
   VM return cells, variables local.r, stack temporaries, records) and the specification's store
   (alive set, result map with forwarding, records naming threads), and its preservation by
   every host / thread operation. *)
From Coq Require Import NArith List Bool Lia.
From Morfuse Require Import Base.Arr Base.ListX C05.Model C05.Spec C05.ProofsCells C05.ProofsLib.
Import ListNotations.
Local Open Scope N_scope.

(* ---- the relation ------------------------------------------------------------------------ *)
Definition entry_val (e : entry) : val :=
  match e with
  | RVal (Some d) => VD d
  | RVal None => VD DNil
  | RFwd c => VPtr c
  end.

Definition sref_val (s : store) (rf : sref) : val :=
  match rf with
  | SNil => VD DNil
  | SCall t =>
      match lookup t (done s) with
      | Some e => entry_val e
      | None => VPtr t
      end
  end.

Definition cell_ok (c : ch) (s : store) (x : N) (rf : sref) : Prop :=
  get (cells c) x = Some (sref_val s rf).

Definition rec_rel (c : ch) (s : store) (x : N * rec) (y : N * srec) : Prop :=
  fst x = fst y /\ rargs (snd x) = sargs (snd y) /\
  match rslot (snd x), sslot (snd y) with
  | None, None => True
  | Some k, Some rf => cell_ok c s k rf
  | _, _ => False
  end.

Lemma rec_rel_key c s x y : rec_rel c s x y -> fst x = fst y.
Proof. now intros [H _]. Qed.

Definition loc_rel (c : ch) (s : store) (x y : N * N) : Prop :=
  fst x = fst y /\ cell_ok c s (snd x) (SCall (snd y)).

Definition tmp_rel (c : ch) (s : store) (x : N * N) (u : N) : Prop :=
  snd x = u /\ cell_ok c s (fst x) (SCall u).

(* who a tracked cell belongs to *)
Inductive owner := OVm (t : N) | ORec (r : N) | OLoc (t : N) | OTmp (t : N).

Definition owns (h : heap) (k : N) (o : owner) : Prop :=
  match o with
  | OVm t => In (t, k) (vms h)
  | ORec r => exists a, In (r, mkRec a (Some k)) (recs h)
  | OLoc t => In (t, k) (locs h)
  | OTmp t => In (k, t) (tmps h)
  end.

Record R (h : heap) (s : store) : Prop := mkR {
  r_good : good (hc h);
  r_nrec : nrec h = snrec s;
  r_ncall : ncall h = sncall s;
  r_alive : map fst (vms h) = alive s;
  r_tcall : tcall h = stcall s;
  r_recs : Forall2 (rec_rel (hc h) s) (recs h) (srecs s);
  r_vms : forall t rc, In (t, rc) (vms h) -> get (cells (hc h)) rc = Some (VPtr t);
  r_locs : Forall2 (loc_rel (hc h) s) (locs h) (slocs s);
  r_tmps : Forall2 (tmp_rel (hc h) s) (tmps h) (stmps s);
  r_nd_alive : NoDup (alive s);
  r_pending : forall t, In t (alive s) -> lookup t (done s) = None;
  (* a forwarded result names an alive, younger thread *)
  r_fwd : forall u c, lookup u (done s) = Some (RFwd c) -> In c (alive s) /\ u < c;
  r_loc_alive : forall t c, In (t, c) (slocs s) -> t < c;
  r_loc_keys : NoDup (map fst (locs h));
  r_tmp_nd : NoDup (map fst (tmps h));
  (* the tracked cells are pairwise different *)
  r_own : forall k o o', owns h k o -> owns h k o' -> o = o';
  (* nothing stays pending after its thread is gone *)
  r_ptr_alive : forall c p, holds (hc h) c p -> In p (alive s);
  r_done_fresh : forall t x, lookup t (done s) = Some x -> t < sncall s;
  r_alive_fresh : forall t, In t (alive s) -> t < sncall s;
  r_rec_keys : NoDup (map fst (recs h));
  r_rec_fresh : forall rid, In rid (map fst (recs h)) -> rid < nrec h }.

Ltac sp := cbn [hc vms locs tcall recs nrec ncall tmps alive done slocs stcall srecs snrec sncall stmps fst snd].

Lemma r_ptr_fresh h s : R h s -> forall c p, holds (hc h) c p -> p < ncall h.
Proof.
  intros HR c p H. rewrite (r_ncall _ _ HR). apply (r_alive_fresh _ _ HR). eapply (r_ptr_alive _ _ HR); eauto.
Qed.

Lemma recs_transfer c c' s s' l sl :
  Forall2 (rec_rel c s) l sl ->
  (forall r a k rf, In (r, mkRec a (Some k)) l -> cell_ok c s k rf -> cell_ok c' s' k rf) ->
  Forall2 (rec_rel c' s') l sl.
Proof.
  induction 1 as [|[r [a o]] [r' [a' o']] l sl Hp Hf IH]; intro Ht.
  - constructor.
  - constructor.
    + destruct Hp as (H1 & H2 & H3). cbn in *. repeat split; auto.
      destruct o as [k|], o' as [rf|]; auto. apply (Ht r a k rf); [left; reflexivity|exact H3].
    + apply IH. intros r0 a0 k0 rf0 Hin Hok. apply (Ht r0 a0 k0 rf0); [right; exact Hin|exact Hok].
Qed.

Lemma locs_transfer c c' s s' l sl :
  Forall2 (loc_rel c s) l sl ->
  (forall t k rf, In (t, k) l -> cell_ok c s k rf -> cell_ok c' s' k rf) ->
  Forall2 (loc_rel c' s') l sl.
Proof.
  intros F Ht. eapply F2_transfer; [exact F|].
  intros [t k] [t' u] Hx _ [E Hok]. split; [exact E|]. cbn [fst snd] in *. eapply Ht; eauto.
Qed.

Lemma tmps_transfer c c' s s' l sl :
  Forall2 (tmp_rel c s) l sl ->
  (forall k t rf, In (k, t) l -> cell_ok c s k rf -> cell_ok c' s' k rf) ->
  Forall2 (tmp_rel c' s') l sl.
Proof.
  intros F Ht. eapply F2_transfer; [exact F|].
  intros [k t] u Hx _ [E Hok]. split; [exact E|]. cbn [fst snd] in *. eapply Ht; eauto.
Qed.

Lemma vms_nodup_fst h s : R h s -> NoDup (map fst (vms h)).
Proof. intro HR. rewrite (r_alive _ _ HR). apply (r_nd_alive _ _ HR). Qed.

Lemma vms_lookup_in h s t rc : R h s -> (lookup t (vms h) = Some rc <-> In (t, rc) (vms h)).
Proof.
  intro HR. split; [apply lookup_in|]. apply in_lookup. eapply vms_nodup_fst; eauto.
Qed.

Lemma vms_same_cell h s t t' rc : R h s -> In (t, rc) (vms h) -> In (t', rc) (vms h) -> t = t'.
Proof.
  intros HR H1 H2. apply (r_vms _ _ HR) in H1. apply (r_vms _ _ HR) in H2. congruence.
Qed.

Lemma alive_iff h s t : R h s -> (memN t (alive s) = true <-> exists rc, In (t, rc) (vms h)).
Proof.
  intro HR. rewrite memN_in, <- (r_alive _ _ HR), in_map_iff. split.
  - intros [[t' rc] [E H]]. cbn in E. subst. now exists rc.
  - intros [rc H]. exists (t, rc). now split.
Qed.

Lemma store_eta s :
  mkStore (alive s) (done s) (slocs s) (stcall s) (srecs s) (snrec s) (sncall s) (stmps s) = s.
Proof. now destruct s. Qed.

(* every tracked cell is live and holds what its reference says *)
Lemma owned_ok h s k o : R h s -> owns h k o ->
  exists rf, cell_ok (hc h) s k rf.
Proof.
  intros HR Ho. destruct o as [t|r|t|t]; cbn [owns] in Ho.
  - exists (SCall t). unfold cell_ok, sref_val. rewrite (r_vms _ _ HR _ _ Ho).
    rewrite (r_pending _ _ HR); [reflexivity|]. rewrite <- (r_alive _ _ HR). apply in_map_iff. exists (t, k). now split.
  - destruct Ho as [a Hin]. destruct (F2_in_l _ _ _ _ (r_recs _ _ HR) Hin) as [[r' [a' o']] [_ (E1 & E2 & E3)]].
    cbn [fst snd rargs rslot sargs sslot] in *. destruct o' as [rf|]; [|destruct E3]. now exists rf.
  - destruct (F2_in_l _ _ _ _ (r_locs _ _ HR) Ho) as [[t' u] [_ [E1 E2]]]. cbn [fst snd] in *. now exists (SCall u).
  - destruct (F2_in_l _ _ _ _ (r_tmps _ _ HR) Ho) as [u [_ [E1 E2]]]. cbn [fst snd] in *. now exists (SCall u).
Qed.

Lemma owned_live h s k o : R h s -> owns h k o -> live (hc h) k.
Proof.
  intros HR Ho. destruct (owned_ok h s k o HR Ho) as [rf H]. unfold cell_ok in H. unfold live. congruence.
Qed.

Lemma fresh_not_owned h s k o : R h s -> owns h k o -> k < ncell (hc h).
Proof.
  intros HR Ho. pose proof (owned_live _ _ _ _ HR Ho) as Hl.
  destruct (N.lt_ge_cases k (ncell (hc h))) as [H|H]; [exact H|].
  exfalso. apply Hl. destruct (r_good _ _ HR) as [_ [_ _ Hf]]. now apply Hf.
Qed.

Lemma cell_ok_frame c c' s s' k rf :
  done s' = done s -> get (cells c') k = get (cells c) k -> cell_ok c s k rf -> cell_ok c' s' k rf.
Proof. unfold cell_ok, sref_val. intros -> ->. auto. Qed.

(* ---- the result map when a thread ends ------------------------------------------------------ *)
Lemma lookup_map_subst t ent u l :
  lookup u (map (subst t ent) l) =
  match lookup u l with
  | Some (RFwd c) => if c =? t then Some ent else Some (RFwd c)
  | x => x
  end.
Proof.
  induction l as [|[k e] l IH]; cbn [map lookup]; [reflexivity|].
  unfold subst at 1. cbn [fst snd]. destruct e as [v|c].
  - cbn [lookup]. destruct (k =? u); [reflexivity|exact IH].
  - destruct (N.eqb_spec c t) as [->|Hn]; cbn [lookup]; destruct (k =? u); try exact IH.
    + now rewrite N.eqb_refl.
    + destruct (N.eqb_spec c t); [contradiction|reflexivity].
Qed.

Lemma sref_val_end s s' t ent rf :
  lookup t (done s) = None -> done s' = (t, ent) :: map (subst t ent) (done s) ->
  (sref_val s rf = VPtr t -> sref_val s' rf = entry_val ent) /\
  (sref_val s rf <> VPtr t -> sref_val s' rf = sref_val s rf).
Proof.
  intros Hp Hd. destruct rf as [u|]; [|split; [discriminate|reflexivity]].
  unfold sref_val. rewrite Hd. cbn [lookup].
  destruct (N.eqb_spec t u) as [<-|Hn].
  - rewrite Hp. split; [reflexivity|congruence].
  - rewrite lookup_map_subst. destruct (lookup u (done s)) as [[v|c]|] eqn:E.
    + split; [destruct v; discriminate|reflexivity].
    + cbn [entry_val]. destruct (N.eqb_spec c t) as [->|Hc]; split; try reflexivity; try congruence.
    + split; [intro H; injection H as ->; contradiction|reflexivity].
Qed.

(* the thread t is gone: its VM cell and its variable are dead, every holder of its pending
   result holds what the thread's entry says, nothing else changed *)
Lemma R_thread_gone h s t rc e c' :
  R h s -> In (t, rc) (vms h) ->
  good c' -> ncell c' = ncell (hc h) ->
  (forall k, k <> rc -> lookup t (locs h) <> Some k ->
     (holds (hc h) k t -> get (cells c') k = Some (entry_val (end_entry s t e))) /\
     (~ holds (hc h) k t -> get (cells c') k = get (cells (hc h)) k)) ->
  get (cells c') rc = None ->
  (forall x, lookup t (locs h) = Some x -> get (cells c') x = None) ->
  (forall q, end_entry s t e = RFwd q -> In q (alive s) /\ t < q) ->
  R (mkHeap c' (del t (vms h)) (del t (locs h)) (tcall h) (recs h) (nrec h) (ncall h) (tmps h)) (s_end t e s).
Proof.
  intros HR Hin G Nc Hcells Hrc Hlr Hq.
  assert (Hal : memN t (alive s) = true) by (apply (alive_iff _ _ t HR); now exists rc).
  assert (Hta : In t (alive s)) by now apply memN_in.
  assert (Hpend : lookup t (done s) = None) by now apply (r_pending _ _ HR).
  unfold s_end. rewrite Hal. set (ent := end_entry s t e) in *.
  set (s' := mkStore (delN t (alive s)) ((t, ent) :: map (subst t ent) (done s)) (del t (slocs s)) (stcall s)
                     (srecs s) (snrec s) (sncall s) (stmps s)).
  assert (Hsv := fun rf => sref_val_end s s' t ent rf Hpend eq_refl).
  (* a tracked cell other than rc and the variable keeps satisfying its reference *)
  assert (Hcell : forall k rf, k <> rc -> lookup t (locs h) <> Some k ->
                  cell_ok (hc h) s k rf -> cell_ok c' s' k rf).
  { intros k rf H1 H2 Hok. unfold cell_ok in *. destruct (Hcells k H1 H2) as [Ch Cn]. destruct (Hsv rf) as [S1 S2].
    destruct (val_eq_dec (sref_val s rf) (VPtr t)) as [E|E].
    - rewrite S1 by exact E. apply Ch. unfold holds. now rewrite Hok, E.
    - rewrite S2 by exact E. rewrite Cn; [exact Hok|]. unfold holds. rewrite Hok. congruence. }
  assert (Hnotrc : forall k o, owns h k o -> o <> OVm t -> k <> rc).
  { intros k o Ho Hne E. subst k. apply Hne. apply (r_own _ _ HR rc); [exact Ho|exact Hin]. }
  assert (Hnotlr : forall k o, owns h k o -> o <> OLoc t -> lookup t (locs h) <> Some k).
  { intros k o Ho Hne E. apply Hne. apply (r_own _ _ HR k); [exact Ho|]. cbn. now apply lookup_in. }
  assert (Hother : forall t' rc', In (t', rc') (del t (vms h)) -> In (t', rc') (vms h) /\ t' <> t).
  { intros t' rc' H. now apply in_del in H. }
  subst s'. constructor; sp.
  - exact G.
  - apply (r_nrec _ _ HR).
  - apply (r_ncall _ _ HR).
  - rewrite map_fst_del. now rewrite (r_alive _ _ HR).
  - apply (r_tcall _ _ HR).
  - eapply recs_transfer; [apply (r_recs _ _ HR)|].
    intros r a k rf Hk. apply Hcell.
    + apply (Hnotrc k (ORec r)); [now exists a|discriminate].
    + apply (Hnotlr k (ORec r)); [now exists a|discriminate].
  - intros t' rc' H. destruct (Hother _ _ H) as [H1 H2].
    assert (K1 : rc' <> rc) by (apply (Hnotrc rc' (OVm t')); [exact H1|congruence]).
    assert (K2 : lookup t (locs h) <> Some rc') by (apply (Hnotlr rc' (OVm t')); [exact H1|discriminate]).
    destruct (Hcells rc' K1 K2) as [_ Cn]. rewrite Cn; [now apply (r_vms _ _ HR)|].
    unfold holds. rewrite (r_vms _ _ HR _ _ H1). congruence.
  - eapply locs_transfer; [apply F2_del; [now intros x y [E _]|apply (r_locs _ _ HR)]|].
    intros t' k rf Hk. apply in_del in Hk. destruct Hk as [Hk Hn]. apply Hcell.
    + apply (Hnotrc k (OLoc t')); [exact Hk|discriminate].
    + apply (Hnotlr k (OLoc t')); [exact Hk|congruence].
  - eapply tmps_transfer; [apply (r_tmps _ _ HR)|].
    intros k u rf Hk. apply Hcell.
    + apply (Hnotrc k (OTmp u)); [exact Hk|discriminate].
    + apply (Hnotlr k (OTmp u)); [exact Hk|discriminate].
  - apply nodup_delN. apply (r_nd_alive _ _ HR).
  - intros t' H. apply in_delN in H. destruct H as [H Hn]. cbn [lookup].
    destruct (N.eqb_spec t t'); [congruence|]. rewrite lookup_map_subst. now rewrite (r_pending _ _ HR).
  - intros u c. cbn [lookup]. destruct (N.eqb_spec t u) as [<-|Hn].
    + intro H. injection H as H. destruct (Hq c H) as [H1 H2]. split; [|exact H2].
      apply in_delN. split; [exact H1|lia].
    + rewrite lookup_map_subst. destruct (lookup u (done s)) as [[v|c0]|] eqn:E; try discriminate.
      destruct (r_fwd _ _ HR u c0 E) as [F1 F2].
      destruct (N.eqb_spec c0 t) as [->|Hc].
      * intro H. injection H as H. destruct (Hq c H) as [H1 H2]. split; [apply in_delN; split; [exact H1|lia]|lia].
      * intro H. injection H as <-. split; [apply in_delN; split; assumption|exact F2].
  - intros t' c H. apply in_del in H. destruct H as [H Hn]. exact (r_loc_alive _ _ HR t' c H).
  - rewrite map_fst_del. apply nodup_delN. apply (r_loc_keys _ _ HR).
  - apply (r_tmp_nd _ _ HR).
  - intros k o o' Ho Ho'. apply (r_own _ _ HR k).
    + destruct o; cbn [owns] in *; sp; auto; apply in_del in Ho; tauto.
    + destruct o'; cbn [owns] in *; sp; auto; apply in_del in Ho'; tauto.
  - intros k p Hh. unfold holds in Hh.
    destruct (N.eq_dec k rc) as [->|Hk]; [congruence|].
    destruct (option_N_eq_dec (lookup t (locs h)) (Some k)) as [E|E]; [rewrite (Hlr k E) in Hh; discriminate|].
    destruct (Hcells k Hk E) as [Ch Cn].
    destruct (holds_dec (hc h) k t) as [Hk_t|Hk_t].
    + rewrite (Ch Hk_t) in Hh. destruct ent as [[d|]|q] eqn:Ee; cbn [entry_val] in Hh; try discriminate.
      injection Hh as <-. destruct (Hq q eq_refl) as [H1 H2]. apply in_delN. split; [exact H1|lia].
    + rewrite (Cn Hk_t) in Hh. apply in_delN. split; [now apply (r_ptr_alive _ _ HR k)|].
      intro E2. subst. apply Hk_t. exact Hh.
  - intros u x. cbn [lookup]. destruct (N.eqb_spec t u) as [<-|Hn].
    + intros _. now apply (r_alive_fresh _ _ HR).
    + rewrite lookup_map_subst. destruct (lookup u (done s)) as [e0|] eqn:E; [|discriminate].
      intros _. eapply (r_done_fresh _ _ HR); eauto.
  - intros t' H. apply in_delN in H. apply (r_alive_fresh _ _ HR). tauto.
  - apply (r_rec_keys _ _ HR).
  - apply (r_rec_fresh _ _ HR).
Qed.

Lemma loc_rel_key c s x y : loc_rel c s x y -> fst x = fst y.
Proof. now intros [H _]. Qed.

Lemma loc_corr h s t : R h s ->
  match lookup t (locs h), lookup t (slocs s) with
  | Some x, Some c => cell_ok (hc h) s x (SCall c) /\ In (t, x) (locs h) /\ In (t, c) (slocs s)
  | None, None => True
  | _, _ => False
  end.
Proof.
  intro HR. destruct (lookup t (locs h)) as [x|] eqn:El.
  - destruct (F2_lookup_some _ (loc_rel_key _ _) _ _ _ _ (r_locs _ _ HR) El) as [c [Ec [_ Hok]]].
    rewrite Ec. cbn [snd] in Hok. repeat split; [exact Hok|now apply lookup_in|now apply lookup_in].
  - now rewrite (F2_lookup_none _ (loc_rel_key _ _) _ _ _ (r_locs _ _ HR) El).
Qed.

(* ---- a thread ends ------------------------------------------------------------------------ *)
(* c1 is c after the value v was delivered to the holders of t's pending result *)
Definition delivered_to (c c1 : ch) (t rc : N) (v : val) : Prop :=
  good c1 /\ ncell c1 = ncell c /\
  (forall k, (holds c k t -> k <> rc -> get (cells c1) k = Some v) /\
             (~ holds c k t -> get (cells c1) k = get (cells c) k)) /\
  exists d', get (cells c1) rc = Some (VD d').

Lemma deliver_plain c t rc l d : good c -> get (ptrs c) t = Some l -> holds c rc t ->
  delivered_to c (set_value_ref c t d rc) t rc (VD d).
Proof.
  intros Hg Hl Hrc. destruct (set_value_ref_ok c t d rc l Hg Hl) as (G & Nc & C).
  split; [exact G|]. split; [exact Nc|]. split.
  - intro k. destruct (C k) as (C1 & _ & C3). split; assumption.
  - destruct (C rc) as (_ & C2 & _). now apply C2.
Qed.

Lemma deliver_none c t rc l : good c -> get (ptrs c) t = Some l -> holds c rc t ->
  delivered_to c (ptr_clear c t) t rc (VD DNil).
Proof.
  intros Hg Hl Hrc. destruct (ptr_clear_ok c t l Hg Hl) as (G & Nc & C).
  split; [exact G|]. split; [exact Nc|]. split.
  - intro k. destruct (C k) as (C1 & C3). split; [intros Hk _; now apply C1|exact C3].
  - exists DNil. destruct (C rc) as (C1 & _). now apply C1.
Qed.

Lemma deliver_fwd c t rc l q x : good c -> get (ptrs c) t = Some l -> holds c rc t -> holds c x q -> t <> q ->
  delivered_to c (set_value_ref_fwd c t q rc) t rc (VPtr q).
Proof.
  intros Hg Hl Hrc Hxq Hne.
  destruct (re_cell _ _ (proj2 Hg) x q) as [lq [Hlq _]]; [discriminate|exact Hxq|].
  destruct (set_value_ref_fwd_ok c t q rc l lq Hg Hl Hlq Hne) as (G & Nc & C).
  split; [exact G|]. split; [exact Nc|]. split.
  - intro k. destruct (C k) as (C1 & _ & C3). split; [|exact C3]. intros Hk Hn. apply (C1 Hk Hn).
  - exists DNil. destruct (C rc) as (_ & C2 & _). now apply C2.
Qed.

Definition end_cells (h : heap) (t rc : N) (e : endv) : ch :=
  match e with
  | EVal d => set_value_ref (hc h) t d rc
  | ENone => ptr_clear (hc h) t
  | ELocal => match lookup t (locs h) with
              | Some x => match get (cells (hc h)) x with
                          | Some (VPtr q) => set_value_ref_fwd (hc h) t q rc
                          | Some (VD d) => set_value_ref (hc h) t d rc
                          | None => bad (hc h)
                          end
              | None => set_value_ref (hc h) t DNil rc
              end
  end.

Lemma end_cells_ok h s t rc e : R h s -> In (t, rc) (vms h) ->
  delivered_to (hc h) (end_cells h t rc e) t rc (entry_val (end_entry s t e)) /\
  forall q, end_entry s t e = RFwd q -> In q (alive s) /\ t < q.
Proof.
  intros HR Hin.
  assert (Hrc : holds (hc h) rc t) by now apply (r_vms _ _ HR).
  pose proof (r_good _ _ HR) as Hg.
  destruct (re_cell _ _ (proj2 Hg) rc t) as [l [Hl _]]; [discriminate|exact Hrc|].
  unfold end_cells, end_entry. destruct e as [d| |].
  - split; [now apply (deliver_plain _ _ _ l)|discriminate].
  - split; [now apply (deliver_none _ _ _ l)|discriminate].
  - pose proof (loc_corr h s t HR) as Hloc.
    destruct (lookup t (locs h)) as [x|] eqn:E1, (lookup t (slocs s)) as [c|] eqn:E2; try tauto.
    + destruct Hloc as (Hok & Hi1 & Hi2). unfold cell_ok, sref_val in Hok. rewrite Hok.
      pose proof (r_loc_alive _ _ HR t c Hi2) as Htc.
      destruct (lookup c (done s)) as [[[d|]|q]|] eqn:Ec; cbn [entry_val] in *.
      * split; [now apply (deliver_plain _ _ _ l)|discriminate].
      * split; [now apply (deliver_plain _ _ _ l)|discriminate].
      * destruct (r_fwd _ _ HR c q Ec) as [F1 F2].
        split; [apply (deliver_fwd _ _ _ l q x); auto; lia|].
        intros q' E. injection E as <-. split; [exact F1|lia].
      * split; [apply (deliver_fwd _ _ _ l c x); auto; lia|].
        intros q' E. injection E as <-. split; [|exact Htc]. eapply (r_ptr_alive _ _ HR); exact Hok.
    + split; [now apply (deliver_plain _ _ _ l)|discriminate].
Qed.

(* the thread's variable: not the VM cell, not pending on the thread itself *)
Lemma loc_cell_facts h s t rc x : R h s -> In (t, rc) (vms h) -> lookup t (locs h) = Some x ->
  x <> rc /\ ~ holds (hc h) x t /\ live (hc h) x.
Proof.
  intros HR Hin E. pose proof (loc_corr h s t HR) as Hloc. rewrite E in Hloc.
  destruct (lookup t (slocs s)) as [c|]; [|tauto]. destruct Hloc as (Hok & Hi1 & Hi2). split; [|split].
  - intro Ex. subst x. assert (OLoc t = OVm t) by (apply (r_own _ _ HR rc); assumption). discriminate.
  - intro Hh. unfold cell_ok, holds in *. rewrite Hok in Hh. injection Hh as Hh.
    pose proof (r_loc_alive _ _ HR t c Hi2) as Htc. unfold sref_val in Hh.
    destruct (lookup c (done s)) as [[v|q]|] eqn:Ec; cbn [entry_val] in Hh.
    + destruct v; discriminate.
    + injection Hh as ->. destruct (r_fwd _ _ HR c t Ec). lia.
    + injection Hh as ->. lia.
  - unfold cell_ok, live in *. congruence.
Qed.

Lemma destroy_opt_ok c o : good c -> (forall x, o = Some x -> live c x) ->
  good (destroy_opt c o) /\ ncell (destroy_opt c o) = ncell c /\
  forall k, get (cells (destroy_opt c o)) k = if option_N_eq_dec o (Some k) then None else get (cells c) k.
Proof.
  intros G Hl. destruct o as [x|]; cbn [destroy_opt].
  - destruct (destroy_ok c x G (Hl x eq_refl)) as (G' & C & Nc).
    split; [exact G'|]. split; [exact Nc|]. intro k. rewrite C, get_set.
    destruct (option_N_eq_dec (Some x) (Some k)) as [E|E].
    + injection E as ->. now rewrite N.eqb_refl.
    + destruct (N.eqb_spec k x); [congruence|reflexivity].
  - split; [exact G|]. split; [reflexivity|]. intro k.
    destruct (option_N_eq_dec None (Some k)); [discriminate|reflexivity].
Qed.

Lemma vm_end_R t e h s : R h s -> R (vm_end t e h) (s_end t e s) /\ tmps (vm_end t e h) = tmps h.
Proof.
  intro HR. unfold vm_end.
  destruct (lookup t (vms h)) as [rc|] eqn:El.
  2:{ split; [|reflexivity]. unfold s_end.
      assert (Hn : memN t (alive s) = false).
      { destruct (memN t (alive s)) eqn:E; [|reflexivity].
        apply (alive_iff _ _ t HR) in E. destruct E as [rc H].
        apply (vms_lookup_in _ _ t rc HR) in H. congruence. }
      now rewrite Hn. }
  assert (Hin : In (t, rc) (vms h)) by now apply lookup_in.
  assert (Hrc : get (cells (hc h)) rc = Some (VPtr t)) by now apply (r_vms _ _ HR).
  rewrite Hrc. split; [|reflexivity].
  fold (end_cells h t rc e).
  destruct (end_cells_ok h s t rc e HR Hin) as [(G1 & N1 & D & [d' Hrc1]) Hq].
  set (c1 := end_cells h t rc e) in *. set (lr := lookup t (locs h)) in *.
  assert (Hx : forall x, lr = Some x -> x <> rc /\ ~ holds (hc h) x t /\ live (hc h) x)
    by (intros x E; now apply (loc_cell_facts h s t rc x HR Hin)).
  destruct (destroy_opt_ok c1 lr G1) as (G2 & N2 & C2).
  { intros x E. destruct (Hx x E) as (X1 & X2 & X3). unfold live. destruct (D x) as [_ Dn]. now rewrite (Dn X2). }
  set (c2 := destroy_opt c1 lr) in *.
  assert (Hrc2 : get (cells c2) rc = Some (VD d')).
  { rewrite C2. destruct (option_N_eq_dec lr (Some rc)) as [E|E]; [|exact Hrc1].
    destruct (Hx rc E) as [X _]. congruence. }
  assert (Edt : vm_dtor c2 rc = destroy c2 rc) by (unfold vm_dtor; now rewrite Hrc2).
  rewrite Edt.
  destruct (destroy_ok c2 rc G2) as (G3 & C3 & N3); [unfold live; congruence|].
  apply (R_thread_gone h s t rc e _ HR Hin G3).
  - congruence.
  - intros k Hk Hlk. rewrite C3, gso by exact Hk. rewrite C2.
    destruct (option_N_eq_dec lr (Some k)) as [E|E]; [contradiction|].
    destruct (D k) as [D1 D2]. split; [intro Hh; now apply D1|exact D2].
  - rewrite C3. apply gss.
  - intros x E. rewrite C3, get_set. destruct (x =? rc); [reflexivity|]. rewrite C2.
    destruct (option_N_eq_dec lr (Some x)); [reflexivity|contradiction].
  - exact Hq.
Qed.

(* ---- a thread is deleted: the VM's destructor does what `end` without a value does ------------- *)
Lemma vm_kill_R t h s : R h s -> R (vm_kill t h) (s_kill t s) /\ tmps (vm_kill t h) = tmps h.
Proof.
  intro HR. unfold vm_kill, s_kill.
  destruct (lookup t (vms h)) as [rc|] eqn:El.
  2:{ split; [|reflexivity]. unfold s_end.
      assert (Hn : memN t (alive s) = false).
      { destruct (memN t (alive s)) eqn:E; [|reflexivity].
        apply (alive_iff _ _ t HR) in E. destruct E as [rc H].
        apply (vms_lookup_in _ _ t rc HR) in H. congruence. }
      now rewrite Hn. }
  assert (Hin : In (t, rc) (vms h)) by now apply lookup_in.
  assert (Hrc : get (cells (hc h)) rc = Some (VPtr t)) by now apply (r_vms _ _ HR).
  split; [|reflexivity].
  destruct (end_cells_ok h s t rc ENone HR Hin) as [(G1 & N1 & D & [d' Hrc1]) Hq].
  cbn [end_cells] in *. set (c1 := ptr_clear (hc h) t) in *. set (lr := lookup t (locs h)) in *.
  assert (Hx : forall x, lr = Some x -> x <> rc /\ ~ holds (hc h) x t /\ live (hc h) x)
    by (intros x E; now apply (loc_cell_facts h s t rc x HR Hin)).
  destruct (destroy_ok c1 rc G1) as (G2 & C2 & N2); [unfold live; congruence|].
  assert (Edt : vm_dtor (hc h) rc = destroy c1 rc).
  { unfold vm_dtor. rewrite Hrc. reflexivity. }
  rewrite Edt.
  destruct (destroy_opt_ok (destroy c1 rc) lr G2) as (G3 & N3 & C3).
  { intros x E. destruct (Hx x E) as (X1 & X2 & X3). unfold live. rewrite C2, gso by exact X1.
    destruct (D x) as [_ Dn]. now rewrite (Dn X2). }
  apply (R_thread_gone h s t rc ENone _ HR Hin G3).
  - congruence.
  - intros k Hk Hlk. rewrite C3. destruct (option_N_eq_dec lr (Some k)) as [E|E]; [contradiction|].
    rewrite C2, gso by exact Hk. destruct (D k) as [D1 D2]. split; [intro Hh; now apply D1|exact D2].
  - rewrite C3. destruct (option_N_eq_dec lr (Some rc)); [reflexivity|]. rewrite C2. apply gss.
  - intros x E. rewrite C3. destruct (option_N_eq_dec lr (Some x)); [reflexivity|contradiction].
  - exact Hq.
Qed.

(* ---- ... or while it executes: marked first, the VM's destructor runs at the end of Execute ------ *)
Lemma vm_kill_exec_R t h s : R h s -> R (vm_kill_exec t h) (s_kill t s) /\ tmps (vm_kill_exec t h) = tmps h.
Proof.
  intro HR. unfold vm_kill_exec, vm_mark, vm_reap, s_kill.
  destruct (lookup t (vms h)) as [rc|] eqn:El.
  2:{ split; [|reflexivity]. unfold s_end.
      assert (Hn : memN t (alive s) = false).
      { destruct (memN t (alive s)) eqn:E; [|reflexivity].
        apply (alive_iff _ _ t HR) in E. destruct E as [rc H].
        apply (vms_lookup_in _ _ t rc HR) in H. congruence. }
      now rewrite Hn. }
  assert (Hin : In (t, rc) (vms h)) by now apply lookup_in.
  assert (Hrc : get (cells (hc h)) rc = Some (VPtr t)) by now apply (r_vms _ _ HR).
  sp. split; [|reflexivity].
  pose proof (r_good _ _ HR) as G0.
  set (lr := lookup t (locs h)) in *.
  assert (Hx : forall x, lr = Some x -> x <> rc /\ ~ holds (hc h) x t /\ live (hc h) x)
    by (intros x E; now apply (loc_cell_facts h s t rc x HR Hin)).
  destruct (destroy_opt_ok (hc h) lr G0) as (G1 & N1 & C1); [intros x E; now apply Hx|].
  set (c1 := destroy_opt (hc h) lr) in *.
  assert (Hrc1 : get (cells c1) rc = Some (VPtr t)).
  { rewrite C1. destruct (option_N_eq_dec lr (Some rc)) as [E|E]; [|exact Hrc]. destruct (Hx rc E) as [X _]. congruence. }
  destruct (re_cell _ _ (proj2 G1) rc t) as [l [Hl _]]; [discriminate|exact Hrc1|].
  destruct (ptr_clear_ok c1 t l G1 Hl) as (G2 & N2 & C2).
  assert (Edt : vm_dtor c1 rc = destroy (ptr_clear c1 t) rc) by (unfold vm_dtor; now rewrite Hrc1).
  rewrite Edt.
  destruct (C2 rc) as [Crc _]. specialize (Crc Hrc1).
  destruct (destroy_ok (ptr_clear c1 t) rc G2) as (G3 & C3 & N3); [unfold live; congruence|].
  apply (R_thread_gone h s t rc ENone _ HR Hin G3).
  - congruence.
  - intros k Hk Hlk. rewrite C3, gso by exact Hk. destruct (C2 k) as [D1 D2].
    assert (Ek : get (cells c1) k = get (cells (hc h)) k).
    { rewrite C1. destruct (option_N_eq_dec lr (Some k)); [contradiction|reflexivity]. }
    split.
    + intro Hh. cbn [end_entry entry_val]. apply D1. unfold holds. now rewrite Ek.
    + intro Hh. rewrite D2; [exact Ek|]. unfold holds. now rewrite Ek.
  - rewrite C3. apply gss.
  - intros x E. destruct (Hx x E) as (X1 & X2 & X3). rewrite C3, gso by exact X1.
    destruct (C2 x) as [_ D2]. rewrite D2.
    + rewrite C1. destruct (option_N_eq_dec lr (Some x)); [reflexivity|contradiction].
    + unfold holds. rewrite C1. destruct (option_N_eq_dec lr (Some x)); [discriminate|contradiction].
  - discriminate.
Qed.

(* ---- ownership of tracked cells ---------------------------------------------------------------- *)
Lemma own_inj_sub h s h' : R h s -> (forall k o, owns h' k o -> owns h k o) ->
  forall k o o', owns h' k o -> owns h' k o' -> o = o'.
Proof. intros HR Hs k o o' H1 H2. apply (r_own _ _ HR k); now apply Hs. Qed.

(* new owners get fresh cells *)
Lemma own_inj_extend h s h' k1 o1 k2 o2 : R h s ->
  ncell (hc h) <= k1 -> ncell (hc h) <= k2 -> (k1 = k2 -> o1 = o2) ->
  (forall k o, owns h' k o -> owns h k o \/ (k = k1 /\ o = o1) \/ (k = k2 /\ o = o2)) ->
  forall k o o', owns h' k o -> owns h' k o' -> o = o'.
Proof.
  intros HR F1 F2 F12 Hs k o o' H1 H2.
  assert (Hold : forall k0 o0, owns h k0 o0 -> k0 <> k1 /\ k0 <> k2).
  { intros k0 o0 H0. pose proof (fresh_not_owned _ _ _ _ HR H0). lia. }
  destruct (Hs _ _ H1) as [A|[[A1 A2]|[A1 A2]]], (Hs _ _ H2) as [B|[[B1 B2]|[B1 B2]]]; subst;
    try (destruct (Hold _ _ A); congruence); try (destruct (Hold _ _ B); congruence); auto.
  - apply (r_own _ _ HR k); assumption.
  - symmetry. now apply F12.
Qed.

(* ---- a thread is created (host call or `thread`) ------------------------------------------------ *)
Lemma thread_begin_R call h s : R h s ->
  R (fst (thread_begin call h)) (fst (s_thread_begin call s)) /\
  snd (thread_begin call h) = snd (s_thread_begin call s) /\ snd (thread_begin call h) = ncall h.
Proof.
  intro HR. unfold thread_begin, s_thread_begin.
  pose proof (r_good _ _ HR) as G0.
  destruct (alloc_ok (hc h) DNil G0) as (G1 & S1 & C1 & N1).
  destruct (alloc (hc h) (VD DNil)) as [c1 rc] eqn:E1. cbn [fst snd] in *. subst rc.
  destruct (alloc_ok c1 DNil G1) as (G2 & S2 & C2 & N2).
  destruct (alloc c1 (VD DNil)) as [c2 tm] eqn:E2. cbn [fst snd] in *. subst tm.
  set (rc := ncell (hc h)) in *. set (tm := ncell c1) in *.
  assert (Htm : tm = rc + 1) by (unfold tm; exact N1).
  assert (Hc2 : forall k, get (cells c2) k =
            if k =? tm then Some (VD DNil) else if k =? rc then Some (VD DNil) else get (cells (hc h)) k).
  { intro k. rewrite C2, C1, !get_set. reflexivity. }
  set (t := ncall h).
  assert (Hnoh : forall k, ~ holds c2 k t).
  { intros k Hk. unfold holds in Hk. rewrite Hc2 in Hk.
    destruct (k =? tm); [discriminate|]. destruct (k =? rc); [discriminate|].
    pose proof (r_ptr_fresh _ _ HR k t Hk). unfold t in *. lia. }
  destruct (new_pointer_ok c2 tm t DNil G2) as (G3 & C3 & N3).
  { rewrite Hc2, N.eqb_refl. reflexivity. }
  { exact Hnoh. }
  destruct (copy_assign_ok (new_pointer c2 tm t) rc tm (VPtr t) G3) as (G4 & C4 & N4).
  { lia. }
  { unfold live. rewrite C3, gso by lia. rewrite Hc2.
    destruct (N.eqb_spec rc tm); [lia|]. rewrite N.eqb_refl. discriminate. }
  { rewrite C3. apply gss. }
  set (c4 := copy_assign (new_pointer c2 tm t) rc tm) in *.
  assert (Hc4 : forall k, get (cells c4) k =
            if k =? rc then Some (VPtr t) else if k =? tm then Some (VPtr t) else get (cells (hc h)) k).
  { intro k. rewrite C4, C3, !get_set, Hc2.
    destruct (k =? rc); [reflexivity|]. destruct (k =? tm); reflexivity. }
  assert (Hold : forall k, live (hc h) k -> get (cells c4) k = get (cells (hc h)) k).
  { intros k Hk. rewrite Hc4. destruct G0 as [_ [_ _ Hf]]. unfold live in Hk.
    destruct (N.eqb_spec k rc) as [E|_]; [exfalso; apply Hk, Hf; unfold rc in *; lia|].
    destruct (N.eqb_spec k tm) as [E|_]; [exfalso; apply Hk, Hf; unfold rc in *; lia|reflexivity]. }
  assert (Hown : forall k o rf, owns h k o -> cell_ok (hc h) s k rf ->
            cell_ok c4 (mkStore (alive s ++ [sncall s]) (done s) (slocs s) (stcall s ++ [(sncall s, call)])
                                (srecs s) (snrec s) (sncall s + 1) (sncall s :: stmps s)) k rf).
  { intros k o rf Ho. apply cell_ok_frame; [reflexivity|]. apply Hold. eapply owned_live; eauto. }
  assert (Hnd : lookup t (done s) = None).
  { destruct (lookup t (done s)) eqn:E; [|reflexivity].
    pose proof (r_done_fresh _ _ HR _ _ E). rewrite <- (r_ncall _ _ HR) in H. unfold t in H. lia. }
  assert (Hna : ~ In t (alive s)).
  { intro H. pose proof (r_alive_fresh _ _ HR _ H). rewrite <- (r_ncall _ _ HR) in H0. unfold t in H0. lia. }
  assert (Et : t = sncall s) by apply (r_ncall _ _ HR).
  cbn [fst snd]. split; [|split; [exact Et|reflexivity]].
  constructor; sp.
  - exact G4.
  - apply (r_nrec _ _ HR).
  - now rewrite Et.
  - rewrite map_app. cbn. rewrite (r_alive _ _ HR). now rewrite Et.
  - rewrite (r_tcall _ _ HR). now rewrite Et.
  - eapply recs_transfer; [apply (r_recs _ _ HR)|].
    intros r a k rf Hk. apply (Hown k (ORec r)). now exists a.
  - intros t' rc' H. apply in_app_or in H. destruct H as [H|[E|[]]].
    + rewrite Hold by (eapply (owned_live h s rc' (OVm t')); eauto). now apply (r_vms _ _ HR).
    + injection E as <- <-. rewrite Hc4, N.eqb_refl. reflexivity.
  - eapply locs_transfer; [apply (r_locs _ _ HR)|]. intros t' k rf Hk. now apply (Hown k (OLoc t')).
  - constructor.
    + split; [exact Et|]. unfold cell_ok, sref_val. sp. rewrite <- Et, Hnd. rewrite Hc4.
      destruct (tm =? rc); [reflexivity|]. now rewrite N.eqb_refl.
    + eapply tmps_transfer; [apply (r_tmps _ _ HR)|]. intros k u rf Hk. now apply (Hown k (OTmp u)).
  - rewrite <- Et. apply nodup_snoc; [apply (r_nd_alive _ _ HR)|exact Hna].
  - intros t' H. apply in_app_or in H. destruct H as [H|[E|[]]].
    + now apply (r_pending _ _ HR).
    + rewrite <- E, <- Et. exact Hnd.
  - intros u c H. destruct (r_fwd _ _ HR u c H) as [F1 F2]. split; [apply in_or_app; now left|exact F2].
  - apply (r_loc_alive _ _ HR).
  - apply (r_loc_keys _ _ HR).
  - constructor; [|apply (r_tmp_nd _ _ HR)]. intro H. apply in_map_iff in H. destruct H as [[k u] [E H]].
    cbn in E. subst k. pose proof (fresh_not_owned h s tm (OTmp u) HR H). unfold rc in *. lia.
  - apply (own_inj_extend h s _ rc (OVm t) tm (OTmp t) HR).
    + unfold rc. lia.
    + unfold rc in *. lia.
    + lia.
    + intros k o Ho. destruct o as [t'|r|t'|t']; cbn [owns] in *; sp.
      * apply in_app_or in Ho. destruct Ho as [Ho|[E|[]]]; [now left|]. injection E as <- <-. right. left. now split.
      * now left.
      * now left.
      * destruct Ho as [E|Ho]; [|now left]. injection E as <- <-. right. right. now split.
  - intros c p H. unfold holds in H. rewrite Hc4 in H. apply in_or_app.
    destruct (c =? rc); [injection H as <-; right; left; now rewrite Et|].
    destruct (c =? tm); [injection H as <-; right; left; now rewrite Et|].
    left. now apply (r_ptr_alive _ _ HR c).
  - intros t' x H. pose proof (r_done_fresh _ _ HR t' x H). lia.
  - intros t' H. apply in_app_or in H. destruct H as [H|[E|[]]].
    + pose proof (r_alive_fresh _ _ HR t' H). lia.
    + lia.
  - apply (r_rec_keys _ _ HR).
  - apply (r_rec_fresh _ _ HR).
Qed.

Lemma call_begin_R lbl h s : R h s ->
  R (fst (call_begin lbl h)) (fst (s_begin lbl s)) /\ snd (call_begin lbl h) = snd (s_begin lbl s).
Proof.
  intro HR. unfold call_begin, s_begin. destruct lbl.
  - rewrite (r_ncall _ _ HR). destruct (thread_begin_R (sncall s) h s HR) as (H1 & H2 & _). now split.
  - sp. split; [|apply (r_ncall _ _ HR)].
    constructor; sp.
    + apply (r_good _ _ HR).
    + apply (r_nrec _ _ HR).
    + now rewrite (r_ncall _ _ HR).
    + apply (r_alive _ _ HR).
    + apply (r_tcall _ _ HR).
    + apply (r_recs _ _ HR).
    + apply (r_vms _ _ HR).
    + apply (r_locs _ _ HR).
    + apply (r_tmps _ _ HR).
    + apply (r_nd_alive _ _ HR).
    + apply (r_pending _ _ HR).
    + apply (r_fwd _ _ HR).
    + apply (r_loc_alive _ _ HR).
    + apply (r_loc_keys _ _ HR).
    + apply (r_tmp_nd _ _ HR).
    + apply (r_own _ _ HR).
    + apply (r_ptr_alive _ _ HR).
    + intros t x H. pose proof (r_done_fresh _ _ HR t x H). lia.
    + intros t H. pose proof (r_alive_fresh _ _ HR t H). lia.
    + apply (r_rec_keys _ _ HR).
    + apply (r_rec_fresh _ _ HR).
Qed.

Lemma spawn_R parent h s : R h s ->
  R (fst (spawn parent h)) (fst (s_spawn parent s)) /\ snd (spawn parent h) = snd (s_spawn parent s).
Proof.
  intro HR. unfold spawn, s_spawn, call_of, s_call_of. rewrite (r_tcall _ _ HR).
  destruct (thread_begin_R (match lookup parent (stcall s) with Some c => c | None => parent end) h s HR) as (H1 & H2 & _).
  now split.
Qed.

(* ---- a generic repackaging: threads and results unchanged ---------------------------------------- *)
Lemma R_update h s h' s' :
  R h s -> good (hc h') ->
  vms h' = vms h -> tcall h' = tcall h -> ncall h' = ncall h ->
  alive s' = alive s -> done s' = done s -> stcall s' = stcall s -> sncall s' = sncall s ->
  nrec h' = snrec s' ->
  Forall2 (rec_rel (hc h') s') (recs h') (srecs s') ->
  (forall t rc, In (t, rc) (vms h) -> get (cells (hc h')) rc = get (cells (hc h)) rc) ->
  Forall2 (loc_rel (hc h') s') (locs h') (slocs s') ->
  Forall2 (tmp_rel (hc h') s') (tmps h') (stmps s') ->
  (forall t c, In (t, c) (slocs s') -> t < c) ->
  NoDup (map fst (locs h')) -> NoDup (map fst (tmps h')) ->
  (forall k o o', owns h' k o -> owns h' k o' -> o = o') ->
  (forall k p, holds (hc h') k p -> exists k', holds (hc h) k' p) ->
  NoDup (map fst (recs h')) -> (forall rid, In rid (map fst (recs h')) -> rid < nrec h') ->
  R h' s'.
Proof.
  intros HR G Ev Et En Ea Ed Es Esn Enr Fr Hv Fl Ft Hlt Nl Nt Own Hp Nk Hf.
  constructor.
  - exact G.
  - exact Enr.
  - rewrite En, Esn. apply (r_ncall _ _ HR).
  - rewrite Ev, Ea. apply (r_alive _ _ HR).
  - rewrite Et, Es. apply (r_tcall _ _ HR).
  - exact Fr.
  - rewrite Ev. intros t rc H. rewrite (Hv _ _ H). now apply (r_vms _ _ HR).
  - exact Fl.
  - exact Ft.
  - rewrite Ea. apply (r_nd_alive _ _ HR).
  - rewrite Ea, Ed. apply (r_pending _ _ HR).
  - rewrite Ea, Ed. apply (r_fwd _ _ HR).
  - exact Hlt.
  - exact Nl.
  - exact Nt.
  - exact Own.
  - rewrite Ea. intros c p H. destruct (Hp c p H) as [k' H']. eapply (r_ptr_alive _ _ HR); eauto.
  - rewrite Ed, Esn. apply (r_done_fresh _ _ HR).
  - rewrite Ea, Esn. apply (r_alive_fresh _ _ HR).
  - exact Nk.
  - exact Hf.
Qed.

Lemma tmp_head h s tm u rest : R h s -> tmps h = (tm, u) :: rest ->
  exists rest', stmps s = u :: rest' /\ cell_ok (hc h) s tm (SCall u) /\ Forall2 (tmp_rel (hc h) s) rest rest' /\
                ~ In tm (map fst rest).
Proof.
  intros HR E. pose proof (r_tmps _ _ HR) as F. pose proof (r_tmp_nd _ _ HR) as Nd. rewrite E in F, Nd.
  inversion F as [|x y l sl [E1 E2] F' E3 E4]; subst. cbn [fst snd] in *.
  exists sl. repeat split; auto. now inversion Nd.
Qed.

Lemma cells_same_done c s s' k rf : done s' = done s -> cell_ok c s k rf -> cell_ok c s' k rf.
Proof. intros E H. unfold cell_ok, sref_val in *. now rewrite E. Qed.

(* ---- `local.r = thread sub` returned ----------------------------------------------------------- *)
Lemma spawned_R parent child h s : R h s -> R (spawned parent child h) (s_spawned parent child s).
Proof.
  intro HR. unfold spawned, s_spawned.
  destruct (tmps h) as [|[tm u] rest] eqn:Et.
  { pose proof (r_tmps _ _ HR) as F. rewrite Et in F. inversion F. exact HR. }
  destruct (tmp_head h s tm u rest HR Et) as (rest' & Es & Hok & Fr & Hnin). rewrite Es.
  pose proof (loc_corr h s parent HR) as Hloc.
  pose proof (r_good _ _ HR) as G0.
  assert (Htm_own : owns h tm (OTmp u)) by (cbn; rewrite Et; now left).
  assert (Hne_tm : forall k o, owns h k o -> o <> OTmp u -> k <> tm).
  { intros k o Ho Hn E. subst k. apply Hn. apply (r_own _ _ HR tm); assumption. }
  assert (Hrest_tm : forall k t', In (k, t') rest -> k <> tm).
  { intros k t' H E. subst k. apply Hnin. apply in_map_iff. exists (tm, t'). now split. }
  destruct ((parent <? u) && match lookup parent (locs h) with None => true | Some _ => false end) eqn:Eg.
  - (* the variable is created *)
    assert (Eg' : (parent <? u) && match lookup parent (slocs s) with None => true | Some _ => false end = true).
    { destruct (lookup parent (locs h)), (lookup parent (slocs s)); try tauto; exact Eg. }
    rewrite Eg'. apply andb_true_iff in Eg. destruct Eg as [Elt Enl]. apply N.ltb_lt in Elt.
    assert (Hnl : lookup parent (locs h) = None) by (destruct (lookup parent (locs h)); [discriminate|reflexivity]).
    unfold cell_ok in Hok.
    destruct (copy_construct_ok (hc h) tm _ G0 Hok) as (G1 & S1 & N1 & C1).
    destruct (copy_construct (hc h) tm) as [c1 lr] eqn:Ec. cbn [fst snd] in *. subst lr.
    destruct (destroy_ok c1 tm G1) as (G2 & C2 & N2).
    { unfold live. rewrite C1. destruct (tm =? ncell (hc h)); congruence. }
    assert (Hc : forall k, get (cells (destroy c1 tm)) k =
               if k =? tm then None else if k =? ncell (hc h) then Some (sref_val s (SCall u)) else get (cells (hc h)) k).
    { intro k. rewrite C2, get_set, C1. reflexivity. }
    assert (Hkeep : forall k o, owns h k o -> o <> OTmp u -> get (cells (destroy c1 tm)) k = get (cells (hc h)) k).
    { intros k o Ho Hn. rewrite Hc. destruct (N.eqb_spec k tm) as [E|_]; [exfalso; eapply Hne_tm; eauto|].
      destruct (N.eqb_spec k (ncell (hc h))) as [E|_]; [|reflexivity].
      pose proof (fresh_not_owned _ _ _ _ HR Ho). lia. }
    eapply (R_update h s); [exact HR|exact G2|..]; sp; try reflexivity.
    + apply (r_nrec _ _ HR).
    + eapply recs_transfer; [apply (r_recs _ _ HR)|]. intros r a k rf Hk. apply cell_ok_frame; [reflexivity|].
      apply (Hkeep k (ORec r)); [now exists a|discriminate].
    + intros t rc H. apply (Hkeep rc (OVm t)); [exact H|discriminate].
    + apply Forall2_app.
      * eapply locs_transfer; [apply (r_locs _ _ HR)|]. intros t k rf Hk. apply cell_ok_frame; [reflexivity|].
        apply (Hkeep k (OLoc t)); [exact Hk|discriminate].
      * constructor; [|constructor]. split; [reflexivity|]. cbn [fst snd]. unfold cell_ok. rewrite Hc.
        destruct (N.eqb_spec (ncell (hc h)) tm) as [E|_].
        -- pose proof (fresh_not_owned _ _ _ _ HR Htm_own). lia.
        -- now rewrite N.eqb_refl.
    + eapply tmps_transfer; [exact Fr|]. intros k t' rf Hk. apply cell_ok_frame; [reflexivity|].
      rewrite Hc. destruct (N.eqb_spec k tm) as [E|_]; [exfalso; eapply Hrest_tm; eauto|].
      destruct (N.eqb_spec k (ncell (hc h))) as [E|_]; [|reflexivity].
      assert (Ho : owns h k (OTmp t')) by (cbn; rewrite Et; now right).
      pose proof (fresh_not_owned _ _ _ _ HR Ho). lia.
    + intros t c H. apply in_app_or in H. destruct H as [H|[E|[]]]; [now apply (r_loc_alive _ _ HR)|].
      injection E as <- <-. exact Elt.
    + rewrite map_app. cbn. apply nodup_snoc; [apply (r_loc_keys _ _ HR)|]. now apply lookup_none_notin.
    + pose proof (r_tmp_nd _ _ HR) as Nd. rewrite Et in Nd. now inversion Nd.
    + apply (own_inj_extend h s _ (ncell (hc h)) (OLoc parent) (ncell (hc h)) (OLoc parent) HR); try lia; auto.
      intros k o Ho. destruct o as [t'|r|t'|t']; cbn [owns] in *; sp.
      * now left.
      * now left.
      * apply in_app_or in Ho. destruct Ho as [Ho|[E|[]]]; [now left|]. injection E as <- <-. right. left. now split.
      * left. rewrite Et. now right.
    + intros k p H. unfold holds in H. rewrite Hc in H. destruct (k =? tm); [discriminate|].
      destruct (k =? ncell (hc h)).
      * exists tm. unfold holds. congruence.
      * now exists k.
    + apply (r_rec_keys _ _ HR).
    + apply (r_rec_fresh _ _ HR).
  - (* not reached: the value is dropped *)
    assert (Eg' : (parent <? u) && match lookup parent (slocs s) with None => true | Some _ => false end = false).
    { destruct (lookup parent (locs h)), (lookup parent (slocs s)); try tauto; exact Eg. }
    rewrite Eg'.
    destruct (destroy_ok (hc h) tm G0) as (G2 & C2 & N2); [eapply owned_live; eauto|].
    assert (Hkeep : forall k o, owns h k o -> o <> OTmp u -> get (cells (destroy (hc h) tm)) k = get (cells (hc h)) k).
    { intros k o Ho Hn. rewrite C2, gso; [reflexivity|]. eapply Hne_tm; eauto. }
    eapply (R_update h s); [exact HR|exact G2|..]; sp; try reflexivity.
    + apply (r_nrec _ _ HR).
    + eapply recs_transfer; [apply (r_recs _ _ HR)|]. intros r a k rf Hk. apply cell_ok_frame; [reflexivity|].
      apply (Hkeep k (ORec r)); [now exists a|discriminate].
    + intros t rc H. apply (Hkeep rc (OVm t)); [exact H|discriminate].
    + eapply locs_transfer; [apply (r_locs _ _ HR)|]. intros t k rf Hk. apply cell_ok_frame; [reflexivity|].
      apply (Hkeep k (OLoc t)); [exact Hk|discriminate].
    + eapply tmps_transfer; [exact Fr|]. intros k t' rf Hk. apply cell_ok_frame; [reflexivity|].
      rewrite C2, gso; [reflexivity|]. eapply Hrest_tm; eauto.
    + apply (r_loc_alive _ _ HR).
    + apply (r_loc_keys _ _ HR).
    + pose proof (r_tmp_nd _ _ HR) as Nd. rewrite Et in Nd. now inversion Nd.
    + apply (own_inj_sub h s _ HR). intros k o Ho. destruct o; cbn [owns] in *; sp; auto. rewrite Et. now right.
    + intros k p H. unfold holds in H. rewrite C2, get_set in H. destruct (k =? tm); [discriminate|]. now exists k.
    + apply (r_rec_keys _ _ HR).
    + apply (r_rec_fresh _ _ HR).
Qed.

(* ---- a record is added ---------------------------------------------------------------------- *)
Lemma R_add_rec h s c' a o o' tmps' stmps' :
  R h s -> good c' ->
  Forall2 (tmp_rel (hc h) s) tmps' stmps' -> (forall x, In x tmps' -> In x (tmps h)) -> NoDup (map fst tmps') ->
  (forall k ow, owns h k ow -> (forall t, ow = OTmp t -> In (k, t) tmps') ->
                get (cells c') k = get (cells (hc h)) k) ->
  (forall k p, holds c' k p -> exists k', holds (hc h) k' p) ->
  match o, o' with
  | None, None => True
  | Some k, Some rf => ncell (hc h) <= k /\ cell_ok c' s k rf
  | _, _ => False
  end ->
  R (mkHeap c' (vms h) (locs h) (tcall h) (recs h ++ [(nrec h, mkRec a o)]) (nrec h + 1) (ncall h) tmps')
    (mkStore (alive s) (done s) (slocs s) (stcall s) (srecs s ++ [(snrec s, mkSRec a o')]) (snrec s + 1)
             (sncall s) stmps').
Proof.
  intros HR G Ft Hsub Nt Hkeep Hp Ho.
  assert (Hk' : forall k ow, owns h k ow -> (forall t, ow <> OTmp t) -> get (cells c') k = get (cells (hc h)) k).
  { intros k ow H Hn. apply (Hkeep k ow H). intros t E. exfalso. eapply Hn; eauto. }
  eapply (R_update h s); [exact HR|exact G|..]; sp; try reflexivity.
  - now rewrite (r_nrec _ _ HR).
  - apply Forall2_app.
    + eapply recs_transfer; [apply (r_recs _ _ HR)|].
      intros r a0 k rf Hk. apply cell_ok_frame; [reflexivity|]. apply (Hk' k (ORec r)); [now exists a0|discriminate].
    + constructor; [|constructor]. split; [apply (r_nrec _ _ HR)|]. split; [reflexivity|].
      cbn. destruct o, o'; tauto.
  - intros t rc H. apply (Hk' rc (OVm t)); [exact H|discriminate].
  - eapply locs_transfer; [apply (r_locs _ _ HR)|]. intros t k rf Hk. apply cell_ok_frame; [reflexivity|].
    apply (Hk' k (OLoc t)); [exact Hk|discriminate].
  - eapply tmps_transfer; [exact Ft|]. intros k t rf Hk. apply cell_ok_frame; [reflexivity|].
    apply (Hkeep k (OTmp t)); [cbn; now apply Hsub|]. intros t0 E. now injection E as <-.
  - apply (r_loc_alive _ _ HR).
  - apply (r_loc_keys _ _ HR).
  - exact Nt.
  - destruct o as [kn|].
    + destruct o' as [rf|]; [|destruct Ho]. destruct Ho as [Hl _].
      apply (own_inj_extend h s _ kn (ORec (nrec h)) kn (ORec (nrec h)) HR); auto.
      intros k ow H. destruct ow as [t|r|t|t]; cbn [owns] in *; sp.
      * now left.
      * destruct H as [a0 H]. apply in_app_or in H. destruct H as [H|[E|[]]]; [left; now exists a0|].
        injection E as <- _ <-. right. left. now split.
      * now left.
      * left. now apply Hsub.
    + apply (own_inj_sub h s _ HR). intros k ow H. destruct ow as [t|r|t|t]; cbn [owns] in *; sp; auto.
      destruct H as [a0 H]. apply in_app_or in H. destruct H as [H|[E|[]]]; [now exists a0|discriminate].
  - exact Hp.
  - rewrite map_app. cbn. apply nodup_snoc; [apply (r_rec_keys _ _ HR)|].
    intro H. apply (r_rec_fresh _ _ HR) in H. lia.
  - intros rid H. rewrite map_app in H. apply in_app_or in H. destruct H as [H|[E|[]]].
    + apply (r_rec_fresh _ _ HR) in H. lia.
    + cbn in E. lia.
Qed.

Lemma tmps_self h s : R h s ->
  Forall2 (tmp_rel (hc h) s) (tmps h) (stmps s) /\ (forall x, In x (tmps h) -> In x (tmps h)) /\ NoDup (map fst (tmps h)).
Proof. intro HR. split; [apply (r_tmps _ _ HR)|]. split; [auto|apply (r_tmp_nd _ _ HR)]. Qed.

Lemma call_finish_nolabel_R t args h s : R h s -> R (call_finish false t args h) (s_finish false t args s).
Proof.
  intro HR. unfold call_finish, s_finish. destruct (tmps_self h s HR) as (T1 & T2 & T3).
  apply (R_add_rec h s (hc h) args None None (tmps h) (stmps s) HR); auto.
  - apply (r_good _ _ HR).
  - intros k p H. now exists k.
Qed.

Lemma call_finish_R t args h s : R h s -> R (call_finish true t args h) (s_finish true t args s).
Proof.
  intro HR. unfold call_finish, s_finish.
  destruct (tmps h) as [|[tm u] rest] eqn:Et.
  { pose proof (r_tmps _ _ HR) as F. rewrite Et in F. inversion F as [E1 E2|]. 
    assert (T : Forall2 (tmp_rel (hc h) s) (@nil (N * N)) (@nil N)) by constructor.
    apply (R_add_rec h s (hc h) args None None [] [] HR); auto.
    - apply (r_good _ _ HR).
    - intros x [].
    - constructor.
    - intros k p H. now exists k. }
  destruct (tmp_head h s tm u rest HR Et) as (rest' & Es & Hok & Fr & Hnin). rewrite Es.
  pose proof (r_good _ _ HR) as G0.
  assert (Htm_own : owns h tm (OTmp u)) by (cbn; rewrite Et; now left).
  assert (Hsub : forall x, In x rest -> In x (tmps h)) by (intros x H; rewrite Et; now right).
  assert (Nd : NoDup (map fst rest)) by (pose proof (r_tmp_nd _ _ HR) as Nd; rewrite Et in Nd; now inversion Nd).
  assert (Hne_tm : forall k ow, owns h k ow -> (forall t0, ow = OTmp t0 -> In (k, t0) rest) -> k <> tm).
  { intros k ow Ho Hr E. subst k. assert (E : ow = OTmp u) by (apply (r_own _ _ HR tm); assumption).
    apply Hnin. apply in_map_iff. exists (tm, u). split; [reflexivity|]. now apply Hr. }
  unfold cell_ok in Hok. rewrite Hok.
  assert (NoSlot : sref_val s (SCall u) = VD DNil ->
            R (mkHeap (destroy (hc h) tm) (vms h) (locs h) (tcall h) (recs h ++ [(nrec h, mkRec args None)]) (nrec h + 1)
                      (ncall h) rest)
              (mkStore (alive s) (done s) (slocs s) (stcall s) (srecs s ++ [(snrec s, mkSRec args None)]) (snrec s + 1)
                       (sncall s) rest')).
  { intros _. destruct (destroy_ok (hc h) tm G0) as (G1 & C1 & N1); [eapply owned_live; eauto|].
    apply (R_add_rec h s _ args None None rest rest' HR); auto.
    - intros k ow Ho Hr. rewrite C1, gso; [reflexivity|]. eapply Hne_tm; eauto.
    - intros k p H. unfold holds in H. rewrite C1, get_set in H. destruct (k =? tm); [discriminate|]. now exists k. }
  assert (Slot : R (let '(c1, sc) := move_construct (hc h) tm in
               mkHeap (destroy c1 tm) (vms h) (locs h) (tcall h) (recs h ++ [(nrec h, mkRec args (Some sc))]) (nrec h + 1)
                      (ncall h) rest)
              (mkStore (alive s) (done s) (slocs s) (stcall s) (srecs s ++ [(snrec s, mkSRec args (Some (SCall u)))])
                       (snrec s + 1) (sncall s) rest')).
  { destruct (move_construct_ok (hc h) tm (sref_val s (SCall u)) G0 Hok) as (G1 & S1 & N1 & C1).
    destruct (move_construct (hc h) tm) as [c1 sc] eqn:Em. cbn [fst snd] in *. subst sc.
    assert (Hne : tm <> ncell (hc h)) by (eapply fresh_ne; eauto).
    destruct (destroy_ok c1 tm G1) as (G2 & C2 & N2).
    { unfold live. rewrite C1, N.eqb_refl. discriminate. }
    assert (Hc : forall k, get (cells (destroy c1 tm)) k =
               if k =? tm then None else if k =? ncell (hc h) then Some (sref_val s (SCall u))
               else get (cells (hc h)) k).
    { intro k. rewrite C2, get_set, C1. destruct (k =? tm); reflexivity. }
    apply (R_add_rec h s _ args (Some (ncell (hc h))) (Some (SCall u)) rest rest' HR); auto.
    - intros k ow Ho Hr. rewrite Hc.
      destruct (N.eqb_spec k tm) as [E|_]; [exfalso; eapply Hne_tm; eauto|].
      destruct (N.eqb_spec k (ncell (hc h))) as [E|_]; [|reflexivity].
      pose proof (fresh_not_owned _ _ _ _ HR Ho). lia.
    - intros k p H. unfold holds in H. rewrite Hc in H. destruct (k =? tm); [discriminate|].
      destruct (k =? ncell (hc h)); [exists tm; unfold holds; congruence|now exists k].
    - split; [lia|]. unfold cell_ok. rewrite Hc. destruct (N.eqb_spec (ncell (hc h)) tm); [congruence|].
      now rewrite N.eqb_refl. }
  unfold sref_val in *.
  destruct (lookup u (done s)) as [[[[|k i]|]|q]|] eqn:El; cbn [entry_val] in *.
  - apply NoSlot. reflexivity.
  - exact Slot.
  - apply NoSlot. reflexivity.
  - exact Slot.
  - exact Slot.
Qed.

(* ---- records change ------------------------------------------------------------------------- *)
Lemma rec_rel_done c s1 s2 x y : done s1 = done s2 -> rec_rel c s1 x y -> rec_rel c s2 x y.
Proof.
  intros E (H1 & H2 & H3). repeat split; auto.
  destruct (rslot (snd x)), (sslot (snd y)); auto. unfold cell_ok, sref_val in *. now rewrite <- E.
Qed.

Lemma R_change h s c' recs' srecs' :
  R h s -> good c' ->
  (forall k ow, owns h k ow -> (forall r, ow <> ORec r) -> get (cells c') k = get (cells (hc h)) k) ->
  Forall2 (rec_rel c' s) recs' srecs' ->
  (forall k r, (exists a, In (r, mkRec a (Some k)) recs') ->
     (exists a, In (r, mkRec a (Some k)) (recs h)) \/ ncell (hc h) <= k) ->
  (forall r a r' a' k, In (r, mkRec a (Some k)) recs' -> In (r', mkRec a' (Some k)) recs' -> r = r') ->
  (forall k p, holds c' k p -> exists k', holds (hc h) k' p) ->
  NoDup (map fst recs') -> (forall rid, In rid (map fst recs') -> rid < nrec h) ->
  R (mkHeap c' (vms h) (locs h) (tcall h) recs' (nrec h) (ncall h) (tmps h))
    (mkStore (alive s) (done s) (slocs s) (stcall s) srecs' (snrec s) (sncall s) (stmps s)).
Proof.
  intros HR G Hkeep HF Hsrc Hd Hp Hk Hf.
  eapply (R_update h s); [exact HR|exact G|..]; sp; try reflexivity.
  - apply (r_nrec _ _ HR).
  - eapply F2_impl; [|exact HF]. intros x y. now apply rec_rel_done.
  - intros t rc H. apply (Hkeep rc (OVm t)); [exact H|discriminate].
  - eapply locs_transfer; [apply (r_locs _ _ HR)|]. intros t k rf H. apply cell_ok_frame; [reflexivity|].
    apply (Hkeep k (OLoc t)); [exact H|discriminate].
  - eapply tmps_transfer; [apply (r_tmps _ _ HR)|]. intros k t rf H. apply cell_ok_frame; [reflexivity|].
    apply (Hkeep k (OTmp t)); [exact H|discriminate].
  - apply (r_loc_alive _ _ HR).
  - apply (r_loc_keys _ _ HR).
  - apply (r_tmp_nd _ _ HR).
  - intros k o o' H1 H2.
    assert (Hcase : forall ow, owns (mkHeap c' (vms h) (locs h) (tcall h) recs' (nrec h) (ncall h) (tmps h)) k ow ->
              (owns h k ow) \/ (ncell (hc h) <= k /\ exists r, ow = ORec r)).
    { intros ow H. destruct ow as [t|r|t|t]; cbn [owns] in *; sp; auto.
      destruct (Hsrc k r H) as [A|A]; [now left|right; split; [exact A|now exists r]]. }
    destruct (Hcase o H1) as [A|[A1 [r ->]]], (Hcase o' H2) as [B|[B1 [r' ->]]].
    + apply (r_own _ _ HR k); assumption.
    + pose proof (fresh_not_owned _ _ _ _ HR A). lia.
    + pose proof (fresh_not_owned _ _ _ _ HR B). lia.
    + cbn [owns] in H1, H2. sp. destruct H1 as [a1 H1], H2 as [a2 H2]. f_equal. eapply Hd; eauto.
  - exact Hp.
  - exact Hk.
  - exact Hf.
Qed.

Lemma rec_rel_inv c s r a o y : rec_rel c s (r, mkRec a o) (r, y) ->
  match o with
  | None => y = mkSRec a None
  | Some k => exists rf, y = mkSRec a (Some rf) /\ cell_ok c s k rf
  end.
Proof.
  intros (_ & H2 & H3). cbn in *. destruct y as [a' o']. cbn in *. subst a'.
  destruct o, o'; try tauto. now exists s0.
Qed.

Lemma rec_cell_live h s r a k : R h s -> In (r, mkRec a (Some k)) (recs h) -> live (hc h) k.
Proof. intros HR H. apply (owned_live h s k (ORec r) HR). now exists a. Qed.

Lemma rec_same_cell h s r a r' a' k : R h s ->
  In (r, mkRec a (Some k)) (recs h) -> In (r', mkRec a' (Some k)) (recs h) -> r = r'.
Proof.
  intros HR H1 H2. assert (E : ORec r = ORec r') by (apply (r_own _ _ HR k); [now exists a|now exists a']).
  now injection E.
Qed.

Lemma not_rec_cell h s k ow r a : R h s -> owns h k ow -> (forall r0, ow <> ORec r0) ->
  In (r, mkRec a (Some k)) (recs h) -> False.
Proof.
  intros HR Ho Hn H. apply (Hn r). apply (r_own _ _ HR k); [exact Ho|now exists a].
Qed.

Lemma rec_copy_R r h s : R h s -> R (rec_copy r h) (s_copy r s).
Proof.
  intro HR. unfold rec_copy, s_copy, with_recs, with_srecs. destruct (tmps_self h s HR) as (T1 & T2 & T3).
  destruct (lookup r (recs h)) as [[a [c|]]|] eqn:El.
  - destruct (F2_lookup_some _ (rec_rel_key _ _) _ _ _ _ (r_recs _ _ HR) El) as [y [Ey Hy]].
    rewrite Ey. apply rec_rel_inv in Hy. destruct Hy as [rf [-> Hok]].
    pose proof (r_good _ _ HR) as G0.
    destruct (copy_construct_ok (hc h) c _ G0 Hok) as (G1 & S1 & N1 & C1).
    destruct (copy_construct (hc h) c) as [c1 c'] eqn:Ec. cbn [fst snd] in *. subst c'.
    apply (R_add_rec h s _ a (Some (ncell (hc h))) (Some rf) (tmps h) (stmps s) HR); auto.
    + intros k ow Ho _. rewrite C1. destruct (N.eqb_spec k (ncell (hc h))) as [E|_]; [|reflexivity].
      pose proof (fresh_not_owned _ _ _ _ HR Ho). lia.
    + intros k p H. unfold holds in H. rewrite C1 in H. destruct (k =? ncell (hc h)).
      * exists c. unfold holds. congruence.
      * now exists k.
    + split; [lia|]. unfold cell_ok. rewrite C1, N.eqb_refl. reflexivity.
  - destruct (F2_lookup_some _ (rec_rel_key _ _) _ _ _ _ (r_recs _ _ HR) El) as [y [Ey Hy]].
    rewrite Ey. apply rec_rel_inv in Hy. subst y.
    apply (R_add_rec h s (hc h) a None None (tmps h) (stmps s) HR); auto.
    + apply (r_good _ _ HR).
    + intros k p H. now exists k.
  - rewrite (F2_lookup_none _ (rec_rel_key _ _) _ _ _ (r_recs _ _ HR) El). exact HR.
Qed.

Lemma heap_eta h : mkHeap (hc h) (vms h) (locs h) (tcall h) (recs h) (nrec h) (ncall h) (tmps h) = h.
Proof. now destruct h. Qed.

Lemma rec_destroy_R r h s : R h s -> R (rec_destroy r h) (s_destroy r s).
Proof.
  intro HR. unfold rec_destroy, s_destroy, with_recs, with_srecs.
  pose proof (r_good _ _ HR) as G0.
  assert (Hkeys : NoDup (map fst (del r (recs h)))).
  { rewrite map_fst_del. apply nodup_delN. apply (r_rec_keys _ _ HR). }
  assert (Hfr : forall rid, In rid (map fst (del r (recs h))) -> rid < nrec h).
  { intros rid H. rewrite map_fst_del in H. apply in_delN in H. apply (r_rec_fresh _ _ HR). tauto. }
  assert (Hsrc : forall k r0, (exists a, In (r0, mkRec a (Some k)) (del r (recs h))) ->
                 (exists a, In (r0, mkRec a (Some k)) (recs h)) \/ ncell (hc h) <= k).
  { intros k r0 [a H]. apply in_del in H. left. exists a. tauto. }
  assert (Hd : forall r1 a1 r2 a2 k, In (r1, mkRec a1 (Some k)) (del r (recs h)) ->
               In (r2, mkRec a2 (Some k)) (del r (recs h)) -> r1 = r2).
  { intros r1 a1 r2 a2 k H1 H2. apply in_del in H1. apply in_del in H2. eapply rec_same_cell; [exact HR|apply H1|apply H2]. }
  destruct (lookup r (recs h)) as [[a [c|]]|] eqn:El.
  - assert (Hin : In (r, mkRec a (Some c)) (recs h)) by now apply lookup_in.
    destruct (destroy_ok (hc h) c G0) as (G1 & C1 & N1); [eapply rec_cell_live; eauto|].
    apply R_change; auto.
    + intros k ow Ho Hn. rewrite C1, gso; [reflexivity|]. intro E. subst. eapply not_rec_cell; eauto.
    + eapply recs_transfer; [apply F2_del; [apply rec_rel_key|apply (r_recs _ _ HR)]|].
      intros r0 a0 k rf Hk. apply cell_ok_frame; [reflexivity|].
      rewrite C1, gso; [reflexivity|]. intro E. subst. apply in_del in Hk. destruct Hk as [Hk Hn].
      apply Hn. eapply rec_same_cell; eauto.
    + intros k p H. unfold holds in H. rewrite C1, get_set in H. destruct (k =? c); [discriminate|]. now exists k.
  - apply R_change; auto.
    + apply F2_del; [apply rec_rel_key|apply (r_recs _ _ HR)].
    + intros k p H. now exists k.
  - assert (E : del r (srecs s) = srecs s).
    { apply del_notin. rewrite <- (F2_keys _ _ _ (rec_rel_key _ _) (r_recs _ _ HR)).
      now apply lookup_none_notin. }
    rewrite E, store_eta. exact HR.
Qed.

Lemma rec_reserve_R r h s : R h s -> R (rec_reserve r h) s.
Proof.
  intro HR. unfold rec_reserve, with_recs.
  destruct (lookup r (recs h)) as [[a [c|]]|] eqn:El; try exact HR.
  destruct (F2_lookup_some _ (rec_rel_key _ _) _ _ _ _ (r_recs _ _ HR) El) as [y [Ey Hy]].
  apply rec_rel_inv in Hy. destruct Hy as [rf [-> Hok]].
  pose proof (r_good _ _ HR) as G0.
  pose proof (r_rec_keys _ _ HR) as Hkeys.
  assert (Hin : In (r, mkRec a (Some c)) (recs h)) by now apply lookup_in.
  destruct (copy_construct_ok (hc h) c _ G0 Hok) as (G1 & S1 & N1 & C1).
  destruct (copy_construct (hc h) c) as [c1 c'] eqn:Ec. cbn [fst snd] in *. subst c'.
  assert (Hcn : c <> ncell (hc h)).
  { pose proof (fresh_not_owned h s c (ORec r) HR). intro E. assert (c < ncell (hc h)) by (apply H; now exists a). lia. }
  destruct (destroy_ok c1 c G1) as (G2 & C2 & N2).
  { unfold live. rewrite C1. destruct (N.eqb_spec c (ncell (hc h))); [contradiction|]. eapply rec_cell_live; eauto. }
  assert (Hc : forall k, get (cells (destroy c1 c)) k =
             if k =? c then None else if k =? ncell (hc h) then Some (sref_val s rf) else get (cells (hc h)) k).
  { intro k. rewrite C2, get_set, C1. reflexivity. }
  rewrite <- (store_eta s).
  rewrite (upd_amap _ _ _ Hkeys).
  rewrite <- (amap_id (srecs s)).
  apply R_change; auto.
  - intros k ow Ho Hn. rewrite Hc.
    destruct (N.eqb_spec k c) as [->|_]; [exfalso; eapply not_rec_cell; eauto|].
    destruct (N.eqb_spec k (ncell (hc h))) as [E|_]; [|reflexivity].
    pose proof (fresh_not_owned _ _ _ _ HR Ho). lia.
  - eapply F2_amap; [apply (r_recs _ _ HR)|].
    intros [k x] [k' y] Hx Hy Hxy. pose proof (rec_rel_key _ _ _ _ Hxy) as Ek. cbn in Ek. subst k'. cbn [fst snd].
    destruct (N.eqb_spec k r) as [->|Hn].
    + assert (x = mkRec a (Some c)) by (eapply lookup_unique; eauto). subst x.
      assert (Hy' : lookup r (srecs s) = Some y).
      { apply in_lookup; [|exact Hy]. rewrite <- (F2_keys _ _ _ (rec_rel_key _ _) (r_recs _ _ HR)). exact Hkeys. }
      assert (y = mkSRec a (Some rf)) by congruence. subst y.
      repeat split; cbn. unfold cell_ok. rewrite Hc.
      destruct (N.eqb_spec (ncell (hc h)) c); [congruence|]. now rewrite N.eqb_refl.
    + destruct x as [ax [kx|]]; destruct Hxy as (H1 & H2 & H3); cbn [fst snd rargs rslot sargs sslot] in *;
        (split; [reflexivity|]); (split; [exact H2|]); cbn [fst snd rargs rslot sargs sslot]; auto.
      destruct (sslot y) as [rfy|]; [|exact H3].
      eapply cell_ok_frame; [reflexivity| |exact H3]. rewrite Hc.
      destruct (N.eqb_spec kx c) as [->|_]; [exfalso; apply Hn; eapply rec_same_cell; eauto|].
      destruct (N.eqb_spec kx (ncell (hc h))) as [E|_]; [|reflexivity].
      pose proof (fresh_not_owned h s kx (ORec k) HR). assert (kx < ncell (hc h)) by (apply H; now exists ax). lia.
  - intros k r0 [a0 H]. apply in_amap_upd in H. destruct H as [[-> E]|[Hn H]].
    + injection E as _ ->. right. lia.
    + left. now exists a0.
  - intros r1 a1 r2 a2 k H1 H2. apply in_amap_upd in H1. apply in_amap_upd in H2.
    destruct H1 as [[-> E1]|[N1' H1]], H2 as [[-> E2]|[N2' H2]].
    + reflexivity.
    + injection E1 as _ ->. exfalso. pose proof (fresh_not_owned h s (ncell (hc h)) (ORec r2) HR).
      assert (ncell (hc h) < ncell (hc h)) by (apply H; now exists a2). lia.
    + injection E2 as _ ->. exfalso. pose proof (fresh_not_owned h s (ncell (hc h)) (ORec r1) HR).
      assert (ncell (hc h) < ncell (hc h)) by (apply H; now exists a1). lia.
    + eapply rec_same_cell; eauto.
  - intros k p H. unfold holds in H. rewrite Hc in H. destruct (k =? c); [discriminate|].
    destruct (k =? ncell (hc h)); [exists c; unfold holds; congruence|now exists k].
  - rewrite map_fst_amap. exact Hkeys.
  - rewrite map_fst_amap. apply (r_rec_fresh _ _ HR).
Qed.

Lemma slot_corr r h s : R h s ->
  match slot_of r h, sslot_of r s with
  | None, None => True
  | Some k, Some rf =>
      exists a, lookup r (recs h) = Some (mkRec a (Some k)) /\
                lookup r (srecs s) = Some (mkSRec a (Some rf)) /\ cell_ok (hc h) s k rf
  | _, _ => False
  end.
Proof.
  intro HR. unfold slot_of, sslot_of.
  destruct (lookup r (recs h)) as [[a [k|]]|] eqn:El.
  - destruct (F2_lookup_some _ (rec_rel_key _ _) _ _ _ _ (r_recs _ _ HR) El) as [y [Ey Hy]].
    apply rec_rel_inv in Hy. destruct Hy as [rf [-> Hok]]. rewrite Ey. cbn. now exists a.
  - destruct (F2_lookup_some _ (rec_rel_key _ _) _ _ _ _ (r_recs _ _ HR) El) as [y [Ey Hy]].
    apply rec_rel_inv in Hy. subst y. rewrite Ey. exact I.
  - rewrite (F2_lookup_none _ (rec_rel_key _ _) _ _ _ (r_recs _ _ HR) El). exact I.
Qed.

Lemma skeys h s : R h s -> NoDup (map fst (srecs s)).
Proof.
  intro HR. rewrite <- (F2_keys _ _ _ (rec_rel_key _ _) (r_recs _ _ HR)). apply (r_rec_keys _ _ HR).
Qed.

Lemma recs_self_src h : forall k r0, (exists a, In (r0, mkRec a (Some k)) (amap (fun _ b => b) (recs h))) ->
  (exists a, In (r0, mkRec a (Some k)) (recs h)) \/ ncell (hc h) <= k.
Proof. intros k r0 H. rewrite amap_id in H. now left. Qed.

Lemma rec_assign_R r1 r2 h s : R h s -> R (rec_assign r1 r2 h) (s_assign r1 r2 s).
Proof.
  intro HR. unfold rec_assign, s_assign.
  destruct (N.eqb_spec r1 r2) as [E|Hne]; [exact HR|].
  pose proof (slot_corr r1 h s HR) as H1. pose proof (slot_corr r2 h s HR) as H2.
  destruct (slot_of r1 h) as [ka|], (sslot_of r1 s) as [rfa|]; try tauto; try exact HR;
    destruct (slot_of r2 h) as [kb|], (sslot_of r2 s) as [rfb|]; try tauto; try exact HR.
  destruct H1 as (a1 & L1 & S1 & O1). destruct H2 as (a2 & L2 & S2 & O2).
  pose proof (r_good _ _ HR) as G0.
  pose proof (r_rec_keys _ _ HR) as Hkeys.
  assert (I1 : In (r1, mkRec a1 (Some ka)) (recs h)) by now apply lookup_in.
  assert (I2 : In (r2, mkRec a2 (Some kb)) (recs h)) by now apply lookup_in.
  assert (Hab : ka <> kb) by (intro E; subst; apply Hne; eapply rec_same_cell; eauto).
  destruct (copy_assign_ok (hc h) ka kb _ G0 Hab (rec_cell_live _ _ _ _ _ HR I1) O2) as (G1 & C1 & N1).
  unfold with_hc, with_srecs, set_slot. rewrite S1. cbn [sargs].
  rewrite (upd_amap _ _ _ (skeys _ _ HR)).
  rewrite <- (amap_id (recs h)).
  apply R_change; auto.
  - intros k ow Ho Hn. rewrite C1, gso; [reflexivity|]. intro E. subst. eapply not_rec_cell; eauto.
  - eapply F2_amap; [apply (r_recs _ _ HR)|].
    intros [k x] [k' y] Hx Hy Hxy. pose proof (rec_rel_key _ _ _ _ Hxy) as Ek. cbn in Ek. subst k'. cbn [fst snd].
    destruct (N.eqb_spec k r1) as [->|Hn].
    + assert (x = mkRec a1 (Some ka)) by (eapply lookup_unique; eauto). subst x.
      repeat split; cbn [fst snd rargs rslot sargs sslot]. unfold cell_ok. rewrite C1, gss. reflexivity.
    + destruct x as [ax [kx|]]; destruct Hxy as (E1 & E2 & E3); cbn [fst snd rargs rslot sargs sslot] in *;
        (split; [reflexivity|]); (split; [exact E2|]); cbn [fst snd rargs rslot sargs sslot]; auto.
      destruct (sslot y) as [rfy|]; [|exact E3].
      eapply cell_ok_frame; [reflexivity| |exact E3]. rewrite C1, gso; [reflexivity|].
      intro E. subst. apply Hn. eapply rec_same_cell; eauto.
  - apply recs_self_src.
  - rewrite amap_id. intros; eapply rec_same_cell; eauto.
  - intros k p H. unfold holds in H. rewrite C1, get_set in H. destruct (k =? ka).
    + exists kb. unfold holds. unfold cell_ok in O2. congruence.
    + now exists k.
  - rewrite amap_id. exact Hkeys.
  - rewrite amap_id. apply (r_rec_fresh _ _ HR).
Qed.

Lemma rec_massign_R r1 r2 h s : R h s -> R (rec_massign r1 r2 h) (s_massign r1 r2 s).
Proof.
  intro HR. unfold rec_massign, s_massign.
  destruct (N.eqb_spec r1 r2) as [E|Hne]; [exact HR|].
  pose proof (slot_corr r1 h s HR) as H1. pose proof (slot_corr r2 h s HR) as H2.
  destruct (slot_of r1 h) as [ka|], (sslot_of r1 s) as [rfa|]; try tauto; try exact HR;
    destruct (slot_of r2 h) as [kb|], (sslot_of r2 s) as [rfb|]; try tauto; try exact HR.
  destruct H1 as (a1 & L1 & S1 & O1). destruct H2 as (a2 & L2 & S2 & O2).
  pose proof (r_good _ _ HR) as G0.
  pose proof (r_rec_keys _ _ HR) as Hkeys.
  pose proof (skeys _ _ HR) as Hsk.
  assert (I1 : In (r1, mkRec a1 (Some ka)) (recs h)) by now apply lookup_in.
  assert (I2 : In (r2, mkRec a2 (Some kb)) (recs h)) by now apply lookup_in.
  assert (Hab : ka <> kb) by (intro E; subst; apply Hne; eapply rec_same_cell; eauto).
  destruct (move_assign_ok (hc h) ka kb _ G0 Hab (rec_cell_live _ _ _ _ _ HR I1) O2) as (G1 & C1 & N1).
  unfold with_hc, with_srecs, set_slot. rewrite S1. cbn [sargs].
  rewrite lookup_upd_other by congruence. rewrite S2. cbn [sargs].
  rewrite (upd_amap r1 _ _ Hsk).
  rewrite upd_amap by (rewrite map_fst_amap; exact Hsk).
  rewrite amap_amap.
  rewrite <- (amap_id (recs h)).
  assert (Hc : forall k, get (cells (move_assign (hc h) ka kb)) k =
             if k =? kb then Some (VD DNil) else if k =? ka then Some (sref_val s rfb) else get (cells (hc h)) k).
  { intro k. rewrite C1, !get_set. reflexivity. }
  apply R_change; auto.
  - intros k ow Ho Hn. rewrite Hc.
    destruct (N.eqb_spec k kb) as [->|_]; [exfalso; eapply not_rec_cell; eauto|].
    destruct (N.eqb_spec k ka) as [->|_]; [exfalso; eapply not_rec_cell; eauto|reflexivity].
  - eapply F2_amap; [apply (r_recs _ _ HR)|].
    intros [k x] [k' y] Hx Hy Hxy. pose proof (rec_rel_key _ _ _ _ Hxy) as Ek. cbn in Ek. subst k'. cbn [fst snd].
    destruct (N.eqb_spec k r2) as [->|Hn2].
    + assert (x = mkRec a2 (Some kb)) by (eapply lookup_unique; eauto). subst x.
      repeat split; cbn [fst snd rargs rslot sargs sslot]. unfold cell_ok. rewrite Hc, N.eqb_refl. reflexivity.
    + destruct (N.eqb_spec k r1) as [->|Hn1].
      * assert (x = mkRec a1 (Some ka)) by (eapply lookup_unique; eauto). subst x.
        repeat split; cbn [fst snd rargs rslot sargs sslot]. unfold cell_ok. rewrite Hc, N.eqb_refl.
        destruct (N.eqb_spec ka kb); [contradiction|reflexivity].
      * destruct x as [ax [kx|]]; destruct Hxy as (E1 & E2 & E3); cbn [fst snd rargs rslot sargs sslot] in *;
          (split; [reflexivity|]); (split; [exact E2|]); cbn [fst snd rargs rslot sargs sslot]; auto.
        destruct (sslot y) as [rfy|]; [|exact E3].
        eapply cell_ok_frame; [reflexivity| |exact E3]. rewrite Hc.
        destruct (N.eqb_spec kx kb) as [->|_]; [exfalso; apply Hn2; eapply rec_same_cell; eauto|].
        destruct (N.eqb_spec kx ka) as [->|_]; [exfalso; apply Hn1; eapply rec_same_cell; eauto|reflexivity].
  - apply recs_self_src.
  - rewrite amap_id. intros; eapply rec_same_cell; eauto.
  - intros k p H. unfold holds in H. rewrite Hc in H. destruct (k =? kb); [discriminate|]. destruct (k =? ka).
    + exists kb. unfold holds. unfold cell_ok in O2. congruence.
    + now exists k.
  - rewrite amap_id. exact Hkeys.
  - rewrite amap_id. apply (r_rec_fresh _ _ HR).
Qed.

(* ---- Reset ----------------------------------------------------------------------------------- *)
Lemma kill_all_R l : forall h s, R h s ->
  R (fold_left (fun h t => vm_kill t h) l h) (fold_left (fun s t => s_kill t s) l s) /\
  tmps (fold_left (fun h t => vm_kill t h) l h) = tmps h.
Proof.
  induction l as [|t l IH]; intros h s HR; cbn [fold_left]; [now split|].
  destruct (vm_kill_R t h s HR) as [H1 H2]. destruct (IH _ _ H1) as [H3 H4]. split; [exact H3|congruence].
Qed.

Lemma heap_reset_R h s : R h s -> R (heap_reset h) (s_reset s) /\ tmps (heap_reset h) = tmps h.
Proof.
  intro HR. unfold heap_reset, s_reset. rewrite (fold_map_fst vm_kill). rewrite (r_alive _ _ HR).
  now apply kill_all_R.
Qed.

(* ---- what the host sees ---------------------------------------------------------------------- *)
Lemma obs_eq h s : R h s -> heap_obs h = s_obs s.
Proof.
  intro HR. unfold heap_obs, s_obs. f_equal; [f_equal|].
  - generalize (r_recs _ _ HR). generalize (recs h) (srecs s).
    induction 1 as [|[k x] [k' y] l sl Hp Hf IH]; cbn [map]; [reflexivity|].
    f_equal; [|exact IH]. destruct Hp as (E1 & E2 & E3). cbn [fst snd] in *. subst k'. f_equal.
    unfold rec_toks, srec_toks. rewrite E2. f_equal.
    destruct (rslot x) as [c|], (sslot y) as [rf|]; try tauto.
    unfold cell_ok in E3. unfold cell_tok. rewrite E3. f_equal.
    unfold sref_val, sref_tok. destruct rf as [t|]; [|reflexivity].
    destruct (lookup t (done s)) as [[[d|]|q]|]; reflexivity.
  - now rewrite (r_alive _ _ HR), (r_tcall _ _ HR).
  - apply (r_good _ _ HR).
Qed.

Lemma alive_eq t h s : R h s -> thread_alive t h = s_alive t s.
Proof.
  intro HR. unfold thread_alive, s_alive.
  destruct (lookup t (vms h)) as [rc|] eqn:El.
  - symmetry. apply (alive_iff _ _ t HR). exists rc. now apply lookup_in.
  - destruct (memN t (alive s)) eqn:E; [|reflexivity].
    apply (alive_iff _ _ t HR) in E. destruct E as [rc H].
    apply (vms_lookup_in _ _ t rc HR) in H. congruence.
Qed.

Lemma R_init : R heap_init store_init.
Proof.
  constructor; cbn.
  - split; [reflexivity|]. constructor; cbn.
    + intros p l H. rewrite get_empty in H. discriminate.
    + intros c p _ H. unfold holds in H. cbn in H. rewrite get_empty in H. discriminate.
    + intros. apply get_empty.
  - reflexivity.
  - reflexivity.
  - reflexivity.
  - reflexivity.
  - constructor.
  - intros t rc [].
  - constructor.
  - constructor.
  - constructor.
  - intros t [].
  - intros x c H. discriminate.
  - intros t c [].
  - constructor.
  - constructor.
  - intros k o o' H. destruct o; cbn in H; try contradiction. destruct H as [a []].
  - intros c p H. unfold holds in H. cbn in H. rewrite get_empty in H. discriminate.
  - intros t x H. discriminate.
  - intros t [].
  - constructor.
  - intros rid [].
Qed.
