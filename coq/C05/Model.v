(* C05/Model.v - executable model of the host call/return protocol:
   ScriptMaster::ExecuteThread(script, parms, label) / CreateScriptThread (src/Script/ScriptMaster.cpp),
   ScriptThread::Execute(Event&) / ScriptExecute / EventEnd (src/Script/ScriptThread.cpp),
   ScriptVM::End / EndRef / SetFastData and OP_STORE_PARAM (src/Script/ScriptVM.cpp,
   ScriptVMOperation.cpp), ScriptPointer and the copy / move operations of a Pointer-typed
   ScriptVariable (src/Script/ScriptVariable.cpp), Event's value container (src/Script/Event.cpp,
   include/morfuse/Container/Container.h).

   Code level (part 1, the cell heap [ch]): every ScriptVariable that can hold the Pointer type has
   an identity (a cell id); a ScriptPointer is its list of registered cells in the order of
   Container::AddObject; add / remove (first occurrence, `delete this` when the list gets
   empty) / setValueRef (the two-holder special case that skips the ignored variable, else the
   loop from the last holder to the first) / Clear; operator=(const&) = ClearInternal then
   setDataInternal (registers the target when the source is a Pointer); operator=(&&) =
   ClearInternal, take type and data, source becomes None, add(target), remove(source); copy
   construction = None then operator=; move construction = take, add(new), remove(old);
   destruction = ClearInternal.  An access through a dead cell or a freed ScriptPointer
   (undefined behaviour in C++) sets the flag [ub].
   Part 2, the host protocol [heap]: the call creates the script instance, looks the label up
   (missing: the instance is deleted again, nothing else happened), creates the VM (its
   m_ReturnValue cell), Execute(Event&) makes the stack temporary returnValue.newPointer(2),
   m_ReturnValue = returnValue, runs the thread and the scheduler, and then adds
   std::move(returnValue) to the record unless it is None; `end v` = setPointerRef through
   m_ReturnValue, `end` / falling off the end = ClearPointer, then the VM (and m_ReturnValue)
   is destroyed; the VM's destructor runs m_ReturnValue.ClearPointer() once more, so a thread that is
   deleted before its end (or dies in Reset) resolves its pending result to NIL for every holder,
   exactly as `end` without a value does.  Host operations on records:
   Event copy (copy construction of every cell), growth of the container (Resize uses
   move_if_noexcept: ScriptVariable's move constructor is not noexcept, so every cell is copy
   constructed and the old one destroyed), Event move (cells untouched), destruction,
   copy / move assignment between result cells.
   Results that are pending results: a thread may start a sub-thread with `local.r = thread sub`
   (Listener::CreateReturnThread: a temporary with newPointer, the sub-thread's m_ReturnValue =
   temporary, the sub-thread runs nested until it suspends or ends, the temporary's value ends up
   in the variable local.r) and end with `end local.r`.  When local.r still holds the sub-thread's
   pending pointer q, setValueRef hands a Pointer-typed value to the holders: every holder's type
   is set to None and every holder except the ending VM's m_ReturnValue is assigned (and thereby
   registered with q); m_ReturnValue stays None (two-holder fast path and general loop alike).
   The thread's variables (local.r) die with the thread.
   Part 3, the scheduler [sched], generic in the heap: threads are abstract programs (timed
   waits, pause + a helper thread that sends `wait 0` to the paused thread after d ms, at most one
   sub-thread, final statement); timed waits follow the due-time specification that unit C06 proves equal to the
   code-level con::timer (resume the waiter minimal in (due, registration) while due <= frame
   time; `wait` registers frame time + d).
   The observation of every host operation: what the call reported (label not found / thread
   still alive + the bound parameters), every element of every record (a value, `pending`
   for a Pointer-typed cell), GetNumRunningScripts, the number of threads, and the two flags
   [ohang] (resume loop out of fuel) and [oub] that the real engine can only show as a hang
   or a crash.
   Abstracted: payload memory of values (strings, vectors, arrays are opaque data (kind, index));
   the fast path of operator= for simple types (same effect); the command events and VM
   stack slots through which a value travels (the `end` command's argument, the result of
   `thread`) are not cells of the model - they are created and destroyed around the operation;
   the argument cells of a record carry no identity (they never hold the Pointer type); a script instance is counted as
   gone when its main thread is gone (its helper ends within the same host operation). *)
From Coq Require Import NArith List Bool.
From Morfuse Require Import Base.Arr.
Import ListNotations.
Local Open Scope N_scope.

(* ---------------------------------------------------------------- values and programs *)

Inductive dval := DNil | DData (k i : N).         (* NIL | a value of kind k, number i *)
Inductive val := VD (d : dval) | VPtr (p : N).    (* plain data | type Pointer to ScriptPointer p *)

(* what a helper thread does to the parked thread it was started for *)
Inductive hact :=
| AWait (e : N)          (* `t wait e`: re-arms a timed wait / resumes a paused thread after e *)
| APause                 (* `t pause` *)
| ADelete.               (* `t delete` *)

Inductive step :=
| SWait (d : N)                                  (* wait d *)
| SPause (d : N)                                 (* pause; a helper sends `wait 0` after d *)
| SPark (w : option N) (hp : list (N * hact)).   (* a helper `wait d1; act1; wait d2; act2; ...` is started,
                                                    then `wait w` (Some w) or `pause` (None) *)
Inductive res := RLit (d : dval) | RArg (j : nat) | RLocal | RLevel (k : N).
  (* end <literal> | end local.p<j> | end local.r | end level.q<k> (a variable that outlives the thread) *)

(* where a declared parameter is stored: local.p<j> of the new thread, or a variable of a longer-lived
   object (level.q<k> / game.q<k> / parm.q<k>) *)
Inductive ptarget := PLoc (j : nat) | PLev (k : N).
Inductive fin :=
| FEnd (r : res) | FEndNone | FFall
| FKill (d : N)          (* pause; a helper deletes the thread after d *)
| FKillTimed (d : N)     (* wait 50; a helper deletes the thread after d *)
| FNever                 (* pause for ever *)
| FSelfDel               (* `local delete`: the thread deletes itself while it executes *)
| FSyncKill (n : nat)    (* it starts a thread that (n levels deep) deletes it at once *)
| FEndOn.                (* it is deleted by an endon that a thread it starts triggers *)

(* one thread of a call: steps, then `local.r = thread <next level>` when there is a next level,
   more steps, the final statement *)
Record level := mkLevel { lpre : list step; lpost : list step; lfin : fin }.

Inductive op :=
| OCall (lbl : bool) (np : nat) (pt : list ptarget) (prog : list level) (args : list dval)
    (* np parameters local.p1 .. local.p<np> when pt = [], else the targets pt; head of prog: the host-started thread *)
| OCopy (r : N) | OReserve (r : N) | OMove (r : N) | ODestroy (r : N)
| OAssign (r1 r2 : N) | OMoveAssign (r1 r2 : N)
| OAdvance (dt : N) | OExecute | OReset.

(* how a thread ends *)
Inductive endv := EVal (d : dval) | ENone | ELocal.

(* OP_STORE_PARAM for each declared parameter: fastIndex < NumArgs ? value(++fastIndex) : NIL *)
Fixpoint bind (np : nat) (fast : list dval) : list dval :=
  match np with
  | O => []
  | S n => match fast with
           | [] => DNil :: bind n []
           | a :: r => a :: bind n r
           end
  end.

Definition eval_res (params : list dval) (r : res) : dval :=
  match r with
  | RLit d => d
  | RArg O => DNil
  | RArg (S i) => nth i params DNil
  | RLocal => DNil
  | RLevel _ => DNil
  end.

Definition resolve (params : list dval) (f : fin) : fin :=
  match f with
  | FEnd RLocal => f
  | FEnd (RLevel k) => f
  | FEnd r => FEnd (RLit (eval_res params r))
  | _ => f
  end.

(* the prologue of a label with explicit targets: OP_STORE_PARAM + the store that follows it, one
   declared parameter after the other: the next argument, or NIL when none is left, is stored in the
   target - also when the target already holds a value (a variable of a longer-lived object, or a
   local variable that was declared twice) *)
Fixpoint lget {K : Type} (eqb : K -> K -> bool) (k : K) (l : list (K * dval)) : dval :=
  match l with
  | [] => DNil
  | (k', v) :: r => if eqb k' k then v else lget eqb k r
  end.

Definition lset {K : Type} (k : K) (v : dval) (l : list (K * dval)) : list (K * dval) := (k, v) :: l.

Fixpoint prologue (tg : list ptarget) (fast : list dval) (loc : list (nat * dval)) (lv : list (N * dval))
  : list (nat * dval) * list (N * dval) :=
  match tg with
  | [] => (loc, lv)
  | x :: tg' =>
      let v := match fast with [] => DNil | a :: _ => a end in
      let fast' := match fast with [] => [] | _ :: r => r end in
      match x with
      | PLoc j => prologue tg' fast' (lset j v loc) lv
      | PLev k => prologue tg' fast' loc (lset k v lv)
      end
  end.

Definition read_target (loc : list (nat * dval)) (lv : list (N * dval)) (x : ptarget) : dval :=
  match x with PLoc j => lget Nat.eqb j loc | PLev k => lget N.eqb k lv end.

Definition max_loc (tg : list ptarget) : nat :=
  fold_right (fun x acc => match x with PLoc j => Nat.max j acc | PLev _ => acc end) O tg.

(* ---------------------------------------------------------------- part 1: the cell heap *)

Record ch := mkCh {
  cells : arr (option val);        (* None: not a live ScriptVariable *)
  ptrs : arr (option (list N));    (* ScriptPointer::list; None: not a live ScriptPointer *)
  ncell : N;
  ub : bool }.

Definition ch_init : ch := mkCh (aempty None) (aempty None) 0 false.

Definition bad (h : ch) : ch := mkCh (cells h) (ptrs h) (ncell h) true.

Definition wr (h : ch) (c : N) (v : val) : ch :=
  match get (cells h) c with
  | Some _ => mkCh (set (cells h) c (Some v)) (ptrs h) (ncell h) (ub h)
  | None => bad h
  end.

Definition ptr_add (h : ch) (p c : N) : ch :=
  match get (ptrs h) p with
  | Some l => mkCh (cells h) (set (ptrs h) p (Some (l ++ [c]))) (ncell h) (ub h)
  | None => bad h
  end.

Fixpoint remove1 (c : N) (l : list N) : list N :=
  match l with
  | [] => []
  | x :: r => if x =? c then r else x :: remove1 c r
  end.

Definition ptr_remove (h : ch) (p c : N) : ch :=
  match get (ptrs h) p with
  | Some l =>
      mkCh (cells h)
           (set (ptrs h) p (match remove1 c l with [] => None | l' => Some l' end))
           (ncell h) (ub h)
  | None => bad h
  end.

Definition free_ptr (h : ch) (p : N) : ch :=
  mkCh (cells h) (set (ptrs h) p None) (ncell h) (ub h).

(* ScriptVariable::ClearInternal *)
Definition clear_internal (h : ch) (c : N) : ch :=
  match get (cells h) c with
  | Some (VPtr p) => ptr_remove h p c
  | Some (VD _) => h
  | None => bad h
  end.

(* setDataInternal + type *)
Definition set_data (h : ch) (dst : N) (v : val) : ch :=
  let h1 := wr h dst v in
  match v with
  | VPtr p => ptr_add h1 p dst
  | VD _ => h1
  end.

(* operator=(const ScriptVariable&), dst <> src *)
Definition copy_assign (h : ch) (dst src : N) : ch :=
  match get (cells h) src with
  | Some v => set_data (clear_internal h dst) dst v
  | None => bad h
  end.

(* operator=(ScriptVariable&&), dst <> src *)
Definition move_assign (h : ch) (dst src : N) : ch :=
  let h1 := clear_internal h dst in
  match get (cells h1) src with
  | Some v =>
      let h2 := wr (wr h1 dst v) src (VD DNil) in
      match v with
      | VPtr p => ptr_remove (ptr_add h2 p dst) p src
      | VD _ => h2
      end
  | None => bad h1
  end.

Definition alloc (h : ch) (v : val) : ch * N :=
  (mkCh (set (cells h) (ncell h) (Some v)) (ptrs h) (ncell h + 1) (ub h), ncell h).

(* ScriptVariable(const ScriptVariable&): type = None; *this = variable *)
Definition copy_construct (h : ch) (src : N) : ch * N :=
  let '(h1, c) := alloc h (VD DNil) in (copy_assign h1 c src, c).

(* ScriptVariable(ScriptVariable&&) *)
Definition move_construct (h : ch) (src : N) : ch * N :=
  match get (cells h) src with
  | Some v =>
      let '(h1, c) := alloc h v in
      let h2 := wr h1 src (VD DNil) in
      (match v with
       | VPtr p => ptr_remove (ptr_add h2 p c) p src
       | VD _ => h2
       end, c)
  | None => (bad h, ncell h)
  end.

(* ~ScriptVariable *)
Definition destroy (h : ch) (c : N) : ch :=
  let h1 := clear_internal h c in
  mkCh (set (cells h1) c None) (ptrs h1) (ncell h1) (ub h1).

(* newPointer on the None-typed cell c; p is the identity of the new ScriptPointer *)
Definition new_pointer (h : ch) (c p : N) : ch :=
  mkCh (set (cells h) c (Some (VPtr p))) (set (ptrs h) p (Some [c])) (ncell h) (ub h).

Definition set_all (h : ch) (l : list N) (d : dval) : ch :=
  fold_left (fun h c => wr h c (VD d)) l h.

(* the general loop of setValueRef: type = None; the ignored variable gets no copy *)
Definition deliver_one (d : dval) (ign : N) (h : ch) (x : N) : ch :=
  let h1 := wr h x (VD DNil) in
  if x =? ign then h1 else wr h1 x (VD d).

(* ScriptPointer::setValueRef(var, ignoredVar) with a plain value *)
Definition set_value_ref (h : ch) (p : N) (d : dval) (ign : N) : ch :=
  match get (ptrs h) p with
  | Some [c0; c1] =>
      let h1 := wr (wr h c0 (VD DNil)) c1 (VD DNil) in
      let h2 := if c0 =? ign then wr h1 c1 (VD d)
                else if c1 =? ign then wr h1 c0 (VD d)
                else wr (wr h1 c1 (VD d)) c0 (VD d) in
      free_ptr h2 p
  | Some l => free_ptr (fold_left (deliver_one d ign) (rev l) h) p
  | None => bad h
  end.

(* ScriptPointer::Clear *)
Definition ptr_clear (h : ch) (p : N) : ch :=
  match get (ptrs h) p with
  | Some l => free_ptr (set_all h l DNil) p
  | None => bad h
  end.

(* ScriptPointer::setValueRef(var, ignoredVar) when var holds the pending pointer q:
   type = None; *pVar = var  registers pVar with q *)
Definition fwd_one (h : ch) (x q : N) : ch := ptr_add (wr h x (VPtr q)) q x.

Definition forward_one (q ign : N) (h : ch) (x : N) : ch :=
  let h1 := wr h x (VD DNil) in
  if x =? ign then h1 else fwd_one h1 x q.

Definition set_value_ref_fwd (h : ch) (p q ign : N) : ch :=
  match get (ptrs h) p with
  | Some [c0; c1] =>
      let h1 := wr (wr h c0 (VD DNil)) c1 (VD DNil) in
      let h2 := if c0 =? ign then fwd_one h1 c1 q
                else if c1 =? ign then fwd_one h1 c0 q
                else fwd_one (fwd_one h1 c1 q) c0 q in
      free_ptr h2 p
  | Some l => free_ptr (fold_left (forward_one q ign) (rev l) h) p
  | None => bad h
  end.

(* ---------------------------------------------------------------- part 2: the host protocol *)

Record rec := mkRec { rargs : list dval; rslot : option N }.   (* rslot: the cell after the arguments *)

Record heap := mkHeap {
  hc : ch;
  vms : list (N * N);        (* live thread -> its VM's m_ReturnValue cell *)
  locs : list (N * N);       (* live thread -> its variable local.r, once assigned *)
  tcall : list (N * N);      (* thread -> the host call (script instance) it belongs to *)
  recs : list (N * rec);     (* the host's records *)
  nrec : N;
  ncall : N;                 (* next thread id *)
  tmps : list (N * N) }.     (* the stack temporaries `returnValue` of the calls / `thread` commands
                                in progress, innermost first, and the thread each one waits for *)

Definition heap_init : heap := mkHeap ch_init [] [] [] [] 0 0 [].

Fixpoint lookup {A} (k : N) (l : list (N * A)) : option A :=
  match l with
  | [] => None
  | (k', v) :: r => if k' =? k then Some v else lookup k r
  end.

Fixpoint del {A} (k : N) (l : list (N * A)) : list (N * A) :=
  match l with
  | [] => []
  | (k', v) :: r => if k' =? k then del k r else (k', v) :: del k r
  end.

Fixpoint upd {A} (k : N) (v : A) (l : list (N * A)) : list (N * A) :=
  match l with
  | [] => []
  | (k', v') :: r => if k' =? k then (k', v) :: r else (k', v') :: upd k v r
  end.

(* ~ScriptVM: m_ReturnValue.ClearPointer() - a VM destroyed before its thread ended resolves the
   pending result to NIL for every holder - and then the member m_ReturnValue is destructed *)
Definition vm_dtor (c : ch) (rc : N) : ch :=
  let c1 := match get (cells c) rc with
            | Some (VPtr p) => ptr_clear c p
            | _ => c
            end in
  destroy c1 rc.

Definition destroy_opt (c : ch) (x : option N) : ch :=
  match x with Some k => destroy c k | None => c end.

(* the thread ends (EventEnd / OP_DONE), its variables die (~Listener), the VM is destroyed *)
Definition vm_end (t : N) (e : endv) (h : heap) : heap :=
  match lookup t (vms h) with
  | Some rc =>
      let lr := lookup t (locs h) in
      let c1 :=
        match get (cells (hc h)) rc with
        | Some (VPtr p) =>
            match e with
            | EVal d => set_value_ref (hc h) p d rc      (* m_ReturnValue.setPointerRef(v) *)
            | ENone => ptr_clear (hc h) p                (* m_ReturnValue.ClearPointer() *)
            | ELocal =>
                match lr with
                | Some x =>
                    match get (cells (hc h)) x with
                    | Some (VPtr q) => set_value_ref_fwd (hc h) p q rc
                    | Some (VD d) => set_value_ref (hc h) p d rc
                    | None => bad (hc h)
                    end
                | None => set_value_ref (hc h) p DNil rc  (* local.r never assigned: NIL *)
                end
            end
        | _ => hc h
        end in
      mkHeap (vm_dtor (destroy_opt c1 lr) rc) (del t (vms h)) (del t (locs h)) (tcall h) (recs h) (nrec h)
             (ncall h) (tmps h)
  | None => h
  end.

(* the thread is deleted while its VM is idle (parked in a wait or paused): ~ScriptThread ->
   NotifyDelete deletes the VM at once, then ~Listener the variables *)
Definition vm_kill (t : N) (h : heap) : heap :=
  match lookup t (vms h) with
  | Some rc =>
      mkHeap (destroy_opt (vm_dtor (hc h) rc) (lookup t (locs h))) (del t (vms h)) (del t (locs h)) (tcall h)
             (recs h) (nrec h) (ncall h) (tmps h)
  | None => h
  end.

(* the thread is deleted while its VM executes on the native stack (it deletes itself, or a thread
   it started deletes it): NotifyDelete only marks the VM (state Destroyed) and unlinks it, the
   thread object and its variables die ... *)
Definition vm_mark (t : N) (h : heap) : heap * option N :=
  match lookup t (vms h) with
  | Some rc =>
      (mkHeap (destroy_opt (hc h) (lookup t (locs h))) (del t (vms h)) (del t (locs h)) (tcall h)
              (recs h) (nrec h) (ncall h) (tmps h), Some rc)
  | None => (h, None)
  end.

(* ... and the tail of ScriptVM::Execute deletes the VM when the interpreter loop has returned:
   only then ~ScriptVM resolves the pending result *)
Definition vm_reap (rc : N) (h : heap) : heap :=
  mkHeap (vm_dtor (hc h) rc) (vms h) (locs h) (tcall h) (recs h) (nrec h) (ncall h) (tmps h).

Definition vm_kill_exec (t : N) (h : heap) : heap :=
  let '(h1, o) := vm_mark t h in
  match o with Some rc => vm_reap rc h1 | None => h1 end.

(* a new thread of the call [call] whose result the caller will read: the VM (m_ReturnValue), the
   caller's temporary returnValue.newPointer(), m_ReturnValue = returnValue *)
Definition thread_begin (call : N) (h : heap) : heap * N :=
  let t := ncall h in
  let '(c1, rc) := alloc (hc h) (VD DNil) in
  let '(c2, tm) := alloc c1 (VD DNil) in
  let c3 := new_pointer c2 tm t in
  let c4 := copy_assign c3 rc tm in
  (mkHeap c4 (vms h ++ [(t, rc)]) (locs h) (tcall h ++ [(t, call)]) (recs h) (nrec h) (t + 1)
          ((tm, t) :: tmps h), t).

(* CreateScriptThread + the beginning of ScriptThread::Execute(Event&) *)
Definition call_begin (lbl : bool) (h : heap) : heap * N :=
  if lbl then thread_begin (ncall h) h
  else
    (* new ScriptClass; FindLabel fails; delete scriptClass; throw: only the id is used up *)
    (mkHeap (hc h) (vms h) (locs h) (tcall h) (recs h) (nrec h) (ncall h + 1) (tmps h), ncall h).

Definition call_of (t : N) (h : heap) : N :=
  match lookup t (tcall h) with Some c => c | None => t end.

(* `local.r = thread sub`, before the sub-thread runs: Listener::CreateReturnThread *)
Definition spawn (parent : N) (h : heap) : heap * N := thread_begin (call_of parent h) h.

(* ... and after it returned: ev.AddValue(returnValue), the value reaches the variable local.r,
   the temporary dies.  (The guard always holds in the engine: the variable is assigned once, by
   the thread that started the younger sub-thread; otherwise the value is dropped.) *)
Definition spawned (parent child : N) (h : heap) : heap :=
  match tmps h with
  | (tm, u) :: rest =>
      if (parent <? u) && match lookup parent (locs h) with None => true | Some _ => false end then
        let '(c1, lr) := copy_construct (hc h) tm in
        mkHeap (destroy c1 tm) (vms h) (locs h ++ [(parent, lr)]) (tcall h) (recs h) (nrec h) (ncall h) rest
      else
        mkHeap (destroy (hc h) tm) (vms h) (locs h) (tcall h) (recs h) (nrec h) (ncall h) rest
  | [] => h
  end.

(* the end of ScriptThread::Execute(Event&); the Event becomes the next record *)
Definition call_finish (found : bool) (t : N) (args : list dval) (h : heap) : heap :=
  if found then
    match tmps h with
    | (tm, _) :: rest =>
        match get (cells (hc h)) tm with
        | Some (VD DNil) =>
            mkHeap (destroy (hc h) tm) (vms h) (locs h) (tcall h) (recs h ++ [(nrec h, mkRec args None)]) (nrec h + 1)
                   (ncall h) rest
        | Some _ =>
            let '(c1, sc) := move_construct (hc h) tm in   (* ev.AddValue(std::move(returnValue)) *)
            mkHeap (destroy c1 tm) (vms h) (locs h) (tcall h) (recs h ++ [(nrec h, mkRec args (Some sc))]) (nrec h + 1)
                   (ncall h) rest
        | None =>
            mkHeap (bad (hc h)) (vms h) (locs h) (tcall h) (recs h ++ [(nrec h, mkRec args None)]) (nrec h + 1)
                   (ncall h) rest
        end
    | [] =>   (* not reached: a call in progress has its temporary *)
        mkHeap (hc h) (vms h) (locs h) (tcall h) (recs h ++ [(nrec h, mkRec args None)]) (nrec h + 1)
               (ncall h) []
    end
  else
    mkHeap (hc h) (vms h) (locs h) (tcall h) (recs h ++ [(nrec h, mkRec args None)]) (nrec h + 1) (ncall h)
           (tmps h).

Definition thread_alive (t : N) (h : heap) : bool :=
  match lookup t (vms h) with Some _ => true | None => false end.

Definition with_hc (h : heap) (c : ch) : heap :=
  mkHeap c (vms h) (locs h) (tcall h) (recs h) (nrec h) (ncall h) (tmps h).

Definition with_recs (h : heap) (c : ch) (l : list (N * rec)) (n : N) : heap :=
  mkHeap c (vms h) (locs h) (tcall h) l n (ncall h) (tmps h).

(* Event(const Event&) *)
Definition rec_copy (r : N) (h : heap) : heap :=
  match lookup r (recs h) with
  | Some (mkRec a None) => with_recs h (hc h) (recs h ++ [(nrec h, mkRec a None)]) (nrec h + 1)
  | Some (mkRec a (Some c)) =>
      let '(c1, c') := copy_construct (hc h) c in
      with_recs h c1 (recs h ++ [(nrec h, mkRec a (Some c'))]) (nrec h + 1)
  | None => h
  end.

(* Container::Resize: new(objlist + i) Type(move_if_noexcept(temp[i])); temp[i].~Type() *)
Definition rec_reserve (r : N) (h : heap) : heap :=
  match lookup r (recs h) with
  | Some (mkRec a (Some c)) =>
      let '(c1, c') := copy_construct (hc h) c in
      with_recs h (destroy c1 c) (upd r (mkRec a (Some c')) (recs h)) (nrec h)
  | _ => h
  end.

(* Event(Event&&): the container's storage changes hands, no cell is touched *)
Definition rec_move (r : N) (h : heap) : heap := h.

Definition rec_destroy (r : N) (h : heap) : heap :=
  match lookup r (recs h) with
  | Some (mkRec a (Some c)) => with_recs h (destroy (hc h) c) (del r (recs h)) (nrec h)
  | Some (mkRec a None) => with_recs h (hc h) (del r (recs h)) (nrec h)
  | None => h
  end.

Definition slot_of (r : N) (h : heap) : option N :=
  match lookup r (recs h) with
  | Some x => rslot x
  | None => None
  end.

Definition rec_assign (r1 r2 : N) (h : heap) : heap :=
  if r1 =? r2 then h else
  match slot_of r1 h, slot_of r2 h with
  | Some a, Some b => with_hc h (copy_assign (hc h) a b)
  | _, _ => h
  end.

Definition rec_massign (r1 r2 : N) (h : heap) : heap :=
  if r1 =? r2 then h else
  match slot_of r1 h, slot_of r2 h with
  | Some a, Some b => with_hc h (move_assign (hc h) a b)
  | _, _ => h
  end.

(* ScriptMaster::Reset: every script instance is destroyed, and with it its threads and their VMs *)
Definition heap_reset (h : heap) : heap :=
  fold_left (fun h (x : N * N) => vm_kill (fst x) h) (vms h) h.

Inductive tok := TD (d : dval) | TPend | TDead.

Definition cell_tok (c : ch) (x : N) : tok :=
  match get (cells c) x with
  | Some (VD d) => TD d
  | Some (VPtr _) => TPend
  | None => TDead
  end.

Definition rec_toks (c : ch) (r : rec) : list tok :=
  map TD (rargs r) ++ match rslot r with Some x => [cell_tok c x] | None => [] end.

(* the script instances that still have a thread: the distinct calls of the live threads *)
Fixpoint dedup (l : list N) : list N :=
  match l with
  | [] => []
  | x :: r => if existsb (N.eqb x) r then dedup r else x :: dedup r
  end.

Definition instances (live : list N) (tc : list (N * N)) : nat :=
  length (dedup (map (fun t => match lookup t tc with Some c => c | None => t end) live)).

Definition heap_obs (h : heap) : list (N * list tok) * nat * bool :=
  (map (fun x => (fst x, rec_toks (hc h) (snd x))) (recs h), instances (map fst (vms h)) (tcall h),
   ub (hc h)).

(* ---------------------------------------------------------------- part 3: the scheduler *)

Record tstate := mkTS { tpre : list step; tsubs : list level; tpost : list step; tfin : fin }.

Inductive thr :=
| TMain (t : N) (ts : tstate)
| THelper (target : N) (kill : bool)
| THelperP (target : N) (hp : list (N * hact)).   (* in `wait d1`, then act1, ... *)

Record waiter := mkW { wdue : N; wseq : N; wthr : thr }.

Record sched := mkSched {
  pend : list waiter;                          (* threads in a timed wait *)
  paused : list (N * tstate);                  (* paused threads and what they still run *)
  frame : N;                                   (* the engine's frame time *)
  clock : N;                                   (* the host's clock *)
  sseq : N;
  lvars : list (N * dval) }.                   (* the variables level.q<k> / game.q<k> / parm.q<k> *)

Definition sched_init : sched := mkSched [] [] 0 0 0 [].

Definition add_wait (s : sched) (d : N) (th : thr) : sched :=
  mkSched (pend s ++ [mkW (frame s + d) (sseq s) th]) (paused s) (frame s) (clock s) (sseq s + 1) (lvars s).

Definition pause (s : sched) (t : N) (ts : tstate) : sched :=
  mkSched (pend s) (paused s ++ [(t, ts)]) (frame s) (clock s) (sseq s) (lvars s).

Definition w_ltb (a c : waiter) : bool :=
  (wdue a <? wdue c) || ((wdue a =? wdue c) && (wseq a <? wseq c)).

Fixpoint min_w (m : waiter) (l : list waiter) : waiter :=
  match l with
  | [] => m
  | x :: l' => min_w (if w_ltb x m then x else m) l'
  end.

Definition remove_w (k : N) (l : list waiter) : list waiter :=
  filter (fun x => negb (N.eqb (wseq x) k)) l.

Definition is_main (t : N) (w : waiter) : bool :=
  match wthr w with TMain t' _ => t' =? t | _ => false end.

(* what the records / the observation of one host operation look like *)
Inductive callobs := CNone | CNoLabel | COk (alive : bool) (params : list dval).

Record obs := mkObs {
  ocall : callobs;
  orecs : list (N * list tok);
  onrun : nat;          (* GetNumRunningScripts *)
  onth : nat;           (* live ScriptThreads *)
  ohang : bool;         (* the resume loop ran out of fuel *)
  oub : bool }.

Definition w_steps (l : list step) : nat :=
  fold_right (fun x acc => (match x with SWait _ => 1 | SPause _ => 2 | SPark _ hp => S (S (2 * length hp)) end + acc)%nat) O l.
Definition w_fin (f : fin) : nat :=
  match f with FKill _ => 2 | FKillTimed _ => 3 | _ => O end.
Definition w_level (l : level) : nat := (w_steps (lpre l) + w_steps (lpost l) + w_fin (lfin l))%nat.
Definition w_ts (ts : tstate) : nat :=
  (w_steps (tpre ts) + fold_right (fun l acc => (w_level l + acc)%nat) O (tsubs ts) + w_steps (tpost ts) + w_fin (tfin ts))%nat.
Definition w_thr (th : thr) : nat :=
  match th with TMain _ ts => S (w_ts ts) | THelper _ _ => 2 | THelperP _ hp => S (2 * length hp) end.
Definition weight (s : sched) : nat :=
  (fold_right (fun w acc => w_thr (wthr w) + acc) O (pend s) +
   fold_right (fun x acc => w_ts (snd x) + acc) O (paused s))%nat.

Section Engine.
  Variable H : Type.
  Variable h_init : H.
  Variable h_end : N -> endv -> H -> H.
  Variable h_kill : N -> H -> H.            (* `t delete`: ~ScriptThread -> NotifyDelete *)
  Variable h_exec : N -> H -> H.            (* ScriptVM::Execute begins (resume of a parked thread) *)
  Variable h_suspend : N -> H -> H.         (* ScriptVM::Suspend *)
  Variable h_tail : N -> H -> H.            (* the tail of ScriptVM::Execute *)
  Variable h_spawn : N -> H -> H * N.
  Variable h_spawned : N -> N -> H -> H.
  Variable h_begin : bool -> H -> H * N.
  Variable h_finish : bool -> N -> list dval -> H -> H.
  Variable h_alive : N -> H -> bool.
  Variable h_copy h_reserve h_move h_destroy : N -> H -> H.
  Variable h_assign h_massign : N -> N -> H -> H.
  Variable h_reset : H -> H.
  Variable h_obs : H -> list (N * list tok) * nat * bool.

  (* the helper of an SPark step is started (it runs to its first `wait`) *)
  Definition start_helper (s : sched) (t : N) (hp : list (N * hact)) : sched :=
    match hp with
    | (d, _) :: _ => add_wait s d (THelperP t hp)
    | [] => s
    end.

  (* the thread parks itself: Wait / Pause end with m_ScriptVM->Suspend() *)
  Definition park (s : sched) (h : H) (t : N) (w : option N) (ts : tstate) : sched * H :=
    (match w with Some d => add_wait s d (TMain t ts) | None => pause s t ts end, h_suspend t h).

  (* the thread t runs steps and its final statement (no sub-thread left to start) *)
  Definition run_simple (s : sched) (h : H) (t : N) (steps : list step) (f : fin) : sched * H :=
    match steps with
    | SWait d :: rest => park s h t (Some d) (mkTS rest [] [] f)
    | SPause d :: rest =>
        (* `thread helper local`: the helper runs to its `wait d`; then `pause` *)
        park (add_wait s d (THelper t false)) h t None (mkTS rest [] [] f)
    | SPark w hp :: rest => park (start_helper s t hp) h t w (mkTS rest [] [] f)
    | [] =>
        match f with
        | FEnd (RLit d) => (s, h_end t (EVal d) h)
        | FEnd RLocal => (s, h_end t ELocal h)
        | FEnd (RLevel k) => (s, h_end t (EVal (lget N.eqb k (lvars s))) h)
        | FEnd (RArg _) => (s, h_end t (EVal DNil) h)      (* not reached: resolved at the start *)
        | FEndNone | FFall => (s, h_end t ENone h)
        | FKill d => park (add_wait s d (THelper t true)) h t None (mkTS [] [] [] FNever)
        | FKillTimed d => park (add_wait s d (THelper t true)) h t (Some 50) (mkTS [] [] [] FNever)
        | FNever => park s h t None (mkTS [] [] [] FNever)
        | FSelfDel | FSyncKill _ | FEndOn => (s, h_kill t h)   (* the threads it starts end at once *)
        end
    end.

  (* run the thread t until it waits, pauses or ends; `local.r = thread sub` runs the sub-thread
     nested (until it suspends or ends; then the tail of its Execute) and then goes on *)
  Fixpoint run_st (s : sched) (h : H) (t : N) (pre : list step) (subs : list level)
                  (post : list step) (f : fin) {struct subs} : sched * H :=
    match pre with
    | SWait d :: rest => park s h t (Some d) (mkTS rest subs post f)
    | SPause d :: rest => park (add_wait s d (THelper t false)) h t None (mkTS rest subs post f)
    | SPark w hp :: rest => park (start_helper s t hp) h t w (mkTS rest subs post f)
    | [] =>
        match subs with
        | l :: more =>
            let '(h1, c) := h_spawn t h in
            let '(s2, h2) := run_st s h1 c (lpre l) more (lpost l) (resolve [] (lfin l)) in
            run_simple s2 (h_spawned t c (h_tail c h2)) t post f
        | [] => run_simple s h t post f
        end
    end.

  (* the first thread parked in a timed wait *)
  Fixpoint find_main (t : N) (l : list waiter) : option tstate :=
    match l with
    | [] => None
    | w :: r => match wthr w with
                | TMain t' ts => if t' =? t then Some ts else find_main t r
                | _ => find_main t r
                end
    end.

  Definition unpark (s : sched) (t : N) : sched :=
    mkSched (filter (fun w => negb (is_main t w)) (pend s)) (del t (paused s)) (frame s) (clock s) (sseq s) (lvars s).

  (* where the thread t is parked and what it still runs *)
  Definition parked_ts (s : sched) (t : N) : option tstate :=
    match lookup t (paused s) with
    | Some ts => Some ts
    | None => find_main t (pend s)
    end.

  (* a helper's order to the parked thread t *)
  Definition helper_act (s : sched) (h : H) (t : N) (a : hact) : sched * H :=
    match a with
    | AWait e =>
        (* ScriptThread::Wait: Stop (the old timer entry goes), StartTiming(e), Suspend *)
        match parked_ts s t with
        | Some ts => (add_wait (unpark s t) e (TMain t ts), h_suspend t h)
        | None => (s, h)
        end
    | APause =>
        (* ScriptThread::Pause: Stop, Suspend *)
        match parked_ts s t with
        | Some ts => (pause (unpark s t) t ts, h_suspend t h)
        | None => (s, h)
        end
    | ADelete => (unpark s t, h_kill t h)
    end.

  Definition run_thr (s : sched) (h : H) (th : thr) : sched * H :=
    match th with
    | TMain t ts =>
        (* ScriptThread::Resume: m_ScriptVM->Execute() *)
        let '(s1, h1) := run_st s (h_exec t h) t (tpre ts) (tsubs ts) (tpost ts) (tfin ts) in
        (s1, h_tail t h1)
    | THelper t false =>
        (* `t wait 0` on the paused thread: StartTiming(0) *)
        match lookup t (paused s) with
        | Some ts =>
            (add_wait (mkSched (pend s) (del t (paused s)) (frame s) (clock s) (sseq s) (lvars s)) 0 (TMain t ts), h_suspend t h)
        | None => (s, h)
        end
    | THelper t true =>
        (* `t delete` *)
        (unpark s t, h_kill t h)
    | THelperP t hp =>
        match hp with
        | (_, a) :: rest =>
            let '(s1, h1) := helper_act s h t a in
            (start_helper s1 t rest, h1)
        | [] => (s, h)
        end
    end.

  Fixpoint resume (fuel : nat) (s : sched) (h : H) : sched * H * bool :=
    match pend s with
    | [] => (s, h, true)
    | x :: r =>
        let m := min_w x r in
        if frame s <? wdue m then (s, h, true)
        else match fuel with
             | O => (s, h, false)
             | S f' =>
                 let s1 := mkSched (remove_w (wseq m) (pend s)) (paused s) (frame s) (clock s) (sseq s) (lvars s) in
                 let '(s2, h2) := run_thr s1 h (wthr m) in
                 resume f' s2 h2
             end
    end.

  Definition mk_obs (c : callobs) (s : sched) (h : H) (ok : bool) : obs :=
    let '(rs, n, u) := h_obs h in
    mkObs c rs n (length (pend s) + length (paused s)) (negb ok) u.

  Definition step_op (st : sched * H) (o : op) : (sched * H) * obs :=
    let '(s, h) := st in
    match o with
    | OCall lbl np pt prog args =>
        let '(h1, t) := h_begin lbl h in
        if lbl then
          (* SetFastData + the prologue: OP_STORE_PARAM and the store of every declared parameter *)
          let '(params, locvals, lv) :=
            match pt with
            | [] => (bind np args, bind np args, lvars s)
            | _ => let '(loc, lv) := prologue pt args [] (lvars s) in
                   (map (read_target loc lv) pt, map (fun j => lget Nat.eqb j loc) (seq 1 (max_loc pt)), lv)
            end in
          let s0 := mkSched (pend s) (paused s) (frame s) (clock s) (sseq s) lv in
          let l0 := match prog with l :: _ => l | [] => mkLevel [] [] FFall end in
          let '(s1, h2) := run_st s0 h1 t (lpre l0) (tl prog) (lpost l0) (resolve locvals (lfin l0)) in
          let '(s2, h3, ok) := resume (weight s1) s1 (h_tail t h2) in   (* ScriptExecuteInternal: ExecuteRunning *)
          let h4 := h_finish true t args h3 in
          ((s2, h4), mk_obs (COk (h_alive t h4) params) s2 h4 ok)
        else
          let h2 := h_finish false t args h1 in
          ((s, h2), mk_obs CNoLabel s h2 true)
    | OCopy r => let h' := h_copy r h in ((s, h'), mk_obs CNone s h' true)
    | OReserve r => let h' := h_reserve r h in ((s, h'), mk_obs CNone s h' true)
    | OMove r => let h' := h_move r h in ((s, h'), mk_obs CNone s h' true)
    | ODestroy r => let h' := h_destroy r h in ((s, h'), mk_obs CNone s h' true)
    | OAssign a b => let h' := h_assign a b h in ((s, h'), mk_obs CNone s h' true)
    | OMoveAssign a b => let h' := h_massign a b h in ((s, h'), mk_obs CNone s h' true)
    | OAdvance dt =>
        let s' := mkSched (pend s) (paused s) (frame s) (clock s + dt) (sseq s) (lvars s) in
        ((s', h), mk_obs CNone s' h true)
    | OExecute =>
        let s1 := mkSched (pend s) (paused s) (clock s) (clock s) (sseq s) (lvars s) in
        let '(s2, h2, ok) := resume (weight s1) s1 h in
        ((s2, h2), mk_obs CNone s2 h2 ok)
    | OReset =>
        (* ClearAll also empties the variable lists of game, level and parm *)
        let s' := mkSched [] [] (frame s) (clock s) (sseq s) [] in
        let h' := h_reset h in
        ((s', h'), mk_obs CNone s' h' true)
    end.

  Fixpoint run_from (st : sched * H) (ops : list op) : list obs :=
    match ops with
    | [] => []
    | o :: ops' => let '(st', ob) := step_op st o in ob :: run_from st' ops'
    end.

  Definition grun (ops : list op) : list obs := run_from (sched_init, h_init) ops.
End Engine.

(* ---------------------------------------------------------------- the VM state machine *)

(* vmState_e of the live VMs: Running = executing on the native stack; Suspended = Suspend() was
   called while executing (the interpreter loop ends); Idling = parked, not on the native stack.
   (Destroy / Destroyed are transient: the VM of a thread that is deleted while it executes is
   marked and then freed by the tail of its Execute - vm_kill_exec.) *)
Inductive vmst := VRun | VSusp | VIdle.

Definition mheap := (heap * list (N * vmst))%type.

Definition m_init : mheap := (heap_init, []).

Definition m_end (t : N) (e : endv) (m : mheap) : mheap := (vm_end t e (fst m), del t (snd m)).

(* ~ScriptThread -> ScriptVM::NotifyDelete: an Idling VM is deleted at once; a VM that is Running or
   Suspended is on the native stack: it is marked and the tail of its Execute deletes it *)
Definition m_delete (t : N) (m : mheap) : mheap :=
  match lookup t (snd m) with
  | Some VIdle => (vm_kill t (fst m), del t (snd m))
  | Some _ => (vm_kill_exec t (fst m), del t (snd m))
  | None => m
  end.

(* ScriptVM::Execute: state = Running *)
Definition m_exec (t : N) (m : mheap) : mheap :=
  match lookup t (snd m) with Some _ => (fst m, upd t VRun (snd m)) | None => m end.

(* ScriptVM::Suspend: only a Running VM becomes Suspended *)
Definition m_suspend (t : N) (m : mheap) : mheap :=
  match lookup t (snd m) with Some VRun => (fst m, upd t VSusp (snd m)) | _ => m end.

(* the tail of ScriptVM::Execute: Suspended -> Idling *)
Definition m_tail (t : N) (m : mheap) : mheap :=
  match lookup t (snd m) with Some VSusp => (fst m, upd t VIdle (snd m)) | _ => m end.

(* the constructor of ScriptVM leaves the state Running *)
Definition m_spawn (parent : N) (m : mheap) : mheap * N :=
  let '(h, c) := spawn parent (fst m) in ((h, snd m ++ [(c, VRun)]), c).

Definition m_begin (lbl : bool) (m : mheap) : mheap * N :=
  let '(h, t) := call_begin lbl (fst m) in ((h, if lbl then snd m ++ [(t, VRun)] else snd m), t).

Definition on_heap (f : heap -> heap) (m : mheap) : mheap := (f (fst m), snd m).

Definition run (ops : list op) : list obs :=
  grun mheap m_init m_end m_delete m_exec m_suspend m_tail m_spawn (fun p c => on_heap (spawned p c))
       m_begin (fun b t a => on_heap (call_finish b t a)) (fun t m => thread_alive t (fst m))
       (fun r => on_heap (rec_copy r)) (fun r => on_heap (rec_reserve r)) (fun r => on_heap (rec_move r))
       (fun r => on_heap (rec_destroy r)) (fun a b => on_heap (rec_assign a b)) (fun a b => on_heap (rec_massign a b))
       (fun m => (heap_reset (fst m), [])) (fun m => heap_obs (fst m)) ops.
