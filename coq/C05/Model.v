(* C05/Model.v - executable model of the host call/return protocol:
   ScriptMaster::ExecuteThread(script, parms, label) / CreateScriptThread (src/Script/ScriptMaster.cpp),
   ScriptThread::Execute(Event&) / ScriptExecute / EventEnd (src/Script/ScriptThread.cpp),
   ScriptVM::End / EndRef / SetFastData and OP_STORE_PARAM (src/Script/ScriptVM.cpp,
   ScriptVMOperation.cpp), ScriptPointer and the copy / move operations of a Pointer-typed
   ScriptVariable (src/Script/ScriptVariable.cpp), Event's value container (src/Script/Event.cpp,
   include/morfuse/Container/Container.h).

   Code level (part 1, the cell heap [ch]): every ScriptVariable that can hold the Pointer type has
   an identity (a cell id); a ScriptPointer is its list of registered cells in the order of
   Container::AddObject; add / remove (first occurrence, `delete this` when the list gets
   empty) / setValueRef (the two-holder special case that skips the ignored variable, else the
   loop from the last holder to the first) / Clear; operator=(const&) = ClearInternal then
   setDataInternal (registers the target when the source is a Pointer); operator=(&&) =
   ClearInternal, take type and data, source becomes None, add(target), remove(source); copy
   construction = None then operator=; move construction = take, add(new), remove(old);
   destruction = ClearInternal.  An access through a dead cell or a freed ScriptPointer
   (undefined behaviour in C++) sets the flag [ub].
   Part 2, the host protocol [heap]: the call creates the script instance, looks the label up
   (missing: the instance is deleted again, nothing else happened), creates the VM (its
   m_ReturnValue cell), Execute(Event&) makes the stack temporary returnValue.newPointer(2),
   m_ReturnValue = returnValue, runs the thread and the scheduler, and then adds
   std::move(returnValue) to the record unless it is None; `end v` = setPointerRef through
   m_ReturnValue, `end` / falling off the end = ClearPointer, then the VM (and m_ReturnValue)
   is destroyed; a deleted thread only destroys m_ReturnValue.  Host operations on records:
   Event copy (copy construction of every cell), growth of the container (Resize uses
   move_if_noexcept: ScriptVariable's move constructor is not noexcept, so every cell is copy
   constructed and the old one destroyed), Event move (cells untouched), destruction,
   copy / move assignment between result cells.
   Part 3, the scheduler [sched], generic in the heap: threads are abstract programs (timed
   waits, pause + a helper thread that sends `wait 0` to the paused thread after d ms, final
   statement); timed waits follow the due-time specification that unit C06 proves equal to the
   code-level con::timer (resume the waiter minimal in (due, registration) while due <= frame
   time; `wait` registers frame time + d).
   The observation of every host operation: what the call reported (label not found / thread
   still alive + the bound parameters), every element of every record (a value, `pending`
   for a Pointer-typed cell), GetNumRunningScripts, the number of threads, and the two flags
   [ohang] (resume loop out of fuel) and [oub] that the real engine can only show as a hang
   or a crash.
   Abstracted: payload memory of values (strings, vectors, arrays are opaque data (kind, index));
   the fast path of operator= for simple types (same effect); the argument cells of a record
   carry no identity (they never hold the Pointer type); a script instance is counted as
   gone when its main thread is gone (its helper ends within the same host operation). *)
From Coq Require Import NArith List Bool.
From Morfuse Require Import Base.Arr.
Import ListNotations.
Local Open Scope N_scope.

(* ---------------------------------------------------------------- values and programs *)

Inductive dval := DNil | DData (k i : N).         (* NIL | a value of kind k, number i *)
Inductive val := VD (d : dval) | VPtr (p : N).    (* plain data | type Pointer to ScriptPointer p *)

Inductive step := SWait (d : N) | SPause (d : N).
Inductive res := RLit (d : dval) | RArg (j : nat).          (* end <literal> | end local.p<j> *)
Inductive fin :=
| FEnd (r : res) | FEndNone | FFall
| FKill (d : N)          (* pause; a helper deletes the thread after d *)
| FKillTimed (d : N)     (* wait 50; a helper deletes the thread after d *)
| FNever.                (* pause for ever *)

Inductive op :=
| OCall (lbl : bool) (np : nat) (steps : list step) (f : fin) (args : list dval)
| OCopy (r : N) | OReserve (r : N) | OMove (r : N) | ODestroy (r : N)
| OAssign (r1 r2 : N) | OMoveAssign (r1 r2 : N)
| OAdvance (dt : N) | OExecute | OReset.

Definition dval_eqb (a b : dval) : bool :=
  match a, b with
  | DNil, DNil => true
  | DData k i, DData k' i' => (k =? k') && (i =? i')
  | _, _ => false
  end.

(* OP_STORE_PARAM for each declared parameter: fastIndex < NumArgs ? value(++fastIndex) : NIL *)
Fixpoint bind (np : nat) (fast : list dval) : list dval :=
  match np with
  | O => []
  | S n => match fast with
           | [] => DNil :: bind n []
           | a :: r => a :: bind n r
           end
  end.

Definition eval_res (params : list dval) (r : res) : dval :=
  match r with
  | RLit d => d
  | RArg O => DNil
  | RArg (S i) => nth i params DNil
  end.

Definition resolve (params : list dval) (f : fin) : fin :=
  match f with
  | FEnd r => FEnd (RLit (eval_res params r))
  | _ => f
  end.

(* ---------------------------------------------------------------- part 1: the cell heap *)

Record ch := mkCh {
  cells : arr (option val);        (* None: not a live ScriptVariable *)
  ptrs : arr (option (list N));    (* ScriptPointer::list; None: not a live ScriptPointer *)
  ncell : N;
  ub : bool }.

Definition ch_init : ch := mkCh (aempty None) (aempty None) 0 false.

Definition bad (h : ch) : ch := mkCh (cells h) (ptrs h) (ncell h) true.

Definition wr (h : ch) (c : N) (v : val) : ch :=
  match get (cells h) c with
  | Some _ => mkCh (set (cells h) c (Some v)) (ptrs h) (ncell h) (ub h)
  | None => bad h
  end.

Definition ptr_add (h : ch) (p c : N) : ch :=
  match get (ptrs h) p with
  | Some l => mkCh (cells h) (set (ptrs h) p (Some (l ++ [c]))) (ncell h) (ub h)
  | None => bad h
  end.

Fixpoint remove1 (c : N) (l : list N) : list N :=
  match l with
  | [] => []
  | x :: r => if x =? c then r else x :: remove1 c r
  end.

Definition ptr_remove (h : ch) (p c : N) : ch :=
  match get (ptrs h) p with
  | Some l =>
      mkCh (cells h)
           (set (ptrs h) p (match remove1 c l with [] => None | l' => Some l' end))
           (ncell h) (ub h)
  | None => bad h
  end.

Definition free_ptr (h : ch) (p : N) : ch :=
  mkCh (cells h) (set (ptrs h) p None) (ncell h) (ub h).

(* ScriptVariable::ClearInternal *)
Definition clear_internal (h : ch) (c : N) : ch :=
  match get (cells h) c with
  | Some (VPtr p) => ptr_remove h p c
  | Some (VD _) => h
  | None => bad h
  end.

(* setDataInternal + type *)
Definition set_data (h : ch) (dst : N) (v : val) : ch :=
  let h1 := wr h dst v in
  match v with
  | VPtr p => ptr_add h1 p dst
  | VD _ => h1
  end.

(* operator=(const ScriptVariable&), dst <> src *)
Definition copy_assign (h : ch) (dst src : N) : ch :=
  match get (cells h) src with
  | Some v => set_data (clear_internal h dst) dst v
  | None => bad h
  end.

(* operator=(ScriptVariable&&), dst <> src *)
Definition move_assign (h : ch) (dst src : N) : ch :=
  let h1 := clear_internal h dst in
  match get (cells h1) src with
  | Some v =>
      let h2 := wr (wr h1 dst v) src (VD DNil) in
      match v with
      | VPtr p => ptr_remove (ptr_add h2 p dst) p src
      | VD _ => h2
      end
  | None => bad h1
  end.

Definition alloc (h : ch) (v : val) : ch * N :=
  (mkCh (set (cells h) (ncell h) (Some v)) (ptrs h) (ncell h + 1) (ub h), ncell h).

(* ScriptVariable(const ScriptVariable&): type = None; *this = variable *)
Definition copy_construct (h : ch) (src : N) : ch * N :=
  let '(h1, c) := alloc h (VD DNil) in (copy_assign h1 c src, c).

(* ScriptVariable(ScriptVariable&&) *)
Definition move_construct (h : ch) (src : N) : ch * N :=
  match get (cells h) src with
  | Some v =>
      let '(h1, c) := alloc h v in
      let h2 := wr h1 src (VD DNil) in
      (match v with
       | VPtr p => ptr_remove (ptr_add h2 p c) p src
       | VD _ => h2
       end, c)
  | None => (bad h, ncell h)
  end.

(* ~ScriptVariable *)
Definition destroy (h : ch) (c : N) : ch :=
  let h1 := clear_internal h c in
  mkCh (set (cells h1) c None) (ptrs h1) (ncell h1) (ub h1).

(* newPointer on the None-typed cell c; p is the identity of the new ScriptPointer *)
Definition new_pointer (h : ch) (c p : N) : ch :=
  mkCh (set (cells h) c (Some (VPtr p))) (set (ptrs h) p (Some [c])) (ncell h) (ub h).

Definition set_all (h : ch) (l : list N) (d : dval) : ch :=
  fold_left (fun h c => wr h c (VD d)) l h.

(* ScriptPointer::setValueRef(var, ignoredVar) with a plain value *)
Definition set_value_ref (h : ch) (p : N) (d : dval) (ign : N) : ch :=
  match get (ptrs h) p with
  | Some [c0; c1] =>
      let h1 := wr (wr h c0 (VD DNil)) c1 (VD DNil) in
      let h2 := if c0 =? ign then wr h1 c1 (VD d)
                else if c1 =? ign then wr h1 c0 (VD d)
                else wr (wr h1 c1 (VD d)) c0 (VD d) in
      free_ptr h2 p
  | Some l => free_ptr (set_all h (rev l) d) p
  | None => bad h
  end.

(* ScriptPointer::Clear *)
Definition ptr_clear (h : ch) (p : N) : ch :=
  match get (ptrs h) p with
  | Some l => free_ptr (set_all h l DNil) p
  | None => bad h
  end.

(* ---------------------------------------------------------------- part 2: the host protocol *)

Record rec := mkRec { rargs : list dval; rslot : option N }.   (* rslot: the cell after the arguments *)

Record heap := mkHeap {
  hc : ch;
  vms : list (N * N);        (* live thread -> its VM's m_ReturnValue cell *)
  recs : list (N * rec);     (* the host's records *)
  nrec : N;
  ncall : N;
  ninst : nat;               (* live script instances *)
  tmp : N }.                 (* the stack temporary of ScriptThread::Execute(Event&) *)

Definition heap_init : heap := mkHeap ch_init [] [] 0 0 O 0.

Fixpoint lookup {A} (k : N) (l : list (N * A)) : option A :=
  match l with
  | [] => None
  | (k', v) :: r => if k' =? k then Some v else lookup k r
  end.

Fixpoint del {A} (k : N) (l : list (N * A)) : list (N * A) :=
  match l with
  | [] => []
  | (k', v) :: r => if k' =? k then del k r else (k', v) :: del k r
  end.

Fixpoint upd {A} (k : N) (v : A) (l : list (N * A)) : list (N * A) :=
  match l with
  | [] => []
  | (k', v') :: r => if k' =? k then (k', v) :: r else (k', v') :: upd k v r
  end.

(* the thread ends: r = Some d for `end d`, None for `end` / OP_DONE *)
Definition vm_end (t : N) (r : option dval) (h : heap) : heap :=
  match lookup t (vms h) with
  | Some rc =>
      let c1 := match get (cells (hc h)) rc with
                | Some (VPtr p) =>
                    match r with
                    | Some d => set_value_ref (hc h) p d rc      (* m_ReturnValue.setPointerRef(v) *)
                    | None => ptr_clear (hc h) p                 (* m_ReturnValue.ClearPointer() *)
                    end
                | _ => hc h
                end in
      mkHeap (destroy c1 rc) (del t (vms h)) (recs h) (nrec h) (ncall h) (pred (ninst h)) (tmp h)
  | None => h
  end.

(* the thread is deleted *)
Definition vm_kill (t : N) (h : heap) : heap :=
  match lookup t (vms h) with
  | Some rc => mkHeap (destroy (hc h) rc) (del t (vms h)) (recs h) (nrec h) (ncall h) (pred (ninst h)) (tmp h)
  | None => h
  end.

(* CreateScriptThread + the beginning of ScriptThread::Execute(Event&) *)
Definition call_begin (lbl : bool) (h : heap) : heap * N :=
  let t := ncall h in
  if lbl then
    let '(c1, rc) := alloc (hc h) (VD DNil) in              (* new ScriptVM: m_ReturnValue *)
    let '(c2, tm) := alloc c1 (VD DNil) in                  (* ScriptVariable returnValue *)
    let c3 := new_pointer c2 tm t in                        (* returnValue.newPointer(2) *)
    let c4 := copy_assign c3 rc tm in                       (* m_ReturnValue = returnValue *)
    (mkHeap c4 (vms h ++ [(t, rc)]) (recs h) (nrec h) (t + 1) (S (ninst h)) tm, t)
  else
    (* new ScriptClass; FindLabel fails; delete scriptClass; throw *)
    (mkHeap (hc h) (vms h) (recs h) (nrec h) (t + 1) (pred (S (ninst h))) (tmp h), t).

(* the end of ScriptThread::Execute(Event&); the Event becomes the next record *)
Definition call_finish (found : bool) (t : N) (args : list dval) (h : heap) : heap :=
  if found then
    match get (cells (hc h)) (tmp h) with
    | Some (VD DNil) =>
        mkHeap (destroy (hc h) (tmp h)) (vms h) (recs h ++ [(nrec h, mkRec args None)]) (nrec h + 1)
               (ncall h) (ninst h) (tmp h)
    | Some _ =>
        let '(c1, sc) := move_construct (hc h) (tmp h) in   (* ev.AddValue(std::move(returnValue)) *)
        mkHeap (destroy c1 (tmp h)) (vms h) (recs h ++ [(nrec h, mkRec args (Some sc))]) (nrec h + 1)
               (ncall h) (ninst h) (tmp h)
    | None =>
        mkHeap (bad (hc h)) (vms h) (recs h ++ [(nrec h, mkRec args None)]) (nrec h + 1)
               (ncall h) (ninst h) (tmp h)
    end
  else
    mkHeap (hc h) (vms h) (recs h ++ [(nrec h, mkRec args None)]) (nrec h + 1) (ncall h) (ninst h) (tmp h).

Definition thread_alive (t : N) (h : heap) : bool :=
  match lookup t (vms h) with Some _ => true | None => false end.

Definition with_hc (h : heap) (c : ch) : heap :=
  mkHeap c (vms h) (recs h) (nrec h) (ncall h) (ninst h) (tmp h).

(* Event(const Event&) *)
Definition rec_copy (r : N) (h : heap) : heap :=
  match lookup r (recs h) with
  | Some (mkRec a None) =>
      mkHeap (hc h) (vms h) (recs h ++ [(nrec h, mkRec a None)]) (nrec h + 1) (ncall h) (ninst h) (tmp h)
  | Some (mkRec a (Some c)) =>
      let '(c1, c') := copy_construct (hc h) c in
      mkHeap c1 (vms h) (recs h ++ [(nrec h, mkRec a (Some c'))]) (nrec h + 1) (ncall h) (ninst h) (tmp h)
  | None => h
  end.

(* Container::Resize: new(objlist + i) Type(move_if_noexcept(temp[i])); temp[i].~Type() *)
Definition rec_reserve (r : N) (h : heap) : heap :=
  match lookup r (recs h) with
  | Some (mkRec a (Some c)) =>
      let '(c1, c') := copy_construct (hc h) c in
      mkHeap (destroy c1 c) (vms h) (upd r (mkRec a (Some c')) (recs h)) (nrec h) (ncall h) (ninst h) (tmp h)
  | _ => h
  end.

(* Event(Event&&): the container's storage changes hands, no cell is touched *)
Definition rec_move (r : N) (h : heap) : heap := h.

Definition rec_destroy (r : N) (h : heap) : heap :=
  match lookup r (recs h) with
  | Some (mkRec a (Some c)) =>
      mkHeap (destroy (hc h) c) (vms h) (del r (recs h)) (nrec h) (ncall h) (ninst h) (tmp h)
  | Some (mkRec a None) =>
      mkHeap (hc h) (vms h) (del r (recs h)) (nrec h) (ncall h) (ninst h) (tmp h)
  | None => h
  end.

Definition slot_of (r : N) (h : heap) : option N :=
  match lookup r (recs h) with
  | Some x => rslot x
  | None => None
  end.

Definition rec_assign (r1 r2 : N) (h : heap) : heap :=
  if r1 =? r2 then h else
  match slot_of r1 h, slot_of r2 h with
  | Some a, Some b => with_hc h (copy_assign (hc h) a b)
  | _, _ => h
  end.

Definition rec_massign (r1 r2 : N) (h : heap) : heap :=
  if r1 =? r2 then h else
  match slot_of r1 h, slot_of r2 h with
  | Some a, Some b => with_hc h (move_assign (hc h) a b)
  | _, _ => h
  end.

(* ScriptMaster::Reset: every script instance (its threads, their VMs) is destroyed *)
Definition heap_reset (h : heap) : heap :=
  mkHeap (fold_left (fun c x => destroy c (snd x)) (vms h) (hc h)) [] (recs h) (nrec h) (ncall h) O (tmp h).

Inductive tok := TD (d : dval) | TPend | TDead.

Definition cell_tok (c : ch) (x : N) : tok :=
  match get (cells c) x with
  | Some (VD d) => TD d
  | Some (VPtr _) => TPend
  | None => TDead
  end.

Definition rec_toks (c : ch) (r : rec) : list tok :=
  map TD (rargs r) ++ match rslot r with Some x => [cell_tok c x] | None => [] end.

Definition heap_obs (h : heap) : list (N * list tok) * nat * bool :=
  (map (fun x => (fst x, rec_toks (hc h) (snd x))) (recs h), ninst h, ub (hc h)).

(* ---------------------------------------------------------------- part 3: the scheduler *)

Inductive thr :=
| TMain (t : N) (steps : list step) (f : fin)
| THelper (target : N) (kill : bool).

Record waiter := mkW { wdue : N; wseq : N; wthr : thr }.

Record sched := mkSched {
  pend : list waiter;                          (* threads in a timed wait *)
  paused : list (N * (list step * fin));       (* paused main threads and what they still run *)
  frame : N;                                   (* the engine's frame time *)
  clock : N;                                   (* the host's clock *)
  sseq : N }.

Definition sched_init : sched := mkSched [] [] 0 0 0.

Definition add_wait (s : sched) (d : N) (th : thr) : sched :=
  mkSched (pend s ++ [mkW (frame s + d) (sseq s) th]) (paused s) (frame s) (clock s) (sseq s + 1).

Definition pause (s : sched) (t : N) (steps : list step) (f : fin) : sched :=
  mkSched (pend s) (paused s ++ [(t, (steps, f))]) (frame s) (clock s) (sseq s).

Definition w_ltb (a c : waiter) : bool :=
  (wdue a <? wdue c) || ((wdue a =? wdue c) && (wseq a <? wseq c)).

Fixpoint min_w (m : waiter) (l : list waiter) : waiter :=
  match l with
  | [] => m
  | x :: l' => min_w (if w_ltb x m then x else m) l'
  end.

Definition remove_w (k : N) (l : list waiter) : list waiter :=
  filter (fun x => negb (N.eqb (wseq x) k)) l.

Definition is_main (t : N) (w : waiter) : bool :=
  match wthr w with TMain t' _ _ => t' =? t | THelper _ _ => false end.

(* what the records / the observation of one host operation look like *)
Inductive callobs := CNone | CNoLabel | COk (alive : bool) (params : list dval).

Record obs := mkObs {
  ocall : callobs;
  orecs : list (N * list tok);
  onrun : nat;          (* GetNumRunningScripts *)
  onth : nat;           (* live ScriptThreads *)
  ohang : bool;         (* the resume loop ran out of fuel *)
  oub : bool }.

Section Engine.
  Variable H : Type.
  Variable h_init : H.
  Variable h_end : N -> option dval -> H -> H.
  Variable h_kill : N -> H -> H.
  Variable h_begin : bool -> H -> H * N.
  Variable h_finish : bool -> N -> list dval -> H -> H.
  Variable h_alive : N -> H -> bool.
  Variable h_copy h_reserve h_move h_destroy : N -> H -> H.
  Variable h_assign h_massign : N -> N -> H -> H.
  Variable h_reset : H -> H.
  Variable h_obs : H -> list (N * list tok) * nat * bool.

  (* run the main thread t until it waits, pauses or ends *)
  Definition run_main (s : sched) (h : H) (t : N) (steps : list step) (f : fin) : sched * H :=
    match steps with
    | SWait d :: rest => (add_wait s d (TMain t rest f), h)
    | SPause d :: rest =>
        (* `thread helper local`: the helper runs to its `wait d`; then `pause` *)
        (pause (add_wait s d (THelper t false)) t rest f, h)
    | [] =>
        match f with
        | FEnd (RLit d) => (s, h_end t (Some d) h)
        | FEnd (RArg _) => (s, h_end t (Some DNil) h)      (* not reached: resolved at the call *)
        | FEndNone | FFall => (s, h_end t None h)
        | FKill d => (pause (add_wait s d (THelper t true)) t [] FNever, h)
        | FKillTimed d => (add_wait (add_wait s d (THelper t true)) 50 (TMain t [] FNever), h)
        | FNever => (pause s t [] FNever, h)
        end
    end.

  Definition run_thr (s : sched) (h : H) (th : thr) : sched * H :=
    match th with
    | TMain t steps f => run_main s h t steps f
    | THelper t false =>
        (* `t wait 0` on the paused thread: StartTiming(0) *)
        match lookup t (paused s) with
        | Some (steps, f) =>
            (add_wait (mkSched (pend s) (del t (paused s)) (frame s) (clock s) (sseq s)) 0 (TMain t steps f), h)
        | None => (s, h)
        end
    | THelper t true =>
        (* `t delete` *)
        (mkSched (filter (fun w => negb (is_main t w)) (pend s)) (del t (paused s)) (frame s) (clock s) (sseq s),
         h_kill t h)
    end.

  Fixpoint resume (fuel : nat) (s : sched) (h : H) : sched * H * bool :=
    match pend s with
    | [] => (s, h, true)
    | x :: r =>
        let m := min_w x r in
        if frame s <? wdue m then (s, h, true)
        else match fuel with
             | O => (s, h, false)
             | S f' =>
                 let s1 := mkSched (remove_w (wseq m) (pend s)) (paused s) (frame s) (clock s) (sseq s) in
                 let '(s2, h2) := run_thr s1 h (wthr m) in
                 resume f' s2 h2
             end
    end.

  Definition w_steps (l : list step) : nat :=
    fold_right (fun x acc => (match x with SWait _ => 1 | SPause _ => 2 end + acc)%nat) O l.
  Definition w_fin (f : fin) : nat :=
    match f with FKill _ => 2 | FKillTimed _ => 3 | _ => O end.
  Definition w_thr (th : thr) : nat :=
    match th with TMain _ l f => S (w_steps l + w_fin f) | THelper _ _ => 2 end.
  Definition weight (s : sched) : nat :=
    (fold_right (fun w acc => w_thr (wthr w) + acc) O (pend s) +
     fold_right (fun x acc => w_steps (fst (snd x)) + w_fin (snd (snd x)) + acc) O (paused s))%nat.

  Definition mk_obs (c : callobs) (s : sched) (h : H) (ok : bool) : obs :=
    let '(rs, n, u) := h_obs h in
    mkObs c rs n (length (pend s) + length (paused s)) (negb ok) u.

  Definition step_op (st : sched * H) (o : op) : (sched * H) * obs :=
    let '(s, h) := st in
    match o with
    | OCall lbl np steps f args =>
        let '(h1, t) := h_begin lbl h in
        if lbl then
          let params := bind np args in                       (* SetFastData + OP_STORE_PARAM *)
          let '(s1, h2) := run_main s h1 t steps (resolve params f) in
          let '(s2, h3, ok) := resume (weight s1) s1 h2 in    (* ScriptExecuteInternal: ExecuteRunning *)
          let h4 := h_finish true t args h3 in
          ((s2, h4), mk_obs (COk (h_alive t h4) params) s2 h4 ok)
        else
          let h2 := h_finish false t args h1 in
          ((s, h2), mk_obs CNoLabel s h2 true)
    | OCopy r => let h' := h_copy r h in ((s, h'), mk_obs CNone s h' true)
    | OReserve r => let h' := h_reserve r h in ((s, h'), mk_obs CNone s h' true)
    | OMove r => let h' := h_move r h in ((s, h'), mk_obs CNone s h' true)
    | ODestroy r => let h' := h_destroy r h in ((s, h'), mk_obs CNone s h' true)
    | OAssign a b => let h' := h_assign a b h in ((s, h'), mk_obs CNone s h' true)
    | OMoveAssign a b => let h' := h_massign a b h in ((s, h'), mk_obs CNone s h' true)
    | OAdvance dt =>
        let s' := mkSched (pend s) (paused s) (frame s) (clock s + dt) (sseq s) in
        ((s', h), mk_obs CNone s' h true)
    | OExecute =>
        let s1 := mkSched (pend s) (paused s) (clock s) (clock s) (sseq s) in
        let '(s2, h2, ok) := resume (weight s1) s1 h in
        ((s2, h2), mk_obs CNone s2 h2 ok)
    | OReset =>
        let s' := mkSched [] [] (frame s) (clock s) (sseq s) in
        let h' := h_reset h in
        ((s', h'), mk_obs CNone s' h' true)
    end.

  Fixpoint run_from (st : sched * H) (ops : list op) : list obs :=
    match ops with
    | [] => []
    | o :: ops' => let '(st', ob) := step_op st o in ob :: run_from st' ops'
    end.

  Definition grun (ops : list op) : list obs := run_from (sched_init, h_init) ops.
End Engine.

Definition run (ops : list op) : list obs :=
  grun heap heap_init vm_end vm_kill call_begin call_finish thread_alive
       rec_copy rec_reserve rec_move rec_destroy rec_assign rec_massign heap_reset heap_obs ops.
