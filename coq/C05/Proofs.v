(* C05/Proofs.v - the engine with the code-level heap (and the VM states) observes exactly what the
   engine with the specification's store observes, for every history. *)
From Coq Require Import NArith List Bool Lia.
From Morfuse Require Import Base.Arr Base.ListX C05.Model C05.Spec C05.ProofsCells C05.ProofsLib C05.ProofsHeap.
Import ListNotations.
Local Open Scope N_scope.

Definition m_spawned (p c : N) : mheap -> mheap := on_heap (spawned p c).
Definition m_finish (b : bool) (t : N) (a : list dval) : mheap -> mheap := on_heap (call_finish b t a).
Definition m_alive (t : N) (m : mheap) : bool := thread_alive t (fst m).
Definition m_reset (m : mheap) : mheap := (heap_reset (fst m), []).
Definition m_obs (m : mheap) := heap_obs (fst m).

Notation m_run_simple := (run_simple mheap m_end m_delete m_suspend).
Notation s_run_simple := (run_simple store s_end s_kill s_noop).
Notation m_run_st := (run_st mheap m_end m_delete m_suspend m_tail m_spawn m_spawned).
Notation s_run_st := (run_st store s_end s_kill s_noop s_noop s_spawn s_spawned).
Notation m_run_thr := (run_thr mheap m_end m_delete m_exec m_suspend m_tail m_spawn m_spawned).
Notation s_run_thr := (run_thr store s_end s_kill s_noop s_noop s_noop s_spawn s_spawned).
Notation m_resume := (resume mheap m_end m_delete m_exec m_suspend m_tail m_spawn m_spawned).
Notation s_resume := (resume store s_end s_kill s_noop s_noop s_noop s_spawn s_spawned).

Definition m_step := step_op mheap m_end m_delete m_exec m_suspend m_tail m_spawn m_spawned m_begin m_finish m_alive
                             (fun r => on_heap (rec_copy r)) (fun r => on_heap (rec_reserve r)) (fun r => on_heap (rec_move r))
                             (fun r => on_heap (rec_destroy r)) (fun a b => on_heap (rec_assign a b))
                             (fun a b => on_heap (rec_massign a b)) m_reset m_obs.
Definition s_step := step_op store s_end s_kill s_noop s_noop s_noop s_spawn s_spawned s_begin s_finish s_alive
                             s_copy s_same s_same s_destroy s_assign s_massign s_reset s_obs.
Definition m_from := run_from mheap m_end m_delete m_exec m_suspend m_tail m_spawn m_spawned m_begin m_finish m_alive
                             (fun r => on_heap (rec_copy r)) (fun r => on_heap (rec_reserve r)) (fun r => on_heap (rec_move r))
                             (fun r => on_heap (rec_destroy r)) (fun a b => on_heap (rec_assign a b))
                             (fun a b => on_heap (rec_massign a b)) m_reset m_obs.
Definition s_from := run_from store s_end s_kill s_noop s_noop s_noop s_spawn s_spawned s_begin s_finish s_alive
                              s_copy s_same s_same s_destroy s_assign s_massign s_reset s_obs.

(* the relation on the model's full state: the heap is related to the store, and the VM states are
   those of the live VMs *)
Definition RM (m : mheap) (s : store) : Prop := R (fst m) s /\ map fst (snd m) = map fst (vms (fst m)).

Lemma keys_lookup_none {A B} (l : list (N * A)) (l' : list (N * B)) t :
  map fst l = map fst l' -> lookup t l = None -> lookup t l' = None.
Proof.
  revert l'. induction l as [|[k a] l IH]; intros [|[k' b] l'] E; cbn in *; try discriminate; auto.
  injection E as -> E. destruct (k' =? t); [discriminate|]. now apply IH.
Qed.

Lemma keys_del {A B} (l : list (N * A)) (l' : list (N * B)) t :
  map fst l = map fst l' -> map fst (del t l) = map fst (del t l').
Proof. intro E. now rewrite !map_fst_del, E. Qed.

Lemma vms_after_end t e h : map fst (vms (vm_end t e h)) = map fst (del t (vms h)).
Proof.
  unfold vm_end. destruct (lookup t (vms h)) eqn:E; [reflexivity|].
  rewrite del_notin; [reflexivity|]. now apply lookup_none_notin.
Qed.

Lemma vms_after_kill t h : map fst (vms (vm_kill t h)) = map fst (del t (vms h)).
Proof.
  unfold vm_kill. destruct (lookup t (vms h)) eqn:E; [reflexivity|].
  rewrite del_notin; [reflexivity|]. now apply lookup_none_notin.
Qed.

Lemma vms_after_kill_exec t h : map fst (vms (vm_kill_exec t h)) = map fst (del t (vms h)).
Proof.
  unfold vm_kill_exec, vm_mark, vm_reap. destruct (lookup t (vms h)) eqn:E; [reflexivity|].
  rewrite del_notin; [reflexivity|]. now apply lookup_none_notin.
Qed.

Lemma RM_end t e m s : RM m s -> RM (m_end t e m) (s_end t e s).
Proof.
  intros [HR Hk]. split; cbn [fst snd m_end]; [now apply vm_end_R|].
  rewrite vms_after_end. now apply keys_del.
Qed.

Lemma RM_delete t m s : RM m s -> RM (m_delete t m) (s_kill t s).
Proof.
  intros [HR Hk]. unfold m_delete. destruct (lookup t (snd m)) as [[| |]|] eqn:E.
  - split; cbn [fst snd]; [now apply vm_kill_exec_R|]. rewrite vms_after_kill_exec. now apply keys_del.
  - split; cbn [fst snd]; [now apply vm_kill_exec_R|]. rewrite vms_after_kill_exec. now apply keys_del.
  - split; cbn [fst snd]; [now apply vm_kill_R|]. rewrite vms_after_kill. now apply keys_del.
  - pose proof (keys_lookup_none _ _ t Hk E) as E'.
    destruct (vm_kill_R t (fst m) s HR) as [H1 _]. unfold vm_kill in H1. rewrite E' in H1. now split.
Qed.

Lemma RM_exec t m s : RM m s -> RM (m_exec t m) (s_noop t s).
Proof.
  intros [HR Hk]. unfold m_exec, s_noop. destruct (lookup t (snd m)); [|now split].
  split; cbn [fst snd]; [exact HR|]. now rewrite map_fst_upd.
Qed.

Lemma RM_suspend t m s : RM m s -> RM (m_suspend t m) (s_noop t s).
Proof.
  intros [HR Hk]. unfold m_suspend, s_noop. destruct (lookup t (snd m)) as [[| |]|]; try (now split).
  split; cbn [fst snd]; [exact HR|]. now rewrite map_fst_upd.
Qed.

Lemma RM_tail t m s : RM m s -> RM (m_tail t m) (s_noop t s).
Proof.
  intros [HR Hk]. unfold m_tail, s_noop. destruct (lookup t (snd m)) as [[| |]|]; try (now split).
  split; cbn [fst snd]; [exact HR|]. now rewrite map_fst_upd.
Qed.

Lemma RM_spawn p m s : RM m s ->
  RM (fst (m_spawn p m)) (fst (s_spawn p s)) /\ snd (m_spawn p m) = snd (s_spawn p s).
Proof.
  intros [HR Hk]. unfold m_spawn. destruct (spawn_R p (fst m) s HR) as [H1 H2].
  assert (Hv : map fst (vms (fst (spawn p (fst m)))) = map fst (vms (fst m)) ++ [snd (spawn p (fst m))]).
  { unfold spawn, thread_begin. destruct (alloc _ _) as [c1 rc]. destruct (alloc c1 _) as [c2 tm]. cbn [fst snd vms].
    now rewrite map_app. }
  destruct (spawn p (fst m)) as [h c]. cbn [fst snd] in *. split; [|exact H2].
  split; cbn [fst snd]; [exact H1|]. rewrite map_app, Hk, Hv. reflexivity.
Qed.

Lemma RM_begin lbl m s : RM m s ->
  RM (fst (m_begin lbl m)) (fst (s_begin lbl s)) /\ snd (m_begin lbl m) = snd (s_begin lbl s).
Proof.
  intros [HR Hk]. unfold m_begin. destruct (call_begin_R lbl (fst m) s HR) as [H1 H2].
  assert (Hv : map fst (vms (fst (call_begin lbl (fst m)))) =
               if lbl then map fst (vms (fst m)) ++ [snd (call_begin lbl (fst m))] else map fst (vms (fst m))).
  { unfold call_begin, thread_begin. destruct lbl; [|reflexivity].
    destruct (alloc _ _) as [c1 rc]. destruct (alloc c1 _) as [c2 tm]. cbn [fst snd vms]. now rewrite map_app. }
  destruct (call_begin lbl (fst m)) as [h t]. cbn [fst snd] in *. split; [|exact H2].
  split; cbn [fst snd]; [exact H1|]. destruct lbl; [|now rewrite Hv]. rewrite map_app, Hk, Hv. reflexivity.
Qed.

Lemma RM_on_heap f g m s : (forall h, R h s -> R (f h) (g s) /\ map fst (vms (f h)) = map fst (vms h)) ->
  RM m s -> RM (on_heap f m) (g s).
Proof. intros Hf [HR Hk]. destruct (Hf _ HR) as [H1 H2]. split; cbn [fst snd on_heap]; [exact H1|congruence]. Qed.

Lemma RM_spawned p c m s : RM m s -> RM (m_spawned p c m) (s_spawned p c s).
Proof.
  apply RM_on_heap. intros h HR. split; [now apply spawned_R|].
  unfold spawned. destruct (tmps h) as [|[tm u] rest]; [reflexivity|].
  destruct ((p <? u) && _); [destruct (copy_construct (hc h) tm)|]; reflexivity.
Qed.

(* ---- the scheduler does the same with both stores --------------------------------------------- *)
Lemma park_sim sc m s t w ts : RM m s ->
  fst (park mheap m_suspend sc m t w ts) = fst (park store s_noop sc s t w ts) /\
  RM (snd (park mheap m_suspend sc m t w ts)) (snd (park store s_noop sc s t w ts)).
Proof. intro HR. unfold park. cbn [fst snd]. split; [reflexivity|]. now apply RM_suspend. Qed.

Lemma run_simple_sim sc m s t steps f : RM m s ->
  fst (m_run_simple sc m t steps f) = fst (s_run_simple sc s t steps f) /\
  RM (snd (m_run_simple sc m t steps f)) (snd (s_run_simple sc s t steps f)).
Proof.
  intro HR. unfold run_simple.
  destruct steps as [|[d|d|w hp] rest]; try (now apply park_sim).
  destruct f as [[d|j| |k]| | |d|d| | |n|]; try (now apply park_sim); cbn [fst snd]; split; try reflexivity;
    try (now apply RM_end); now apply RM_delete.
Qed.

Lemma run_st_sim subs : forall sc m s t pre post f, RM m s ->
  fst (m_run_st sc m t pre subs post f) = fst (s_run_st sc s t pre subs post f) /\
  RM (snd (m_run_st sc m t pre subs post f)) (snd (s_run_st sc s t pre subs post f)).
Proof.
  induction subs as [|l more IH]; intros sc m s t pre post f HR; cbn [run_st].
  - destruct pre as [|[d|d|w hp] rest]; try (now apply park_sim). now apply run_simple_sim.
  - destruct pre as [|[d|d|w hp] rest]; try (now apply park_sim).
    destruct (RM_spawn t m s HR) as [HR1 Ec].
    destruct (m_spawn t m) as [m1 c]. destruct (s_spawn t s) as [s1 c']. cbn [fst snd] in *. subst c'.
    destruct (IH sc m1 s1 c (lpre l) (lpost l) (resolve [] (lfin l)) HR1) as [E1 HR2].
    destruct (m_run_st sc m1 c (lpre l) more (lpost l) (resolve [] (lfin l))) as [sa m2].
    destruct (s_run_st sc s1 c (lpre l) more (lpost l) (resolve [] (lfin l))) as [sb s2].
    cbn [fst snd] in *. subst sb.
    apply run_simple_sim. apply RM_spawned. now apply RM_tail.
Qed.

Lemma helper_act_sim sc m s t a : RM m s ->
  fst (helper_act mheap m_delete m_suspend sc m t a) = fst (helper_act store s_kill s_noop sc s t a) /\
  RM (snd (helper_act mheap m_delete m_suspend sc m t a)) (snd (helper_act store s_kill s_noop sc s t a)).
Proof.
  intro HR. unfold helper_act. destruct a as [e| |].
  - destruct (parked_ts sc t); cbn [fst snd]; split; auto. now apply RM_suspend.
  - destruct (parked_ts sc t); cbn [fst snd]; split; auto. now apply RM_suspend.
  - cbn [fst snd]. split; [reflexivity|]. now apply RM_delete.
Qed.

Lemma run_thr_sim sc m s th : RM m s ->
  fst (m_run_thr sc m th) = fst (s_run_thr sc s th) /\ RM (snd (m_run_thr sc m th)) (snd (s_run_thr sc s th)).
Proof.
  intro HR. destruct th as [t ts|t [|]|t hp]; cbn [run_thr].
  - destruct (run_st_sim (tsubs ts) sc (m_exec t m) (s_noop t s) t (tpre ts) (tpost ts) (tfin ts) (RM_exec t m s HR)) as [E1 E2].
    destruct (m_run_st sc (m_exec t m) t (tpre ts) (tsubs ts) (tpost ts) (tfin ts)) as [sa m1].
    destruct (s_run_st sc (s_noop t s) t (tpre ts) (tsubs ts) (tpost ts) (tfin ts)) as [sb s1].
    cbn [fst snd] in *. subst sb. split; [reflexivity|]. now apply RM_tail.
  - cbn [fst snd]. split; [reflexivity|]. now apply RM_delete.
  - destruct (lookup t (paused sc)) as [ts|]; cbn [fst snd]; split; auto. now apply RM_suspend.
  - destruct hp as [|[d a] rest]; cbn [fst snd]; [now split|].
    destruct (helper_act_sim sc m s t a HR) as [E1 E2].
    destruct (helper_act mheap m_delete m_suspend sc m t a) as [sa m1].
    destruct (helper_act store s_kill s_noop sc s t a) as [sb s1]. cbn [fst snd] in *. subst sb. now split.
Qed.

Lemma resume_sim fuel : forall sc m s, RM m s ->
  fst (fst (m_resume fuel sc m)) = fst (fst (s_resume fuel sc s)) /\
  snd (m_resume fuel sc m) = snd (s_resume fuel sc s) /\
  RM (snd (fst (m_resume fuel sc m))) (snd (fst (s_resume fuel sc s))).
Proof.
  induction fuel as [|fuel IH]; intros sc m s HR; cbn [resume].
  - destruct (pend sc) as [|x r]; cbn [fst snd]; auto.
    destruct (frame sc <? wdue (min_w x r)); cbn [fst snd]; auto.
  - destruct (pend sc) as [|x r]; cbn [fst snd]; auto.
    destruct (frame sc <? wdue (min_w x r)); cbn [fst snd]; auto.
    set (sc1 := mkSched (remove_w (wseq (min_w x r)) (x :: r)) (paused sc) (frame sc) (clock sc) (sseq sc) (lvars sc)).
    destruct (run_thr_sim sc1 m s (wthr (min_w x r)) HR) as [E1 E2].
    destruct (m_run_thr sc1 m (wthr (min_w x r))) as [sa ha].
    destruct (s_run_thr sc1 s (wthr (min_w x r))) as [sb sb']. cbn [fst snd] in *. subst sb.
    now apply IH.
Qed.

(* ---- one host operation ------------------------------------------------------------------------ *)
Lemma mk_obs_eq c sc m s ok : RM m s -> mk_obs mheap m_obs c sc m ok = mk_obs store s_obs c sc s ok.
Proof. intros [HR _]. unfold mk_obs, m_obs. now rewrite (obs_eq (fst m) s HR). Qed.

Lemma vms_with_recs h c l n : vms (with_recs h c l n) = vms h.
Proof. reflexivity. Qed.

Lemma keys_kill_all l : forall h,
  map fst (vms (fold_left (fun h t => vm_kill t h) l h)) = fold_left (fun a t => delN t a) l (map fst (vms h)).
Proof.
  induction l as [|t l IH]; intro h; cbn [fold_left]; [reflexivity|].
  now rewrite IH, vms_after_kill, map_fst_del.
Qed.

Lemma reset_vms h : vms (heap_reset h) = [].
Proof.
  assert (E : map fst (vms (heap_reset h)) = []).
  { unfold heap_reset. rewrite (fold_map_fst vm_kill), keys_kill_all. now apply delN_all. }
  destruct (vms (heap_reset h)); [reflexivity|discriminate].
Qed.

Lemma RM_reset m s : RM m s -> RM (m_reset m) (s_reset s).
Proof.
  intros [HR _]. split; cbn [fst snd m_reset]; [now apply heap_reset_R|]. now rewrite reset_vms.
Qed.

Theorem step_sim sc m s o : RM m s ->
  fst (fst (m_step (sc, m) o)) = fst (fst (s_step (sc, s) o)) /\
  snd (m_step (sc, m) o) = snd (s_step (sc, s) o) /\
  RM (snd (fst (m_step (sc, m) o))) (snd (fst (s_step (sc, s) o))).
Proof.
  intro HR. unfold m_step, s_step. destruct o as [lbl np pt prog args|r|r|r|r|a b|a b|dt| |]; cbn [step_op].
  - (* the host call *)
    destruct (RM_begin lbl m s HR) as [HR1 Et].
    destruct (m_begin lbl m) as [m1 t]. destruct (s_begin lbl s) as [s1 t']. cbn [fst snd] in *. subst t'.
    destruct lbl.
    + destruct (match pt with
                | [] => (bind np args, bind np args, lvars sc)
                | _ :: _ => let '(loc, lv) := prologue pt args [] (lvars sc) in
                            (map (read_target loc lv) pt, map (fun j => lget Nat.eqb j loc) (seq 1 (max_loc pt)), lv)
                end) as [[params locvals] lv].
      set (sc0 := mkSched (pend sc) (paused sc) (frame sc) (clock sc) (sseq sc) lv).
      set (l0 := match prog with l :: _ => l | [] => mkLevel [] [] FFall end).
      destruct (run_st_sim (tl prog) sc0 m1 s1 t (lpre l0) (lpost l0) (resolve locvals (lfin l0)) HR1) as [E1 E2].
      destruct (m_run_st sc0 m1 t (lpre l0) (tl prog) (lpost l0) (resolve locvals (lfin l0))) as [sa m2].
      destruct (s_run_st sc0 s1 t (lpre l0) (tl prog) (lpost l0) (resolve locvals (lfin l0))) as [sb s2].
      cbn [fst snd] in *. subst sb.
      destruct (resume_sim (weight sa) sa (m_tail t m2) (s_noop t s2) (RM_tail t m2 s2 E2)) as (E3 & E4 & E5).
      destruct (m_resume (weight sa) sa (m_tail t m2)) as [[sc3 m3] ok3].
      destruct (s_resume (weight sa) sa (s_noop t s2)) as [[sc3' s3] ok3'].
      cbn [fst snd] in *. subst sc3' ok3'.
      assert (HR4 : RM (m_finish true t args m3) (s_finish true t args s3)).
      { apply RM_on_heap; [|exact E5]. intros h Hh. split; [now apply call_finish_R|].
        unfold call_finish. destruct (tmps h) as [|[tm u] rest]; [reflexivity|].
        destruct (get (cells (hc h)) tm) as [[[|k i]|p]|]; try reflexivity; destruct (move_construct (hc h) tm); reflexivity. }
      split; [reflexivity|]. split; [|exact HR4].
      unfold m_alive. rewrite (alive_eq t _ _ (proj1 HR4)). now apply mk_obs_eq.
    + assert (HR2 : RM (m_finish false t args m1) (s_finish false t args s1)).
      { apply RM_on_heap; [|exact HR1]. intros h Hh. split; [now apply call_finish_nolabel_R|reflexivity]. }
      split; [reflexivity|]. split; [now apply mk_obs_eq|exact HR2].
  - assert (H : RM (on_heap (rec_copy r) m) (s_copy r s)).
    { apply RM_on_heap; [|exact HR]. intros h Hh. split; [now apply rec_copy_R|].
      unfold rec_copy. destruct (lookup r (recs h)) as [[a [c|]]|]; try reflexivity;
      destruct (copy_construct (hc h) c); reflexivity. }
    split; [reflexivity|]. split; [now apply mk_obs_eq|exact H].
  - assert (H : RM (on_heap (rec_reserve r) m) (s_same r s)).
    { apply RM_on_heap; [|exact HR]. intros h Hh. split; [now apply rec_reserve_R|].
      unfold rec_reserve. destruct (lookup r (recs h)) as [[a [c|]]|]; try reflexivity;
      destruct (copy_construct (hc h) c); reflexivity. }
    split; [reflexivity|]. split; [now apply mk_obs_eq|exact H].
  - split; [reflexivity|]. split; [now apply mk_obs_eq|]. destruct HR. now split.
  - assert (H : RM (on_heap (rec_destroy r) m) (s_destroy r s)).
    { apply RM_on_heap; [|exact HR]. intros h Hh. split; [now apply rec_destroy_R|].
      unfold rec_destroy. destruct (lookup r (recs h)) as [[a0 [c|]]|]; reflexivity. }
    split; [reflexivity|]. split; [now apply mk_obs_eq|exact H].
  - assert (H : RM (on_heap (rec_assign a b) m) (s_assign a b s)).
    { apply RM_on_heap; [|exact HR]. intros h Hh. split; [now apply rec_assign_R|].
      unfold rec_assign. destruct (a =? b); [reflexivity|]. destruct (slot_of a h), (slot_of b h); reflexivity. }
    split; [reflexivity|]. split; [now apply mk_obs_eq|exact H].
  - assert (H : RM (on_heap (rec_massign a b) m) (s_massign a b s)).
    { apply RM_on_heap; [|exact HR]. intros h Hh. split; [now apply rec_massign_R|].
      unfold rec_massign. destruct (a =? b); [reflexivity|]. destruct (slot_of a h), (slot_of b h); reflexivity. }
    split; [reflexivity|]. split; [now apply mk_obs_eq|exact H].
  - split; [reflexivity|]. split; [now apply mk_obs_eq|exact HR].
  - set (sc1 := mkSched (pend sc) (paused sc) (clock sc) (clock sc) (sseq sc) (lvars sc)).
    destruct (resume_sim (weight sc1) sc1 m s HR) as (E3 & E4 & E5).
    destruct (m_resume (weight sc1) sc1 m) as [[sc3 m3] ok3].
    destruct (s_resume (weight sc1) sc1 s) as [[sc3' s3] ok3'].
    cbn [fst snd] in *. subst sc3' ok3'.
    split; [reflexivity|]. split; [now apply mk_obs_eq|exact E5].
  - pose proof (RM_reset m s HR) as H. split; [reflexivity|]. split; [now apply mk_obs_eq|exact H].
Qed.

Lemma from_sim ops : forall sc m s, RM m s -> m_from (sc, m) ops = s_from (sc, s) ops.
Proof.
  induction ops as [|o ops IH]; intros sc m s HR; [reflexivity|].
  unfold m_from, s_from. cbn [run_from]. fold m_from s_from. fold (m_step (sc, m) o) (s_step (sc, s) o).
  destruct (step_sim sc m s o HR) as (E1 & E2 & E3).
  destruct (m_step (sc, m) o) as [[sc1 h1] ob1]. destruct (s_step (sc, s) o) as [[sc2 s2] ob2].
  cbn [fst snd] in *. subst sc2 ob2. f_equal. now apply IH.
Qed.

Lemma RM_init : RM m_init store_init.
Proof. split; [exact R_init|reflexivity]. Qed.

(* the main theorem *)
Theorem run_refines_spec : forall ops, run ops = spec_run ops.
Proof. intro ops. unfold run, spec_run, grun. apply (from_sim ops sched_init m_init store_init RM_init). Qed.
