(* C05/Proofs.v - the engine with the code-level heap observes exactly what the engine with the
   specification's store observes, for every history; corollaries that spell out the clauses
   of the property. *)
From Coq Require Import NArith List Bool Lia.
From Morfuse Require Import Base.Arr Base.ListX C05.Model C05.Spec C05.ProofsCells C05.ProofsHeap.
Import ListNotations.
Local Open Scope N_scope.

Definition m_step := step_op heap vm_end vm_kill call_begin call_finish thread_alive
                             rec_copy rec_reserve rec_move rec_destroy rec_assign rec_massign heap_reset heap_obs.
Definition s_step := step_op store s_end s_kill s_begin s_finish s_alive
                             s_copy s_same s_same s_destroy s_assign s_massign s_reset s_obs.
Definition m_from := run_from heap vm_end vm_kill call_begin call_finish thread_alive
                              rec_copy rec_reserve rec_move rec_destroy rec_assign rec_massign heap_reset heap_obs.
Definition s_from := run_from store s_end s_kill s_begin s_finish s_alive
                              s_copy s_same s_same s_destroy s_assign s_massign s_reset s_obs.

(* ---- the scheduler does the same with both stores --------------------------------------------- *)
Section Sim.
  Variable Rel : heap -> store -> Prop.
  Hypothesis Rel_end : forall t r h s, Rel h s -> Rel (vm_end t r h) (s_end t r s).
  Hypothesis Rel_kill : forall t h s, Rel h s -> Rel (vm_kill t h) (s_kill t s).

  Lemma run_main_sim sc h s t steps f : Rel h s ->
    fst (run_main heap vm_end sc h t steps f) = fst (run_main store s_end sc s t steps f) /\
    Rel (snd (run_main heap vm_end sc h t steps f)) (snd (run_main store s_end sc s t steps f)).
  Proof.
    intro HR. unfold run_main.
    destruct steps as [|[d|d] rest]; cbn [fst snd]; auto.
    destruct f as [[d|j]| | |d|d|]; cbn [fst snd]; auto.
  Qed.

  Lemma run_thr_sim sc h s th : Rel h s ->
    fst (run_thr heap vm_end vm_kill sc h th) = fst (run_thr store s_end s_kill sc s th) /\
    Rel (snd (run_thr heap vm_end vm_kill sc h th)) (snd (run_thr store s_end s_kill sc s th)).
  Proof.
    intro HR. destruct th as [t steps f|t [|]]; cbn [run_thr].
    - now apply run_main_sim.
    - cbn [fst snd]. auto.
    - destruct (lookup t (paused sc)) as [[steps f]|]; cbn [fst snd]; auto.
  Qed.

  Lemma resume_sim fuel : forall sc h s, Rel h s ->
    fst (fst (resume heap vm_end vm_kill fuel sc h)) = fst (fst (resume store s_end s_kill fuel sc s)) /\
    snd (resume heap vm_end vm_kill fuel sc h) = snd (resume store s_end s_kill fuel sc s) /\
    Rel (snd (fst (resume heap vm_end vm_kill fuel sc h))) (snd (fst (resume store s_end s_kill fuel sc s))).
  Proof.
    induction fuel as [|fuel IH]; intros sc h s HR; cbn [resume].
    - destruct (pend sc) as [|x r]; cbn [fst snd]; auto.
      destruct (frame sc <? wdue (min_w x r)); cbn [fst snd]; auto.
    - destruct (pend sc) as [|x r]; cbn [fst snd]; auto.
      destruct (frame sc <? wdue (min_w x r)); cbn [fst snd]; auto.
      set (sc1 := mkSched (remove_w (wseq (min_w x r)) (x :: r)) (paused sc) (frame sc) (clock sc) (sseq sc)).
      destruct (run_thr_sim sc1 h s (wthr (min_w x r)) HR) as [E1 E2].
      destruct (run_thr heap vm_end vm_kill sc1 h (wthr (min_w x r))) as [sa ha].
      destruct (run_thr store s_end s_kill sc1 s (wthr (min_w x r))) as [sb sb']. cbn [fst snd] in *. subst sb.
      now apply IH.
  Qed.
End Sim.

(* ---- one host operation ------------------------------------------------------------------------ *)
Lemma mk_obs_eq c sc h s ok : R h s [] -> mk_obs heap heap_obs c sc h ok = mk_obs store s_obs c sc s ok.
Proof. intro HR. unfold mk_obs. now rewrite (obs_eq h s HR). Qed.

Theorem step_sim sc h s o : R h s [] ->
  fst (fst (m_step (sc, h) o)) = fst (fst (s_step (sc, s) o)) /\
  snd (m_step (sc, h) o) = snd (s_step (sc, s) o) /\
  R (snd (fst (m_step (sc, h) o))) (snd (fst (s_step (sc, s) o))) [].
Proof.
  intro HR. unfold m_step, s_step. destruct o as [lbl np steps f args|r|r|r|r|a b|a b|dt| |]; cbn [step_op].
  - (* the host call *)
    destruct lbl.
    + pose proof (call_begin_R h s HR) as HB. cbn zeta in HB. destruct HB as (HR1 & Et & _).
      destruct (call_begin true h) as [h1 t] eqn:Eb. destruct (s_begin true s) as [s1 t'] eqn:Es.
      cbn [fst snd] in *. subst t'.
      set (Rel := fun h s => R h s [(tmp h1, SCall t)] /\ tmp h = tmp h1).
      assert (Rel_end : forall t0 r h0 s0, Rel h0 s0 -> Rel (vm_end t0 r h0) (s_end t0 r s0)).
      { intros t0 r h0 s0 [H1 H2]. destruct (vm_end_R t0 r h0 s0 _ H1) as [H3 H4]. split; [exact H3|congruence]. }
      assert (Rel_kill : forall t0 h0 s0, Rel h0 s0 -> Rel (vm_kill t0 h0) (s_kill t0 s0)).
      { intros t0 h0 s0 [H1 H2]. destruct (vm_kill_R t0 h0 s0 _ H1) as [H3 H4]. split; [exact H3|congruence]. }
      assert (HRel1 : Rel h1 s1) by (split; [exact HR1|reflexivity]).
      destruct (run_main_sim Rel Rel_end sc h1 s1 t steps (resolve (bind np args) f) HRel1) as [E1 E2].
      destruct (run_main heap vm_end sc h1 t steps (resolve (bind np args) f)) as [sa h2].
      destruct (run_main store s_end sc s1 t steps (resolve (bind np args) f)) as [sb s2].
      cbn [fst snd] in *. subst sb.
      destruct (resume_sim Rel Rel_end Rel_kill (weight sa) sa h2 s2 E2) as (E3 & E4 & E5).
      destruct (resume heap vm_end vm_kill (weight sa) sa h2) as [[sc3 h3] ok3].
      destruct (resume store s_end s_kill (weight sa) sa s2) as [[sc3' s3] ok3'].
      cbn [fst snd] in *. subst sc3' ok3'. destruct E5 as [HR3 Etmp].
      rewrite <- Etmp in HR3.
      pose proof (call_finish_R t args h3 s3 HR3) as HR4.
      split; [reflexivity|]. split; [|exact HR4].
      rewrite (alive_eq t _ _ _ HR4). now apply mk_obs_eq.
    + destruct (call_begin_nolabel_R h s HR) as [HR1 Et].
      destruct (call_begin false h) as [h1 t] eqn:Eb. destruct (s_begin false s) as [s1 t'] eqn:Es.
      cbn [fst snd] in *. subst t'.
      pose proof (call_finish_nolabel_R t args h1 s1 HR1) as HR2.
      split; [reflexivity|]. split; [now apply mk_obs_eq|exact HR2].
  - pose proof (rec_copy_R r h s HR) as H. split; [reflexivity|]. split; [now apply mk_obs_eq|exact H].
  - pose proof (rec_reserve_R r h s HR) as H. split; [reflexivity|]. split; [now apply mk_obs_eq|exact H].
  - split; [reflexivity|]. split; [now apply mk_obs_eq|exact HR].
  - pose proof (rec_destroy_R r h s HR) as H. split; [reflexivity|]. split; [now apply mk_obs_eq|exact H].
  - pose proof (rec_assign_R a b h s HR) as H. split; [reflexivity|]. split; [now apply mk_obs_eq|exact H].
  - pose proof (rec_massign_R a b h s HR) as H. split; [reflexivity|]. split; [now apply mk_obs_eq|exact H].
  - split; [reflexivity|]. split; [now apply mk_obs_eq|exact HR].
  - set (sc1 := mkSched (pend sc) (paused sc) (clock sc) (clock sc) (sseq sc)).
    set (Rel := fun h s => R h s []).
    assert (Rel_end : forall t0 r h0 s0, Rel h0 s0 -> Rel (vm_end t0 r h0) (s_end t0 r s0))
      by (intros t0 r h0 s0 H1; now destruct (vm_end_R t0 r h0 s0 _ H1)).
    assert (Rel_kill : forall t0 h0 s0, Rel h0 s0 -> Rel (vm_kill t0 h0) (s_kill t0 s0))
      by (intros t0 h0 s0 H1; now destruct (vm_kill_R t0 h0 s0 _ H1)).
    destruct (resume_sim Rel Rel_end Rel_kill (weight sc1) sc1 h s HR) as (E3 & E4 & E5).
    destruct (resume heap vm_end vm_kill (weight sc1) sc1 h) as [[sc3 h3] ok3].
    destruct (resume store s_end s_kill (weight sc1) sc1 s) as [[sc3' s3] ok3'].
    cbn [fst snd] in *. subst sc3' ok3'.
    split; [reflexivity|]. split; [now apply mk_obs_eq|exact E5].
  - pose proof (heap_reset_R h s HR) as H. split; [reflexivity|]. split; [now apply mk_obs_eq|exact H].
Qed.

Lemma from_sim ops : forall sc h s, R h s [] -> m_from (sc, h) ops = s_from (sc, s) ops.
Proof.
  induction ops as [|o ops IH]; intros sc h s HR; [reflexivity|].
  unfold m_from, s_from. cbn [run_from]. fold m_from s_from. fold (m_step (sc, h) o) (s_step (sc, s) o).
  destruct (step_sim sc h s o HR) as (E1 & E2 & E3).
  destruct (m_step (sc, h) o) as [[sc1 h1] ob1]. destruct (s_step (sc, s) o) as [[sc2 s2] ob2].
  cbn [fst snd] in *. subst sc2 ob2. f_equal. now apply IH.
Qed.

(* the main theorem *)
Theorem run_refines_spec : forall ops, run ops = spec_run ops.
Proof. intro ops. unfold run, spec_run, grun. apply (from_sim ops sched_init heap_init store_init R_init). Qed.
