(* C05/Proofs.v - the engine with the code-level heap observes exactly what the engine with the
   specification's store observes, for every history. *)
From Coq Require Import NArith List Bool Lia.
From Morfuse Require Import Base.Arr Base.ListX C05.Model C05.Spec C05.ProofsCells C05.ProofsLib C05.ProofsHeap.
Import ListNotations.
Local Open Scope N_scope.

Definition m_step := step_op heap vm_end vm_kill vm_kill_exec spawn spawned call_begin call_finish thread_alive
                             rec_copy rec_reserve rec_move rec_destroy rec_assign rec_massign heap_reset heap_obs.
Definition s_step := step_op store s_end s_kill s_kill s_spawn s_spawned s_begin s_finish s_alive
                             s_copy s_same s_same s_destroy s_assign s_massign s_reset s_obs.
Definition m_from := run_from heap vm_end vm_kill vm_kill_exec spawn spawned call_begin call_finish thread_alive
                              rec_copy rec_reserve rec_move rec_destroy rec_assign rec_massign heap_reset heap_obs.
Definition s_from := run_from store s_end s_kill s_kill s_spawn s_spawned s_begin s_finish s_alive
                              s_copy s_same s_same s_destroy s_assign s_massign s_reset s_obs.

Definition m_run_st := run_st heap vm_end vm_kill_exec spawn spawned.
Definition s_run_st := run_st store s_end s_kill s_spawn s_spawned.
Definition m_resume := resume heap vm_end vm_kill vm_kill_exec spawn spawned.
Definition s_resume := resume store s_end s_kill s_kill s_spawn s_spawned.

(* ---- the scheduler does the same with both stores --------------------------------------------- *)
Lemma run_simple_sim sc h s t steps f : R h s ->
  fst (run_simple heap vm_end vm_kill_exec sc h t steps f) = fst (run_simple store s_end s_kill sc s t steps f) /\
  R (snd (run_simple heap vm_end vm_kill_exec sc h t steps f)) (snd (run_simple store s_end s_kill sc s t steps f)).
Proof.
  intro HR. unfold run_simple.
  destruct steps as [|[d|d] rest]; cbn [fst snd]; auto.
  destruct f as [[d|j|]| | |d|d| | |n|]; cbn [fst snd]; split; try reflexivity; try exact HR;
    try (now apply vm_end_R); now apply vm_kill_exec_R.
Qed.

Lemma run_st_sim subs : forall sc h s t pre post f, R h s ->
  fst (m_run_st sc h t pre subs post f) = fst (s_run_st sc s t pre subs post f) /\
  R (snd (m_run_st sc h t pre subs post f)) (snd (s_run_st sc s t pre subs post f)).
Proof.
  unfold m_run_st, s_run_st.
  induction subs as [|l more IH]; intros sc h s t pre post f HR; cbn [run_st].
  - destruct pre as [|[d|d] rest]; cbn [fst snd]; auto. now apply run_simple_sim.
  - destruct pre as [|[d|d] rest]; cbn [fst snd]; auto.
    destruct (spawn_R t h s HR) as [HR1 Ec].
    destruct (spawn t h) as [h1 c]. destruct (s_spawn t s) as [s1 c']. cbn [fst snd] in *. subst c'.
    destruct (IH sc h1 s1 c (lpre l) (lpost l) (resolve [] (lfin l)) HR1) as [E1 HR2].
    destruct (run_st heap vm_end vm_kill_exec spawn spawned sc h1 c (lpre l) more (lpost l) (resolve [] (lfin l))) as [sa h2].
    destruct (run_st store s_end s_kill s_spawn s_spawned sc s1 c (lpre l) more (lpost l) (resolve [] (lfin l))) as [sb s2].
    cbn [fst snd] in *. subst sb.
    apply run_simple_sim. now apply spawned_R.
Qed.

Lemma run_thr_sim sc h s th : R h s ->
  fst (run_thr heap vm_end vm_kill vm_kill_exec spawn spawned sc h th) = fst (run_thr store s_end s_kill s_kill s_spawn s_spawned sc s th) /\
  R (snd (run_thr heap vm_end vm_kill vm_kill_exec spawn spawned sc h th)) (snd (run_thr store s_end s_kill s_kill s_spawn s_spawned sc s th)).
Proof.
  intro HR. destruct th as [t ts|t [|]]; cbn [run_thr].
  - apply (run_st_sim (tsubs ts) sc h s t (tpre ts) (tpost ts) (tfin ts) HR).
  - cbn [fst snd]. split; [reflexivity|]. now apply vm_kill_R.
  - destruct (lookup t (paused sc)) as [ts|]; cbn [fst snd]; auto.
Qed.

Lemma resume_sim fuel : forall sc h s, R h s ->
  fst (fst (m_resume fuel sc h)) = fst (fst (s_resume fuel sc s)) /\
  snd (m_resume fuel sc h) = snd (s_resume fuel sc s) /\
  R (snd (fst (m_resume fuel sc h))) (snd (fst (s_resume fuel sc s))).
Proof.
  unfold m_resume, s_resume.
  induction fuel as [|fuel IH]; intros sc h s HR; cbn [resume].
  - destruct (pend sc) as [|x r]; cbn [fst snd]; auto.
    destruct (frame sc <? wdue (min_w x r)); cbn [fst snd]; auto.
  - destruct (pend sc) as [|x r]; cbn [fst snd]; auto.
    destruct (frame sc <? wdue (min_w x r)); cbn [fst snd]; auto.
    set (sc1 := mkSched (remove_w (wseq (min_w x r)) (x :: r)) (paused sc) (frame sc) (clock sc) (sseq sc)).
    destruct (run_thr_sim sc1 h s (wthr (min_w x r)) HR) as [E1 E2].
    destruct (run_thr heap vm_end vm_kill vm_kill_exec spawn spawned sc1 h (wthr (min_w x r))) as [sa ha].
    destruct (run_thr store s_end s_kill s_kill s_spawn s_spawned sc1 s (wthr (min_w x r))) as [sb sb']. cbn [fst snd] in *. subst sb.
    now apply IH.
Qed.

(* ---- one host operation ------------------------------------------------------------------------ *)
Lemma mk_obs_eq c sc h s ok : R h s -> mk_obs heap heap_obs c sc h ok = mk_obs store s_obs c sc s ok.
Proof. intro HR. unfold mk_obs. now rewrite (obs_eq h s HR). Qed.

Theorem step_sim sc h s o : R h s ->
  fst (fst (m_step (sc, h) o)) = fst (fst (s_step (sc, s) o)) /\
  snd (m_step (sc, h) o) = snd (s_step (sc, s) o) /\
  R (snd (fst (m_step (sc, h) o))) (snd (fst (s_step (sc, s) o))).
Proof.
  intro HR. unfold m_step, s_step. destruct o as [lbl np prog args|r|r|r|r|a b|a b|dt| |]; cbn [step_op].
  - (* the host call *)
    destruct (call_begin_R lbl h s HR) as [HR1 Et].
    destruct (call_begin lbl h) as [h1 t]. destruct (s_begin lbl s) as [s1 t']. cbn [fst snd] in *. subst t'.
    destruct lbl.
    + set (l0 := match prog with l :: _ => l | [] => mkLevel [] [] FFall end).
      destruct (run_st_sim (tl prog) sc h1 s1 t (lpre l0) (lpost l0) (resolve (bind np args) (lfin l0)) HR1) as [E1 E2].
      unfold m_run_st, s_run_st in *.
      destruct (run_st heap vm_end vm_kill_exec spawn spawned sc h1 t (lpre l0) (tl prog) (lpost l0) (resolve (bind np args) (lfin l0))) as [sa h2].
      destruct (run_st store s_end s_kill s_spawn s_spawned sc s1 t (lpre l0) (tl prog) (lpost l0) (resolve (bind np args) (lfin l0))) as [sb s2].
      cbn [fst snd] in *. subst sb.
      destruct (resume_sim (weight sa) sa h2 s2 E2) as (E3 & E4 & E5). unfold m_resume, s_resume in *.
      destruct (resume heap vm_end vm_kill vm_kill_exec spawn spawned (weight sa) sa h2) as [[sc3 h3] ok3].
      destruct (resume store s_end s_kill s_kill s_spawn s_spawned (weight sa) sa s2) as [[sc3' s3] ok3'].
      cbn [fst snd] in *. subst sc3' ok3'.
      pose proof (call_finish_R t args h3 s3 E5) as HR4.
      split; [reflexivity|]. split; [|exact HR4].
      rewrite (alive_eq t _ _ HR4). now apply mk_obs_eq.
    + pose proof (call_finish_nolabel_R t args h1 s1 HR1) as HR2.
      split; [reflexivity|]. split; [now apply mk_obs_eq|exact HR2].
  - pose proof (rec_copy_R r h s HR) as H. split; [reflexivity|]. split; [now apply mk_obs_eq|exact H].
  - pose proof (rec_reserve_R r h s HR) as H. split; [reflexivity|]. split; [now apply mk_obs_eq|exact H].
  - split; [reflexivity|]. split; [now apply mk_obs_eq|exact HR].
  - pose proof (rec_destroy_R r h s HR) as H. split; [reflexivity|]. split; [now apply mk_obs_eq|exact H].
  - pose proof (rec_assign_R a b h s HR) as H. split; [reflexivity|]. split; [now apply mk_obs_eq|exact H].
  - pose proof (rec_massign_R a b h s HR) as H. split; [reflexivity|]. split; [now apply mk_obs_eq|exact H].
  - split; [reflexivity|]. split; [now apply mk_obs_eq|exact HR].
  - set (sc1 := mkSched (pend sc) (paused sc) (clock sc) (clock sc) (sseq sc)).
    destruct (resume_sim (weight sc1) sc1 h s HR) as (E3 & E4 & E5). unfold m_resume, s_resume in *.
    destruct (resume heap vm_end vm_kill vm_kill_exec spawn spawned (weight sc1) sc1 h) as [[sc3 h3] ok3].
    destruct (resume store s_end s_kill s_kill s_spawn s_spawned (weight sc1) sc1 s) as [[sc3' s3] ok3'].
    cbn [fst snd] in *. subst sc3' ok3'.
    split; [reflexivity|]. split; [now apply mk_obs_eq|exact E5].
  - destruct (heap_reset_R h s HR) as [H _]. split; [reflexivity|]. split; [now apply mk_obs_eq|exact H].
Qed.

Lemma from_sim ops : forall sc h s, R h s -> m_from (sc, h) ops = s_from (sc, s) ops.
Proof.
  induction ops as [|o ops IH]; intros sc h s HR; [reflexivity|].
  unfold m_from, s_from. cbn [run_from]. fold m_from s_from. fold (m_step (sc, h) o) (s_step (sc, s) o).
  destruct (step_sim sc h s o HR) as (E1 & E2 & E3).
  destruct (m_step (sc, h) o) as [[sc1 h1] ob1]. destruct (s_step (sc, s) o) as [[sc2 s2] ob2].
  cbn [fst snd] in *. subst sc2 ob2. f_equal. now apply IH.
Qed.

(* the main theorem *)
Theorem run_refines_spec : forall ops, run ops = spec_run ops.
Proof. intro ops. unfold run, spec_run, grun. apply (from_sim ops sched_init heap_init store_init R_init). Qed.
