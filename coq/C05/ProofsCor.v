(* C05/ProofsCor.v - corollaries of the refinement that spell out the clauses of the property. *)
From Coq Require Import NArith Arith List Bool Lia.
From Morfuse Require Import Base.Arr Base.ListX C05.Model C05.Spec C05.ProofsCells C05.ProofsHeap C05.Proofs.
Import ListNotations.
Local Open Scope N_scope.

(* ---- parameters ------------------------------------------------------------------------------ *)
Lemma bind_nth np : forall args i,
  nth i (bind np args) DNil = if Nat.ltb i np then nth i args DNil else DNil.
Proof.
  induction np as [|np IH]; intros args i; cbn [bind].
  - destruct i; reflexivity.
  - destruct args as [|a r]; destruct i as [|i]; cbn [nth]; try reflexivity.
    + rewrite IH. change (Nat.ltb (S i) (S np)) with (Nat.ltb i np). destruct (Nat.ltb i np); destruct i; reflexivity.
    + rewrite IH. reflexivity.
Qed.

Lemma bind_length np : forall args, length (bind np args) = np.
Proof.
  induction np as [|np IH]; intro args; cbn [bind]; [reflexivity|].
  destruct args; cbn; now rewrite IH.
Qed.

Lemma nth_map_seq {A} (f : nat -> A) d : forall n s i, (i < n)%nat -> nth i (map f (seq s n)) d = f (s + i)%nat.
Proof.
  induction n as [|n IH]; intros s i Hi; [lia|]. cbn [seq map].
  destruct i as [|i]; cbn [nth]; [f_equal; lia|]. rewrite IH by lia. f_equal. lia.
Qed.

Theorem params_bound_in_order np args : bind np args = spec_bind np args.
Proof.
  apply (nth_ext _ _ DNil DNil).
  - unfold spec_bind. now rewrite bind_length, map_length, seq_length.
  - intros i Hi. rewrite bind_length in Hi. rewrite bind_nth.
    assert (E : Nat.ltb i np = true) by now apply Nat.ltb_lt.
    rewrite E. unfold spec_bind. now rewrite nth_map_seq.
Qed.

(* ---- states after a history -------------------------------------------------------------------- *)
Fixpoint m_final (st : sched * heap) (ops : list op) : sched * heap :=
  match ops with [] => st | o :: r => m_final (fst (m_step st o)) r end.
Fixpoint s_final (st : sched * store) (ops : list op) : sched * store :=
  match ops with [] => st | o :: r => s_final (fst (s_step st o)) r end.

Definition m_init : sched * heap := (sched_init, heap_init).
Definition s_init : sched * store := (sched_init, store_init).

(* the observation of operation o after the history ops *)
Definition obs_after (ops : list op) (o : op) : obs := snd (m_step (m_final m_init ops) o).

Lemma m_from_app ops : forall st o, m_from st (ops ++ [o]) = m_from st ops ++ [snd (m_step (m_final st ops) o)].
Proof.
  induction ops as [|a ops IH]; intros st o; unfold m_from in *; cbn [app run_from m_final].
  - fold (m_step st o). destruct (m_step st o) as [st' ob]. reflexivity.
  - fold (m_step st a). destruct (m_step st a) as [st' ob]. cbn [fst]. now rewrite IH.
Qed.

Theorem run_app ops o : run (ops ++ [o]) = run ops ++ [obs_after ops o].
Proof. apply (m_from_app ops m_init o). Qed.

Lemma final_sim ops : forall sc h s, R h s [] ->
  fst (m_final (sc, h) ops) = fst (s_final (sc, s) ops) /\
  R (snd (m_final (sc, h) ops)) (snd (s_final (sc, s) ops)) [].
Proof.
  induction ops as [|o ops IH]; intros sc h s HR; cbn [m_final s_final]; [now split|].
  destruct (step_sim sc h s o HR) as (E1 & _ & E3).
  destruct (m_step (sc, h) o) as [[sc1 h1] ob1]. destruct (s_step (sc, s) o) as [[sc2 s2] ob2].
  cbn [fst snd] in *. subst sc2. now apply IH.
Qed.

(* every reachable pair of states is related *)
Theorem reachable_R ops :
  fst (m_final m_init ops) = fst (s_final s_init ops) /\
  R (snd (m_final m_init ops)) (snd (s_final s_init ops)) [].
Proof. apply (final_sim ops sched_init heap_init store_init R_init). Qed.

Theorem obs_after_spec ops o : obs_after ops o = snd (s_step (s_final s_init ops) o).
Proof.
  unfold obs_after. destruct (reachable_R ops) as [E HR].
  destruct (m_final m_init ops) as [sc h]. destruct (s_final s_init ops) as [sc' s]. cbn [fst snd] in *. subst sc'.
  now destruct (step_sim sc h s o HR) as (_ & E2 & _).
Qed.

(* ---- no undefined behaviour ---------------------------------------------------------------------- *)
Theorem reachable_heap_good ops : good (hc (snd (m_final m_init ops))).
Proof. destruct (reachable_R ops) as [_ HR]. apply (r_good _ _ _ HR). Qed.

Lemma s_step_ub st o : oub (snd (s_step st o)) = false.
Proof.
  destruct st as [sc s]. unfold s_step.
  destruct o as [lbl np steps f args|r|r|r|r|a b|a b|dt| |]; cbn [step_op]; try reflexivity.
  - destruct (s_begin lbl s) as [s1 t]. destruct lbl.
    + destruct (run_main store s_end sc s1 t steps (resolve (bind np args) f)) as [sa s2].
      destruct (resume store s_end s_kill (weight sa) sa s2) as [[sc3 s3] ok]. reflexivity.
    + reflexivity.
  - destruct (resume store s_end s_kill _ _ s) as [[sc3 s3] ok]. reflexivity.
Qed.

Theorem never_ub ops : forall ob, In ob (run ops) -> oub ob = false.
Proof.
  rewrite run_refines_spec. unfold spec_run, grun. generalize (sched_init, store_init).
  induction ops as [|o ops IH]; intros st ob H; [destruct H|].
  cbn [run_from] in H. fold (s_step st o) in H. pose proof (s_step_ub st o) as U.
  destruct (s_step st o) as [st' ob']. destruct H as [<-|H]; [exact U|]. eapply IH; eauto.
Qed.

(* ---- label not found ------------------------------------------------------------------------------ *)
Theorem label_not_found_leaves_nothing sc h np steps f args :
  let st' := fst (m_step (sc, h) (OCall false np steps f args)) in
  let ob := snd (m_step (sc, h) (OCall false np steps f args)) in
  fst st' = sc /\ hc (snd st') = hc h /\ vms (snd st') = vms h /\ ninst (snd st') = ninst h /\
  recs (snd st') = recs h ++ [(nrec h, mkRec args None)] /\
  ocall ob = CNoLabel /\ onrun ob = ninst h /\ onth ob = (length (pend sc) + length (paused sc))%nat.
Proof. cbn. repeat split. Qed.

Theorem label_not_found_spec sc s np steps f args :
  let st' := fst (s_step (sc, s) (OCall false np steps f args)) in
  fst st' = sc /\ alive (snd st') = alive s /\ done (snd st') = done s /\
  srecs (snd st') = srecs s ++ [(snrec s, mkSRec args None)].
Proof. cbn. repeat split. Qed.

(* ---- delivery on the heap: every holder, whatever copies were made ------------------------------------ *)
Theorem result_fanout t d h s xs rc : R h s xs -> In (t, rc) (vms h) ->
  forall k, k <> rc -> holds (hc h) k t -> get (cells (hc (vm_end t (Some d) h))) k = Some (VD d).
Proof.
  intros HR Hin k Hk Hh.
  assert (El : lookup t (vms h) = Some rc) by (apply (vms_lookup_in _ _ _ t rc HR); exact Hin).
  assert (Hrc : get (cells (hc h)) rc = Some (VPtr t)) by now apply (r_vms _ _ _ HR).
  pose proof (r_good _ _ _ HR) as Hg.
  destruct (re_cell _ _ (proj2 Hg) rc t) as [l [Hl _]]; [discriminate|exact Hrc|].
  unfold vm_end. rewrite El, Hrc. cbn [hc].
  destruct (set_value_ref_ok (hc h) t d rc l Hg Hl) as (G1 & N1 & D).
  destruct (D rc) as (_ & [d' Hrc1] & _); [exact Hrc|].
  destruct (destroy_ok _ rc G1) as (G2 & C2 & N2); [unfold live; congruence|].
  rewrite C2, gso by exact Hk. destruct (D k) as (Dv & _). now apply Dv.
Qed.

Theorem result_none_fanout t h s xs rc : R h s xs -> In (t, rc) (vms h) ->
  forall k, k <> rc -> holds (hc h) k t -> get (cells (hc (vm_end t None h))) k = Some (VD DNil).
Proof.
  intros HR Hin k Hk Hh.
  assert (El : lookup t (vms h) = Some rc) by (apply (vms_lookup_in _ _ _ t rc HR); exact Hin).
  assert (Hrc : get (cells (hc h)) rc = Some (VPtr t)) by now apply (r_vms _ _ _ HR).
  pose proof (r_good _ _ _ HR) as Hg.
  destruct (re_cell _ _ (proj2 Hg) rc t) as [l [Hl _]]; [discriminate|exact Hrc|].
  unfold vm_end. rewrite El, Hrc. cbn [hc].
  destruct (ptr_clear_ok (hc h) t l Hg Hl) as (G1 & N1 & D).
  destruct (D rc) as (Hrc1 & _). specialize (Hrc1 Hrc).
  destruct (destroy_ok _ rc G1) as (G2 & C2 & N2); [unfold live; congruence|].
  rewrite C2, gso by exact Hk. destruct (D k) as (Dv & _). now apply Dv.
Qed.

(* a deleted thread: the holders stay pending, and nothing refers to the dead m_ReturnValue *)
Theorem killed_stays_pending t h s xs rc : R h s xs -> In (t, rc) (vms h) ->
  good (hc (vm_kill t h)) /\ thread_alive t (vm_kill t h) = false /\
  forall k, k <> rc -> holds (hc h) k t -> holds (hc (vm_kill t h)) k t.
Proof.
  intros HR Hin.
  assert (El : lookup t (vms h) = Some rc) by (apply (vms_lookup_in _ _ _ t rc HR); exact Hin).
  destruct (vm_kill_R t h s xs HR) as [HR' _].
  split; [apply (r_good _ _ _ HR')|]. split.
  - rewrite (alive_eq t _ _ _ HR'). unfold s_alive, s_kill. cbn [alive].
    destruct (memN t (delN t (alive s))) eqn:E; [|reflexivity].
    apply memN_in, in_delN in E. tauto.
  - intros k Hk Hh. unfold vm_kill. rewrite El. cbn [hc].
    assert (Hrc : get (cells (hc h)) rc = Some (VPtr t)) by now apply (r_vms _ _ _ HR).
    destruct (destroy_ok (hc h) rc (r_good _ _ _ HR)) as (_ & C & _); [unfold live; congruence|].
    unfold holds. rewrite C, gso by exact Hk. exact Hh.
Qed.

(* ---- invariants of the store through the scheduler ---------------------------------------------------- *)
Section SInv.
  Variable P : store -> Prop.
  Hypothesis P_end : forall t r s, P s -> P (s_end t r s).
  Hypothesis P_kill : forall t s, P s -> P (s_kill t s).

  Lemma s_run_main_inv sc s t steps f : P s -> P (snd (run_main store s_end sc s t steps f)).
  Proof.
    intro HP. unfold run_main. destruct steps as [|[d|d] rest]; cbn [snd]; auto.
    destruct f as [[d|j]| | |d|d|]; cbn [snd]; auto.
  Qed.

  Lemma s_run_thr_inv sc s th : P s -> P (snd (run_thr store s_end s_kill sc s th)).
  Proof.
    intro HP. destruct th as [t steps f|t [|]]; cbn [run_thr].
    - now apply s_run_main_inv.
    - cbn [snd]. auto.
    - destruct (lookup t (paused sc)) as [[steps f]|]; cbn [snd]; auto.
  Qed.

  Lemma s_resume_inv fuel : forall sc s, P s -> P (snd (fst (resume store s_end s_kill fuel sc s))).
  Proof.
    induction fuel as [|fuel IH]; intros sc s HP; cbn [resume].
    - destruct (pend sc) as [|x r]; cbn [fst snd]; auto.
      destruct (frame sc <? wdue (min_w x r)); cbn [fst snd]; auto.
    - destruct (pend sc) as [|x r]; cbn [fst snd]; auto.
      destruct (frame sc <? wdue (min_w x r)); cbn [fst snd]; auto.
      pose proof (s_run_thr_inv (mkSched (remove_w (wseq (min_w x r)) (x :: r)) (paused sc) (frame sc) (clock sc) (sseq sc))
                                s (wthr (min_w x r)) HP) as H1.
      destruct (run_thr store s_end s_kill _ s (wthr (min_w x r))) as [sa sb]. cbn [snd] in H1. now apply IH.
  Qed.
End SInv.

(* ---- the result of a thread that ends inside the call is in the record at once -------------------------- *)
Definition slot_toks (d : dval) : list tok := match d with DNil => [] | _ => [TD d] end.

Theorem result_sync ops np r args :
  let d := eval_res (bind np args) r in
  let ob := obs_after ops (OCall true np [] (FEnd r) args) in
  ocall ob = COk false (bind np args) /\
  exists pre k, orecs ob = pre ++ [(k, map TD args ++ slot_toks d)].
Proof.
  cbn zeta. rewrite obs_after_spec. destruct (reachable_R ops) as [_ HR].
  destruct (s_final s_init ops) as [sc s]. cbn [snd] in HR.
  set (h := snd (m_final m_init ops)) in *. set (d := eval_res (bind np args) r).
  unfold s_step. cbn [step_op]. unfold s_begin. cbn [resolve run_main].
  set (t := sncall s).
  set (s1 := mkStore (alive s ++ [t]) (done s) (srecs s) (snrec s) (t + 1)).
  assert (Hmem : memN t (alive s1) = true) by (apply memN_in; cbn; apply in_or_app; right; now left).
  set (s2 := mkStore (delN t (alive s1)) ((t, Some d) :: done s1) (srecs s1) (snrec s1) (sncall s1)).
  assert (E2 : s_end t (Some d) s1 = s2) by (unfold s_end; now rewrite Hmem).
  fold d. rewrite E2.
  set (P := fun x : store => lookup t (done x) = Some (Some d) /\ ~ In t (alive x) /\
                              srecs x = srecs s /\ snrec x = snrec s).
  assert (P_end : forall t0 r0 x, P x -> P (s_end t0 r0 x)).
  { intros t0 r0 x (H1 & H2 & H3 & H4). unfold s_end. destruct (memN t0 (alive x)) eqn:E; [|repeat split; auto].
    apply memN_in in E. repeat split; cbn [done alive srecs snrec]; auto.
    - cbn [lookup]. destruct (N.eqb_spec t0 t); [congruence|exact H1].
    - intro H. apply in_delN in H. tauto. }
  assert (P_kill : forall t0 x, P x -> P (s_kill t0 x)).
  { intros t0 x (H1 & H2 & H3 & H4). unfold s_kill. repeat split; cbn [done alive srecs snrec]; auto.
    intro H. apply in_delN in H. tauto. }
  assert (P2 : P s2).
  { unfold P, s2. cbn [done alive srecs snrec lookup]. rewrite N.eqb_refl. repeat split.
    intro H. apply in_delN in H. tauto. }
  pose proof (s_resume_inv P P_end P_kill (weight sc) sc s2 P2) as P3.
  destruct (resume store s_end s_kill (weight sc) sc s2) as [[sc3 s3] ok]. cbn [fst snd] in P3.
  destruct P3 as (D3 & A3 & R3 & N3).
  unfold s_finish. rewrite D3. cbn [snd mk_obs].
  unfold mk_obs, s_obs, s_alive. cbn [ocall orecs alive done srecs snrec sncall].
  split.
  - destruct (memN t (alive s3)) eqn:E; [apply memN_in in E; contradiction|reflexivity].
  - rewrite map_app. cbn [map fst snd].
    exists (map (fun x => (fst x, srec_toks
              (mkStore (alive s3) (done s3)
                 (srecs s3 ++ [(snrec s3, mkSRec args (match d with DNil => None | DData _ _ => Some (SCall t) end))])
                 (snrec s3 + 1) (sncall s3)) (snd x))) (srecs s3)), (snrec s3).
    f_equal. f_equal. f_equal. unfold srec_toks. cbn [sargs sslot]. f_equal.
    destruct d as [|k i]; [reflexivity|]. cbn [slot_toks sref_tok done]. now rewrite D3.
Qed.

(* ---- once delivered, for ever; never delivered for a deleted thread ---------------------------------------- *)
Theorem result_stable sc h s o t x : R h s [] -> lookup t (done s) = Some x ->
  lookup t (done (snd (fst (s_step (sc, s) o)))) = Some x.
Proof.
  intros HR Hx.
  set (P := fun y : store => lookup t (done y) = Some x /\ ~ In t (alive y)).
  assert (P_end : forall t0 r0 y, P y -> P (s_end t0 r0 y)).
  { intros t0 r0 y (H1 & H2). unfold s_end. destruct (memN t0 (alive y)) eqn:E; [|split; auto].
    apply memN_in in E. split; cbn [done alive].
    - cbn [lookup]. destruct (N.eqb_spec t0 t); [congruence|exact H1].
    - intro H. apply in_delN in H. tauto. }
  assert (P_kill : forall t0 y, P y -> P (s_kill t0 y)).
  { intros t0 y (H1 & H2). unfold s_kill. split; cbn [done alive]; auto. intro H. apply in_delN in H. tauto. }
  assert (P0 : P s).
  { split; [exact Hx|]. intro H. apply (r_pending _ _ _ HR) in H. congruence. }
  assert (Ht : t < sncall s) by (eapply (r_done_fresh _ _ _ HR); eauto).
  unfold s_step. destruct o as [lbl np steps f args|r|r|r|r|a b|a b|dt| |]; cbn [step_op].
  - unfold s_begin. destruct lbl.
    + set (s1 := mkStore (alive s ++ [sncall s]) (done s) (srecs s) (snrec s) (sncall s + 1)).
      assert (P1 : P s1).
      { destruct P0 as [H1 H2]. split; [exact H1|]. cbn. intro H. apply in_app_or in H.
        destruct H as [H|[E|[]]]; [contradiction|lia]. }
      pose proof (s_run_main_inv P P_end sc s1 (sncall s) steps (resolve (bind np args) f) P1) as P2.
      destruct (run_main store s_end sc s1 (sncall s) steps (resolve (bind np args) f)) as [sa s2]. cbn [snd] in P2.
      pose proof (s_resume_inv P P_end P_kill (weight sa) sa s2 P2) as P3.
      destruct (resume store s_end s_kill (weight sa) sa s2) as [[sc3 s3] ok]. cbn [fst snd] in *.
      unfold s_finish. cbn [done]. apply P3.
    + cbn [fst snd]. unfold s_finish. cbn [done]. exact Hx.
  - cbn [fst snd]. unfold s_copy. destruct (lookup r (srecs s)); exact Hx.
  - exact Hx.
  - exact Hx.
  - exact Hx.
  - cbn [fst snd]. unfold s_assign. destruct (a =? b); [exact Hx|].
    destruct (sslot_of a s), (sslot_of b s); exact Hx.
  - cbn [fst snd]. unfold s_massign. destruct (a =? b); [exact Hx|].
    destruct (sslot_of a s), (sslot_of b s); exact Hx.
  - exact Hx.
  - pose proof (s_resume_inv P P_end P_kill (weight (mkSched (pend sc) (paused sc) (clock sc) (clock sc) (sseq sc)))
                             (mkSched (pend sc) (paused sc) (clock sc) (clock sc) (sseq sc)) s P0) as P3.
    destruct (resume store s_end s_kill _ _ s) as [[sc3 s3] ok]. cbn [fst snd] in *. apply P3.
  - exact Hx.
Qed.

Theorem killed_never_delivers sc h s o t : R h s [] -> t < sncall s ->
  ~ In t (alive s) -> lookup t (done s) = None ->
  let s' := snd (fst (s_step (sc, s) o)) in ~ In t (alive s') /\ lookup t (done s') = None.
Proof.
  intros HR Ht Ha Hx. cbn zeta.
  set (P := fun y : store => ~ In t (alive y) /\ lookup t (done y) = None).
  assert (P_end : forall t0 r0 y, P y -> P (s_end t0 r0 y)).
  { intros t0 r0 y (H1 & H2). unfold s_end. destruct (memN t0 (alive y)) eqn:E; [|split; auto].
    apply memN_in in E. split; cbn [done alive].
    - intro H. apply in_delN in H. tauto.
    - cbn [lookup]. destruct (N.eqb_spec t0 t); [congruence|exact H2]. }
  assert (P_kill : forall t0 y, P y -> P (s_kill t0 y)).
  { intros t0 y (H1 & H2). unfold s_kill. split; cbn [done alive]; auto. intro H. apply in_delN in H. tauto. }
  assert (P0 : P s) by (split; assumption).
  unfold s_step. destruct o as [lbl np steps f args|r|r|r|r|a b|a b|dt| |]; cbn [step_op].
  - unfold s_begin. destruct lbl.
    + set (s1 := mkStore (alive s ++ [sncall s]) (done s) (srecs s) (snrec s) (sncall s + 1)).
      assert (P1 : P s1).
      { split; [|exact Hx]. cbn. intro H. apply in_app_or in H. destruct H as [H|[E|[]]]; [contradiction|lia]. }
      pose proof (s_run_main_inv P P_end sc s1 (sncall s) steps (resolve (bind np args) f) P1) as P2.
      destruct (run_main store s_end sc s1 (sncall s) steps (resolve (bind np args) f)) as [sa s2]. cbn [snd] in P2.
      pose proof (s_resume_inv P P_end P_kill (weight sa) sa s2 P2) as P3.
      destruct (resume store s_end s_kill (weight sa) sa s2) as [[sc3 s3] ok]. cbn [fst snd] in *.
      unfold s_finish. cbn [done alive]. exact P3.
    + cbn [fst snd]. unfold s_finish. cbn [done alive]. exact P0.
  - cbn [fst snd]. unfold s_copy. destruct (lookup r (srecs s)); exact P0.
  - exact P0.
  - exact P0.
  - exact P0.
  - cbn [fst snd]. unfold s_assign. destruct (a =? b); [exact P0|].
    destruct (sslot_of a s), (sslot_of b s); exact P0.
  - cbn [fst snd]. unfold s_massign. destruct (a =? b); [exact P0|].
    destruct (sslot_of a s), (sslot_of b s); exact P0.
  - exact P0.
  - pose proof (s_resume_inv P P_end P_kill (weight (mkSched (pend sc) (paused sc) (clock sc) (clock sc) (sseq sc)))
                             (mkSched (pend sc) (paused sc) (clock sc) (clock sc) (sseq sc)) s P0) as P3.
    destruct (resume store s_end s_kill _ _ s) as [[sc3 s3] ok]. cbn [fst snd] in *. exact P3.
  - cbn [fst snd]. unfold s_reset. cbn [alive done]. split; [intros []|exact Hx].
Qed.

(* what a slot shows *)
Theorem slot_shows_result s t :
  (lookup t (done s) = None -> sref_tok s (SCall t) = TPend) /\
  (forall d, lookup t (done s) = Some (Some d) -> sref_tok s (SCall t) = TD d) /\
  (lookup t (done s) = Some None -> sref_tok s (SCall t) = TD DNil).
Proof. unfold sref_tok. repeat split; intros; now rewrite H. Qed.

(* ---- the resume loop always ends within its fuel ------------------------------------------------------------ *)
Definition wweight (l : list waiter) : nat := fold_right (fun w acc => (w_thr (wthr w) + acc)%nat) O l.
Definition pweight (l : list (N * (list step * fin))) : nat :=
  fold_right (fun x acc => (w_steps (fst (snd x)) + w_fin (snd (snd x)) + acc)%nat) O l.

Lemma weight_eq s : weight s = (wweight (pend s) + pweight (paused s))%nat.
Proof. reflexivity. Qed.

Lemma wweight_app l1 l2 : wweight (l1 ++ l2) = (wweight l1 + wweight l2)%nat.
Proof. unfold wweight. induction l1 as [|a l1 IH]; cbn [app fold_right]; [reflexivity|]. rewrite IH. lia. Qed.

Lemma pweight_app l1 l2 : pweight (l1 ++ l2) = (pweight l1 + pweight l2)%nat.
Proof. unfold pweight. induction l1 as [|a l1 IH]; cbn [app fold_right]; [reflexivity|]. rewrite IH. lia. Qed.

Lemma wweight_filter p l : (wweight (filter p l) <= wweight l)%nat.
Proof.
  unfold wweight. induction l as [|a l IH]; cbn [filter fold_right]; [lia|].
  destruct (p a); cbn [fold_right]; lia.
Qed.

Lemma wweight_remove m l : In m l -> (wweight (remove_w (wseq m) l) + w_thr (wthr m) <= wweight l)%nat.
Proof.
  unfold remove_w, wweight. induction l as [|a l IH]; intro Hin; [destruct Hin|]. destruct Hin as [E|H]; cbn [filter fold_right].
  - subst. rewrite N.eqb_refl. cbn [negb].
    pose proof (wweight_filter (fun x => negb (wseq x =? wseq m)) l) as Hf. unfold wweight in Hf. lia.
  - specialize (IH H). destruct (negb (wseq a =? wseq m)); cbn [fold_right]; lia.
Qed.

Lemma min_w_in l : forall x, In (min_w x l) (x :: l).
Proof.
  induction l as [|a l IH]; intro x; cbn [min_w]; [now left|].
  destruct (IH (if w_ltb a x then a else x)) as [E|H].
  - rewrite <- E. destruct (w_ltb a x); [right; now left|now left].
  - right. now right.
Qed.

Lemma pweight_del t l : (pweight (del t l) <= pweight l)%nat.
Proof.
  unfold pweight. induction l as [|[k [a f]] l IH]; cbn [del fold_right]; [lia|].
  destruct (k =? t); cbn [fold_right]; lia.
Qed.

Lemma pweight_del_lookup t l steps f : lookup t l = Some (steps, f) ->
  (pweight (del t l) + w_steps steps + w_fin f <= pweight l)%nat.
Proof.
  unfold pweight. induction l as [|[k [a g]] l IH]; cbn [lookup del fold_right]; [discriminate|].
  destruct (N.eqb_spec k t) as [->|Hn].
  - intro H. injection H as -> ->. pose proof (pweight_del t l) as Hd. unfold pweight in Hd. cbn [fst snd]. lia.
  - intro H. specialize (IH H). cbn [fold_right fst snd]. lia.
Qed.

Section Fuel.
  Variable H : Type.
  Variable h_end : N -> option dval -> H -> H.
  Variable h_kill : N -> H -> H.

  Lemma weight_add_wait s d th : weight (add_wait s d th) = (weight s + w_thr th)%nat.
  Proof. rewrite !weight_eq. unfold add_wait. cbn [pend paused]. rewrite wweight_app. cbn [wweight fold_right wthr]. lia. Qed.

  Lemma weight_pause s t steps f : weight (pause s t steps f) = (weight s + w_steps steps + w_fin f)%nat.
  Proof. rewrite !weight_eq. unfold pause. cbn [pend paused]. rewrite pweight_app. cbn [pweight fold_right fst snd]. lia. Qed.

  Lemma run_thr_weight s h th :
    (weight (fst (run_thr H h_end h_kill s h th)) + 1 <= weight s + w_thr th)%nat.
  Proof.
    destruct th as [t steps f|t [|]]; cbn [run_thr].
    - unfold run_main. destruct steps as [|[d|d] rest]; cbn [fst].
      + destruct f as [[d|j]| | |d|d|]; cbn [fst];
          rewrite ?weight_pause, ?weight_add_wait; cbn [w_thr w_steps w_fin fold_right]; unfold w_steps; lia.
      + rewrite weight_add_wait. cbn [w_thr w_steps w_fin fold_right]. unfold w_steps. lia.
      + rewrite weight_pause, weight_add_wait. cbn [w_thr w_steps w_fin fold_right]. unfold w_steps. lia.
    - cbn [fst]. rewrite !weight_eq. cbn [pend paused].
      pose proof (wweight_filter (fun w => negb (is_main t w)) (pend s)). pose proof (pweight_del t (paused s)).
      cbn [w_thr w_steps w_fin fold_right]. unfold w_steps. lia.
    - destruct (lookup t (paused s)) as [[steps f]|] eqn:El; cbn [fst].
      + rewrite weight_add_wait. rewrite !weight_eq. cbn [pend paused].
        pose proof (pweight_del_lookup t (paused s) steps f El). cbn [w_thr w_fin]. lia.
      + cbn [w_thr w_steps w_fin fold_right]. unfold w_steps. lia.
  Qed.

  Lemma resume_ok fuel : forall s h, (weight s <= fuel)%nat -> snd (resume H h_end h_kill fuel s h) = true.
  Proof.
    induction fuel as [|fuel IH]; intros s h Hw; cbn [resume].
    - destruct (pend s) as [|x r] eqn:Ep; [reflexivity|].
      destruct (frame s <? wdue (min_w x r)); [reflexivity|].
      exfalso. rewrite weight_eq, Ep in Hw. cbn in Hw. destruct (wthr x); cbn in Hw; lia.
    - destruct (pend s) as [|x r] eqn:Ep; [reflexivity|].
      destruct (frame s <? wdue (min_w x r)); [reflexivity|].
      set (m := min_w x r).
      set (s1 := mkSched (remove_w (wseq m) (x :: r)) (paused s) (frame s) (clock s) (sseq s)).
      pose proof (run_thr_weight s1 h (wthr m)) as Hr.
      destruct (run_thr H h_end h_kill s1 h (wthr m)) as [s2 h2]. cbn [fst] in Hr.
      apply IH.
      pose proof (wweight_remove m (x :: r) (min_w_in r x)) as Hm.
      rewrite (weight_eq s) in Hw. rewrite (weight_eq s1) in Hr. rewrite Ep in Hw. unfold s1 in Hr. cbn [pend paused] in Hr. fold m in Hm. lia.
  Qed.
End Fuel.

Lemma s_step_hang st o : ohang (snd (s_step st o)) = false.
Proof.
  destruct st as [sc s]. unfold s_step.
  destruct o as [lbl np steps f args|r|r|r|r|a b|a b|dt| |]; cbn [step_op]; try reflexivity.
  - destruct (s_begin lbl s) as [s1 t]. destruct lbl.
    + destruct (run_main store s_end sc s1 t steps (resolve (bind np args) f)) as [sa s2].
      pose proof (resume_ok store s_end s_kill (weight sa) sa s2 (le_n _)) as Hok.
      destruct (resume store s_end s_kill (weight sa) sa s2) as [[sc3 s3] ok]. cbn [snd] in Hok. subst ok.
      unfold mk_obs. destruct (s_obs _) as [[a b] c]. reflexivity.
    + unfold mk_obs. destruct (s_obs _) as [[a b] c]. reflexivity.
  - pose proof (resume_ok store s_end s_kill _ (mkSched (pend sc) (paused sc) (clock sc) (clock sc) (sseq sc)) s (le_n _)) as Hok.
    destruct (resume store s_end s_kill _ _ s) as [[sc3 s3] ok]. cbn [snd] in Hok. subst ok.
    unfold mk_obs. destruct (s_obs _) as [[a b] c]. reflexivity.
Qed.

Theorem never_hangs ops : forall ob, In ob (run ops) -> ohang ob = false.
Proof.
  rewrite run_refines_spec. unfold spec_run, grun. generalize (sched_init, store_init).
  induction ops as [|o ops IH]; intros st ob Hin; [destruct Hin|].
  cbn [run_from] in Hin. fold (s_step st o) in Hin. pose proof (s_step_hang st o) as U.
  destruct (s_step st o) as [st' ob']. destruct Hin as [<-|Hin]; [exact U|]. eapply IH; eauto.
Qed.

(* ---- after the resume loop nothing that is due is still waiting ------------------------------------------------ *)
Lemma w_ltb_le a x : wdue (if w_ltb a x then a else x) <= wdue a /\ wdue (if w_ltb a x then a else x) <= wdue x.
Proof.
  unfold w_ltb. destruct (N.ltb_spec (wdue a) (wdue x)); cbn [orb]; [lia|].
  destruct (N.eqb_spec (wdue a) (wdue x)); cbn [andb]; [|lia].
  destruct (wseq a <? wseq x); lia.
Qed.

Lemma min_w_le l : forall x y, In y (x :: l) -> wdue (min_w x l) <= wdue y.
Proof.
  induction l as [|a l IH]; intros x y Hy; cbn [min_w].
  - destruct Hy as [->|[]]. lia.
  - destruct (w_ltb_le a x) as [H1 H2].
    destruct Hy as [E|[E|Hy]].
    + subst y. pose proof (IH (if w_ltb a x then a else x) (if w_ltb a x then a else x) (or_introl eq_refl)). lia.
    + subst y. pose proof (IH (if w_ltb a x then a else x) (if w_ltb a x then a else x) (or_introl eq_refl)). lia.
    + apply IH. now right.
Qed.

Section Due.
  Variable H : Type.
  Variable h_end : N -> option dval -> H -> H.
  Variable h_kill : N -> H -> H.

  Lemma run_thr_frame s h th : frame (fst (run_thr H h_end h_kill s h th)) = frame s.
  Proof.
    destruct th as [t steps f|t [|]]; cbn [run_thr].
    - unfold run_main. destruct steps as [|[d|d] rest]; cbn [fst]; try reflexivity.
      destruct f as [[d|j]| | |d|d|]; reflexivity.
    - reflexivity.
    - destruct (lookup t (paused s)) as [[steps f]|]; reflexivity.
  Qed.

  Lemma resume_nothing_due fuel : forall s h, (weight s <= fuel)%nat ->
    frame (fst (fst (resume H h_end h_kill fuel s h))) = frame s /\
    forall w, In w (pend (fst (fst (resume H h_end h_kill fuel s h)))) -> frame s < wdue w.
  Proof.
    induction fuel as [|fuel IH]; intros s h Hw; cbn [resume].
    - destruct (pend s) as [|x r] eqn:Ep; cbn [fst]; [split; [reflexivity|rewrite Ep; intros w []]|].
      destruct (N.ltb_spec (frame s) (wdue (min_w x r))) as [Hlt|Hge]; cbn [fst].
      + split; [reflexivity|]. rewrite Ep. intros w Hin. pose proof (min_w_le r x w Hin). lia.
      + exfalso. rewrite weight_eq, Ep in Hw. cbn [wweight fold_right] in Hw. destruct (wthr x); cbn [w_thr] in Hw; lia.
    - destruct (pend s) as [|x r] eqn:Ep; cbn [fst]; [split; [reflexivity|rewrite Ep; intros w []]|].
      destruct (N.ltb_spec (frame s) (wdue (min_w x r))) as [Hlt|Hge]; cbn [fst].
      + split; [reflexivity|]. rewrite Ep. intros w Hin. pose proof (min_w_le r x w Hin). lia.
      + set (m := min_w x r).
        set (s1 := mkSched (remove_w (wseq m) (x :: r)) (paused s) (frame s) (clock s) (sseq s)).
        pose proof (run_thr_weight H h_end h_kill s1 h (wthr m)) as Hr.
        pose proof (run_thr_frame s1 h (wthr m)) as Hf.
        destruct (run_thr H h_end h_kill s1 h (wthr m)) as [s2 h2]. cbn [fst] in Hr, Hf.
        pose proof (wweight_remove m (x :: r) (min_w_in r x)) as Hm. fold m in Hm.
        rewrite (weight_eq s) in Hw. rewrite (weight_eq s1) in Hr. rewrite Ep in Hw. unfold s1 in Hr. cbn [pend paused] in Hr.
        destruct (IH s2 h2) as [F1 F2]; [lia|].
        unfold s1 in Hf. cbn [frame] in Hf. rewrite Hf in F1, F2. split; assumption.
  Qed.
End Due.

(* ---- sensitivity: a move construction that does not re-register (the defect F-C05-a that was
   fixed in /repo) leaves the registry pointing at the dead stack temporary ---------------------- *)
Definition move_construct_unregistered (h : ch) (src : N) : ch * N :=
  match get (cells h) src with
  | Some v => let '(h1, c) := alloc h v in (wr h1 src (VD DNil), c)
  | None => (bad h, ncell h)
  end.

(* the call protocol on the bare cell heap: VM cell 0, temporary 1, newPointer, m_ReturnValue =
   returnValue, the thread waits, the record cell 2 is move-constructed from the temporary, the
   temporary dies, the thread ends with the value d *)
Definition protocol (mc : ch -> N -> ch * N) (d : dval) : ch :=
  let '(c1, rc) := alloc ch_init (VD DNil) in
  let '(c2, tm) := alloc c1 (VD DNil) in
  let c3 := copy_assign (new_pointer c2 tm 0) rc tm in
  let '(c4, sc) := mc c3 tm in
  set_value_ref (destroy c4 tm) 0 d rc.
