(* C05/ProofsCor.v - corollaries of the refinement that spell out the clauses of the property. *)
From Coq Require Import NArith Arith List Bool Lia.
From Morfuse Require Import Base.Arr Base.ListX C05.Model C05.Spec C05.ProofsCells C05.ProofsLib C05.ProofsHeap C05.Proofs.
Import ListNotations.
Local Open Scope N_scope.

(* ---- parameters ------------------------------------------------------------------------------ *)
Lemma bind_nth np : forall args i,
  nth i (bind np args) DNil = if Nat.ltb i np then nth i args DNil else DNil.
Proof.
  induction np as [|np IH]; intros args i; cbn [bind].
  - destruct i; reflexivity.
  - destruct args as [|a r]; destruct i as [|i]; cbn [nth]; try reflexivity.
    + rewrite IH. change (Nat.ltb (S i) (S np)) with (Nat.ltb i np). destruct (Nat.ltb i np); destruct i; reflexivity.
    + rewrite IH. reflexivity.
Qed.

Lemma bind_length np : forall args, length (bind np args) = np.
Proof.
  induction np as [|np IH]; intro args; cbn [bind]; [reflexivity|].
  destruct args; cbn; now rewrite IH.
Qed.

Lemma nth_map_seq {A} (f : nat -> A) d : forall n s i, (i < n)%nat -> nth i (map f (seq s n)) d = f (s + i)%nat.
Proof.
  induction n as [|n IH]; intros s i Hi; [lia|]. cbn [seq map].
  destruct i as [|i]; cbn [nth]; [f_equal; lia|]. rewrite IH by lia. f_equal. lia.
Qed.

Theorem params_bound_in_order np args : bind np args = spec_bind np args.
Proof.
  apply (nth_ext _ _ DNil DNil).
  - unfold spec_bind. now rewrite bind_length, map_length, seq_length.
  - intros i Hi. rewrite bind_length in Hi. rewrite bind_nth.
    assert (E : Nat.ltb i np = true) by now apply Nat.ltb_lt.
    rewrite E. unfold spec_bind. now rewrite nth_map_seq.
Qed.

(* ---- states after a history -------------------------------------------------------------------- *)
Fixpoint m_final (st : sched * mheap) (ops : list op) : sched * mheap :=
  match ops with [] => st | o :: r => m_final (fst (m_step st o)) r end.
Fixpoint s_final (st : sched * store) (ops : list op) : sched * store :=
  match ops with [] => st | o :: r => s_final (fst (s_step st o)) r end.

Definition ms_init : sched * mheap := (sched_init, m_init).
Definition s_init : sched * store := (sched_init, store_init).

(* the observation of operation o after the history ops *)
Definition obs_after (ops : list op) (o : op) : obs := snd (m_step (m_final ms_init ops) o).

Lemma m_from_app ops : forall st o, m_from st (ops ++ [o]) = m_from st ops ++ [snd (m_step (m_final st ops) o)].
Proof.
  induction ops as [|a ops IH]; intros st o; unfold m_from in *; cbn [app run_from m_final].
  - fold (m_step st o). destruct (m_step st o) as [st' ob]. reflexivity.
  - fold (m_step st a). destruct (m_step st a) as [st' ob]. cbn [fst]. now rewrite IH.
Qed.

Theorem run_app ops o : run (ops ++ [o]) = run ops ++ [obs_after ops o].
Proof. apply (m_from_app ops ms_init o). Qed.

Lemma final_sim ops : forall sc h s, RM h s ->
  fst (m_final (sc, h) ops) = fst (s_final (sc, s) ops) /\
  RM (snd (m_final (sc, h) ops)) (snd (s_final (sc, s) ops)).
Proof.
  induction ops as [|o ops IH]; intros sc h s HR; cbn [m_final s_final]; [now split|].
  destruct (step_sim sc h s o HR) as (E1 & _ & E3).
  destruct (m_step (sc, h) o) as [[sc1 h1] ob1]. destruct (s_step (sc, s) o) as [[sc2 s2] ob2].
  cbn [fst snd] in *. subst sc2. now apply IH.
Qed.

(* every reachable pair of states is related *)
Theorem reachable_RM ops :
  fst (m_final ms_init ops) = fst (s_final s_init ops) /\
  RM (snd (m_final ms_init ops)) (snd (s_final s_init ops)).
Proof. apply (final_sim ops sched_init m_init store_init RM_init). Qed.

Theorem reachable_R ops :
  fst (m_final ms_init ops) = fst (s_final s_init ops) /\
  R (fst (snd (m_final ms_init ops))) (snd (s_final s_init ops)).
Proof. destruct (reachable_RM ops) as [E [H _]]. now split. Qed.

Theorem obs_after_spec ops o : obs_after ops o = snd (s_step (s_final s_init ops) o).
Proof.
  unfold obs_after. destruct (reachable_RM ops) as [E HR].
  destruct (m_final ms_init ops) as [sc h]. destruct (s_final s_init ops) as [sc' s]. cbn [fst snd] in *. subst sc'.
  now destruct (step_sim sc h s o HR) as (_ & E2 & _).
Qed.

(* ---- no undefined behaviour ---------------------------------------------------------------------- *)
Theorem reachable_heap_good ops : good (hc (fst (snd (m_final ms_init ops)))).
Proof. destruct (reachable_R ops) as [_ HR]. apply (r_good _ _ HR). Qed.

Lemma s_mk_obs_ub c sc s ok : oub (mk_obs store s_obs c sc s ok) = false.
Proof. reflexivity. Qed.

Ltac split_pairs := repeat (match goal with |- context [match ?x with (_, _) => _ end] => destruct x end).

Lemma s_step_ub st o : oub (snd (s_step st o)) = false.
Proof.
  destruct st as [sc s]. unfold s_step.
  destruct o as [lbl np pt prog args|r|r|r|r|a b|a b|dt| |]; cbn [step_op]; try reflexivity.
  - destruct (s_begin lbl s) as [s1 t]. destruct lbl; [|reflexivity]. split_pairs. reflexivity.
  - split_pairs. reflexivity.
Qed.

Theorem never_ub ops : forall ob, In ob (run ops) -> oub ob = false.
Proof.
  rewrite run_refines_spec. unfold spec_run, grun. generalize (sched_init, store_init).
  induction ops as [|o ops IH]; intros st ob H; [destruct H|].
  cbn [run_from] in H. fold (s_step st o) in H. pose proof (s_step_ub st o) as U.
  destruct (s_step st o) as [st' ob']. destruct H as [<-|H]; [exact U|]. eapply IH; eauto.
Qed.

(* ---- label not found ------------------------------------------------------------------------------ *)
Theorem label_not_found_leaves_nothing sc (m : mheap) np pt prog args :
  let st' := fst (m_step (sc, m) (OCall false np pt prog args)) in
  let ob := snd (m_step (sc, m) (OCall false np pt prog args)) in
  let h := fst m in let h' := fst (snd st') in
  fst st' = sc /\ snd (snd st') = snd m /\ hc h' = hc h /\ vms h' = vms h /\ locs h' = locs h /\
  tcall h' = tcall h /\ tmps h' = tmps h /\
  recs h' = recs h ++ [(nrec h, mkRec args None)] /\
  ocall ob = CNoLabel /\ onrun ob = instances (map fst (vms h)) (tcall h) /\
  onth ob = (length (pend sc) + length (paused sc))%nat.
Proof. destruct m as [h v]. cbn. repeat split. Qed.

Theorem label_not_found_spec sc s np pt prog args :
  let st' := fst (s_step (sc, s) (OCall false np pt prog args)) in
  fst st' = sc /\ alive (snd st') = alive s /\ done (snd st') = done s /\ slocs (snd st') = slocs s /\
  srecs (snd st') = srecs s ++ [(snrec s, mkSRec args None)].
Proof. cbn. repeat split. Qed.

(* ---- delivery on the heap: every holder, whatever copies were made ------------------------------------ *)
(* when the thread t ends - with a value, without one, or with the (possibly still pending) result of
   its sub-thread - every live cell that is pending on t, other than the VM's own cell and the
   thread's variable, holds exactly what the specification's entry for t says *)
Theorem result_delivery t e h s rc : R h s -> In (t, rc) (vms h) ->
  forall k, k <> rc -> lookup t (locs h) <> Some k ->
    (holds (hc h) k t -> get (cells (hc (vm_end t e h))) k = Some (entry_val (end_entry s t e))) /\
    (~ holds (hc h) k t -> get (cells (hc (vm_end t e h))) k = get (cells (hc h)) k).
Proof.
  intros HR Hin k Hk Hlk.
  assert (El : lookup t (vms h) = Some rc) by (apply (vms_lookup_in _ _ t rc HR); exact Hin).
  assert (Hrc : get (cells (hc h)) rc = Some (VPtr t)) by now apply (r_vms _ _ HR).
  unfold vm_end. rewrite El, Hrc. cbn [hc]. fold (end_cells h t rc e).
  destruct (end_cells_ok h s t rc e HR Hin) as [(G1 & N1 & D & [d' Hrc1]) Hq].
  set (c1 := end_cells h t rc e) in *. set (lr := lookup t (locs h)) in *.
  assert (Hx : forall x, lr = Some x -> x <> rc /\ ~ holds (hc h) x t /\ live (hc h) x)
    by (intros x E; now apply (loc_cell_facts h s t rc x HR Hin)).
  destruct (destroy_opt_ok c1 lr G1) as (G2 & N2 & C2).
  { intros x E. destruct (Hx x E) as (X1 & X2 & X3). unfold live. destruct (D x) as [_ Dn]. now rewrite (Dn X2). }
  set (c2 := destroy_opt c1 lr) in *.
  assert (Hrc2 : get (cells c2) rc = Some (VD d')).
  { rewrite C2. destruct (option_N_eq_dec lr (Some rc)) as [E|E]; [|exact Hrc1].
    destruct (Hx rc E) as [X _]. congruence. }
  assert (Edt : vm_dtor c2 rc = destroy c2 rc) by (unfold vm_dtor; now rewrite Hrc2).
  rewrite Edt.
  destruct (destroy_ok c2 rc G2) as (G3 & C3 & N3); [unfold live; congruence|].
  rewrite C3, gso by exact Hk. rewrite C2.
  destruct (option_N_eq_dec lr (Some k)) as [E|E]; [contradiction|].
  destruct (D k) as [D1 D2]. split; [intro Hh; now apply D1|exact D2].
Qed.

Theorem result_fanout t d h s rc : R h s -> In (t, rc) (vms h) ->
  forall k, k <> rc -> holds (hc h) k t -> get (cells (hc (vm_end t (EVal d) h))) k = Some (VD d).
Proof.
  intros HR Hin k Hk Hh.
  assert (Hlk : lookup t (locs h) <> Some k).
  { intro E. destruct (loc_cell_facts h s t rc k HR Hin E) as (_ & X & _). contradiction. }
  destruct (result_delivery t (EVal d) h s rc HR Hin k Hk Hlk) as [D _]. now apply D.
Qed.

Theorem result_none_fanout t h s rc : R h s -> In (t, rc) (vms h) ->
  forall k, k <> rc -> holds (hc h) k t -> get (cells (hc (vm_end t ENone h))) k = Some (VD DNil).
Proof.
  intros HR Hin k Hk Hh.
  assert (Hlk : lookup t (locs h) <> Some k).
  { intro E. destruct (loc_cell_facts h s t rc k HR Hin E) as (_ & X & _). contradiction. }
  destruct (result_delivery t ENone h s rc HR Hin k Hk Hlk) as [D _]. now apply D.
Qed.

(* forwarding: the thread ends with `end local.r` while local.r (the cell x) still holds the pending
   result of the thread q: every holder of t's result becomes a holder of q's result *)
Theorem result_forwarded t h s rc x q : R h s -> In (t, rc) (vms h) ->
  lookup t (locs h) = Some x -> holds (hc h) x q ->
  end_entry s t ELocal = RFwd q /\ In q (alive s) /\ t < q /\
  forall k, k <> rc -> holds (hc h) k t -> holds (hc (vm_end t ELocal h)) k q.
Proof.
  intros HR Hin Ex Hxq.
  pose proof (loc_corr h s t HR) as Hloc. rewrite Ex in Hloc.
  destruct (lookup t (slocs s)) as [c|] eqn:Ec; [|tauto]. destruct Hloc as (Hok & Hi1 & Hi2).
  assert (Ee : end_entry s t ELocal = RFwd q).
  { unfold end_entry. rewrite Ec. unfold cell_ok, sref_val, holds in *. rewrite Hok in Hxq. injection Hxq as Hxq.
    destruct (lookup c (done s)) as [[v|q']|]; cbn [entry_val] in Hxq.
    - destruct v; discriminate.
    - now injection Hxq as ->.
    - now injection Hxq as ->. }
  destruct (end_cells_ok h s t rc ELocal HR Hin) as [_ Hq]. destruct (Hq q Ee) as [Q1 Q2].
  split; [exact Ee|]. split; [exact Q1|]. split; [exact Q2|].
  intros k Hk Hh.
  assert (Hlk : lookup t (locs h) <> Some k).
  { intro E. destruct (loc_cell_facts h s t rc k HR Hin E) as (_ & X & _). contradiction. }
  destruct (result_delivery t ELocal h s rc HR Hin k Hk Hlk) as [D _]. unfold holds. rewrite (D Hh), Ee. reflexivity.
Qed.

(* a deleted thread: its VM's destructor empties every holder, nothing stays pending on it *)
Theorem killed_empties_every_holder t h s rc : R h s -> In (t, rc) (vms h) ->
  good (hc (vm_kill t h)) /\ thread_alive t (vm_kill t h) = false /\
  (forall k, k <> rc -> holds (hc h) k t -> get (cells (hc (vm_kill t h))) k = Some (VD DNil)) /\
  (forall k, ~ holds (hc (vm_kill t h)) k t).
Proof.
  intros HR Hin.
  destruct (vm_kill_R t h s HR) as [HR' _].
  assert (Hna : ~ In t (alive (s_kill t s))).
  { unfold s_kill, s_end. destruct (memN t (alive s)) eqn:E; cbn [alive].
    - intro H. apply in_delN in H. tauto.
    - intro H. apply memN_in in H. congruence. }
  split; [apply (r_good _ _ HR')|]. split; [|split].
  - rewrite (alive_eq t _ _ HR'). unfold s_alive.
    destruct (memN t (alive (s_kill t s))) eqn:E; [|reflexivity]. apply memN_in in E. contradiction.
  - intros k Hk Hh.
    assert (Hnh : ~ holds (hc (vm_kill t h)) k t).
    { intro H. apply Hna. eapply (r_ptr_alive _ _ HR'); eauto. }
    assert (El : lookup t (vms h) = Some rc) by (apply (vms_lookup_in _ _ t rc HR); exact Hin).
    assert (Hrc : get (cells (hc h)) rc = Some (VPtr t)) by now apply (r_vms _ _ HR).
    unfold vm_kill. rewrite El. cbn [hc].
    destruct (end_cells_ok h s t rc ENone HR Hin) as [(G1 & N1 & D & [d' Hrc1]) _]. cbn [end_cells] in *.
    assert (Edt : vm_dtor (hc h) rc = destroy (ptr_clear (hc h) t) rc) by (unfold vm_dtor; now rewrite Hrc).
    rewrite Edt.
    destruct (destroy_ok (ptr_clear (hc h) t) rc G1) as (G2 & C2 & N2); [unfold live; congruence|].
    assert (Hx : forall x, lookup t (locs h) = Some x -> x <> rc /\ ~ holds (hc h) x t /\ live (hc h) x)
      by (intros x E; now apply (loc_cell_facts h s t rc x HR Hin)).
    destruct (destroy_opt_ok (destroy (ptr_clear (hc h) t) rc) (lookup t (locs h)) G2) as (G3 & N3 & C3).
    { intros x E. destruct (Hx x E) as (X1 & X2 & X3). unfold live. rewrite C2, gso by exact X1.
      destruct (D x) as [_ Dn]. now rewrite (Dn X2). }
    rewrite C3. destruct (option_N_eq_dec (lookup t (locs h)) (Some k)) as [E|E].
    { destruct (Hx k E) as (_ & X & _). contradiction. }
    rewrite C2, gso by exact Hk. destruct (D k) as [D1 _]. now apply D1.
  - intros k Hh. apply Hna. eapply (r_ptr_alive _ _ HR'); eauto.
Qed.

(* the same for a thread that is deleted while its VM executes (it deletes itself, a thread it
   started deletes it, an endon fires): the VM is only marked and its destructor runs when the
   interpreter loop has returned - every holder is empty afterwards all the same *)
Theorem killed_while_executing_empties_every_holder t h s rc : R h s -> In (t, rc) (vms h) ->
  good (hc (vm_kill_exec t h)) /\ thread_alive t (vm_kill_exec t h) = false /\
  (forall k, k <> rc -> holds (hc h) k t -> get (cells (hc (vm_kill_exec t h))) k = Some (VD DNil)) /\
  (forall k, ~ holds (hc (vm_kill_exec t h)) k t).
Proof.
  intros HR Hin.
  destruct (vm_kill_exec_R t h s HR) as [HR' _].
  assert (Hna : ~ In t (alive (s_kill t s))).
  { unfold s_kill, s_end. destruct (memN t (alive s)) eqn:E; cbn [alive].
    - intro H. apply in_delN in H. tauto.
    - intro H. apply memN_in in H. congruence. }
  split; [apply (r_good _ _ HR')|]. split; [|split].
  - rewrite (alive_eq t _ _ HR'). unfold s_alive.
    destruct (memN t (alive (s_kill t s))) eqn:E; [|reflexivity]. apply memN_in in E. contradiction.
  - intros k Hk Hh.
    assert (El : lookup t (vms h) = Some rc) by (apply (vms_lookup_in _ _ t rc HR); exact Hin).
    assert (Hrc : get (cells (hc h)) rc = Some (VPtr t)) by now apply (r_vms _ _ HR).
    unfold vm_kill_exec, vm_mark, vm_reap. rewrite El. cbn [hc].
    pose proof (r_good _ _ HR) as G0.
    set (lr := lookup t (locs h)) in *.
    assert (Hx : forall x, lr = Some x -> x <> rc /\ ~ holds (hc h) x t /\ live (hc h) x)
      by (intros x E; now apply (loc_cell_facts h s t rc x HR Hin)).
    destruct (destroy_opt_ok (hc h) lr G0) as (G1 & N1 & C1); [intros x E; now apply Hx|].
    set (c1 := destroy_opt (hc h) lr) in *.
    assert (Hkl : lr <> Some k) by (intro E; destruct (Hx k E) as (_ & X & _); contradiction).
    assert (Hrc1 : get (cells c1) rc = Some (VPtr t)).
    { rewrite C1. destruct (option_N_eq_dec lr (Some rc)) as [E|E]; [|exact Hrc]. destruct (Hx rc E) as [X _]. congruence. }
    destruct (re_cell _ _ (proj2 G1) rc t) as [l [Hl _]]; [discriminate|exact Hrc1|].
    destruct (ptr_clear_ok c1 t l G1 Hl) as (G2 & N2 & C2).
    assert (Edt : vm_dtor c1 rc = destroy (ptr_clear c1 t) rc) by (unfold vm_dtor; now rewrite Hrc1).
    rewrite Edt. destruct (C2 rc) as [Crc _]. specialize (Crc Hrc1).
    destruct (destroy_ok (ptr_clear c1 t) rc G2) as (G3 & C3 & N3); [unfold live; congruence|].
    rewrite C3, gso by exact Hk. destruct (C2 k) as [D1 _]. apply D1. unfold holds. rewrite C1.
    destruct (option_N_eq_dec lr (Some k)); [contradiction|exact Hh].
  - intros k Hh. apply Hna. eapply (r_ptr_alive _ _ HR'); eauto.
Qed.

(* nothing is pending once its thread is gone: in every reachable state a Pointer-typed cell
   belongs to a thread that is alive *)
Theorem pending_implies_alive ops :
  forall k p, holds (hc (fst (snd (m_final ms_init ops)))) k p -> exists rc, In (p, rc) (vms (fst (snd (m_final ms_init ops)))).
Proof.
  destruct (reachable_R ops) as [_ HR]. intros k p Hh.
  pose proof (r_ptr_alive _ _ HR k p Hh) as Ha. rewrite <- (r_alive _ _ HR) in Ha.
  apply in_map_iff in Ha. destruct Ha as [[t rc] [E H]]. cbn in E. subst. now exists rc.
Qed.

(* in the specification: a slot that shows `pending` names an alive thread - the thread itself or
   the one its result was forwarded to *)
Theorem pending_slot_implies_alive ops :
  forall r a t, In (r, mkSRec a (Some (SCall t))) (srecs (snd (s_final s_init ops))) ->
    sref_tok (snd (s_final s_init ops)) (SCall t) = TPend ->
    (lookup t (done (snd (s_final s_init ops))) = None /\ In t (alive (snd (s_final s_init ops)))) \/
    (exists c, lookup t (done (snd (s_final s_init ops))) = Some (RFwd c) /\ In c (alive (snd (s_final s_init ops)))).
Proof.
  destruct (reachable_R ops) as [_ HR]. intros r a t Hin Htok.
  unfold sref_tok in Htok. destruct (lookup t (done (snd (s_final s_init ops)))) as [[[d|]|c]|] eqn:El; try discriminate.
  - right. exists c. split; [reflexivity|]. now destruct (r_fwd _ _ HR t c El).
  - left. split; [reflexivity|].
    destruct (F2_in_r _ _ _ _ (r_recs _ _ HR) Hin) as [[r' [a' o]] [_ (E1 & E2 & E3)]].
    cbn [fst snd rargs rslot sargs sslot] in *. destruct o as [k|]; [|destruct E3].
    unfold cell_ok, sref_val in E3. rewrite El in E3. eapply (r_ptr_alive _ _ HR); eauto.
Qed.

(* ---- invariants of the store through the scheduler ---------------------------------------------------- *)
Section SInv.
  Variable P : store -> Prop.
  Hypothesis P_end : forall t e s, P s -> P (s_end t e s).
  Hypothesis P_spawn : forall t s, P s -> P (fst (s_spawn t s)).
  Hypothesis P_spawned : forall t c s, P s -> P (s_spawned t c s).

  Lemma P_kill t s : P s -> P (s_kill t s).
  Proof. intro H. unfold s_kill. now apply P_end. Qed.

  Lemma s_run_simple_inv sc s t steps f : P s -> P (snd (run_simple store s_end s_kill s_noop sc s t steps f)).
  Proof.
    intro HP. unfold run_simple, park. destruct steps as [|[d|d|w hp] rest]; cbn [snd]; try exact HP.
    destruct f as [[d|j| |k]| | |d|d| | |n|]; cbn [snd]; try exact HP; auto using P_kill.
  Qed.

  Lemma s_run_st_inv subs : forall sc s t pre post f, P s ->
    P (snd (run_st store s_end s_kill s_noop s_noop s_spawn s_spawned sc s t pre subs post f)).
  Proof.
    induction subs as [|l more IH]; intros sc s t pre post f HP; cbn [run_st].
    - destruct pre as [|[d|d|w hp] rest]; unfold park; cbn [snd]; try exact HP. now apply s_run_simple_inv.
    - destruct pre as [|[d|d|w hp] rest]; unfold park; cbn [snd]; try exact HP.
      pose proof (P_spawn t s HP) as H1. destruct (s_spawn t s) as [s1 c]. cbn [fst] in H1.
      pose proof (IH sc s1 c (lpre l) (lpost l) (resolve [] (lfin l)) H1) as H2.
      destruct (run_st store s_end s_kill s_noop s_noop s_spawn s_spawned sc s1 c (lpre l) more (lpost l) (resolve [] (lfin l))) as [sa s2].
      cbn [snd] in H2. apply s_run_simple_inv. now apply P_spawned.
  Qed.

  Lemma s_helper_act_inv sc s t a : P s -> P (snd (helper_act store s_kill s_noop sc s t a)).
  Proof.
    intro HP. unfold helper_act. destruct a as [e| |].
    - destruct (parked_ts sc t); exact HP.
    - destruct (parked_ts sc t); exact HP.
    - cbn [snd]. now apply P_kill.
  Qed.

  Lemma s_run_thr_inv sc s th : P s -> P (snd (run_thr store s_end s_kill s_noop s_noop s_noop s_spawn s_spawned sc s th)).
  Proof.
    intro HP. destruct th as [t ts|t [|]|t hp]; cbn [run_thr].
    - pose proof (s_run_st_inv (tsubs ts) sc (s_noop t s) t (tpre ts) (tpost ts) (tfin ts) HP) as H1.
      destruct (run_st store s_end s_kill s_noop s_noop s_spawn s_spawned sc (s_noop t s) t (tpre ts) (tsubs ts) (tpost ts) (tfin ts)) as [sa s1].
      exact H1.
    - cbn [snd]. now apply P_kill.
    - destruct (lookup t (paused sc)) as [ts|]; cbn [snd]; auto.
    - destruct hp as [|[d a] rest]; [exact HP|].
      pose proof (s_helper_act_inv sc s t a HP) as H1. destruct (helper_act store s_kill s_noop sc s t a) as [sa s1]. exact H1.
  Qed.

  Lemma s_resume_inv fuel : forall sc s, P s -> P (snd (fst (resume store s_end s_kill s_noop s_noop s_noop s_spawn s_spawned fuel sc s))).
  Proof.
    induction fuel as [|fuel IH]; intros sc s HP; cbn [resume].
    - destruct (pend sc) as [|x r]; cbn [fst snd]; auto.
      destruct (frame sc <? wdue (min_w x r)); cbn [fst snd]; auto.
    - destruct (pend sc) as [|x r]; cbn [fst snd]; auto.
      destruct (frame sc <? wdue (min_w x r)); cbn [fst snd]; auto.
      pose proof (s_run_thr_inv (mkSched (remove_w (wseq (min_w x r)) (x :: r)) (paused sc) (frame sc) (clock sc) (sseq sc) (lvars sc))
                                s (wthr (min_w x r)) HP) as H1.
      destruct (run_thr store s_end s_kill s_noop s_noop s_noop s_spawn s_spawned _ s (wthr (min_w x r))) as [sa sb]. cbn [snd] in H1. now apply IH.
  Qed.

  Lemma s_kill_all_inv l : forall s, P s -> P (fold_left (fun s t => s_kill t s) l s).
  Proof. induction l as [|t l IH]; intros s HP; cbn [fold_left]; auto. apply IH. now apply P_kill. Qed.
End SInv.

(* a value, once in the map, stays: an entry that is not a forward is never rewritten *)
Lemma lookup_end_other t e s u v : lookup u (done s) = Some (RVal v) -> ~ In u (alive s) ->
  lookup u (done (s_end t e s)) = Some (RVal v) /\ ~ In u (alive (s_end t e s)).
Proof.
  intros Hl Hn. unfold s_end. destruct (memN t (alive s)) eqn:E; [|now split].
  apply memN_in in E. cbn [done alive lookup]. destruct (N.eqb_spec t u) as [->|Ht]; [contradiction|].
  rewrite lookup_map_subst, Hl. split; [reflexivity|]. intro H. apply in_delN in H. tauto.
Qed.

(* ---- the result of a thread that ends inside the call is in the record at once -------------------------- *)
Definition slot_toks (d : dval) : list tok := match d with DNil => [] | _ => [TD d] end.

Definition value_inv (t : N) (v : option dval) (s0 : store) (x : store) : Prop :=
  lookup t (done x) = Some (RVal v) /\ ~ In t (alive x) /\ srecs x = srecs s0 /\ snrec x = snrec s0.

Lemma value_inv_end t v s0 t0 e x : value_inv t v s0 x -> value_inv t v s0 (s_end t0 e x).
Proof.
  intros (H1 & H2 & H3 & H4). destruct (lookup_end_other t0 e x t v H1 H2) as [A B].
  repeat split; auto; unfold s_end; destruct (memN t0 (alive x)); assumption.
Qed.

Lemma value_inv_spawn t v s0 t0 x : t < sncall x -> value_inv t v s0 x ->
  value_inv t v s0 (fst (s_spawn t0 x)) /\ t < sncall (fst (s_spawn t0 x)).
Proof.
  intros Hlt (H1 & H2 & H3 & H4). unfold s_spawn, s_thread_begin. cbn [fst done alive srecs snrec sncall].
  split; [|lia]. repeat split; auto. intro H. apply in_app_or in H. destruct H as [H|[E|[]]]; [contradiction|lia].
Qed.

(* the stack of calls / `thread` commands in progress is the same after a thread ran *)
Lemma stmps_end t e x : stmps (s_end t e x) = stmps x.
Proof. unfold s_end. destruct (memN t (alive x)); reflexivity. Qed.

Lemma stmps_spawned t c x : stmps (s_spawned t c x) = tl (stmps x).
Proof.
  unfold s_spawned. destruct (stmps x) as [|u rest] eqn:E; [now rewrite E|].
  destruct ((t <? u) && _); reflexivity.
Qed.

Lemma s_run_simple_stmps sc x t steps f : stmps (snd (run_simple store s_end s_kill s_noop sc x t steps f)) = stmps x.
Proof.
  unfold run_simple, park. destruct steps as [|[d|d|w hp] rest]; cbn [snd]; try reflexivity.
  destruct f as [[d|j| |k]| | |d|d| | |n|]; cbn [snd]; try reflexivity; auto using stmps_end; unfold s_kill; apply stmps_end.
Qed.

Lemma s_run_st_stmps subs : forall sc x t pre post f,
  stmps (snd (run_st store s_end s_kill s_noop s_noop s_spawn s_spawned sc x t pre subs post f)) = stmps x.
Proof.
  induction subs as [|l more IH]; intros sc x t pre post f; cbn [run_st].
  - destruct pre as [|[d|d|w hp] rest]; unfold park; cbn [snd]; try reflexivity. apply s_run_simple_stmps.
  - destruct pre as [|[d|d|w hp] rest]; unfold park; cbn [snd]; try reflexivity.
    pose proof (IH sc (fst (s_spawn t x)) (snd (s_spawn t x)) (lpre l) (lpost l) (resolve [] (lfin l))) as H.
    destruct (s_spawn t x) as [s1 c] eqn:Es. cbn [fst snd] in H.
    destruct (run_st store s_end s_kill s_noop s_noop s_spawn s_spawned sc s1 c (lpre l) more (lpost l) (resolve [] (lfin l))) as [sa s2].
    cbn [snd] in H. rewrite s_run_simple_stmps, stmps_spawned. unfold s_noop. rewrite H.
    unfold s_spawn, s_thread_begin in Es. injection Es as <- _. reflexivity.
Qed.

Lemma s_run_thr_stmps sc x th : stmps (snd (run_thr store s_end s_kill s_noop s_noop s_noop s_spawn s_spawned sc x th)) = stmps x.
Proof.
  destruct th as [t ts|t [|]|t hp]; cbn [run_thr].
  - pose proof (s_run_st_stmps (tsubs ts) sc (s_noop t x) t (tpre ts) (tpost ts) (tfin ts)) as H1.
    destruct (run_st store s_end s_kill s_noop s_noop s_spawn s_spawned sc (s_noop t x) t (tpre ts) (tsubs ts) (tpost ts) (tfin ts)) as [sa s1].
    exact H1.
  - cbn [snd]. unfold s_kill. apply stmps_end.
  - destruct (lookup t (paused sc)); reflexivity.
  - destruct hp as [|[d a] rest]; [reflexivity|].
    assert (H1 : stmps (snd (helper_act store s_kill s_noop sc x t a)) = stmps x).
    { unfold helper_act. destruct a as [e| |].
      - destruct (parked_ts sc t); reflexivity.
      - destruct (parked_ts sc t); reflexivity.
      - cbn [snd]. unfold s_kill. apply stmps_end. }
    destruct (helper_act store s_kill s_noop sc x t a) as [sa s1]. exact H1.
Qed.

Lemma s_resume_stmps fuel : forall sc x, stmps (snd (fst (resume store s_end s_kill s_noop s_noop s_noop s_spawn s_spawned fuel sc x))) = stmps x.
Proof.
  induction fuel as [|fuel IH]; intros sc x; cbn [resume].
  - destruct (pend sc) as [|y r]; cbn [fst snd]; auto.
    destruct (frame sc <? wdue (min_w y r)); reflexivity.
  - destruct (pend sc) as [|y r]; cbn [fst snd]; auto.
    destruct (frame sc <? wdue (min_w y r)); cbn [fst snd]; auto.
    pose proof (s_run_thr_stmps (mkSched (remove_w (wseq (min_w y r)) (y :: r)) (paused sc) (frame sc) (clock sc) (sseq sc) (lvars sc))
                                x (wthr (min_w y r))) as H1.
    destruct (run_thr store s_end s_kill s_noop s_noop s_noop s_spawn s_spawned _ x (wthr (min_w y r))) as [sa sb]. cbn [snd] in H1.
    now rewrite IH.
Qed.

Lemma value_inv_spawned t v s0 t0 c x : value_inv t v s0 x -> value_inv t v s0 (s_spawned t0 c x).
Proof.
  intros (H1 & H2 & H3 & H4). unfold s_spawned. destruct (stmps x) as [|u rest]; [repeat split; auto|].
  destruct ((t0 <? u) && _); repeat split; auto.
Qed.

Theorem result_sync ops np r args : r <> RLocal -> (forall k, r <> RLevel k) ->
  let d := eval_res (bind np args) r in
  let ob := obs_after ops (OCall true np [] [mkLevel [] [] (FEnd r)] args) in
  ocall ob = COk false (bind np args) /\
  exists pre k, orecs ob = pre ++ [(k, map TD args ++ slot_toks d)].
Proof.
  intros Hr Hr2. cbn zeta. rewrite obs_after_spec. destruct (reachable_R ops) as [_ HR].
  destruct (s_final s_init ops) as [sc s]. cbn [snd] in HR.
  set (d := eval_res (bind np args) r).
  unfold s_step. cbn [step_op tl lpre lpost lfin run_st]. unfold s_begin, s_thread_begin.
  set (t := sncall s).
  set (s1 := mkStore (alive s ++ [t]) (done s) (slocs s) (stcall s ++ [(t, t)]) (srecs s) (snrec s) (t + 1) (t :: stmps s)).
  assert (Eres : resolve (bind np args) (FEnd r) = FEnd (RLit d)).
  { destruct r as [d0|j| |k]; [reflexivity|reflexivity|contradiction|exfalso; now apply (Hr2 k)]. }
  set (sc0 := mkSched (pend sc) (paused sc) (frame sc) (clock sc) (sseq sc) (lvars sc)).
  rewrite Eres. cbn [run_simple].
  assert (Hmem : memN t (alive s1) = true) by (apply memN_in; cbn; apply in_or_app; right; now left).
  set (s2 := s_end t (EVal d) s1).
  assert (P2 : (value_inv t (Some d) s s2 /\ t < sncall s2) /\ stmps s2 = t :: stmps s).
  { unfold s2, s_end. rewrite Hmem. unfold value_inv. cbn [done alive srecs snrec sncall stmps lookup end_entry].
    rewrite N.eqb_refl. repeat split; try reflexivity; try (unfold s1; cbn [sncall]; lia). intro H. apply in_delN in H. tauto. }
  destruct P2 as [P2 T2].
  set (P := fun x : store => value_inv t (Some d) s x /\ t < sncall x).
  assert (P_end : forall t0 e x, P x -> P (s_end t0 e x)).
  { intros t0 e x [H1 H2]. split; [now apply value_inv_end|]. unfold s_end. destruct (memN t0 (alive x)); assumption. }
  assert (P_spawn : forall t0 x, P x -> P (fst (s_spawn t0 x))) by (intros t0 x [H1 H2]; now apply value_inv_spawn).
  assert (P_spawned : forall t0 c x, P x -> P (s_spawned t0 c x)).
  { intros t0 c x [H1 H2]. split; [now apply value_inv_spawned|]. unfold s_spawned.
    destruct (stmps x) as [|u rest]; [exact H2|]. destruct ((t0 <? u) && _); exact H2. }
  change (s_noop t s2) with s2.
  pose proof (s_resume_inv P P_end P_spawn P_spawned (weight sc0) sc0 s2 P2) as P3.
  pose proof (s_resume_stmps (weight sc0) sc0 s2) as T3.
  destruct (resume store s_end s_kill s_noop s_noop s_noop s_spawn s_spawned (weight sc0) sc0 s2) as [[sc3 s3] ok]. cbn [fst snd] in P3, T3.
  destruct P3 as [(D3 & A3 & R3 & N3) _]. rewrite T2 in T3.
  unfold s_finish. rewrite T3, D3. cbn [snd mk_obs].
  unfold mk_obs, s_obs, s_alive. cbn [ocall orecs alive done srecs snrec sncall].
  split.
  - destruct (memN t (alive s3)) eqn:E; [apply memN_in in E; contradiction|reflexivity].
  - rewrite map_app. cbn [map fst snd].
    eexists. exists (snrec s3).
    f_equal. f_equal. f_equal. unfold srec_toks. cbn [sargs sslot]. f_equal.
    destruct d as [|k i]; [reflexivity|]. cbn [slot_toks sref_tok done]. now rewrite D3.
Qed.

(* ---- the result map over time -------------------------------------------------------------------------- *)
Definition val_inv (t : N) (v : option dval) (x : store) : Prop :=
  (lookup t (done x) = Some (RVal v) /\ ~ In t (alive x)) /\ t < sncall x.

Lemma val_inv_end t v t0 e x : val_inv t v x -> val_inv t v (s_end t0 e x).
Proof.
  intros [[H1 H2] H3]. split; [now apply lookup_end_other|]. unfold s_end. destruct (memN t0 (alive x)); exact H3.
Qed.

Lemma val_inv_spawn t v t0 x : val_inv t v x -> val_inv t v (fst (s_spawn t0 x)).
Proof.
  intros [[H1 H2] H3]. unfold s_spawn, s_thread_begin. cbn [fst]. split; [split|]; cbn [done alive sncall]; auto; [|lia].
  intro H. apply in_app_or in H. destruct H as [H|[E|[]]]; [contradiction|lia].
Qed.

Lemma val_inv_spawned t v t0 c x : val_inv t v x -> val_inv t v (s_spawned t0 c x).
Proof.
  intros [[H1 H2] H3]. unfold s_spawned. destruct (stmps x) as [|u rest]; [now repeat split|].
  destruct ((t0 <? u) && _); now repeat split.
Qed.

(* a value (or the empty result), once in the map, stays through every operation *)
Theorem result_stable sc h s o t v : R h s -> lookup t (done s) = Some (RVal v) ->
  lookup t (done (snd (fst (s_step (sc, s) o)))) = Some (RVal v).
Proof.
  intros HR Hx.
  set (P := val_inv t v).
  assert (P0 : P s).
  { split; [split; [exact Hx|]|eapply (r_done_fresh _ _ HR); eauto].
    intro H. apply (r_pending _ _ HR) in H. congruence. }
  pose proof (val_inv_end t v) as P_end. pose proof (val_inv_spawn t v) as P_spawn.
  pose proof (val_inv_spawned t v) as P_spawned.
  unfold s_step. destruct o as [lbl np pt prog args|r|r|r|r|a b|a b|dt| |]; cbn [step_op].
  - unfold s_begin. destruct lbl.
    + assert (P1 : P (fst (s_thread_begin (sncall s) s))).
      { destruct P0 as [[H1 H2] H3]. unfold s_thread_begin. cbn [fst]. split; [split|]; cbn [done alive sncall]; auto; [|lia].
        intro H. apply in_app_or in H. destruct H as [H|[E|[]]]; [contradiction|lia]. }
      destruct (s_thread_begin (sncall s) s) as [s1 t1]. cbn [fst] in P1.
      match goal with |- context [match ?x with (_, _) => _ end] =>
        match x with context [prologue] => destruct x as [[params locvals] lv] end end.
      match goal with |- context [run_st store s_end s_kill s_noop s_noop s_spawn s_spawned ?a ?b ?c ?d ?e ?f ?g] =>
        pose proof (s_run_st_inv P P_end P_spawn P_spawned e a b c d f g P1) as P2;
        destruct (run_st store s_end s_kill s_noop s_noop s_spawn s_spawned a b c d e f g) as [sa s2] end.
      cbn [snd] in P2.
      pose proof (s_resume_inv P P_end P_spawn P_spawned (weight sa) sa s2 P2) as P3.
      destruct (resume store s_end s_kill s_noop s_noop s_noop s_spawn s_spawned (weight sa) sa _) as [[sc3 s3] ok]. cbn [fst snd] in *.
      unfold s_finish. destruct P3 as [[H1 _] _]. destruct (stmps s3); cbn [done]; exact H1.
    + cbn [fst snd]. unfold s_finish. cbn [done]. exact Hx.
  - cbn [fst snd]. unfold s_copy. destruct (lookup r (srecs s)); exact Hx.
  - exact Hx.
  - exact Hx.
  - exact Hx.
  - cbn [fst snd]. unfold s_assign. destruct (a =? b); [exact Hx|].
    destruct (sslot_of a s), (sslot_of b s); exact Hx.
  - cbn [fst snd]. unfold s_massign. destruct (a =? b); [exact Hx|].
    destruct (sslot_of a s), (sslot_of b s); exact Hx.
  - exact Hx.
  - pose proof (s_resume_inv P P_end P_spawn P_spawned (weight (mkSched (pend sc) (paused sc) (clock sc) (clock sc) (sseq sc) (lvars sc)))
                             (mkSched (pend sc) (paused sc) (clock sc) (clock sc) (sseq sc) (lvars sc)) s P0) as P3.
    destruct (resume store s_end s_kill s_noop s_noop s_noop s_spawn s_spawned _ _ s) as [[sc3 s3] ok]. cbn [fst snd] in *. apply P3.
  - cbn [fst snd]. unfold s_reset. apply (s_kill_all_inv P P_end (alive s) s P0).
Qed.

(* forwarding in the specification: `end local.r` while the sub-thread c (or the thread its result
   was forwarded to) is still pending makes t's result a forward; when that thread ends, every
   entry forwarded to it becomes its entry - a value, the empty result, or a further forward *)
Theorem forwarded_gets_the_entry q e s u : In q (alive s) -> lookup u (done s) = Some (RFwd q) ->
  lookup u (done (s_end q e s)) = Some (end_entry s q e).
Proof.
  intros Hq Hu. unfold s_end. apply memN_in in Hq. rewrite Hq. cbn [done lookup].
  destruct (N.eqb_spec q u) as [->|Hn]; [reflexivity|].
  rewrite lookup_map_subst, Hu. now rewrite N.eqb_refl.
Qed.

Theorem forward_entry s t c : lookup t (slocs s) = Some c ->
  end_entry s t ELocal = match lookup c (done s) with Some x => x | None => RFwd c end.
Proof. intro H. unfold end_entry. now rewrite H. Qed.

(* a deleted thread's call has the empty result from the moment of the deletion on *)
Theorem killed_call_reads_nil t h s : R h s -> In t (alive s) ->
  lookup t (done (s_kill t s)) = Some (RVal None) /\ ~ In t (alive (s_kill t s)) /\
  sref_tok (s_kill t s) (SCall t) = TD DNil.
Proof.
  intros HR Hin. unfold s_kill, s_end. apply memN_in in Hin. rewrite Hin.
  unfold sref_tok. cbn [done alive lookup end_entry]. rewrite N.eqb_refl. repeat split.
  intro H. apply in_delN in H. tauto.
Qed.

Theorem killed_call_reads_nil_for_ever sc h s o t : R h s -> lookup t (done s) = Some (RVal None) ->
  sref_tok (snd (fst (s_step (sc, s) o))) (SCall t) = TD DNil.
Proof.
  intros HR Hx. unfold sref_tok. now rewrite (result_stable sc h s o t None HR Hx).
Qed.

(* everything that was forwarded to a thread that is then deleted reads NIL *)
Theorem forwarded_to_a_killed_thread_reads_nil q s u : In q (alive s) -> lookup u (done s) = Some (RFwd q) ->
  sref_tok (s_kill q s) (SCall u) = TD DNil.
Proof.
  intros Hq Hu. unfold sref_tok, s_kill. now rewrite (forwarded_gets_the_entry q ENone s u Hq Hu).
Qed.

(* Reset kills every alive thread: afterwards no thread is alive and no cell is pending *)
Lemma alive_s_kill t s : alive (s_kill t s) = delN t (alive s).
Proof.
  unfold s_kill, s_end. destruct (memN t (alive s)) eqn:E; [reflexivity|].
  symmetry. apply delN_notin. intro H. apply memN_in in H. congruence.
Qed.

Lemma alive_kill_all l : forall s, alive (fold_left (fun s t => s_kill t s) l s) = fold_left (fun a t => delN t a) l (alive s).
Proof. induction l as [|t l IH]; intro s; cbn [fold_left]; [reflexivity|]. now rewrite IH, alive_s_kill. Qed.

Lemma delN_all l : forall a, (forall x, In x a -> In x l) -> fold_left (fun a t => delN t a) l a = [].
Proof.
  induction l as [|t l IH]; intros a Ha; cbn [fold_left].
  - destruct a as [|x a]; [reflexivity|]. destruct (Ha x); now left.
  - apply IH. intros x Hx. apply in_delN in Hx. destruct Hx as [Hx Hn].
    destruct (Ha x Hx) as [E|H]; [congruence|exact H].
Qed.

Theorem reset_leaves_nothing_pending h s : R h s ->
  alive (s_reset s) = [] /\ vms (heap_reset h) = [] /\ forall k p, ~ holds (hc (heap_reset h)) k p.
Proof.
  intro HR. destruct (heap_reset_R h s HR) as [HR' _].
  assert (E : alive (s_reset s) = []) by (unfold s_reset; rewrite alive_kill_all; now apply delN_all).
  split; [exact E|]. split.
  - pose proof (r_alive _ _ HR') as Ea. rewrite E in Ea. destruct (vms (heap_reset h)); [reflexivity|discriminate].
  - intros k p Hh. pose proof (r_ptr_alive _ _ HR' k p Hh) as Ha. rewrite E in Ha. destruct Ha.
Qed.

(* what a slot shows *)
Theorem slot_shows_result s t :
  (lookup t (done s) = None -> sref_tok s (SCall t) = TPend) /\
  (forall d, lookup t (done s) = Some (RVal (Some d)) -> sref_tok s (SCall t) = TD d) /\
  (lookup t (done s) = Some (RVal None) -> sref_tok s (SCall t) = TD DNil) /\
  (forall c, lookup t (done s) = Some (RFwd c) -> sref_tok s (SCall t) = TPend).
Proof. unfold sref_tok. repeat split; intros; now rewrite H. Qed.

(* ---- the resume loop always ends within its fuel ------------------------------------------------------------ *)
Definition wweight (l : list waiter) : nat := fold_right (fun w acc => (w_thr (wthr w) + acc)%nat) O l.
Definition pweight (l : list (N * tstate)) : nat := fold_right (fun x acc => (w_ts (snd x) + acc)%nat) O l.
Definition w_subs (l : list level) : nat := fold_right (fun l acc => (w_level l + acc)%nat) O l.

Lemma weight_eq s : weight s = (wweight (pend s) + pweight (paused s))%nat.
Proof. reflexivity. Qed.

Lemma w_ts_eq pre subs post f : w_ts (mkTS pre subs post f) = (w_steps pre + w_subs subs + w_steps post + w_fin f)%nat.
Proof. reflexivity. Qed.

Lemma w_steps_wait d r : w_steps (SWait d :: r) = S (w_steps r).
Proof. reflexivity. Qed.
Lemma w_steps_pause d r : w_steps (SPause d :: r) = S (S (w_steps r)).
Proof. reflexivity. Qed.
Lemma w_steps_park w hp r : w_steps (SPark w hp :: r) = S (S (2 * length hp + w_steps r)).
Proof. reflexivity. Qed.
Lemma w_steps_nil : w_steps [] = O.
Proof. reflexivity. Qed.
Lemma w_subs_nil : w_subs [] = O.
Proof. reflexivity. Qed.
Lemma w_subs_cons l m : w_subs (l :: m) = (w_level l + w_subs m)%nat.
Proof. reflexivity. Qed.

Lemma wweight_app l1 l2 : wweight (l1 ++ l2) = (wweight l1 + wweight l2)%nat.
Proof. unfold wweight. induction l1 as [|a l1 IH]; cbn [app fold_right]; [reflexivity|]. rewrite IH. lia. Qed.

Lemma pweight_app l1 l2 : pweight (l1 ++ l2) = (pweight l1 + pweight l2)%nat.
Proof. unfold pweight. induction l1 as [|a l1 IH]; cbn [app fold_right]; [reflexivity|]. rewrite IH. lia. Qed.

Lemma wweight_filter p l : (wweight (filter p l) <= wweight l)%nat.
Proof.
  unfold wweight. induction l as [|a l IH]; cbn [filter fold_right]; [lia|].
  destruct (p a); cbn [fold_right]; lia.
Qed.

Lemma wweight_remove m l : In m l -> (wweight (remove_w (wseq m) l) + w_thr (wthr m) <= wweight l)%nat.
Proof.
  unfold remove_w, wweight. induction l as [|a l IH]; intro Hin; [destruct Hin|]. destruct Hin as [E|H]; cbn [filter fold_right].
  - subst. rewrite N.eqb_refl. cbn [negb].
    pose proof (wweight_filter (fun x => negb (wseq x =? wseq m)) l) as Hf. unfold wweight in Hf. lia.
  - specialize (IH H). destruct (negb (wseq a =? wseq m)); cbn [fold_right]; lia.
Qed.

Lemma min_w_in l : forall x, In (min_w x l) (x :: l).
Proof.
  induction l as [|a l IH]; intro x; cbn [min_w]; [now left|].
  destruct (IH (if w_ltb a x then a else x)) as [E|H].
  - rewrite <- E. destruct (w_ltb a x); [right; now left|now left].
  - right. now right.
Qed.

Lemma pweight_del t l : (pweight (del t l) <= pweight l)%nat.
Proof.
  unfold pweight. induction l as [|[k ts] l IH]; cbn [del fold_right]; [lia|].
  destruct (k =? t); cbn [fold_right]; lia.
Qed.

Lemma pweight_del_lookup t l ts : lookup t l = Some ts -> (pweight (del t l) + w_ts ts <= pweight l)%nat.
Proof.
  unfold pweight. induction l as [|[k a] l IH]; cbn [lookup del fold_right]; [discriminate|].
  destruct (N.eqb_spec k t) as [->|Hn].
  - intro H. injection H as ->. pose proof (pweight_del t l) as Hd. unfold pweight in Hd. cbn [snd]. lia.
  - intro H. specialize (IH H). cbn [fold_right snd]. lia.
Qed.

Lemma w_fin_resolve params f : w_fin (resolve params f) = w_fin f.
Proof. destruct f as [[d|j| |k]| | |d|d| | |n|]; reflexivity. Qed.

Section Fuel.
  Variable H : Type.
  Variable h_end : N -> endv -> H -> H.
  Variable h_kill : N -> H -> H.
  Variable h_exec h_suspend h_tail : N -> H -> H.
  Variable h_spawn : N -> H -> H * N.
  Variable h_spawned : N -> N -> H -> H.

  Lemma weight_add_wait s d th : weight (add_wait s d th) = (weight s + w_thr th)%nat.
  Proof. rewrite !weight_eq. unfold add_wait. cbn [pend paused]. rewrite wweight_app. cbn [wweight fold_right wthr]. lia. Qed.

  Lemma weight_pause s t ts : weight (pause s t ts) = (weight s + w_ts ts)%nat.
  Proof. rewrite !weight_eq. unfold pause. cbn [pend paused]. rewrite pweight_app. cbn [pweight fold_right snd]. lia. Qed.

  Ltac wsimp := rewrite ?weight_pause, ?weight_add_wait; cbn [w_thr]; rewrite ?w_ts_eq;
                rewrite ?w_steps_wait, ?w_steps_pause, ?w_steps_park, ?w_steps_nil, ?w_subs_nil, ?w_subs_cons; cbn [w_fin].

  Lemma weight_start_helper s t hp : (weight (start_helper s t hp) <= weight s + S (2 * length hp))%nat.
  Proof. unfold start_helper. destruct hp as [|[d a] rest]; [lia|]. rewrite weight_add_wait. cbn [w_thr]. lia. Qed.

  Lemma weight_park s h t w ts :
    (weight (fst (park H h_suspend s h t w ts)) <= weight s + match w with Some _ => S (w_ts ts) | None => w_ts ts end)%nat.
  Proof. unfold park. cbn [fst]. destruct w; wsimp; lia. Qed.

  Lemma run_simple_weight s h t steps f :
    (weight (fst (run_simple H h_end h_kill h_suspend s h t steps f)) <= weight s + w_steps steps + w_fin f)%nat.
  Proof.
    unfold run_simple. destruct steps as [|[d|d|w hp] rest].
    - destruct f as [[d|j| |k]| | |d|d| | |n|]; cbn [fst]; try (wsimp; lia).
      + pose proof (weight_park (add_wait s d (THelper t true)) h t None (mkTS [] [] [] FNever)) as Hp. revert Hp. wsimp. lia.
      + pose proof (weight_park (add_wait s d (THelper t true)) h t (Some 50) (mkTS [] [] [] FNever)) as Hp. revert Hp. wsimp. lia.
      + pose proof (weight_park s h t None (mkTS [] [] [] FNever)) as Hp. revert Hp. wsimp. lia.
    - pose proof (weight_park s h t (Some d) (mkTS rest [] [] f)) as Hp. revert Hp. wsimp. lia.
    - pose proof (weight_park (add_wait s d (THelper t false)) h t None (mkTS rest [] [] f)) as Hp. revert Hp. wsimp. lia.
    - pose proof (weight_park (start_helper s t hp) h t w (mkTS rest [] [] f)) as Hp.
      pose proof (weight_start_helper s t hp). revert Hp. destruct w; wsimp; lia.
  Qed.

  Lemma run_st_weight subs : forall s h t pre post f,
    (weight (fst (run_st H h_end h_kill h_suspend h_tail h_spawn h_spawned s h t pre subs post f)) <= weight s + w_ts (mkTS pre subs post f))%nat.
  Proof.
    induction subs as [|l more IH]; intros s h t pre post f; cbn [run_st].
    - destruct pre as [|[d|d|w hp] rest].
      + pose proof (run_simple_weight s h t post f). wsimp. lia.
      + pose proof (weight_park s h t (Some d) (mkTS rest [] post f)) as Hp. revert Hp. wsimp. lia.
      + pose proof (weight_park (add_wait s d (THelper t false)) h t None (mkTS rest [] post f)) as Hp. revert Hp. wsimp. lia.
      + pose proof (weight_park (start_helper s t hp) h t w (mkTS rest [] post f)) as Hp.
        pose proof (weight_start_helper s t hp). revert Hp. destruct w; wsimp; lia.
    - destruct pre as [|[d|d|w hp] rest].
      + destruct (h_spawn t h) as [h1 c].
        pose proof (IH s h1 c (lpre l) (lpost l) (resolve [] (lfin l))) as H1. rewrite w_ts_eq, w_fin_resolve in H1.
        destruct (run_st H h_end h_kill h_suspend h_tail h_spawn h_spawned s h1 c (lpre l) more (lpost l) (resolve [] (lfin l))) as [s2 h2].
        cbn [fst] in H1. pose proof (run_simple_weight s2 (h_spawned t c (h_tail c h2)) t post f) as H2.
        wsimp. unfold w_level. lia.
      + pose proof (weight_park s h t (Some d) (mkTS rest (l :: more) post f)) as Hp. revert Hp. wsimp. lia.
      + pose proof (weight_park (add_wait s d (THelper t false)) h t None (mkTS rest (l :: more) post f)) as Hp. revert Hp. wsimp. lia.
      + pose proof (weight_park (start_helper s t hp) h t w (mkTS rest (l :: more) post f)) as Hp.
        pose proof (weight_start_helper s t hp). revert Hp. destruct w; wsimp; unfold w_level; lia.
  Qed.

  Lemma wweight_find_main t l ts : find_main t l = Some ts ->
    (wweight (filter (fun w => negb (is_main t w)) l) + S (w_ts ts) <= wweight l)%nat.
  Proof.
    unfold wweight. induction l as [|a l IH]; cbn [find_main filter fold_right]; [discriminate|].
    unfold is_main at 1. destruct (wthr a) as [t' ts'|t' b|t' hp] eqn:Ea.
    - destruct (N.eqb_spec t' t) as [->|Hn]; cbn [negb].
      + intro E. injection E as ->. pose proof (wweight_filter (fun w => negb (is_main t w)) l) as Hf. unfold wweight in Hf.
        cbn [w_thr]. lia.
      + intro E. specialize (IH E). cbn [fold_right]. rewrite Ea. lia.
    - cbn [negb]. intro E. specialize (IH E). cbn [fold_right]. rewrite Ea. lia.
    - cbn [negb]. intro E. specialize (IH E). cbn [fold_right]. rewrite Ea. lia.
  Qed.

  Lemma weight_unpark s t : (weight (unpark s t) <= weight s)%nat.
  Proof.
    rewrite !weight_eq. unfold unpark. cbn [pend paused].
    pose proof (wweight_filter (fun w => negb (is_main t w)) (pend s)). pose proof (pweight_del t (paused s)). lia.
  Qed.

  Lemma weight_unpark_ts s t ts : parked_ts s t = Some ts -> (weight (unpark s t) + w_ts ts <= weight s)%nat.
  Proof.
    unfold parked_ts. rewrite !weight_eq. unfold unpark. cbn [pend paused].
    destruct (lookup t (paused s)) as [ts'|] eqn:El.
    - intro E. injection E as ->. pose proof (pweight_del_lookup t (paused s) ts El).
      pose proof (wweight_filter (fun w => negb (is_main t w)) (pend s)). lia.
    - intro E. pose proof (wweight_find_main t (pend s) ts E). pose proof (pweight_del t (paused s)). lia.
  Qed.

  Lemma helper_act_weight s h t a : (weight (fst (helper_act H h_kill h_suspend s h t a)) <= weight s + 1)%nat.
  Proof.
    unfold helper_act. destruct a as [e| |].
    - destruct (parked_ts s t) as [ts|] eqn:E; cbn [fst]; [|lia].
      pose proof (weight_unpark_ts s t ts E). wsimp. lia.
    - destruct (parked_ts s t) as [ts|] eqn:E; cbn [fst]; [|lia].
      pose proof (weight_unpark_ts s t ts E). wsimp. lia.
    - cbn [fst]. pose proof (weight_unpark s t). lia.
  Qed.

  Lemma run_thr_weight s h th :
    (weight (fst (run_thr H h_end h_kill h_exec h_suspend h_tail h_spawn h_spawned s h th)) + 1 <= weight s + w_thr th)%nat.
  Proof.
    destruct th as [t ts|t [|]|t hp]; cbn [run_thr].
    - pose proof (run_st_weight (tsubs ts) s (h_exec t h) t (tpre ts) (tpost ts) (tfin ts)) as H1.
      destruct (run_st H h_end h_kill h_suspend h_tail h_spawn h_spawned s (h_exec t h) t (tpre ts) (tsubs ts) (tpost ts) (tfin ts)) as [s1 h1].
      destruct ts as [pre subs post f]. cbn [tpre tsubs tpost tfin w_thr fst] in *. lia.
    - cbn [fst]. pose proof (weight_unpark s t). cbn [w_thr]. lia.
    - destruct (lookup t (paused s)) as [ts|] eqn:El; cbn [fst].
      + rewrite weight_add_wait. rewrite !weight_eq. cbn [pend paused].
        pose proof (pweight_del_lookup t (paused s) ts El). cbn [w_thr]. lia.
      + cbn [w_thr]. lia.
    - destruct hp as [|[d a] rest]; cbn [fst w_thr length]; [lia|].
      pose proof (helper_act_weight s h t a) as H1.
      destruct (helper_act H h_kill h_suspend s h t a) as [s1 h1]. cbn [fst] in *.
      pose proof (weight_start_helper s1 t rest). lia.
  Qed.

  Lemma resume_ok fuel : forall s h, (weight s <= fuel)%nat -> snd (resume H h_end h_kill h_exec h_suspend h_tail h_spawn h_spawned fuel s h) = true.
  Proof.
    induction fuel as [|fuel IH]; intros s h Hw; cbn [resume].
    - destruct (pend s) as [|x r] eqn:Ep; [reflexivity|].
      destruct (frame s <? wdue (min_w x r)); [reflexivity|].
      exfalso. rewrite weight_eq, Ep in Hw. cbn [wweight fold_right] in Hw. destruct (wthr x); cbn [w_thr] in Hw; lia.
    - destruct (pend s) as [|x r] eqn:Ep; [reflexivity|].
      destruct (frame s <? wdue (min_w x r)); [reflexivity|].
      set (m := min_w x r).
      set (s1 := mkSched (remove_w (wseq m) (x :: r)) (paused s) (frame s) (clock s) (sseq s) (lvars s)).
      pose proof (run_thr_weight s1 h (wthr m)) as Hr.
      destruct (run_thr H h_end h_kill h_exec h_suspend h_tail h_spawn h_spawned s1 h (wthr m)) as [s2 h2]. cbn [fst] in Hr.
      apply IH.
      pose proof (wweight_remove m (x :: r) (min_w_in r x)) as Hm.
      rewrite (weight_eq s) in Hw. rewrite (weight_eq s1) in Hr. rewrite Ep in Hw. unfold s1 in Hr. cbn [pend paused] in Hr. fold m in Hm. lia.
  Qed.
End Fuel.

Lemma s_step_hang st o : ohang (snd (s_step st o)) = false.
Proof.
  destruct st as [sc s]. unfold s_step.
  destruct o as [lbl np pt prog args|r|r|r|r|a b|a b|dt| |]; cbn [step_op]; try reflexivity.
  - destruct (s_begin lbl s) as [s1 t]. destruct lbl.
    + match goal with |- context [match ?x with (_, _) => _ end] =>
        match x with context [prologue] => destruct x as [[params locvals] lv] end end.
      match goal with |- context [run_st store s_end s_kill s_noop s_noop s_spawn s_spawned ?a ?b ?c ?d ?e ?f ?g] =>
        destruct (run_st store s_end s_kill s_noop s_noop s_spawn s_spawned a b c d e f g) as [sa s2] end.
      pose proof (resume_ok store s_end s_kill s_noop s_noop s_noop s_spawn s_spawned (weight sa) sa (s_noop t s2) (le_n _)) as Hok.
      destruct (resume store s_end s_kill s_noop s_noop s_noop s_spawn s_spawned (weight sa) sa (s_noop t s2)) as [[sc3 s3] ok]. cbn [snd] in Hok. subst ok.
      unfold mk_obs. destruct (s_obs _) as [[a b] c]. reflexivity.
    + unfold mk_obs. destruct (s_obs _) as [[a b] c]. reflexivity.
  - pose proof (resume_ok store s_end s_kill s_noop s_noop s_noop s_spawn s_spawned _ (mkSched (pend sc) (paused sc) (clock sc) (clock sc) (sseq sc) (lvars sc)) s (le_n _)) as Hok.
    destruct (resume store s_end s_kill s_noop s_noop s_noop s_spawn s_spawned _ _ s) as [[sc3 s3] ok]. cbn [snd] in Hok. subst ok.
    unfold mk_obs. destruct (s_obs _) as [[a b] c]. reflexivity.
Qed.

Theorem never_hangs ops : forall ob, In ob (run ops) -> ohang ob = false.
Proof.
  rewrite run_refines_spec. unfold spec_run, grun. generalize (sched_init, store_init).
  induction ops as [|o ops IH]; intros st ob Hin; [destruct Hin|].
  cbn [run_from] in Hin. fold (s_step st o) in Hin. pose proof (s_step_hang st o) as U.
  destruct (s_step st o) as [st' ob']. destruct Hin as [<-|Hin]; [exact U|]. eapply IH; eauto.
Qed.

(* ---- after the resume loop nothing that is due is still waiting ------------------------------------------------ *)
Lemma w_ltb_le a x : wdue (if w_ltb a x then a else x) <= wdue a /\ wdue (if w_ltb a x then a else x) <= wdue x.
Proof.
  unfold w_ltb. destruct (N.ltb_spec (wdue a) (wdue x)); cbn [orb]; [lia|].
  destruct (N.eqb_spec (wdue a) (wdue x)); cbn [andb]; [|lia].
  destruct (wseq a <? wseq x); lia.
Qed.

Lemma min_w_le l : forall x y, In y (x :: l) -> wdue (min_w x l) <= wdue y.
Proof.
  induction l as [|a l IH]; intros x y Hy; cbn [min_w].
  - destruct Hy as [->|[]]. lia.
  - destruct (w_ltb_le a x) as [H1 H2].
    destruct Hy as [E|[E|Hy]].
    + subst y. pose proof (IH (if w_ltb a x then a else x) (if w_ltb a x then a else x) (or_introl eq_refl)). lia.
    + subst y. pose proof (IH (if w_ltb a x then a else x) (if w_ltb a x then a else x) (or_introl eq_refl)). lia.
    + apply IH. now right.
Qed.

Section Due.
  Variable H : Type.
  Variable h_end : N -> endv -> H -> H.
  Variable h_kill : N -> H -> H.
  Variable h_exec h_suspend h_tail : N -> H -> H.
  Variable h_spawn : N -> H -> H * N.
  Variable h_spawned : N -> N -> H -> H.

  Lemma frame_start_helper s t hp : frame (start_helper s t hp) = frame s.
  Proof. unfold start_helper. destruct hp as [|[d a] rest]; reflexivity. Qed.

  Lemma frame_park s h t w ts : frame (fst (park H h_suspend s h t w ts)) = frame s.
  Proof. unfold park. destruct w; reflexivity. Qed.

  Lemma run_simple_frame s h t steps f : frame (fst (run_simple H h_end h_kill h_suspend s h t steps f)) = frame s.
  Proof.
    unfold run_simple. destruct steps as [|[d|d|w hp] rest]; rewrite ?frame_park, ?frame_start_helper; try reflexivity.
    destruct f as [[d|j| |k]| | |d|d| | |n|]; rewrite ?frame_park; reflexivity.
  Qed.

  Lemma run_st_frame subs : forall s h t pre post f,
    frame (fst (run_st H h_end h_kill h_suspend h_tail h_spawn h_spawned s h t pre subs post f)) = frame s.
  Proof.
    induction subs as [|l more IH]; intros s h t pre post f; cbn [run_st].
    - destruct pre as [|[d|d|w hp] rest]; rewrite ?frame_park, ?frame_start_helper; try reflexivity. apply run_simple_frame.
    - destruct pre as [|[d|d|w hp] rest]; rewrite ?frame_park, ?frame_start_helper; try reflexivity.
      destruct (h_spawn t h) as [h1 c].
      pose proof (IH s h1 c (lpre l) (lpost l) (resolve [] (lfin l))) as H1.
      destruct (run_st H h_end h_kill h_suspend h_tail h_spawn h_spawned s h1 c (lpre l) more (lpost l) (resolve [] (lfin l))) as [s2 h2].
      cbn [fst] in H1. now rewrite run_simple_frame.
  Qed.

  Lemma run_thr_frame s h th : frame (fst (run_thr H h_end h_kill h_exec h_suspend h_tail h_spawn h_spawned s h th)) = frame s.
  Proof.
    destruct th as [t ts|t [|]|t hp]; cbn [run_thr].
    - pose proof (run_st_frame (tsubs ts) s (h_exec t h) t (tpre ts) (tpost ts) (tfin ts)) as H1.
      destruct (run_st H h_end h_kill h_suspend h_tail h_spawn h_spawned s (h_exec t h) t (tpre ts) (tsubs ts) (tpost ts) (tfin ts)) as [s1 h1].
      exact H1.
    - reflexivity.
    - destruct (lookup t (paused s)) as [ts|]; reflexivity.
    - destruct hp as [|[d a] rest]; [reflexivity|].
      assert (H1 : frame (fst (helper_act H h_kill h_suspend s h t a)) = frame s).
      { unfold helper_act. destruct a as [e| |]; [destruct (parked_ts s t)|destruct (parked_ts s t)|]; reflexivity. }
      destruct (helper_act H h_kill h_suspend s h t a) as [s1 h1]. cbn [fst] in *. now rewrite frame_start_helper.
  Qed.

  Lemma resume_nothing_due fuel : forall s h, (weight s <= fuel)%nat ->
    frame (fst (fst (resume H h_end h_kill h_exec h_suspend h_tail h_spawn h_spawned fuel s h))) = frame s /\
    forall w, In w (pend (fst (fst (resume H h_end h_kill h_exec h_suspend h_tail h_spawn h_spawned fuel s h)))) -> frame s < wdue w.
  Proof.
    induction fuel as [|fuel IH]; intros s h Hw; cbn [resume].
    - destruct (pend s) as [|x r] eqn:Ep; cbn [fst]; [split; [reflexivity|rewrite Ep; intros w []]|].
      destruct (N.ltb_spec (frame s) (wdue (min_w x r))) as [Hlt|Hge]; cbn [fst].
      + split; [reflexivity|]. rewrite Ep. intros w Hin. pose proof (min_w_le r x w Hin). lia.
      + exfalso. rewrite weight_eq, Ep in Hw. cbn [wweight fold_right] in Hw. destruct (wthr x); cbn [w_thr] in Hw; lia.
    - destruct (pend s) as [|x r] eqn:Ep; cbn [fst]; [split; [reflexivity|rewrite Ep; intros w []]|].
      destruct (N.ltb_spec (frame s) (wdue (min_w x r))) as [Hlt|Hge]; cbn [fst].
      + split; [reflexivity|]. rewrite Ep. intros w Hin. pose proof (min_w_le r x w Hin). lia.
      + set (m := min_w x r).
        set (s1 := mkSched (remove_w (wseq m) (x :: r)) (paused s) (frame s) (clock s) (sseq s) (lvars s)).
        pose proof (run_thr_weight H h_end h_kill h_exec h_suspend h_tail h_spawn h_spawned s1 h (wthr m)) as Hr.
        pose proof (run_thr_frame s1 h (wthr m)) as Hf.
        destruct (run_thr H h_end h_kill h_exec h_suspend h_tail h_spawn h_spawned s1 h (wthr m)) as [s2 h2]. cbn [fst] in Hr, Hf.
        pose proof (wweight_remove m (x :: r) (min_w_in r x)) as Hm. fold m in Hm.
        rewrite (weight_eq s) in Hw. rewrite (weight_eq s1) in Hr. rewrite Ep in Hw. unfold s1 in Hr. cbn [pend paused] in Hr.
        destruct (IH s2 h2) as [F1 F2]; [lia|].
        unfold s1 in Hf. cbn [frame] in Hf. rewrite Hf in F1, F2. split; assumption.
  Qed.
End Due.

(* ---- sensitivity: a move construction that does not re-register (the defect F-C05-a that was
   fixed in /repo) leaves the registry pointing at the dead stack temporary ---------------------- *)
Definition move_construct_unregistered (h : ch) (src : N) : ch * N :=
  match get (cells h) src with
  | Some v => let '(h1, c) := alloc h v in (wr h1 src (VD DNil), c)
  | None => (bad h, ncell h)
  end.

(* the call protocol on the bare cell heap: VM cell 0, temporary 1, newPointer, m_ReturnValue =
   returnValue, the thread waits, the record cell 2 is move-constructed from the temporary, the
   temporary dies, the thread ends with the value d *)
Definition protocol (mc : ch -> N -> ch * N) (d : dval) : ch :=
  let '(c1, rc) := alloc ch_init (VD DNil) in
  let '(c2, tm) := alloc c1 (VD DNil) in
  let c3 := copy_assign (new_pointer c2 tm 0) rc tm in
  let '(c4, sc) := mc c3 tm in
  set_value_ref (destroy c4 tm) 0 d rc.

(* ---- the prologue with explicit targets ----------------------------------------------------------- *)
Lemma prologue_resets k tg loc lv : prologue (PLev k :: tg) [] loc lv = prologue tg [] loc (lset k DNil lv).
Proof. reflexivity. Qed.

Lemma prologue_dup j a loc lv :
  read_target (fst (prologue [PLoc j; PLoc j] [a] loc lv)) (snd (prologue [PLoc j; PLoc j] [a] loc lv)) (PLoc j) = DNil.
Proof. cbn. now rewrite Nat.eqb_refl. Qed.

(* every declared parameter is stored: afterwards a level target reads the argument of its LAST
   declaration, NIL when there was none *)
Lemma prologue_last_level k : forall tg args loc lv, ~ In (PLev k) tg ->
  lget N.eqb k (snd (prologue tg args loc lv)) = lget N.eqb k lv.
Proof.
  induction tg as [|x tg IH]; intros args loc lv Hn; [reflexivity|]. cbn [prologue].
  destruct x as [j|k'].
  - apply IH. intro H. apply Hn. now right.
  - rewrite IH by (intro H; apply Hn; now right). unfold lset. cbn [lget].
    destruct (N.eqb_spec k' k) as [->|]; [exfalso; apply Hn; now left|reflexivity].
Qed.
