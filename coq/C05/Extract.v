(* C05/Extract.v — extraction of the model and the specification (ExtrOcamlBasic only). *)
Require Extraction.
Require Import ExtrOcamlBasic.
From Morfuse Require Import C05.Model C05.Spec.
Extraction "C05_model.ml" run spec_run.
