(* C05/Spec.v - the abstract specification of the host call/return protocol.
   No cells, no ScriptPointer, no registration: the host's view is
     - the set of calls whose thread is alive,
     - a map  call -> result  that gets its entry when the thread ends (Some v for `end v`,
       None for an end without value) and never changes afterwards; a deleted thread never
       gets an entry,
     - records = the argument list plus, optionally, a result slot that NAMES a call (or is
       empty after its value was moved out); what a slot shows is looked up in the map at
       the time of the observation: the value once the call has its entry, "pending" before.
   The parameters of the label are the prefix of the arguments padded with NIL (Model.bind
   is compared with [spec_bind] in the proofs).  When the threads run is the scheduler of
   Model.v (the due-time specification of unit C06), instantiated with this store. *)
From Coq Require Import NArith List Bool.
From Morfuse Require Import Base.Arr C05.Model.
Import ListNotations.
Local Open Scope N_scope.

Inductive sref := SCall (t : N) | SNil.

Record srec := mkSRec { sargs : list dval; sslot : option sref }.

Record store := mkStore {
  alive : list N;                         (* calls whose thread is alive *)
  done : list (N * option dval);          (* call -> result, once the thread has ended *)
  srecs : list (N * srec);
  snrec : N;
  sncall : N }.

Definition store_init : store := mkStore [] [] [] 0 0.

(* parameter i (0-based) of a label declaring np parameters *)
Definition spec_bind (np : nat) (args : list dval) : list dval :=
  map (fun i => nth i args DNil) (List.seq 0 np).

Definition memN (t : N) (l : list N) : bool := existsb (N.eqb t) l.
Definition delN (t : N) (l : list N) : list N := filter (fun x => negb (x =? t)) l.

Definition s_end (t : N) (r : option dval) (s : store) : store :=
  if memN t (alive s)
  then mkStore (delN t (alive s)) ((t, r) :: done s) (srecs s) (snrec s) (sncall s)
  else s.

Definition s_kill (t : N) (s : store) : store :=
  mkStore (delN t (alive s)) (done s) (srecs s) (snrec s) (sncall s).

Definition s_begin (lbl : bool) (s : store) : store * N :=
  let t := sncall s in
  (mkStore (if lbl then alive s ++ [t] else alive s) (done s) (srecs s) (snrec s) (t + 1), t).

(* the record of call t: a result slot unless the thread ended inside the call without a value *)
Definition s_finish (found : bool) (t : N) (args : list dval) (s : store) : store :=
  let slot := if found then
                match lookup t (done s) with
                | Some None | Some (Some DNil) => None
                | _ => Some (SCall t)
                end
              else None in
  mkStore (alive s) (done s) (srecs s ++ [(snrec s, mkSRec args slot)]) (snrec s + 1) (sncall s).

Definition s_alive (t : N) (s : store) : bool := memN t (alive s).

Definition s_copy (r : N) (s : store) : store :=
  match lookup r (srecs s) with
  | Some x => mkStore (alive s) (done s) (srecs s ++ [(snrec s, x)]) (snrec s + 1) (sncall s)
  | None => s
  end.

Definition s_same (r : N) (s : store) : store := s.

Definition s_destroy (r : N) (s : store) : store :=
  mkStore (alive s) (done s) (del r (srecs s)) (snrec s) (sncall s).

Definition sslot_of (r : N) (s : store) : option sref :=
  match lookup r (srecs s) with
  | Some x => sslot x
  | None => None
  end.

Definition set_slot (r : N) (v : sref) (l : list (N * srec)) : list (N * srec) :=
  match lookup r l with
  | Some x => upd r (mkSRec (sargs x) (Some v)) l
  | None => l
  end.

Definition s_assign (r1 r2 : N) (s : store) : store :=
  if r1 =? r2 then s else
  match sslot_of r1 s, sslot_of r2 s with
  | Some _, Some b => mkStore (alive s) (done s) (set_slot r1 b (srecs s)) (snrec s) (sncall s)
  | _, _ => s
  end.

Definition s_massign (r1 r2 : N) (s : store) : store :=
  if r1 =? r2 then s else
  match sslot_of r1 s, sslot_of r2 s with
  | Some _, Some b =>
      mkStore (alive s) (done s) (set_slot r2 SNil (set_slot r1 b (srecs s))) (snrec s) (sncall s)
  | _, _ => s
  end.

Definition s_reset (s : store) : store :=
  mkStore [] (done s) (srecs s) (snrec s) (sncall s).

Definition sref_tok (s : store) (r : sref) : tok :=
  match r with
  | SNil => TD DNil
  | SCall t =>
      match lookup t (done s) with
      | Some (Some d) => TD d
      | Some None => TD DNil
      | None => TPend
      end
  end.

Definition srec_toks (s : store) (r : srec) : list tok :=
  map TD (sargs r) ++ match sslot r with Some x => [sref_tok s x] | None => [] end.

Definition s_obs (s : store) : list (N * list tok) * nat * bool :=
  (map (fun x => (fst x, srec_toks s (snd x))) (srecs s), length (alive s), false).

Definition spec_run (ops : list op) : list obs :=
  grun store store_init s_end s_kill s_begin s_finish s_alive
       s_copy s_same s_same s_destroy s_assign s_massign s_reset s_obs ops.
