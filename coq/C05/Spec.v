(* C05/Spec.v - the abstract specification of the host call/return protocol.
   No cells, no ScriptPointer, no registration: the host's view is
     - the set of threads that are alive (the host-started thread of a call and the sub-threads
       it started with `local.r = thread sub`),
     - a map  thread -> result  that gets its entry when the thread ends: a value for `end v`,
       empty for an end without value and for a thread that is deleted before its end or dies
       in a Reset, and "forwarded to c" for `end local.r` while local.r is the still pending
       result of the thread c: from then on the thread's result IS c's result - when c ends,
       every entry that was forwarded to c becomes c's entry,
     - records = the argument list plus, optionally, a result slot that NAMES a thread (or is
       empty after its value was moved out); what a slot shows is looked up in the map at
       the time of the observation: the value once there is one, "pending" before.
   The parameters of the label are the prefix of the arguments padded with NIL (Model.bind
   is compared with [spec_bind] in the proofs).  When the threads run is the scheduler of
   Model.v (the due-time specification of unit C06), instantiated with this store. *)
From Coq Require Import NArith List Bool.
From Morfuse Require Import Base.Arr C05.Model.
Import ListNotations.
Local Open Scope N_scope.

Inductive sref := SCall (t : N) | SNil.
Inductive entry := RVal (v : option dval) | RFwd (c : N).

Record srec := mkSRec { sargs : list dval; sslot : option sref }.

Record store := mkStore {
  alive : list N;                         (* threads that are alive *)
  done : list (N * entry);                (* thread -> result, once the thread has ended *)
  slocs : list (N * N);                   (* alive thread -> the sub-thread its local.r names *)
  stcall : list (N * N);                  (* thread -> its host call *)
  srecs : list (N * srec);
  snrec : N;
  sncall : N;
  stmps : list N }.                       (* calls / `thread` commands in progress: the thread each waits for *)

Definition store_init : store := mkStore [] [] [] [] [] 0 0 [].

(* parameter i (0-based) of a label declaring np parameters *)
Definition spec_bind (np : nat) (args : list dval) : list dval :=
  map (fun i => nth i args DNil) (List.seq 0 np).

Definition memN (t : N) (l : list N) : bool := existsb (N.eqb t) l.
Definition delN (t : N) (l : list N) : list N := filter (fun x => negb (x =? t)) l.

Definition subst (t : N) (e : entry) (x : N * entry) : N * entry :=
  match snd x with
  | RFwd c => if c =? t then (fst x, e) else x
  | RVal _ => x
  end.

Definition end_entry (s : store) (t : N) (e : endv) : entry :=
  match e with
  | EVal d => RVal (Some d)
  | ENone => RVal None
  | ELocal =>
      match lookup t (slocs s) with
      | Some c => match lookup c (done s) with Some x => x | None => RFwd c end
      | None => RVal (Some DNil)
      end
  end.

Definition s_end (t : N) (e : endv) (s : store) : store :=
  if memN t (alive s) then
    let ent := end_entry s t e in
    mkStore (delN t (alive s)) ((t, ent) :: map (subst t ent) (done s)) (del t (slocs s)) (stcall s)
            (srecs s) (snrec s) (sncall s) (stmps s)
  else s.

(* a deleted thread ends without a value *)
Definition s_kill (t : N) (s : store) : store := s_end t ENone s.

Definition s_thread_begin (call : N) (s : store) : store * N :=
  let t := sncall s in
  (mkStore (alive s ++ [t]) (done s) (slocs s) (stcall s ++ [(t, call)]) (srecs s) (snrec s) (t + 1)
           (t :: stmps s), t).

Definition s_begin (lbl : bool) (s : store) : store * N :=
  if lbl then s_thread_begin (sncall s) s
  else (mkStore (alive s) (done s) (slocs s) (stcall s) (srecs s) (snrec s) (sncall s + 1) (stmps s),
        sncall s).

Definition s_call_of (t : N) (s : store) : N :=
  match lookup t (stcall s) with Some c => c | None => t end.

Definition s_spawn (parent : N) (s : store) : store * N := s_thread_begin (s_call_of parent s) s.

Definition s_spawned (parent child : N) (s : store) : store :=
  match stmps s with
  | u :: rest =>
      if (parent <? u) && match lookup parent (slocs s) with None => true | Some _ => false end then
        mkStore (alive s) (done s) (slocs s ++ [(parent, u)]) (stcall s) (srecs s) (snrec s) (sncall s) rest
      else
        mkStore (alive s) (done s) (slocs s) (stcall s) (srecs s) (snrec s) (sncall s) rest
  | [] => s
  end.

(* the record of the call in progress: a result slot unless its thread ended inside the call
   without a value *)
Definition s_finish (found : bool) (t : N) (args : list dval) (s : store) : store :=
  if found then
    match stmps s with
    | u :: rest =>
        let slot := match lookup u (done s) with
                    | Some (RVal None) | Some (RVal (Some DNil)) => None
                    | _ => Some (SCall u)
                    end in
        mkStore (alive s) (done s) (slocs s) (stcall s) (srecs s ++ [(snrec s, mkSRec args slot)]) (snrec s + 1)
                (sncall s) rest
    | [] =>
        mkStore (alive s) (done s) (slocs s) (stcall s) (srecs s ++ [(snrec s, mkSRec args None)]) (snrec s + 1)
                (sncall s) []
    end
  else
    mkStore (alive s) (done s) (slocs s) (stcall s) (srecs s ++ [(snrec s, mkSRec args None)]) (snrec s + 1)
            (sncall s) (stmps s).

Definition s_alive (t : N) (s : store) : bool := memN t (alive s).

Definition with_srecs (s : store) (l : list (N * srec)) (n : N) : store :=
  mkStore (alive s) (done s) (slocs s) (stcall s) l n (sncall s) (stmps s).

Definition s_copy (r : N) (s : store) : store :=
  match lookup r (srecs s) with
  | Some x => with_srecs s (srecs s ++ [(snrec s, x)]) (snrec s + 1)
  | None => s
  end.

Definition s_same (r : N) (s : store) : store := s.

Definition s_destroy (r : N) (s : store) : store := with_srecs s (del r (srecs s)) (snrec s).

Definition sslot_of (r : N) (s : store) : option sref :=
  match lookup r (srecs s) with
  | Some x => sslot x
  | None => None
  end.

Definition set_slot (r : N) (v : sref) (l : list (N * srec)) : list (N * srec) :=
  match lookup r l with
  | Some x => upd r (mkSRec (sargs x) (Some v)) l
  | None => l
  end.

Definition s_assign (r1 r2 : N) (s : store) : store :=
  if r1 =? r2 then s else
  match sslot_of r1 s, sslot_of r2 s with
  | Some _, Some b => with_srecs s (set_slot r1 b (srecs s)) (snrec s)
  | _, _ => s
  end.

Definition s_massign (r1 r2 : N) (s : store) : store :=
  if r1 =? r2 then s else
  match sslot_of r1 s, sslot_of r2 s with
  | Some _, Some b => with_srecs s (set_slot r2 SNil (set_slot r1 b (srecs s))) (snrec s)
  | _, _ => s
  end.

(* Reset: every alive thread is killed *)
Definition s_reset (s : store) : store := fold_left (fun s t => s_kill t s) (alive s) s.

Definition sref_tok (s : store) (r : sref) : tok :=
  match r with
  | SNil => TD DNil
  | SCall t =>
      match lookup t (done s) with
      | Some (RVal (Some d)) => TD d
      | Some (RVal None) => TD DNil
      | Some (RFwd _) | None => TPend
      end
  end.

Definition srec_toks (s : store) (r : srec) : list tok :=
  map TD (sargs r) ++ match sslot r with Some x => [sref_tok s x] | None => [] end.

Definition s_obs (s : store) : list (N * list tok) * nat * bool :=
  (map (fun x => (fst x, srec_toks s (snd x))) (srecs s), instances (alive s) (stcall s), false).

(* the specification has no VM states *)
Definition s_noop (t : N) (s : store) : store := s.

Definition spec_run (ops : list op) : list obs :=
  grun store store_init s_end s_kill s_noop s_noop s_noop s_spawn s_spawned s_begin s_finish s_alive
       s_copy s_same s_same s_destroy s_assign s_massign s_reset s_obs ops.
