(* C05/Properties.v - the property theorems of C05, and nothing else.
   Every theorem is closed by [exact <lemma>] and followed by Print Assumptions. *)
From Coq Require Import NArith List Bool.
From Morfuse Require Import Base.Arr C05.Model C05.Spec C05.ProofsCells C05.ProofsLib C05.ProofsHeap C05.Proofs C05.ProofsCor C05.ProofsVm.
Import ListNotations.
Local Open Scope N_scope.

(* ---------------------------------------------------------------- the refinement *)

(* For EVERY history of host calls (any argument list, any number of declared parameters,
   any chain of threads - the host-started thread and the sub-threads started with
   `local.r = thread sub` -, each with any program of timed waits / pause+resume and any
   final statement: end <literal>, end <parameter>, end local.r (the sub-thread's result,
   possibly still pending), end, falling off the end, deleted while paused, deleted while
   waiting, deleting itself or deleted by a thread it starts or by an endon while it
   executes, paused for ever; existing or missing label), record copies, relocations, moves,
   destructions, copy and move assignments between result cells, clock advances, Executes
   and Resets, the code-level engine - ScriptVariable cells with identities, ScriptPointer
   registries (add / remove / setValueRef with a plain or a Pointer-typed value, its
   two-holder fast path and its general loop / Clear), every VM's m_ReturnValue and its
   destructor's ClearPointer, the variables local.r, the stack temporaries of
   ScriptThread::Execute(Event&) and Listener::CreateReturnThread - observes exactly what the
   specification observes, where a record's result slot just names a thread and shows that
   thread's entry of the result map (a value, empty, or forwarded to another thread): the
   bound parameters, every element of every record, GetNumRunningScripts, the number of
   threads, and never an access to a dead cell or a freed ScriptPointer. *)
Theorem C05_call_protocol_refines_the_result_map :
  forall ops : list op, run ops = spec_run ops.
Proof. exact run_refines_spec. Qed.
Print Assumptions C05_call_protocol_refines_the_result_map.

Theorem C05_every_operation_keeps_the_simulation :
  forall sc m s o, RM m s ->
    fst (fst (m_step (sc, m) o)) = fst (fst (s_step (sc, s) o)) /\
    snd (m_step (sc, m) o) = snd (s_step (sc, s) o) /\
    RM (snd (fst (m_step (sc, m) o))) (snd (fst (s_step (sc, s) o))).
Proof. exact step_sim. Qed.
Print Assumptions C05_every_operation_keeps_the_simulation.

Theorem C05_every_reachable_state_is_related :
  forall ops,
    fst (m_final ms_init ops) = fst (s_final s_init ops) /\
    R (fst (snd (m_final ms_init ops))) (snd (s_final s_init ops)).
Proof. exact reachable_R. Qed.
Print Assumptions C05_every_reachable_state_is_related.

(* [obs_after ops o] is the observation of operation o after the history ops *)
Theorem C05_obs_after_is_the_last_observation :
  forall ops o, run (ops ++ [o]) = run ops ++ [obs_after ops o].
Proof. exact run_app. Qed.
Print Assumptions C05_obs_after_is_the_last_observation.

(* ---------------------------------------------------------------- parameters *)

(* params_bound_in_order: the OP_STORE_PARAM loop over the fast event binds parameter i to
   argument i, NIL when there are fewer arguments; extra arguments are ignored *)
Theorem C05_params_bound_in_order :
  forall np args, bind np args = spec_bind np args.
Proof. exact params_bound_in_order. Qed.
Print Assumptions C05_params_bound_in_order.

Theorem C05_param_i_is_arg_i_or_nil :
  forall np args i,
    nth i (bind np args) DNil = if Nat.ltb i np then nth i args DNil else DNil.
Proof. exact bind_nth. Qed.
Print Assumptions C05_param_i_is_arg_i_or_nil.

Theorem C05_as_many_params_as_declared :
  forall np args, length (bind np args) = np.
Proof. exact bind_length. Qed.
Print Assumptions C05_as_many_params_as_declared.

(* the prologue with explicit targets (a variable of a longer-lived object, the same local variable
   twice): every declared parameter is STORED - the next argument, or NIL when none is left - also
   when its target already holds a value *)
Theorem C05_a_parameter_without_argument_is_reset_to_nil :
  forall k tg loc lv, prologue (PLev k :: tg) [] loc lv = prologue tg [] loc (lset k DNil lv).
Proof. exact prologue_resets. Qed.
Print Assumptions C05_a_parameter_without_argument_is_reset_to_nil.

Theorem C05_a_repeated_parameter_keeps_the_last_store :
  forall j a loc lv,
    read_target (fst (prologue [PLoc j; PLoc j] [a] loc lv)) (snd (prologue [PLoc j; PLoc j] [a] loc lv)) (PLoc j) = DNil.
Proof. exact prologue_dup. Qed.
Print Assumptions C05_a_repeated_parameter_keeps_the_last_store.

Theorem C05_a_level_parameter_reads_what_its_last_declaration_stored :
  forall k tg args loc lv, ~ In (PLev k) tg ->
    lget N.eqb k (snd (prologue tg args loc lv)) = lget N.eqb k lv.
Proof. exact prologue_last_level. Qed.
Print Assumptions C05_a_level_parameter_reads_what_its_last_declaration_stored.

(* ---------------------------------------------------------------- label not found *)

(* label_not_found_leaves_nothing, from ANY state: the scheduler, every cell and registry, the
   live VMs, the variables, the temporaries and the script instances are unchanged; the only
   new thing is the host's own record holding its arguments *)
Theorem C05_label_not_found_leaves_nothing :
  forall sc (m : mheap) np pt prog args,
    let st' := fst (m_step (sc, m) (OCall false np pt prog args)) in
    let ob := snd (m_step (sc, m) (OCall false np pt prog args)) in
    let h := fst m in let h' := fst (snd st') in
    fst st' = sc /\ snd (snd st') = snd m /\ hc h' = hc h /\ vms h' = vms h /\ locs h' = locs h /\
    tcall h' = tcall h /\ tmps h' = tmps h /\
    recs h' = recs h ++ [(nrec h, mkRec args None)] /\
    ocall ob = CNoLabel /\ onrun ob = instances (map fst (vms h)) (tcall h) /\
    onth ob = (length (pend sc) + length (paused sc))%nat.
Proof. exact label_not_found_leaves_nothing. Qed.
Print Assumptions C05_label_not_found_leaves_nothing.

Theorem C05_label_not_found_leaves_nothing_in_the_specification :
  forall sc s np pt prog args,
    let st' := fst (s_step (sc, s) (OCall false np pt prog args)) in
    fst st' = sc /\ alive (snd st') = alive s /\ done (snd st') = done s /\ slocs (snd st') = slocs s /\
    srecs (snd st') = srecs s ++ [(snrec s, mkSRec args None)].
Proof. exact label_not_found_spec. Qed.
Print Assumptions C05_label_not_found_leaves_nothing_in_the_specification.

(* ---------------------------------------------------------------- the result *)

(* result_sync: after ANY history, a call whose thread ends inside the call with `end r`
   returns with the thread gone and the value d of r (a literal or a parameter) as the last
   element of the record (no element when d is NIL) *)
Theorem C05_result_sync :
  forall ops np r args, r <> RLocal -> (forall k, r <> RLevel k) ->
    let d := eval_res (bind np args) r in
    let ob := obs_after ops (OCall true np [] [mkLevel [] [] (FEnd r)] args) in
    ocall ob = COk false (bind np args) /\
    exists pre k, orecs ob = pre ++ [(k, map TD args ++ slot_toks d)].
Proof. exact result_sync. Qed.
Print Assumptions C05_result_sync.

(* result_async, on the heap: whenever the thread t ends - after whatever schedule of waits,
   pauses and resumes brought it there - with a value, without one, or with the possibly
   still pending result of its sub-thread, EVERY live cell that is pending on t (the record's
   cell, its copies, relocated cells, cells assigned from them, the variable local.r of the
   thread that started t, temporaries of calls in progress) holds exactly what the
   specification's entry for t says, and every other cell is untouched.  The scheduler
   reaches the heap through vm_end / vm_kill / spawn / spawned only. *)
Theorem C05_result_async_every_holder_gets_the_entry :
  forall t e h s rc, R h s -> In (t, rc) (vms h) ->
    forall k, k <> rc -> lookup t (locs h) <> Some k ->
      (holds (hc h) k t -> get (cells (hc (vm_end t e h))) k = Some (entry_val (end_entry s t e))) /\
      (~ holds (hc h) k t -> get (cells (hc (vm_end t e h))) k = get (cells (hc h)) k).
Proof. exact result_delivery. Qed.
Print Assumptions C05_result_async_every_holder_gets_the_entry.

Theorem C05_result_async_every_holder_gets_the_value :
  forall t d h s rc, R h s -> In (t, rc) (vms h) ->
    forall k, k <> rc -> holds (hc h) k t ->
      get (cells (hc (vm_end t (EVal d) h))) k = Some (VD d).
Proof. exact result_fanout. Qed.
Print Assumptions C05_result_async_every_holder_gets_the_value.

Theorem C05_end_without_value_empties_every_holder :
  forall t h s rc, R h s -> In (t, rc) (vms h) ->
    forall k, k <> rc -> holds (hc h) k t ->
      get (cells (hc (vm_end t ENone h))) k = Some (VD DNil).
Proof. exact result_none_fanout. Qed.
Print Assumptions C05_end_without_value_empties_every_holder.

Theorem C05_thread_end_keeps_the_simulation :
  forall t e h s, R h s -> R (vm_end t e h) (s_end t e s) /\ tmps (vm_end t e h) = tmps h.
Proof. exact vm_end_R. Qed.
Print Assumptions C05_thread_end_keeps_the_simulation.

(* ---------------------------------------------------------------- forwarding *)

(* `end local.r` while local.r (the cell x) still holds the pending result of the thread q:
   the specification's entry of t is "forwarded to q", q is alive and younger than t, and
   every holder of t's result - however many there are - is now a registered holder of q's
   result; the ending VM's own cell does not join q (so its destructor cannot clear q) *)
Theorem C05_forwarding_hands_every_holder_to_the_sub_thread :
  forall t h s rc x q, R h s -> In (t, rc) (vms h) ->
    lookup t (locs h) = Some x -> holds (hc h) x q ->
    end_entry s t ELocal = RFwd q /\ In q (alive s) /\ t < q /\
    forall k, k <> rc -> holds (hc h) k t -> holds (hc (vm_end t ELocal h)) k q.
Proof. exact result_forwarded. Qed.
Print Assumptions C05_forwarding_hands_every_holder_to_the_sub_thread.

(* in the specification: what `end local.r` records, and what happens to everything that was
   forwarded to q when q ends (with e = a value, no value / deleted, or a further forward):
   it gets exactly q's entry *)
Theorem C05_end_local_forwards_to_the_sub_thread_or_copies_its_entry :
  forall s t c, lookup t (slocs s) = Some c ->
    end_entry s t ELocal = match lookup c (done s) with Some x => x | None => RFwd c end.
Proof. exact forward_entry. Qed.
Print Assumptions C05_end_local_forwards_to_the_sub_thread_or_copies_its_entry.

Theorem C05_a_forwarded_result_gets_the_sub_threads_entry :
  forall q e s u, In q (alive s) -> lookup u (done s) = Some (RFwd q) ->
    lookup u (done (s_end q e s)) = Some (end_entry s q e).
Proof. exact forwarded_gets_the_entry. Qed.
Print Assumptions C05_a_forwarded_result_gets_the_sub_threads_entry.

Theorem C05_forwarded_to_a_killed_thread_reads_nil :
  forall q s u, In q (alive s) -> lookup u (done s) = Some (RFwd q) ->
    sref_tok (s_kill q s) (SCall u) = TD DNil.
Proof. exact forwarded_to_a_killed_thread_reads_nil. Qed.
Print Assumptions C05_forwarded_to_a_killed_thread_reads_nil.

(* ---------------------------------------------------------------- killed threads, nothing stays pending *)

(* killed = the empty result, at once: the VM's destructor runs ClearPointer, every holder
   becomes NIL, the registry stays exact, the thread is gone and nothing is pending on it *)
Theorem C05_killed_thread_empties_every_holder :
  forall t h s rc, R h s -> In (t, rc) (vms h) ->
    good (hc (vm_kill t h)) /\ thread_alive t (vm_kill t h) = false /\
    (forall k, k <> rc -> holds (hc h) k t -> get (cells (hc (vm_kill t h))) k = Some (VD DNil)) /\
    (forall k, ~ holds (hc (vm_kill t h)) k t).
Proof. exact killed_empties_every_holder. Qed.
Print Assumptions C05_killed_thread_empties_every_holder.

(* ... on BOTH destruction paths: a VM that is deleted while it executes (the thread deletes
   itself, a thread it started deletes it, an endon fires) is only marked by NotifyDelete; its
   destructor - and with it ClearPointer - runs when the interpreter loop has returned *)
Theorem C05_killed_while_executing_empties_every_holder :
  forall t h s rc, R h s -> In (t, rc) (vms h) ->
    good (hc (vm_kill_exec t h)) /\ thread_alive t (vm_kill_exec t h) = false /\
    (forall k, k <> rc -> holds (hc h) k t -> get (cells (hc (vm_kill_exec t h))) k = Some (VD DNil)) /\
    (forall k, ~ holds (hc (vm_kill_exec t h)) k t).
Proof. exact killed_while_executing_empties_every_holder. Qed.
Print Assumptions C05_killed_while_executing_empties_every_holder.

Theorem C05_deletion_while_executing_keeps_the_simulation :
  forall t h s, R h s -> R (vm_kill_exec t h) (s_kill t s) /\ tmps (vm_kill_exec t h) = tmps h.
Proof. exact vm_kill_exec_R. Qed.
Print Assumptions C05_deletion_while_executing_keeps_the_simulation.

Theorem C05_thread_deletion_keeps_the_simulation :
  forall t h s, R h s -> R (vm_kill t h) (s_kill t s) /\ tmps (vm_kill t h) = tmps h.
Proof. exact vm_kill_R. Qed.
Print Assumptions C05_thread_deletion_keeps_the_simulation.

(* nothing stays pending after the threads it could come from are gone: in every reachable
   state a Pointer-typed cell belongs to a thread that is alive; in the specification a slot
   that shows `pending` names an alive thread or was forwarded to one *)
Theorem C05_a_pending_holder_implies_an_alive_thread :
  forall ops k p, holds (hc (fst (snd (m_final ms_init ops)))) k p ->
    exists rc, In (p, rc) (vms (fst (snd (m_final ms_init ops)))).
Proof. exact pending_implies_alive. Qed.
Print Assumptions C05_a_pending_holder_implies_an_alive_thread.

Theorem C05_a_pending_slot_names_an_alive_thread :
  forall ops r a t, In (r, mkSRec a (Some (SCall t))) (srecs (snd (s_final s_init ops))) ->
    sref_tok (snd (s_final s_init ops)) (SCall t) = TPend ->
    (lookup t (done (snd (s_final s_init ops))) = None /\ In t (alive (snd (s_final s_init ops)))) \/
    (exists c, lookup t (done (snd (s_final s_init ops))) = Some (RFwd c) /\ In c (alive (snd (s_final s_init ops)))).
Proof. exact pending_slot_implies_alive. Qed.
Print Assumptions C05_a_pending_slot_names_an_alive_thread.

Theorem C05_reset_leaves_nothing_pending :
  forall h s, R h s ->
    alive (s_reset s) = [] /\ vms (heap_reset h) = [] /\ forall k p, ~ holds (hc (heap_reset h)) k p.
Proof. exact reset_leaves_nothing_pending. Qed.
Print Assumptions C05_reset_leaves_nothing_pending.

(* in the specification: a thread that has its value (or the empty result) keeps it through
   every operation; a deleted thread has the empty result from the deletion on *)
Theorem C05_a_delivered_result_is_stable :
  forall sc h s o t v, R h s -> lookup t (done s) = Some (RVal v) ->
    lookup t (done (snd (fst (s_step (sc, s) o)))) = Some (RVal v).
Proof. exact result_stable. Qed.
Print Assumptions C05_a_delivered_result_is_stable.

Theorem C05_a_killed_call_reads_nil_from_then_on :
  forall t h s, R h s -> In t (alive s) ->
    lookup t (done (s_kill t s)) = Some (RVal None) /\ ~ In t (alive (s_kill t s)) /\
    sref_tok (s_kill t s) (SCall t) = TD DNil.
Proof. exact killed_call_reads_nil. Qed.
Print Assumptions C05_a_killed_call_reads_nil_from_then_on.

Theorem C05_a_killed_call_reads_nil_after_every_later_operation :
  forall sc h s o t, R h s -> lookup t (done s) = Some (RVal None) ->
    sref_tok (snd (fst (s_step (sc, s) o))) (SCall t) = TD DNil.
Proof. exact killed_call_reads_nil_for_ever. Qed.
Print Assumptions C05_a_killed_call_reads_nil_after_every_later_operation.

Theorem C05_a_slot_shows_the_entry_of_its_thread :
  forall s t,
    (lookup t (done s) = None -> sref_tok s (SCall t) = TPend) /\
    (forall d, lookup t (done s) = Some (RVal (Some d)) -> sref_tok s (SCall t) = TD d) /\
    (lookup t (done s) = Some (RVal None) -> sref_tok s (SCall t) = TD DNil) /\
    (forall c, lookup t (done s) = Some (RFwd c) -> sref_tok s (SCall t) = TPend).
Proof. exact slot_shows_result. Qed.
Print Assumptions C05_a_slot_shows_the_entry_of_its_thread.

(* ---------------------------------------------------------------- the VM state machine *)

(* which branch NotifyDelete takes depends on the VM state (m_delete: Idling = deleted at once;
   Running / Suspended = marked, freed by the tail of its Execute).  Between two thread runs - in
   particular whenever a helper thread gives an order to a parked thread - every live VM is Idling:
   Suspend (the end of `t wait e` and `t pause`) finds it Idling and leaves it Idling, and `t delete`
   takes the immediate branch.  This is what the code must guarantee for a parked VM. *)
Theorem C05_every_vm_is_idling_between_thread_runs :
  forall sc m th, all_idle m -> all_idle (snd (m_run_thr sc m th)).
Proof. exact run_thr_idle. Qed.
Print Assumptions C05_every_vm_is_idling_between_thread_runs.

Theorem C05_every_vm_is_idling_between_host_operations :
  forall ops, all_idle (snd (m_final ms_init ops)).
Proof. exact reachable_all_idle. Qed.
Print Assumptions C05_every_vm_is_idling_between_host_operations.

Theorem C05_an_order_to_a_parked_thread_leaves_every_vm_idling :
  forall sc m t a, all_idle m -> all_idle (snd (helper_act mheap m_delete m_suspend sc m t a)).
Proof. exact helper_act_idle. Qed.
Print Assumptions C05_an_order_to_a_parked_thread_leaves_every_vm_idling.

Theorem C05_suspend_leaves_an_idling_vm_as_it_is :
  forall t m, lookup t (snd m) = Some VIdle -> m_suspend t m = m.
Proof. exact suspend_idle_is_noop. Qed.
Print Assumptions C05_suspend_leaves_an_idling_vm_as_it_is.

Theorem C05_deleting_a_parked_thread_takes_the_immediate_branch :
  forall t m, all_idle m ->
    m_delete t m = match lookup t (snd m) with Some _ => (vm_kill t (fst m), del t (snd m)) | None => m end.
Proof. exact delete_of_a_parked_thread_is_immediate. Qed.
Print Assumptions C05_deleting_a_parked_thread_takes_the_immediate_branch.

(* ---------------------------------------------------------------- the scheduler *)

(* the resume loop never runs out of its fuel, and when it returns no waiter that is due
   (due time <= frame time) is left: a thread's last wait that is due at an Execute has
   been resumed - and its result delivered - by the end of that Execute *)
Theorem C05_no_history_hangs :
  forall ops ob, In ob (run ops) -> ohang ob = false.
Proof. exact never_hangs. Qed.
Print Assumptions C05_no_history_hangs.

Theorem C05_resume_leaves_nothing_due :
  forall (H : Type) h_end h_kill h_exec h_suspend h_tail h_spawn h_spawned fuel s (h : H), (weight s <= fuel)%nat ->
    frame (fst (fst (resume H h_end h_kill h_exec h_suspend h_tail h_spawn h_spawned fuel s h))) = frame s /\
    forall w, In w (pend (fst (fst (resume H h_end h_kill h_exec h_suspend h_tail h_spawn h_spawned fuel s h)))) -> frame s < wdue w.
Proof. exact resume_nothing_due. Qed.
Print Assumptions C05_resume_leaves_nothing_due.

(* ---------------------------------------------------------------- pointer_registry_inv *)

(* [good c]: no undefined behaviour happened and the registry is exact: a ScriptPointer's list
   is non-empty, duplicate-free and all its members are live cells of type Pointer pointing to
   it; every live cell of type Pointer is a member of its ScriptPointer's list; cells beyond
   the allocation counter do not exist.  Every cell operation keeps it. *)
Theorem C05_no_history_touches_a_dead_cell :
  forall ops ob, In ob (run ops) -> oub ob = false.
Proof. exact never_ub. Qed.
Print Assumptions C05_no_history_touches_a_dead_cell.

Theorem C05_every_reachable_heap_has_an_exact_registry :
  forall ops, good (hc (fst (snd (m_final ms_init ops)))).
Proof. exact reachable_heap_good. Qed.
Print Assumptions C05_every_reachable_heap_has_an_exact_registry.

Theorem C05_registry_inv_copy_assignment :
  forall h dst src v, good h -> dst <> src -> live h dst -> get (cells h) src = Some v ->
    good (copy_assign h dst src) /\ cells (copy_assign h dst src) = set (cells h) dst (Some v) /\
    ncell (copy_assign h dst src) = ncell h.
Proof. exact copy_assign_ok. Qed.
Print Assumptions C05_registry_inv_copy_assignment.

Theorem C05_registry_inv_move_assignment :
  forall h dst src v, good h -> dst <> src -> live h dst -> get (cells h) src = Some v ->
    good (move_assign h dst src) /\
    cells (move_assign h dst src) = set (set (cells h) dst (Some v)) src (Some (VD DNil)) /\
    ncell (move_assign h dst src) = ncell h.
Proof. exact move_assign_ok. Qed.
Print Assumptions C05_registry_inv_move_assignment.

Theorem C05_registry_inv_copy_construction :
  forall h src v, good h -> get (cells h) src = Some v ->
    good (fst (copy_construct h src)) /\ snd (copy_construct h src) = ncell h /\
    ncell (fst (copy_construct h src)) = ncell h + 1 /\
    forall k, get (cells (fst (copy_construct h src))) k =
              if k =? ncell h then Some v else get (cells h) k.
Proof. exact copy_construct_ok. Qed.
Print Assumptions C05_registry_inv_copy_construction.

Theorem C05_registry_inv_move_construction :
  forall h src v, good h -> get (cells h) src = Some v ->
    good (fst (move_construct h src)) /\ snd (move_construct h src) = ncell h /\
    ncell (fst (move_construct h src)) = ncell h + 1 /\
    forall k, get (cells (fst (move_construct h src))) k =
              if k =? src then Some (VD DNil) else if k =? ncell h then Some v else get (cells h) k.
Proof. exact move_construct_ok. Qed.
Print Assumptions C05_registry_inv_move_construction.

Theorem C05_registry_inv_destruction :
  forall h x, good h -> live h x ->
    good (destroy h x) /\ cells (destroy h x) = set (cells h) x None /\ ncell (destroy h x) = ncell h.
Proof. exact destroy_ok. Qed.
Print Assumptions C05_registry_inv_destruction.

Theorem C05_registry_inv_new_pointer :
  forall h c p d, good h -> get (cells h) c = Some (VD d) -> (forall k, ~ holds h k p) ->
    good (new_pointer h c p) /\ cells (new_pointer h c p) = set (cells h) c (Some (VPtr p)) /\
    ncell (new_pointer h c p) = ncell h.
Proof. exact new_pointer_ok. Qed.
Print Assumptions C05_registry_inv_new_pointer.

Theorem C05_registry_inv_set_value_ref :
  forall h p d ign l, good h -> get (ptrs h) p = Some l ->
    good (set_value_ref h p d ign) /\ ncell (set_value_ref h p d ign) = ncell h /\
    forall k, (holds h k p -> k <> ign -> get (cells (set_value_ref h p d ign)) k = Some (VD d)) /\
              (holds h k p -> exists d', get (cells (set_value_ref h p d ign)) k = Some (VD d')) /\
              (~ holds h k p -> get (cells (set_value_ref h p d ign)) k = get (cells h) k).
Proof. exact set_value_ref_ok. Qed.
Print Assumptions C05_registry_inv_set_value_ref.

Theorem C05_registry_inv_clear_pointer :
  forall h p l, good h -> get (ptrs h) p = Some l ->
    good (ptr_clear h p) /\ ncell (ptr_clear h p) = ncell h /\
    forall k, (holds h k p -> get (cells (ptr_clear h p)) k = Some (VD DNil)) /\
              (~ holds h k p -> get (cells (ptr_clear h p)) k = get (cells h) k).
Proof. exact ptr_clear_ok. Qed.
Print Assumptions C05_registry_inv_clear_pointer.

(* setValueRef with a value that is itself the pending pointer q: every holder of p except the
   ignored variable becomes a registered holder of q, the ignored variable becomes NIL, p is freed *)
Theorem C05_registry_inv_set_value_ref_forward :
  forall h p q ign l lq, good h -> get (ptrs h) p = Some l -> get (ptrs h) q = Some lq -> p <> q ->
    good (set_value_ref_fwd h p q ign) /\ ncell (set_value_ref_fwd h p q ign) = ncell h /\
    forall k, (holds h k p -> k <> ign -> holds (set_value_ref_fwd h p q ign) k q) /\
              (holds h k p -> k = ign -> get (cells (set_value_ref_fwd h p q ign)) k = Some (VD DNil)) /\
              (~ holds h k p -> get (cells (set_value_ref_fwd h p q ign)) k = get (cells h) k).
Proof. exact set_value_ref_fwd_ok. Qed.
Print Assumptions C05_registry_inv_set_value_ref_forward.

(* ---------------------------------------------------------------- non-vacuity *)

Definition view (o : obs) := (ocall o, map (fun r => last (snd r) TDead) (orecs o), onrun o, onth o).
Definition one (steps : list step) (f : fin) : list level := [mkLevel [] steps f].

(* three arguments, two declared parameters, `wait 1; wait 2; end local.p1`: pending after the
   call (frame time 0); the record is copied, relocated, the copy copied; the Executes at
   frame times 1 and 2 deliver nothing; the Execute at frame time 3 delivers the first
   argument to all three holders and the script instance is gone.
   Shown per operation: call outcome, last element of every record, instances, threads. *)
Example C05_async_timed_waits_with_copies :
  map view (run [
    OCall true 2 [] (one [SWait 1; SWait 2] (FEnd (RArg 1))) [DData 0 3; DData 2 1; DData 1 0];
    OCopy 0; OAdvance 1; OExecute; OReserve 0; OCopy 1; OAdvance 1; OExecute; OAdvance 1; OExecute ]) =
  [ (COk true [DData 0 3; DData 2 1], [TPend], 1%nat, 1%nat);
    (CNone, [TPend; TPend], 1%nat, 1%nat);
    (CNone, [TPend; TPend], 1%nat, 1%nat);
    (CNone, [TPend; TPend], 1%nat, 1%nat);
    (CNone, [TPend; TPend], 1%nat, 1%nat);
    (CNone, [TPend; TPend; TPend], 1%nat, 1%nat);
    (CNone, [TPend; TPend; TPend], 1%nat, 1%nat);
    (CNone, [TPend; TPend; TPend], 1%nat, 1%nat);
    (CNone, [TPend; TPend; TPend], 1%nat, 1%nat);
    (CNone, [TD (DData 0 3); TD (DData 0 3); TD (DData 0 3)], 0%nat, 0%nat) ].
Proof. vm_compute. reflexivity. Qed.

(* call 0 pauses and is resumed by its helper after 2 ms; call 1 pauses and is deleted by its
   helper after 1 ms; call 2 names a missing label (nothing changes but the host's own
   record); call 3 declares three parameters, gets one argument and returns the third (NIL:
   no element is added); call 4 returns its first parameter at once; the result cell of
   record 0 is moved into record 4 (record 0 shows NIL, record 4 is now pending on call 0);
   at frame time 1 call 1 is deleted: its record reads NIL from then on; at frame time 2 call
   0 is resumed and its value arrives in record 4. *)
Example C05_pause_kill_nolabel_sync_move :
  map view (run [
    OCall true 0 [] (one [SPause 2] (FEnd (RLit (DData 5 1)))) [];
    OCall true 1 [] (one [] (FKill 1)) [DData 4 2];
    OCall false 3 [] (one [] (FEnd (RLit (DData 0 1)))) [DData 0 1; DNil];
    OCall true 3 [] (one [] (FEnd (RArg 3))) [DData 0 1];
    OCall true 1 [] (one [] (FEnd (RArg 1))) [DData 4 0; DData 0 1];
    OMoveAssign 4 0;
    OAdvance 1; OExecute; OAdvance 1; OExecute ]) =
  [ (COk true [], [TPend], 1%nat, 2%nat);
    (COk true [DData 4 2], [TPend; TPend], 2%nat, 4%nat);
    (CNoLabel, [TPend; TPend; TD DNil], 2%nat, 4%nat);
    (COk false [DData 0 1; DNil; DNil], [TPend; TPend; TD DNil; TD (DData 0 1)], 2%nat, 4%nat);
    (COk false [DData 4 0], [TPend; TPend; TD DNil; TD (DData 0 1); TD (DData 4 0)], 2%nat, 4%nat);
    (CNone, [TD DNil; TPend; TD DNil; TD (DData 0 1); TPend], 2%nat, 4%nat);
    (CNone, [TD DNil; TPend; TD DNil; TD (DData 0 1); TPend], 2%nat, 4%nat);
    (CNone, [TD DNil; TD DNil; TD DNil; TD (DData 0 1); TPend], 1%nat, 2%nat);
    (CNone, [TD DNil; TD DNil; TD DNil; TD (DData 0 1); TPend], 1%nat, 2%nat);
    (CNone, [TD DNil; TD DNil; TD DNil; TD (DData 0 1); TD (DData 5 1)], 0%nat, 0%nat) ].
Proof. vm_compute. reflexivity. Qed.

(* forwarding.  Call 0: `wait 1; local.r = thread s1; end local.r`, s1: `wait 2; end 7`; its
   record is copied at once (three holders of call 0's result when it forwards at frame time 1)
   and once more afterwards.  Call 1 (record 2): a chain - the host thread waits 3 and ends with
   the result of s1, which waits 1 and ends with the result of s2, which waits 5 and ends with a
   string.  Call 2 (record 3) ends inside the call with the pending result of a sub-thread that
   is deleted at frame time 2: the record stays pending until then and reads NIL afterwards.
   At frame time 3 the sub-thread of call 0 ends: all three records of call 0 read 7; at frame
   time 5 the end of the chain arrives in record 2. *)
Example C05_forwarded_results :
  map view (run [
    OCall true 0 [] [mkLevel [SWait 1] [] (FEnd RLocal); mkLevel [] [SWait 2] (FEnd (RLit (DData 0 7)))] [];
    OCopy 0;
    OCall true 0 [] [mkLevel [] [SWait 3] (FEnd RLocal); mkLevel [] [SWait 1] (FEnd RLocal);
                  mkLevel [SWait 5] [] (FEnd (RLit (DData 2 1)))] [];
    OCall true 0 [] [mkLevel [] [] (FEnd RLocal); mkLevel [] [] (FKill 2)] [];
    OAdvance 1; OExecute; OCopy 0; OAdvance 1; OExecute; OAdvance 1; OExecute; OAdvance 2; OExecute ]) =
  [ (COk true [], [TPend], 1%nat, 1%nat);
    (CNone, [TPend; TPend], 1%nat, 1%nat);
    (COk true [], [TPend; TPend; TPend], 2%nat, 4%nat);
    (COk false [], [TPend; TPend; TPend; TPend], 3%nat, 6%nat);
    (CNone, [TPend; TPend; TPend; TPend], 3%nat, 6%nat);
    (CNone, [TPend; TPend; TPend; TPend], 3%nat, 5%nat);
    (CNone, [TPend; TPend; TPend; TPend; TPend], 3%nat, 5%nat);
    (CNone, [TPend; TPend; TPend; TPend; TPend], 3%nat, 5%nat);
    (CNone, [TPend; TPend; TPend; TD DNil; TPend], 2%nat, 3%nat);
    (CNone, [TPend; TPend; TPend; TD DNil; TPend], 2%nat, 3%nat);
    (CNone, [TD (DData 0 7); TD (DData 0 7); TPend; TD DNil; TD (DData 0 7)], 1%nat, 1%nat);
    (CNone, [TD (DData 0 7); TD (DData 0 7); TPend; TD DNil; TD (DData 0 7)], 1%nat, 1%nat);
    (CNone, [TD (DData 0 7); TD (DData 0 7); TD (DData 2 1); TD DNil; TD (DData 0 7)], 0%nat, 0%nat) ].
Proof. vm_compute. reflexivity. Qed.

(* orders from another thread to a parked thread.  Call 0 waits 5 ms; its helper re-arms the wait
   after 1 ms (`t wait 5`: due at 6) and deletes the thread 1 ms later: the record and its copy
   read NIL at frame time 2 - the VM was Idling, so it is deleted (and its result resolved) at once.
   Call 1 pauses; its helper orders `t pause` after 1 ms (no effect) and `t wait 1` 2 ms later:
   the thread resumes at frame time 4 and its value arrives. *)
Example C05_orders_to_parked_threads :
  map view (run [
    OCall true 0 [] [mkLevel [] [SPark (Some 5) [(1, AWait 5); (1, ADelete)]] (FEnd (RLit (DData 0 1)))] [];
    OCall true 0 [] [mkLevel [] [SPark None [(1, APause); (2, AWait 1)]] (FEnd (RLit (DData 0 2)))] [];
    OCopy 0;
    OAdvance 1; OExecute; OAdvance 1; OExecute; OAdvance 1; OExecute; OAdvance 1; OExecute ]) =
  [ (COk true [], [TPend], 1%nat, 2%nat);
    (COk true [], [TPend; TPend], 2%nat, 4%nat);
    (CNone, [TPend; TPend; TPend], 2%nat, 4%nat);
    (CNone, [TPend; TPend; TPend], 2%nat, 4%nat);
    (CNone, [TPend; TPend; TPend], 2%nat, 4%nat);
    (CNone, [TPend; TPend; TPend], 2%nat, 4%nat);
    (CNone, [TD DNil; TPend; TD DNil], 1%nat, 2%nat);
    (CNone, [TD DNil; TPend; TD DNil], 1%nat, 2%nat);
    (CNone, [TD DNil; TPend; TD DNil], 1%nat, 1%nat);
    (CNone, [TD DNil; TPend; TD DNil], 1%nat, 1%nat);
    (CNone, [TD DNil; TD (DData 0 2); TD DNil], 0%nat, 0%nat) ].
Proof. vm_compute. reflexivity. Qed.

(* parameters that already hold a value.  `go level.q0 local.p2:` called with (1, 7) stores 1 in
   level.q0; a later call of the same declaration with no argument must reset it to NIL (the call in
   between and the one after read it with `end level.q0`); `go local.p1 local.p1:` with one argument
   ends with local.p1 = NIL. *)
Example C05_parameters_that_already_hold_a_value :
  map view (run [
    OCall true 2 [PLev 0; PLoc 2] (one [] (FEnd (RArg 2))) [DData 0 1; DData 0 7];
    OCall true 0 [] (one [] (FEnd (RLevel 0))) [];
    OCall true 2 [PLev 0; PLoc 2] (one [] (FEnd (RArg 2))) [];
    OCall true 0 [] (one [] (FEnd (RLevel 0))) [];
    OCall true 2 [PLoc 1; PLoc 1] (one [] (FEnd (RArg 1))) [DData 0 3] ]) =
  [ (COk false [DData 0 1; DData 0 7], [TD (DData 0 7)], 0%nat, 0%nat);
    (COk false [], [TD (DData 0 7); TD (DData 0 1)], 0%nat, 0%nat);
    (COk false [DNil; DNil], [TD (DData 0 7); TD (DData 0 1); TDead], 0%nat, 0%nat);
    (COk false [], [TD (DData 0 7); TD (DData 0 1); TDead; TDead], 0%nat, 0%nat);
    (COk false [DNil; DNil], [TD (DData 0 7); TD (DData 0 1); TDead; TDead; TD (DData 0 3)], 0%nat, 0%nat) ].
Proof. vm_compute. reflexivity. Qed.

(* sensitivity of the invariant.  [protocol mc d] replays the call protocol on the bare cell heap
   (VM cell 0, stack temporary 1, newPointer, m_ReturnValue = returnValue, the record cell 2 is
   constructed from the temporary by mc, the temporary dies, the thread ends with d).  With the
   move construction of the code the record cell receives d; with a move construction that does
   not re-register (a defect that was fixed in /repo) the delivery writes through the dead
   temporary (ub) and the record cell stays pending for ever.
   Shown: (ub, content of the record cell, registry of the ScriptPointer). *)
Example C05_registered_move_construction_delivers :
  (let h := protocol move_construct (DData 0 7) in (ub h, get (cells h) 2, get (ptrs h) 0)) =
  (false, Some (VD (DData 0 7)), None).
Proof. vm_compute. reflexivity. Qed.

Example C05_unregistered_move_construction_dangles :
  (let h := protocol move_construct_unregistered (DData 0 7) in (ub h, get (cells h) 2, get (ptrs h) 0)) =
  (true, Some (VPtr 0), None).
Proof. vm_compute. reflexivity. Qed.
