(* C05/Properties.v - the property theorems of C05, and nothing else.
   Every theorem is closed by [exact <lemma>] and followed by Print Assumptions. *)
From Coq Require Import NArith List Bool.
From Morfuse Require Import Base.Arr C05.Model C05.Spec C05.ProofsCells C05.ProofsHeap C05.Proofs C05.ProofsCor.
Import ListNotations.
Local Open Scope N_scope.

(* ---------------------------------------------------------------- the refinement *)

(* For EVERY history of host calls (any argument list, any number of declared parameters,
   any program of timed waits / pause+resume, any final statement: end <literal>, end
   <parameter>, end, falling off the end, deleted while paused, deleted while waiting,
   paused for ever; existing or missing label), record copies, relocations, moves,
   destructions, copy and move assignments between result cells, clock advances, Executes
   and Resets, the code-level engine - ScriptVariable cells with identities, ScriptPointer
   registries (add / remove / setValueRef with its two-holder special case / Clear), the
   VM's m_ReturnValue, the stack temporary of ScriptThread::Execute(Event&) that is moved
   into the record - observes exactly what the specification observes, where a record's
   result slot just names a call and shows that call's entry of the result map: the bound
   parameters, every element of every record, GetNumRunningScripts, the number of threads,
   and never an access to a dead cell or a freed ScriptPointer. *)
Theorem C05_call_protocol_refines_the_result_map :
  forall ops : list op, run ops = spec_run ops.
Proof. exact run_refines_spec. Qed.
Print Assumptions C05_call_protocol_refines_the_result_map.

Theorem C05_every_operation_keeps_the_simulation :
  forall sc h s o, R h s [] ->
    fst (fst (m_step (sc, h) o)) = fst (fst (s_step (sc, s) o)) /\
    snd (m_step (sc, h) o) = snd (s_step (sc, s) o) /\
    R (snd (fst (m_step (sc, h) o))) (snd (fst (s_step (sc, s) o))) [].
Proof. exact step_sim. Qed.
Print Assumptions C05_every_operation_keeps_the_simulation.

Theorem C05_every_reachable_state_is_related :
  forall ops,
    fst (m_final m_init ops) = fst (s_final s_init ops) /\
    R (snd (m_final m_init ops)) (snd (s_final s_init ops)) [].
Proof. exact reachable_R. Qed.
Print Assumptions C05_every_reachable_state_is_related.

(* [obs_after ops o] is the observation of operation o after the history ops *)
Theorem C05_obs_after_is_the_last_observation :
  forall ops o, run (ops ++ [o]) = run ops ++ [obs_after ops o].
Proof. exact run_app. Qed.
Print Assumptions C05_obs_after_is_the_last_observation.

(* ---------------------------------------------------------------- parameters *)

(* params_bound_in_order: the OP_STORE_PARAM loop over the fast event binds parameter i to
   argument i, NIL when there are fewer arguments; extra arguments are ignored *)
Theorem C05_params_bound_in_order :
  forall np args, bind np args = spec_bind np args.
Proof. exact params_bound_in_order. Qed.
Print Assumptions C05_params_bound_in_order.

Theorem C05_param_i_is_arg_i_or_nil :
  forall np args i,
    nth i (bind np args) DNil = if Nat.ltb i np then nth i args DNil else DNil.
Proof. exact bind_nth. Qed.
Print Assumptions C05_param_i_is_arg_i_or_nil.

Theorem C05_as_many_params_as_declared :
  forall np args, length (bind np args) = np.
Proof. exact bind_length. Qed.
Print Assumptions C05_as_many_params_as_declared.

(* ---------------------------------------------------------------- label not found *)

(* label_not_found_leaves_nothing, from ANY state: the scheduler, every cell and registry,
   the live VMs and the number of script instances are unchanged; the only new thing is the
   host's own record holding its arguments *)
Theorem C05_label_not_found_leaves_nothing :
  forall sc h np steps f args,
    let st' := fst (m_step (sc, h) (OCall false np steps f args)) in
    let ob := snd (m_step (sc, h) (OCall false np steps f args)) in
    fst st' = sc /\ hc (snd st') = hc h /\ vms (snd st') = vms h /\ ninst (snd st') = ninst h /\
    recs (snd st') = recs h ++ [(nrec h, mkRec args None)] /\
    ocall ob = CNoLabel /\ onrun ob = ninst h /\ onth ob = (length (pend sc) + length (paused sc))%nat.
Proof. exact label_not_found_leaves_nothing. Qed.
Print Assumptions C05_label_not_found_leaves_nothing.

Theorem C05_label_not_found_leaves_nothing_in_the_specification :
  forall sc s np steps f args,
    let st' := fst (s_step (sc, s) (OCall false np steps f args)) in
    fst st' = sc /\ alive (snd st') = alive s /\ done (snd st') = done s /\
    srecs (snd st') = srecs s ++ [(snrec s, mkSRec args None)].
Proof. exact label_not_found_spec. Qed.
Print Assumptions C05_label_not_found_leaves_nothing_in_the_specification.

(* ---------------------------------------------------------------- the result *)

(* result_sync: after ANY history, a call whose thread ends inside the call with `end r`
   returns with the thread gone and the value d of r (a literal or a parameter) as the last
   element of the record (no element when d is NIL) *)
Theorem C05_result_sync :
  forall ops np r args,
    let d := eval_res (bind np args) r in
    let ob := obs_after ops (OCall true np [] (FEnd r) args) in
    ocall ob = COk false (bind np args) /\
    exists pre k, orecs ob = pre ++ [(k, map TD args ++ slot_toks d)].
Proof. exact result_sync. Qed.
Print Assumptions C05_result_sync.

(* result_async, on the heap: whenever the thread t ends with `end d` - after whatever
   schedule of waits, pauses and resumes brought it there - EVERY live cell that is pending
   on t (the record's cell, its copies, relocated cells, cells assigned from them) holds d
   afterwards.  The scheduler reaches the heap through vm_end / vm_kill only. *)
Theorem C05_result_async_every_holder_gets_the_value :
  forall t d h s xs rc, R h s xs -> In (t, rc) (vms h) ->
    forall k, k <> rc -> holds (hc h) k t ->
      get (cells (hc (vm_end t (Some d) h))) k = Some (VD d).
Proof. exact result_fanout. Qed.
Print Assumptions C05_result_async_every_holder_gets_the_value.

Theorem C05_end_without_value_empties_every_holder :
  forall t h s xs rc, R h s xs -> In (t, rc) (vms h) ->
    forall k, k <> rc -> holds (hc h) k t ->
      get (cells (hc (vm_end t None h))) k = Some (VD DNil).
Proof. exact result_none_fanout. Qed.
Print Assumptions C05_end_without_value_empties_every_holder.

Theorem C05_thread_end_keeps_the_simulation :
  forall t r h s xs, R h s xs -> R (vm_end t r h) (s_end t r s) xs /\ tmp (vm_end t r h) = tmp h.
Proof. exact vm_end_R. Qed.
Print Assumptions C05_thread_end_keeps_the_simulation.

(* killed = no result: the holders stay pending, the registry stays exact (nothing refers to
   the destroyed m_ReturnValue) and the thread is gone *)
Theorem C05_killed_thread_leaves_its_holders_pending :
  forall t h s xs rc, R h s xs -> In (t, rc) (vms h) ->
    good (hc (vm_kill t h)) /\ thread_alive t (vm_kill t h) = false /\
    forall k, k <> rc -> holds (hc h) k t -> holds (hc (vm_kill t h)) k t.
Proof. exact killed_stays_pending. Qed.
Print Assumptions C05_killed_thread_leaves_its_holders_pending.

Theorem C05_thread_deletion_keeps_the_simulation :
  forall t h s xs, R h s xs -> R (vm_kill t h) (s_kill t s) xs /\ tmp (vm_kill t h) = tmp h.
Proof. exact vm_kill_R. Qed.
Print Assumptions C05_thread_deletion_keeps_the_simulation.

(* in the specification: a call that has its result keeps it through every operation; a call
   whose thread is gone without a result never gets one *)
Theorem C05_a_delivered_result_is_stable :
  forall sc h s o t x, R h s [] -> lookup t (done s) = Some x ->
    lookup t (done (snd (fst (s_step (sc, s) o)))) = Some x.
Proof. exact result_stable. Qed.
Print Assumptions C05_a_delivered_result_is_stable.

Theorem C05_a_killed_call_never_gets_a_result :
  forall sc h s o t, R h s [] -> t < sncall s -> ~ In t (alive s) -> lookup t (done s) = None ->
    let s' := snd (fst (s_step (sc, s) o)) in ~ In t (alive s') /\ lookup t (done s') = None.
Proof. exact killed_never_delivers. Qed.
Print Assumptions C05_a_killed_call_never_gets_a_result.

Theorem C05_a_slot_shows_the_entry_of_its_call :
  forall s t,
    (lookup t (done s) = None -> sref_tok s (SCall t) = TPend) /\
    (forall d, lookup t (done s) = Some (Some d) -> sref_tok s (SCall t) = TD d) /\
    (lookup t (done s) = Some None -> sref_tok s (SCall t) = TD DNil).
Proof. exact slot_shows_result. Qed.
Print Assumptions C05_a_slot_shows_the_entry_of_its_call.

(* ---------------------------------------------------------------- the scheduler *)

(* the resume loop never runs out of its fuel, and when it returns no waiter that is due
   (due time <= frame time) is left: a thread's last wait that is due at an Execute has
   been resumed - and its result delivered - by the end of that Execute *)
Theorem C05_no_history_hangs :
  forall ops ob, In ob (run ops) -> ohang ob = false.
Proof. exact never_hangs. Qed.
Print Assumptions C05_no_history_hangs.

Theorem C05_resume_leaves_nothing_due :
  forall (H : Type) h_end h_kill fuel s (h : H), (weight s <= fuel)%nat ->
    frame (fst (fst (resume H h_end h_kill fuel s h))) = frame s /\
    forall w, In w (pend (fst (fst (resume H h_end h_kill fuel s h)))) -> frame s < wdue w.
Proof. exact resume_nothing_due. Qed.
Print Assumptions C05_resume_leaves_nothing_due.

(* ---------------------------------------------------------------- pointer_registry_inv *)

(* [good c]: no undefined behaviour happened and the registry is exact: a ScriptPointer's list
   is non-empty, duplicate-free and all its members are live cells of type Pointer pointing to
   it; every live cell of type Pointer is a member of its ScriptPointer's list; cells beyond
   the allocation counter do not exist.  Every cell operation keeps it. *)
Theorem C05_no_history_touches_a_dead_cell :
  forall ops ob, In ob (run ops) -> oub ob = false.
Proof. exact never_ub. Qed.
Print Assumptions C05_no_history_touches_a_dead_cell.

Theorem C05_every_reachable_heap_has_an_exact_registry :
  forall ops, good (hc (snd (m_final m_init ops))).
Proof. exact reachable_heap_good. Qed.
Print Assumptions C05_every_reachable_heap_has_an_exact_registry.

Theorem C05_registry_inv_copy_assignment :
  forall h dst src v, good h -> dst <> src -> live h dst -> get (cells h) src = Some v ->
    good (copy_assign h dst src) /\ cells (copy_assign h dst src) = set (cells h) dst (Some v) /\
    ncell (copy_assign h dst src) = ncell h.
Proof. exact copy_assign_ok. Qed.
Print Assumptions C05_registry_inv_copy_assignment.

Theorem C05_registry_inv_move_assignment :
  forall h dst src v, good h -> dst <> src -> live h dst -> get (cells h) src = Some v ->
    good (move_assign h dst src) /\
    cells (move_assign h dst src) = set (set (cells h) dst (Some v)) src (Some (VD DNil)) /\
    ncell (move_assign h dst src) = ncell h.
Proof. exact move_assign_ok. Qed.
Print Assumptions C05_registry_inv_move_assignment.

Theorem C05_registry_inv_copy_construction :
  forall h src v, good h -> get (cells h) src = Some v ->
    good (fst (copy_construct h src)) /\ snd (copy_construct h src) = ncell h /\
    ncell (fst (copy_construct h src)) = ncell h + 1 /\
    forall k, get (cells (fst (copy_construct h src))) k =
              if k =? ncell h then Some v else get (cells h) k.
Proof. exact copy_construct_ok. Qed.
Print Assumptions C05_registry_inv_copy_construction.

Theorem C05_registry_inv_move_construction :
  forall h src v, good h -> get (cells h) src = Some v ->
    good (fst (move_construct h src)) /\ snd (move_construct h src) = ncell h /\
    ncell (fst (move_construct h src)) = ncell h + 1 /\
    forall k, get (cells (fst (move_construct h src))) k =
              if k =? src then Some (VD DNil) else if k =? ncell h then Some v else get (cells h) k.
Proof. exact move_construct_ok. Qed.
Print Assumptions C05_registry_inv_move_construction.

Theorem C05_registry_inv_destruction :
  forall h x, good h -> live h x ->
    good (destroy h x) /\ cells (destroy h x) = set (cells h) x None /\ ncell (destroy h x) = ncell h.
Proof. exact destroy_ok. Qed.
Print Assumptions C05_registry_inv_destruction.

Theorem C05_registry_inv_new_pointer :
  forall h c p d, good h -> get (cells h) c = Some (VD d) -> (forall k, ~ holds h k p) ->
    good (new_pointer h c p) /\ cells (new_pointer h c p) = set (cells h) c (Some (VPtr p)) /\
    ncell (new_pointer h c p) = ncell h.
Proof. exact new_pointer_ok. Qed.
Print Assumptions C05_registry_inv_new_pointer.

Theorem C05_registry_inv_set_value_ref :
  forall h p d ign l, good h -> get (ptrs h) p = Some l ->
    good (set_value_ref h p d ign) /\ ncell (set_value_ref h p d ign) = ncell h /\
    forall k, (holds h k p -> k <> ign -> get (cells (set_value_ref h p d ign)) k = Some (VD d)) /\
              (holds h k p -> exists d', get (cells (set_value_ref h p d ign)) k = Some (VD d')) /\
              (~ holds h k p -> get (cells (set_value_ref h p d ign)) k = get (cells h) k).
Proof. exact set_value_ref_ok. Qed.
Print Assumptions C05_registry_inv_set_value_ref.

Theorem C05_registry_inv_clear_pointer :
  forall h p l, good h -> get (ptrs h) p = Some l ->
    good (ptr_clear h p) /\ ncell (ptr_clear h p) = ncell h /\
    forall k, (holds h k p -> get (cells (ptr_clear h p)) k = Some (VD DNil)) /\
              (~ holds h k p -> get (cells (ptr_clear h p)) k = get (cells h) k).
Proof. exact ptr_clear_ok. Qed.
Print Assumptions C05_registry_inv_clear_pointer.

(* ---------------------------------------------------------------- non-vacuity *)

Definition view (o : obs) := (ocall o, map (fun r => last (snd r) TDead) (orecs o), onrun o, onth o).

(* three arguments, two declared parameters, `wait 1; wait 2; end local.p1`: pending after the
   call (frame time 0); the record is copied, relocated, the copy copied; the Executes at
   frame times 1 and 2 deliver nothing; the Execute at frame time 3 delivers the first
   argument to all three holders and the script instance is gone.
   Shown per operation: call outcome, last element of every record, instances, threads. *)
Example C05_async_timed_waits_with_copies :
  map view (run [
    OCall true 2 [SWait 1; SWait 2] (FEnd (RArg 1)) [DData 0 3; DData 2 1; DData 1 0];
    OCopy 0; OAdvance 1; OExecute; OReserve 0; OCopy 1; OAdvance 1; OExecute; OAdvance 1; OExecute ]) =
  [ (COk true [DData 0 3; DData 2 1], [TPend], 1%nat, 1%nat);
    (CNone, [TPend; TPend], 1%nat, 1%nat);
    (CNone, [TPend; TPend], 1%nat, 1%nat);
    (CNone, [TPend; TPend], 1%nat, 1%nat);
    (CNone, [TPend; TPend], 1%nat, 1%nat);
    (CNone, [TPend; TPend; TPend], 1%nat, 1%nat);
    (CNone, [TPend; TPend; TPend], 1%nat, 1%nat);
    (CNone, [TPend; TPend; TPend], 1%nat, 1%nat);
    (CNone, [TPend; TPend; TPend], 1%nat, 1%nat);
    (CNone, [TD (DData 0 3); TD (DData 0 3); TD (DData 0 3)], 0%nat, 0%nat) ].
Proof. vm_compute. reflexivity. Qed.

(* call 0 pauses and is resumed by its helper after 2 ms; call 1 pauses and is deleted by its
   helper after 1 ms; call 2 names a missing label (nothing changes but the host's own
   record); call 3 declares three parameters, gets one argument and returns the third (NIL:
   no element is added); call 4 returns its first parameter at once; the result cell of
   record 0 is moved into record 4 (record 0 shows NIL, record 4 is now pending on call 0);
   at frame time 1 call 1 is deleted: its record stays pending for ever; at frame time 2 call
   0 is resumed and its value arrives in record 4. *)
Example C05_pause_kill_nolabel_sync_move :
  map view (run [
    OCall true 0 [SPause 2] (FEnd (RLit (DData 5 1))) [];
    OCall true 1 [] (FKill 1) [DData 4 2];
    OCall false 3 [] (FEnd (RLit (DData 0 1))) [DData 0 1; DNil];
    OCall true 3 [] (FEnd (RArg 3)) [DData 0 1];
    OCall true 1 [] (FEnd (RArg 1)) [DData 4 0; DData 0 1];
    OMoveAssign 4 0;
    OAdvance 1; OExecute; OAdvance 1; OExecute ]) =
  [ (COk true [], [TPend], 1%nat, 2%nat);
    (COk true [DData 4 2], [TPend; TPend], 2%nat, 4%nat);
    (CNoLabel, [TPend; TPend; TD DNil], 2%nat, 4%nat);
    (COk false [DData 0 1; DNil; DNil], [TPend; TPend; TD DNil; TD (DData 0 1)], 2%nat, 4%nat);
    (COk false [DData 4 0], [TPend; TPend; TD DNil; TD (DData 0 1); TD (DData 4 0)], 2%nat, 4%nat);
    (CNone, [TD DNil; TPend; TD DNil; TD (DData 0 1); TPend], 2%nat, 4%nat);
    (CNone, [TD DNil; TPend; TD DNil; TD (DData 0 1); TPend], 2%nat, 4%nat);
    (CNone, [TD DNil; TPend; TD DNil; TD (DData 0 1); TPend], 1%nat, 2%nat);
    (CNone, [TD DNil; TPend; TD DNil; TD (DData 0 1); TPend], 1%nat, 2%nat);
    (CNone, [TD DNil; TPend; TD DNil; TD (DData 0 1); TD (DData 5 1)], 0%nat, 0%nat) ].
Proof. vm_compute. reflexivity. Qed.

(* sensitivity of the invariant.  [protocol mc d] replays the call protocol on the bare cell heap
   (VM cell 0, stack temporary 1, newPointer, m_ReturnValue = returnValue, the record cell 2 is
   constructed from the temporary by mc, the temporary dies, the thread ends with d).  With the
   move construction of the code the record cell receives d; with a move construction that does
   not re-register (the defect that was fixed in /repo) the delivery writes through the dead
   temporary (ub) and the record cell stays pending for ever.
   Shown: (ub, content of the record cell, registry of the ScriptPointer). *)
Example C05_registered_move_construction_delivers :
  (let h := protocol move_construct (DData 0 7) in (ub h, get (cells h) 2, get (ptrs h) 0)) =
  (false, Some (VD (DData 0 7)), None).
Proof. vm_compute. reflexivity. Qed.

Example C05_unregistered_move_construction_dangles :
  (let h := protocol move_construct_unregistered (DData 0 7) in (ub h, get (cells h) 2, get (ptrs h) 0)) =
  (true, Some (VPtr 0), None).
Proof. vm_compute. reflexivity. Qed.
