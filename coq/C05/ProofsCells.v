(* C05/ProofsCells.v - the cell heap: the registry invariant ("every live Pointer-typed cell is
   registered in its ScriptPointer and nothing else is") and its preservation by every cell
   operation, together with what each operation does to the cell contents. *)
From Coq Require Import NArith List Bool Lia.
From Morfuse Require Import Base.Arr Base.ListX C05.Model.
Import ListNotations.
Local Open Scope N_scope.

Definition holds (h : ch) (c p : N) : Prop := get (cells h) c = Some (VPtr p).
Definition live (h : ch) (c : N) : Prop := get (cells h) c <> None.

(* the registry invariant, with the cell x (if any) detached: x is in no registry and what
   it holds is not constrained *)
Record reg_ex (h : ch) (x : option N) : Prop := mkRegEx {
  re_reg : forall p l, get (ptrs h) p = Some l ->
           l <> [] /\ NoDup l /\ (forall c, In c l -> holds h c p /\ Some c <> x);
  re_cell : forall c p, Some c <> x -> holds h c p -> exists l, get (ptrs h) p = Some l /\ In c l;
  re_fresh : forall c, ncell h <= c -> get (cells h) c = None }.

Definition reg_inv (h : ch) : Prop := reg_ex h None.
Definition good (h : ch) : Prop := ub h = false /\ reg_inv h.

(* ---- remove1 ---------------------------------------------------------------------- *)
Lemma remove1_notin x l : ~ In x l -> remove1 x l = l.
Proof.
  induction l as [|a l IH]; cbn; intro H; [reflexivity|].
  destruct (N.eqb_spec a x) as [->|Hn]; [exfalso; apply H; now left|].
  f_equal. apply IH. intro Hin. apply H. now right.
Qed.

Lemma remove1_in x l c : NoDup l -> (In c (remove1 x l) <-> In c l /\ c <> x).
Proof.
  induction l as [|a l IH]; cbn; intro Hnd; [tauto|].
  inversion Hnd as [|a' l' Hna Hnd']; subst.
  destruct (N.eqb_spec a x) as [->|Hn].
  - split.
    + intro H. split; [now right|]. intro E. subst. contradiction.
    + intros [[E|H] Hc]; [congruence|exact H].
  - cbn. rewrite IH by exact Hnd'. split.
    + intros [E|[H Hc]]; [subst; split; [now left|exact Hn]|split; [now right|exact Hc]].
    + intros [[E|H] Hc]; [now left|right; split; assumption].
Qed.

Lemma remove1_nodup x l : NoDup l -> NoDup (remove1 x l).
Proof.
  induction l as [|a l IH]; cbn; intro Hnd; [constructor|].
  inversion Hnd as [|a' l' Hna Hnd']; subst.
  destruct (N.eqb_spec a x) as [->|Hn]; [exact Hnd'|].
  constructor; [|now apply IH].
  intro H. apply remove1_in in H; [|exact Hnd']. tauto.
Qed.

Lemma nodup_snoc (l : list N) x : NoDup l -> ~ In x l -> NoDup (l ++ [x]).
Proof.
  intros H1 H2. apply nodup_app_intro; [exact H1|repeat constructor; intros []|].
  intros y Hy [E|[]]. subst. contradiction.
Qed.

(* ---- field facts ---------------------------------------------------------------------- *)
Lemma wr_live h c v : live h c ->
  wr h c v = mkCh (set (cells h) c (Some v)) (ptrs h) (ncell h) (ub h).
Proof. unfold live, wr. intro H. destruct (get (cells h) c); [reflexivity|congruence]. Qed.

Lemma cells_clear_internal h x : cells (clear_internal h x) = cells h.
Proof.
  unfold clear_internal, ptr_remove, bad.
  destruct (get (cells h) x) as [[d|p]|]; try reflexivity.
  destruct (get (ptrs h) p); reflexivity.
Qed.

Lemma ncell_clear_internal h x : ncell (clear_internal h x) = ncell h.
Proof.
  unfold clear_internal, ptr_remove, bad.
  destruct (get (cells h) x) as [[d|p]|]; try reflexivity.
  destruct (get (ptrs h) p); reflexivity.
Qed.

Lemma wr_ptr_add h x v p c : wr (ptr_add h p c) x v = ptr_add (wr h x v) p c.
Proof.
  unfold wr, ptr_add, bad.
  destruct (get (ptrs h) p) eqn:Ep; cbn; destruct (get (cells h) x) eqn:Ex; cbn;
    rewrite ?Ep, ?Ex; reflexivity.
Qed.

Lemma wr_ptr_remove h x v p c : wr (ptr_remove h p c) x v = ptr_remove (wr h x v) p c.
Proof.
  unfold wr, ptr_remove, bad.
  destruct (get (ptrs h) p) eqn:Ep; cbn; destruct (get (cells h) x) eqn:Ex; cbn;
    rewrite ?Ep, ?Ex; reflexivity.
Qed.

(* ---- detach / attach -------------------------------------------------------------------- *)
Lemma detach_ok h x : good h -> live h x ->
  ub (clear_internal h x) = false /\ reg_ex (clear_internal h x) (Some x).
Proof.
  intros [Hub [Hreg Hcell Hfresh]] Hl.
  unfold clear_internal. unfold live in Hl.
  destruct (get (cells h) x) as [[d|p]|] eqn:Ex; [| |congruence].
  - (* plain data: already detached *)
    split; [exact Hub|]. constructor.
    + intros p l Hp. destruct (Hreg p l Hp) as (H1 & H2 & H3). repeat split; auto.
      * now apply H3.
      * intro E. injection E as ->. apply H3 in H. destruct H as [H _]. unfold holds in H. congruence.
    + intros c p _ Hh. apply Hcell; [discriminate|exact Hh].
    + exact Hfresh.
  - (* a pointer: leave its registry *)
    destruct (Hcell x p) as [l [Hp Hin]]; [discriminate|exact Ex|].
    destruct (Hreg p l Hp) as (Hne & Hnd & Hh).
    unfold ptr_remove. rewrite Hp. cbn. split; [exact Hub|]. constructor; cbn.
    + intros q lq Hq. rewrite get_set in Hq. destruct (N.eqb_spec q p) as [->|Hqp].
      * assert (E : remove1 x l = lq) by (destruct (remove1 x l); congruence).
        assert (Hlq : lq <> []) by (destruct (remove1 x l); congruence).
        subst lq. split; [exact Hlq|]. split; [now apply remove1_nodup|].
        intros c Hc. apply remove1_in in Hc; [|exact Hnd]. destruct Hc as [Hc Hcx].
        split; [now apply Hh|congruence].
      * destruct (Hreg q lq Hq) as (H1 & H2 & H3). repeat split; auto.
        -- now apply H3.
        -- intro E. injection E as ->. apply H3 in H. destruct H as [H _]. unfold holds in H.
           rewrite Ex in H. congruence.
    + intros c q Hcx Hq. destruct (Hcell c q) as [lq [Hlq Hinq]]; [discriminate|exact Hq|].
      destruct (N.eqb_spec q p) as [->|Hqp].
      * assert (l = lq) by congruence. subst lq.
        assert (Hr : In c (remove1 x l)) by (apply remove1_in; [exact Hnd|split; [exact Hinq|congruence]]).
        exists (remove1 x l). split; [|exact Hr]. rewrite gss. destruct (remove1 x l); [destruct Hr|reflexivity].
      * exists lq. split; [|exact Hinq]. rewrite gso by exact Hqp. exact Hlq.
    + exact Hfresh.
Qed.

Lemma attach_ok h x v : ub h = false -> reg_ex h (Some x) -> live h x ->
  (forall p, v = VPtr p -> exists l, get (ptrs h) p = Some l) ->
  good (set_data h x v) /\ cells (set_data h x v) = set (cells h) x (Some v) /\
  ncell (set_data h x v) = ncell h.
Proof.
  intros Hub [Hreg Hcell Hfresh] Hl Hp.
  unfold set_data. rewrite (wr_live _ _ _ Hl).
  destruct v as [d|p].
  - cbn. split; [|split; reflexivity]. split; [exact Hub|]. constructor; cbn.
    + intros q lq Hq. destruct (Hreg q lq Hq) as (H1 & H2 & H3). repeat split; auto; [|discriminate].
      destruct (H3 c H) as [Hh Hcx]. unfold holds in *. cbn. rewrite gso by congruence. exact Hh.
    + intros c q _ Hh. unfold holds in Hh. cbn in Hh. rewrite get_set in Hh.
      destruct (N.eqb_spec c x) as [->|Hcx]; [discriminate|].
      apply Hcell; [congruence|exact Hh].
    + intros c Hc. rewrite get_set. destruct (N.eqb_spec c x) as [->|Hcx]; [|now apply Hfresh].
      exfalso. apply Hl. now apply Hfresh.
  - destruct (Hp p eq_refl) as [l Hl0]. unfold ptr_add. cbn. rewrite Hl0. cbn.
    split; [|split; reflexivity]. split; [exact Hub|].
    destruct (Hreg p l Hl0) as (Hne & Hnd & Hh).
    assert (Hxl : ~ In x l) by (intro H; apply Hh in H; destruct H as [_ H]; congruence).
    constructor; cbn.
    + intros q lq Hq. rewrite get_set in Hq. destruct (N.eqb_spec q p) as [->|Hqp].
      * injection Hq as <-. split; [destruct l; discriminate|]. split; [now apply nodup_snoc|].
        intros c Hc. split; [|discriminate]. unfold holds. cbn. rewrite get_set.
        destruct (N.eqb_spec c x) as [->|Hcx]; [reflexivity|].
        apply in_app_or in Hc. destruct Hc as [Hc|[E|[]]]; [|congruence]. now apply Hh.
      * destruct (Hreg q lq Hq) as (H1 & H2 & H3). repeat split; auto; [|discriminate].
        destruct (H3 c H) as [Hh' Hcx]. unfold holds in *. cbn. rewrite gso by congruence. exact Hh'.
    + intros c q _ Hq. unfold holds in Hq. cbn in Hq. rewrite get_set in Hq.
      destruct (N.eqb_spec c x) as [->|Hcx].
      * injection Hq as <-. exists (l ++ [x]). rewrite gss. split; [reflexivity|]. apply in_or_app. right. now left.
      * destruct (Hcell c q) as [lq [Hlq Hinq]]; [congruence|exact Hq|].
        destruct (N.eqb_spec q p) as [->|Hqp].
        -- assert (l = lq) by congruence. subst lq. exists (l ++ [x]). rewrite gss. split; [reflexivity|].
           apply in_or_app. now left.
        -- exists lq. rewrite gso by exact Hqp. split; assumption.
    + intros c Hc. rewrite get_set. destruct (N.eqb_spec c x) as [->|Hcx]; [|now apply Hfresh].
      exfalso. apply Hl. now apply Hfresh.
Qed.

(* ---- the cell operations -------------------------------------------------------------- *)
Definition clear_to_nil (h : ch) (x : N) : ch := wr (clear_internal h x) x (VD DNil).

Lemma live_clear_internal h x c : live h c -> live (clear_internal h x) c.
Proof. unfold live. now rewrite cells_clear_internal. Qed.

Theorem clear_to_nil_ok h x : good h -> live h x ->
  good (clear_to_nil h x) /\ cells (clear_to_nil h x) = set (cells h) x (Some (VD DNil)) /\
  ncell (clear_to_nil h x) = ncell h.
Proof.
  intros Hg Hl. destruct (detach_ok h x Hg Hl) as [Hub Hre].
  destruct (attach_ok (clear_internal h x) x (VD DNil) Hub Hre) as (H1 & H2 & H3).
  - now apply live_clear_internal.
  - discriminate.
  - unfold clear_to_nil. unfold set_data in *. rewrite cells_clear_internal in H2.
    rewrite ncell_clear_internal in H3. auto.
Qed.

Theorem copy_assign_ok h dst src v : good h -> dst <> src -> live h dst ->
  get (cells h) src = Some v ->
  good (copy_assign h dst src) /\ cells (copy_assign h dst src) = set (cells h) dst (Some v) /\
  ncell (copy_assign h dst src) = ncell h.
Proof.
  intros Hg Hne Hl Hs. unfold copy_assign. rewrite Hs.
  destruct (detach_ok h dst Hg Hl) as [Hub Hre].
  destruct (attach_ok (clear_internal h dst) dst v Hub Hre) as (H1 & H2 & H3).
  - now apply live_clear_internal.
  - intros p ->. destruct (re_cell _ _ Hre src p) as [l [Hlp _]]; [congruence| |now exists l].
    unfold holds. now rewrite cells_clear_internal.
  - rewrite cells_clear_internal in H2. rewrite ncell_clear_internal in H3. auto.
Qed.

Lemma move_assign_eq h dst src v : dst <> src -> get (cells h) src = Some v ->
  move_assign h dst src = clear_to_nil (copy_assign h dst src) src.
Proof.
  intros Hne Hs. unfold move_assign, copy_assign, clear_to_nil.
  rewrite cells_clear_internal, Hs. set (h1 := clear_internal h dst).
  assert (Hs1 : get (cells h1) src = Some v) by (unfold h1; now rewrite cells_clear_internal).
  assert (Hs2 : get (cells (wr h1 dst v)) src = Some v).
  { unfold wr. destruct (get (cells h1) dst); cbn; [rewrite gso by congruence|]; exact Hs1. }
  destruct v as [d|p].
  - unfold set_data, clear_internal at 1. rewrite Hs2. reflexivity.
  - unfold set_data, clear_internal at 1.
    assert (Hs3 : get (cells (ptr_add (wr h1 dst (VPtr p)) p dst)) src = Some (VPtr p)).
    { unfold ptr_add, bad. destruct (get (ptrs (wr h1 dst (VPtr p))) p); exact Hs2. }
    rewrite Hs3. rewrite wr_ptr_remove, wr_ptr_add. reflexivity.
Qed.

Theorem move_assign_ok h dst src v : good h -> dst <> src -> live h dst ->
  get (cells h) src = Some v ->
  good (move_assign h dst src) /\
  cells (move_assign h dst src) = set (set (cells h) dst (Some v)) src (Some (VD DNil)) /\
  ncell (move_assign h dst src) = ncell h.
Proof.
  intros Hg Hne Hl Hs. rewrite (move_assign_eq h dst src v Hne Hs).
  destruct (copy_assign_ok h dst src v Hg Hne Hl Hs) as (G1 & C1 & N1).
  destruct (clear_to_nil_ok (copy_assign h dst src) src G1) as (G2 & C2 & N2).
  - unfold live. rewrite C1, gso by congruence. congruence.
  - rewrite C2, C1, N2, N1. auto.
Qed.

Lemma alloc_detached h v : good h ->
  ub (fst (alloc h v)) = false /\ reg_ex (fst (alloc h v)) (Some (ncell h)).
Proof.
  intros [Hub [Hreg Hcell Hfresh]]. cbn. split; [exact Hub|]. constructor; cbn.
  - intros p l Hp. destruct (Hreg p l Hp) as (H1 & H2 & H3). split; [exact H1|]. split; [exact H2|].
    intros c Hc. destruct (H3 c Hc) as [Hh _].
    assert (Hn : c <> ncell h).
    { intro E; subst. unfold holds in Hh. rewrite Hfresh in Hh by lia. discriminate. }
    split; [|congruence]. unfold holds in *. cbn. rewrite gso by assumption. exact Hh.
  - intros c p Hc Hh. unfold holds in Hh. cbn in Hh. rewrite gso in Hh by congruence.
    apply Hcell; [discriminate|exact Hh].
  - intros c Hc. rewrite gso by lia. apply Hfresh. lia.
Qed.

Lemma attach_data h x d : reg_ex h (Some x) -> get (cells h) x = Some (VD d) -> reg_inv h.
Proof.
  intros [Hreg Hcell Hfresh] Hx. constructor.
  - intros p l Hp. destruct (Hreg p l Hp) as (H1 & H2 & H3). split; [exact H1|]. split; [exact H2|].
    intros c Hc. split; [now apply H3|discriminate].
  - intros c p _ Hh. apply Hcell; [|exact Hh]. intro E. injection E as ->. unfold holds in Hh. congruence.
  - exact Hfresh.
Qed.

Lemma attach_ptr h x p l : reg_ex h (Some x) -> holds h x p -> get (ptrs h) p = Some l ->
  reg_inv (ptr_add h p x) /\ cells (ptr_add h p x) = cells h /\ ncell (ptr_add h p x) = ncell h /\
  ub (ptr_add h p x) = ub h.
Proof.
  intros [Hreg Hcell Hfresh] Hx Hl0. unfold ptr_add. rewrite Hl0. cbn.
  split; [|repeat split].
  destruct (Hreg p l Hl0) as (Hne & Hnd & Hh).
  assert (Hxl : ~ In x l) by (intro H; apply Hh in H; destruct H as [_ H]; congruence).
  constructor; cbn.
  - intros q lq Hq. rewrite get_set in Hq. destruct (N.eqb_spec q p) as [->|Hqp].
    + injection Hq as <-. split; [destruct l; discriminate|]. split; [now apply nodup_snoc|].
      intros c Hc. split; [|discriminate].
      apply in_app_or in Hc. destruct Hc as [Hc|[E|[]]]; [now apply Hh|subst; exact Hx].
    + destruct (Hreg q lq Hq) as (H1 & H2 & H3). split; [exact H1|]. split; [exact H2|].
      intros c Hc. split; [now apply H3|discriminate].
  - intros c q _ Hq. destruct (N.eqb_spec c x) as [->|Hcx].
    + unfold holds in *. cbn in *. assert (q = p) by congruence. subst q.
      exists (l ++ [x]). rewrite gss. split; [reflexivity|]. apply in_or_app. right. now left.
    + destruct (Hcell c q) as [lq [Hlq Hinq]]; [congruence|exact Hq|].
      destruct (N.eqb_spec q p) as [->|Hqp].
      * assert (l = lq) by congruence. subst lq. exists (l ++ [x]). rewrite gss. split; [reflexivity|].
        apply in_or_app. now left.
      * exists lq. rewrite gso by exact Hqp. split; assumption.
  - exact Hfresh.
Qed.

Theorem alloc_ok h d : good h ->
  good (fst (alloc h (VD d))) /\ snd (alloc h (VD d)) = ncell h /\
  cells (fst (alloc h (VD d))) = set (cells h) (ncell h) (Some (VD d)) /\
  ncell (fst (alloc h (VD d))) = ncell h + 1.
Proof.
  intro Hg. destruct (alloc_detached h (VD d) Hg) as [Hub Hre].
  split; [|cbn; auto]. split; [exact Hub|].
  apply (attach_data _ (ncell h) d Hre). cbn. apply gss.
Qed.

Lemma fresh_ne h src v : good h -> get (cells h) src = Some v -> src <> ncell h.
Proof.
  intros [_ [_ _ Hf]] Hs E. subst. rewrite Hf in Hs by lia. discriminate.
Qed.

Theorem copy_construct_ok h src v : good h -> get (cells h) src = Some v ->
  good (fst (copy_construct h src)) /\ snd (copy_construct h src) = ncell h /\
  ncell (fst (copy_construct h src)) = ncell h + 1 /\
  forall k, get (cells (fst (copy_construct h src))) k =
            if k =? ncell h then Some v else get (cells h) k.
Proof.
  intros Hg Hs. unfold copy_construct.
  destruct (alloc_ok h DNil Hg) as (G1 & S1 & C1 & N1).
  destruct (alloc h (VD DNil)) as [h1 c] eqn:Ea. cbn in *. subst c.
  assert (Hsrc : src <> ncell h) by (eapply fresh_ne; eauto).
  destruct (copy_assign_ok h1 (ncell h) src v G1) as (G2 & C2 & N2).
  - congruence.
  - unfold live. rewrite C1, gss. discriminate.
  - rewrite C1, gso by exact Hsrc. exact Hs.
  - split; [exact G2|]. split; [reflexivity|]. split; [congruence|].
    intro k. rewrite C2, C1, !get_set. destruct (k =? ncell h); reflexivity.
Qed.

Lemma cells_ptr_add h p c : cells (ptr_add h p c) = cells h.
Proof. unfold ptr_add, bad. destruct (get (ptrs h) p); reflexivity. Qed.

Theorem move_construct_ok h src v : good h -> get (cells h) src = Some v ->
  good (fst (move_construct h src)) /\ snd (move_construct h src) = ncell h /\
  ncell (fst (move_construct h src)) = ncell h + 1 /\
  forall k, get (cells (fst (move_construct h src))) k =
            if k =? src then Some (VD DNil) else if k =? ncell h then Some v else get (cells h) k.
Proof.
  intros Hg Hs.
  assert (Hsrc : src <> ncell h) by (eapply fresh_ne; eauto).
  destruct (alloc_detached h v Hg) as [Hub Hre].
  unfold move_construct. rewrite Hs. cbn [alloc fst snd] in *.
  set (h1 := mkCh (set (cells h) (ncell h) (Some v)) (ptrs h) (ncell h + 1) (ub h)) in *.
  assert (Hs1 : get (cells h1) src = Some v) by (cbn; rewrite gso by exact Hsrc; exact Hs).
  destruct v as [d|p].
  - (* plain data *)
    assert (G1 : good h1).
    { split; [exact Hub|]. apply (attach_data _ (ncell h) d Hre). cbn. apply gss. }
    assert (E : wr h1 src (VD DNil) = clear_to_nil h1 src).
    { unfold clear_to_nil, clear_internal. rewrite Hs1. reflexivity. }
    cbn [fst snd]. rewrite E.
    destruct (clear_to_nil_ok h1 src G1) as (G2 & C2 & N2); [unfold live; congruence|].
    split; [exact G2|]. split; [reflexivity|]. split; [rewrite N2; reflexivity|].
    intro k. rewrite C2. cbn. rewrite !get_set. reflexivity.
  - (* a pointer *)
    destruct Hg as [Hub0 Hinv].
    destruct (re_cell _ _ Hinv src p) as [l [Hl Hin]]; [discriminate|exact Hs|].
    destruct (attach_ptr h1 (ncell h) p l Hre) as (G1 & C1 & N1 & U1).
    { unfold holds. cbn. apply gss. }
    { exact Hl. }
    cbn [fst snd].
    rewrite <- wr_ptr_add, <- wr_ptr_remove.
    assert (E : ptr_remove (ptr_add h1 p (ncell h)) p src = clear_internal (ptr_add h1 p (ncell h)) src).
    { unfold clear_internal. rewrite C1, Hs1. reflexivity. }
    rewrite E. fold (clear_to_nil (ptr_add h1 p (ncell h)) src).
    destruct (clear_to_nil_ok (ptr_add h1 p (ncell h)) src) as (G2 & C2 & N2).
    + split; [rewrite U1; exact Hub|exact G1].
    + unfold live. rewrite C1. congruence.
    + split; [exact G2|]. split; [reflexivity|]. split; [rewrite N2, N1; reflexivity|].
      intro k. rewrite C2, C1. cbn. rewrite !get_set. reflexivity.
Qed.

Theorem destroy_ok h x : good h -> live h x ->
  good (destroy h x) /\ cells (destroy h x) = set (cells h) x None /\ ncell (destroy h x) = ncell h.
Proof.
  intros Hg Hl. destruct (detach_ok h x Hg Hl) as [Hub [Hreg Hcell Hfresh]].
  unfold destroy. rewrite cells_clear_internal, ncell_clear_internal in *.
  split; [|split; reflexivity]. split; [exact Hub|]. constructor; cbn.
  - intros p l Hp. destruct (Hreg p l Hp) as (H1 & H2 & H3). split; [exact H1|]. split; [exact H2|].
    intros c Hc. destruct (H3 c Hc) as [Hh Hcx]. split; [|discriminate].
    unfold holds in *. cbn. rewrite cells_clear_internal in Hh. rewrite gso by congruence. exact Hh.
  - intros c p _ Hh. unfold holds in Hh. cbn in Hh. rewrite get_set in Hh.
    destruct (N.eqb_spec c x) as [->|Hcx]; [discriminate|].
    apply Hcell; [congruence|]. unfold holds. rewrite cells_clear_internal. exact Hh.
  - intros c Hc. rewrite get_set. destruct (N.eqb_spec c x); [reflexivity|].
    rewrite ?cells_clear_internal. now apply Hfresh.
Qed.

Theorem new_pointer_ok h c p d : good h -> get (cells h) c = Some (VD d) ->
  (forall k, ~ holds h k p) ->
  good (new_pointer h c p) /\ cells (new_pointer h c p) = set (cells h) c (Some (VPtr p)) /\
  ncell (new_pointer h c p) = ncell h.
Proof.
  intros [Hub [Hreg Hcell Hfresh]] Hc Hno. unfold new_pointer.
  split; [|split; reflexivity]. split; [exact Hub|].
  assert (Hp : get (ptrs h) p = None).
  { destruct (get (ptrs h) p) as [l|] eqn:E; [|reflexivity].
    destruct (Hreg p l E) as (H1 & _ & H3). destruct l as [|a l]; [congruence|].
    exfalso. apply (Hno a). apply H3. now left. }
  constructor; cbn.
  - intros q lq Hq. rewrite get_set in Hq. destruct (N.eqb_spec q p) as [->|Hqp].
    + injection Hq as <-. split; [discriminate|]. split; [repeat constructor; intros []|].
      intros k [<-|[]]. split; [|discriminate]. unfold holds. cbn. apply gss.
    + destruct (Hreg q lq Hq) as (H1 & H2 & H3). split; [exact H1|]. split; [exact H2|].
      intros k Hk. split; [|discriminate]. destruct (H3 k Hk) as [Hh _]. unfold holds in *. cbn.
      rewrite gso; [exact Hh|]. intro E. subst. congruence.
  - intros k q _ Hq. unfold holds in Hq. cbn in Hq. rewrite get_set in Hq.
    destruct (N.eqb_spec k c) as [->|Hkc].
    + injection Hq as <-. exists [c]. rewrite gss. split; [reflexivity|now left].
    + destruct (Hcell k q) as [lq [Hlq Hin]]; [discriminate|exact Hq|].
      exists lq. split; [|exact Hin]. rewrite gso; [exact Hlq|]. intro E. subst. apply (Hno k). exact Hq.
  - intros k Hk. rewrite get_set. destruct (N.eqb_spec k c) as [->|Hkc]; [|now apply Hfresh].
    rewrite Hfresh in Hc by exact Hk. discriminate.
Qed.

(* ---- delivery: setValueRef / Clear ------------------------------------------------------ *)
Lemma wr_ok h c v : live h c ->
  cells (wr h c v) = set (cells h) c (Some v) /\ ptrs (wr h c v) = ptrs h /\
  ncell (wr h c v) = ncell h /\ ub (wr h c v) = ub h /\ forall k, live h k -> live (wr h c v) k.
Proof.
  intro Hl. rewrite (wr_live _ _ _ Hl). cbn. repeat split.
  intros k Hk. unfold live in *. cbn. rewrite get_set. destruct (k =? c); [discriminate|exact Hk].
Qed.

Lemma set_all_ok l : forall h d, (forall c, In c l -> live h c) ->
  ptrs (set_all h l d) = ptrs h /\ ub (set_all h l d) = ub h /\ ncell (set_all h l d) = ncell h /\
  forall k, get (cells (set_all h l d)) k =
            if existsb (N.eqb k) l then Some (VD d) else get (cells h) k.
Proof.
  induction l as [|a l IH]; intros h d Hl; cbn.
  - repeat split.
  - destruct (wr_ok h a (VD d)) as (C1 & P1 & N1 & U1 & L1); [apply Hl; now left|].
    destruct (IH (wr h a (VD d)) d) as (P2 & U2 & N2 & C2).
    { intros c Hc. apply L1. apply Hl. now right. }
    unfold set_all in *. cbn. rewrite P2, U2, N2, P1, U1, N1. repeat split.
    intro k. rewrite C2, C1, get_set. destruct (k =? a); cbn; [|reflexivity].
    destruct (existsb (N.eqb k) l); reflexivity.
Qed.

Lemma existsb_eqb_in k l : existsb (N.eqb k) l = true <-> In k l.
Proof.
  rewrite existsb_exists. split.
  - intros [x [Hx E]]. apply N.eqb_eq in E. now subst.
  - intro H. exists k. split; [exact H|apply N.eqb_refl].
Qed.

(* after every registered holder of p got plain data and p was freed, the heap is good *)
Lemma delivered_good h h' p l :
  good h -> get (ptrs h) p = Some l ->
  ub h' = false -> ptrs h' = set (ptrs h) p None -> ncell h' = ncell h ->
  (forall k, In k l -> exists d', get (cells h') k = Some (VD d')) ->
  (forall k, ~ In k l -> get (cells h') k = get (cells h) k) ->
  good h'.
Proof.
  intros [Hub [Hreg Hcell Hfresh]] Hp Hub' Hptrs Hn Hin Hout.
  destruct (Hreg p l Hp) as (Hne & Hnd & Hh).
  assert (Hmem : forall k, holds h k p -> In k l).
  { intros k Hk. destruct (Hcell k p) as [l' [E Hi]]; [discriminate|exact Hk|]. congruence. }
  split; [exact Hub'|]. constructor.
  - intros q lq Hq. rewrite Hptrs, get_set in Hq. destruct (N.eqb_spec q p) as [->|Hqp]; [discriminate|].
    destruct (Hreg q lq Hq) as (H1 & H2 & H3). split; [exact H1|]. split; [exact H2|].
    intros k Hk. split; [|discriminate]. destruct (H3 k Hk) as [Hkq _].
    unfold holds in *. rewrite Hout; [exact Hkq|].
    intro Hkl. apply Hh in Hkl. destruct Hkl as [Hkp _]. unfold holds in Hkp. congruence.
  - intros k q _ Hq. unfold holds in Hq.
    assert (Hkl : ~ In k l).
    { intro Hkl. destruct (Hin k Hkl) as [d' E]. congruence. }
    rewrite Hout in Hq by exact Hkl.
    destruct (Hcell k q) as [lq [Hlq Hi]]; [discriminate|exact Hq|].
    exists lq. split; [|exact Hi]. rewrite Hptrs, gso; [exact Hlq|].
    intro E. subst. apply Hkl. now apply Hmem.
  - intros k Hk. rewrite Hn in Hk.
    destruct (in_dec N.eq_dec k l) as [Hkl|Hkl].
    + apply Hh in Hkl. destruct Hkl as [Hkp _]. unfold holds in Hkp. rewrite Hfresh in Hkp by exact Hk. discriminate.
    + rewrite Hout by exact Hkl. now apply Hfresh.
Qed.

Lemma holds_iff_in h p l : good h -> get (ptrs h) p = Some l -> forall k, holds h k p <-> In k l.
Proof.
  intros [_ [Hreg Hcell _]] Hp k. split.
  - intro Hk. destruct (Hcell k p) as [l' [E Hi]]; [discriminate|exact Hk|]. congruence.
  - intro Hk. destruct (Hreg p l Hp) as (_ & _ & H). now apply H.
Qed.

Lemma deliver_one_ok d ign h a : live h a ->
  ptrs (deliver_one d ign h a) = ptrs h /\ ub (deliver_one d ign h a) = ub h /\
  ncell (deliver_one d ign h a) = ncell h /\
  (forall k, get (cells (deliver_one d ign h a)) k =
             if k =? a then Some (VD (if a =? ign then DNil else d)) else get (cells h) k) /\
  forall k, live h k -> live (deliver_one d ign h a) k.
Proof.
  intro Hl. unfold deliver_one.
  destruct (wr_ok h a (VD DNil) Hl) as (C1 & P1 & N1 & U1 & L1).
  destruct (a =? ign).
  - repeat split; auto. intro k. now rewrite C1, get_set.
  - destruct (wr_ok (wr h a (VD DNil)) a (VD d)) as (C2 & P2 & N2 & U2 & L2); [now apply L1|].
    rewrite P2, U2, N2, P1, U1, N1. repeat split; auto.
    intro k. rewrite C2, C1, !get_set. destruct (k =? a); reflexivity.
Qed.

Lemma deliver_all_ok d ign l : forall h, (forall c, In c l -> live h c) ->
  ptrs (fold_left (deliver_one d ign) l h) = ptrs h /\ ub (fold_left (deliver_one d ign) l h) = ub h /\
  ncell (fold_left (deliver_one d ign) l h) = ncell h /\
  forall k, get (cells (fold_left (deliver_one d ign) l h)) k =
            if existsb (N.eqb k) l then Some (VD (if k =? ign then DNil else d)) else get (cells h) k.
Proof.
  induction l as [|a l IH]; intros h Hl; cbn [fold_left existsb].
  - repeat split.
  - destruct (deliver_one_ok d ign h a) as (P1 & U1 & N1 & C1 & L1); [apply Hl; now left|].
    destruct (IH (deliver_one d ign h a)) as (P2 & U2 & N2 & C2).
    { intros c Hc. apply L1, Hl. now right. }
    rewrite P2, U2, N2, P1, U1, N1. repeat split.
    intro k. rewrite C2, C1. destruct (N.eqb_spec k a) as [->|Hn]; cbn [orb]; [|reflexivity].
    destruct (existsb (N.eqb a) l); reflexivity.
Qed.

Theorem set_value_ref_ok h p d ign l : good h -> get (ptrs h) p = Some l ->
  good (set_value_ref h p d ign) /\ ncell (set_value_ref h p d ign) = ncell h /\
  forall k, (holds h k p -> k <> ign -> get (cells (set_value_ref h p d ign)) k = Some (VD d)) /\
            (holds h k p -> exists d', get (cells (set_value_ref h p d ign)) k = Some (VD d')) /\
            (~ holds h k p -> get (cells (set_value_ref h p d ign)) k = get (cells h) k).
Proof.
  intros Hg Hp.
  pose proof (holds_iff_in h p l Hg Hp) as Hiff.
  assert (Hlive : forall c, In c l -> live h c).
  { intros c Hc. apply Hiff in Hc. unfold holds, live in *. congruence. }
  (* the general branch *)
  assert (General :
    good (free_ptr (fold_left (deliver_one d ign) (rev l) h) p) /\
    ncell (free_ptr (fold_left (deliver_one d ign) (rev l) h) p) = ncell h /\
    forall k, (holds h k p -> k <> ign -> get (cells (free_ptr (fold_left (deliver_one d ign) (rev l) h) p)) k = Some (VD d)) /\
              (holds h k p -> exists d', get (cells (free_ptr (fold_left (deliver_one d ign) (rev l) h) p)) k = Some (VD d')) /\
              (~ holds h k p -> get (cells (free_ptr (fold_left (deliver_one d ign) (rev l) h) p)) k = get (cells h) k)).
  { destruct (deliver_all_ok d ign (rev l) h) as (P1 & U1 & N1 & C1).
    { intros c Hc. apply Hlive. now apply in_rev. }
    assert (Hc : forall k, get (cells (free_ptr (fold_left (deliver_one d ign) (rev l) h) p)) k =
                          if existsb (N.eqb k) (rev l) then Some (VD (if k =? ign then DNil else d)) else get (cells h) k) by exact C1.
    assert (Hex : forall k, existsb (N.eqb k) (rev l) = true <-> In k l).
    { intro k. rewrite existsb_eqb_in. symmetry. apply in_rev. }
    split; [|split; [exact N1|]].
    - apply (delivered_good h _ p l Hg Hp).
      + cbn. rewrite U1. apply Hg.
      + cbn. now rewrite P1.
      + exact N1.
      + intros k Hk. exists (if k =? ign then DNil else d). rewrite Hc. apply Hex in Hk. now rewrite Hk.
      + intros k Hk. rewrite Hc. destruct (existsb (N.eqb k) (rev l)) eqn:E; [|reflexivity].
        apply Hex in E. contradiction.
    - intro k. rewrite Hc. repeat split.
      + intros Hk Hki. apply Hiff, Hex in Hk. rewrite Hk. destruct (N.eqb_spec k ign); [contradiction|reflexivity].
      + intro Hk. exists (if k =? ign then DNil else d). apply Hiff, Hex in Hk. now rewrite Hk.
      + intro Hk. destruct (existsb (N.eqb k) (rev l)) eqn:E; [|reflexivity].
        apply Hex, Hiff in E. contradiction. }
  unfold set_value_ref. rewrite Hp.
  destruct l as [|c0 [|c1 [|c2 l']]]; try exact General.
  (* exactly two holders *)
  clear General.
  assert (Hnd : NoDup [c0; c1]) by (destruct Hg as [_ [Hreg _ _]]; now destruct (Hreg p _ Hp) as (_ & H & _)).
  assert (H01 : c0 <> c1).
  { inversion Hnd as [|x y Hn _]; subst. intro E. apply Hn. now left. }
  destruct (wr_ok h c0 (VD DNil)) as (C1 & P1 & N1 & U1 & L1); [apply Hlive; now left|].
  destruct (wr_ok (wr h c0 (VD DNil)) c1 (VD DNil)) as (C2 & P2 & N2 & U2 & L2).
  { apply L1. apply Hlive. right. now left. }
  set (h1 := wr (wr h c0 (VD DNil)) c1 (VD DNil)) in *.
  assert (Hl0 : live h1 c0) by (apply L2, L1, Hlive; now left).
  assert (Hl1 : live h1 c1) by (apply L2, L1, Hlive; right; now left).
  assert (Base : forall k, get (cells h1) k =
                 if k =? c1 then Some (VD DNil) else if k =? c0 then Some (VD DNil) else get (cells h) k).
  { intro k. rewrite C2, C1, !get_set. reflexivity. }
  set (h2 := if c0 =? ign then wr h1 c1 (VD d)
             else if c1 =? ign then wr h1 c0 (VD d) else wr (wr h1 c1 (VD d)) c0 (VD d)).
  assert (F : ptrs h2 = ptrs h /\ ub h2 = ub h /\ ncell h2 = ncell h /\
              forall k, (k <> c0 -> k <> c1 -> get (cells h2) k = get (cells h) k) /\
                        (exists d', get (cells h2) c0 = Some (VD d')) /\
                        (exists d', get (cells h2) c1 = Some (VD d')) /\
                        (c0 <> ign -> get (cells h2) c0 = Some (VD d)) /\
                        (c1 <> ign -> get (cells h2) c1 = Some (VD d))).
  { unfold h2. destruct (N.eqb_spec c0 ign) as [E0|E0]; [|destruct (N.eqb_spec c1 ign) as [E1|E1]].
    - destruct (wr_ok h1 c1 (VD d) Hl1) as (C3 & P3 & N3 & U3 & _).
      rewrite P3, U3, N3, P2, U2, N2, P1, U1, N1. repeat split; try rewrite C3.
      + intros. rewrite gso by assumption. rewrite Base.
        destruct (N.eqb_spec k c1); [contradiction|]. destruct (N.eqb_spec k c0); [contradiction|reflexivity].
      + exists DNil. rewrite gso by exact H01. rewrite Base. rewrite N.eqb_refl.
        destruct (c0 =? c1); reflexivity.
      + exists d. apply gss.
      + intro. congruence.
      + intro. apply gss.
    - destruct (wr_ok h1 c0 (VD d) Hl0) as (C3 & P3 & N3 & U3 & _).
      rewrite P3, U3, N3, P2, U2, N2, P1, U1, N1. repeat split; try rewrite C3.
      + intros. rewrite gso by assumption. rewrite Base.
        destruct (N.eqb_spec k c1); [contradiction|]. destruct (N.eqb_spec k c0); [contradiction|reflexivity].
      + exists d. apply gss.
      + exists DNil. rewrite gso by congruence. rewrite Base. now rewrite N.eqb_refl.
      + intro. apply gss.
      + intro. congruence.
    - destruct (wr_ok h1 c1 (VD d) Hl1) as (C3 & P3 & N3 & U3 & L3).
      destruct (wr_ok (wr h1 c1 (VD d)) c0 (VD d)) as (C4 & P4 & N4 & U4 & _); [now apply L3|].
      rewrite P4, U4, N4, P3, U3, N3, P2, U2, N2, P1, U1, N1. repeat split; try rewrite C4, C3.
      + intros. rewrite !gso by assumption. rewrite Base.
        destruct (N.eqb_spec k c1); [contradiction|]. destruct (N.eqb_spec k c0); [contradiction|reflexivity].
      + exists d. apply gss.
      + exists d. rewrite gso by congruence. apply gss.
      + intro. apply gss.
      + intro. rewrite gso by congruence. apply gss. }
  destruct F as (FP & FU & FN & FC).
  assert (Hin2 : forall k, In k [c0; c1] <-> k = c0 \/ k = c1).
  { intro k. cbn. split; [intros [E|[E|[]]]; auto|intros [E|E]; auto]. }
  split; [|split; [exact FN|]].
  - apply (delivered_good h _ p [c0; c1] Hg Hp).
    + cbn. rewrite FU. apply Hg.
    + cbn. now rewrite FP.
    + exact FN.
    + intros k Hk. apply Hin2 in Hk. destruct (FC k) as (_ & E0 & E1 & _).
      destruct Hk as [->| ->]; assumption.
    + intros k Hk. destruct (FC k) as (E & _). apply E; intro; subst; apply Hk; apply Hin2; auto.
  - intro k. destruct (FC k) as (Eo & E0 & E1 & D0 & D1). cbn [cells free_ptr]. repeat split.
    + intros Hk Hki. apply Hiff, Hin2 in Hk. destruct Hk as [->| ->]; [now apply D0|now apply D1].
    + intro Hk. apply Hiff, Hin2 in Hk. destruct Hk as [->| ->]; assumption.
    + intro Hk. apply Eo; intro; subst; apply Hk; apply Hiff, Hin2; auto.
Qed.

Theorem ptr_clear_ok h p l : good h -> get (ptrs h) p = Some l ->
  good (ptr_clear h p) /\ ncell (ptr_clear h p) = ncell h /\
  forall k, (holds h k p -> get (cells (ptr_clear h p)) k = Some (VD DNil)) /\
            (~ holds h k p -> get (cells (ptr_clear h p)) k = get (cells h) k).
Proof.
  intros Hg Hp.
  pose proof (holds_iff_in h p l Hg Hp) as Hiff.
  unfold ptr_clear. rewrite Hp.
  destruct (set_all_ok l h DNil) as (P1 & U1 & N1 & C1).
  { intros c Hc. apply Hiff in Hc. unfold holds, live in *. congruence. }
  split; [|split; [exact N1|]].
  - apply (delivered_good h _ p l Hg Hp).
    + cbn. rewrite U1. apply Hg.
    + cbn. now rewrite P1.
    + exact N1.
    + intros k Hk. exists DNil. cbn. rewrite C1. apply existsb_eqb_in in Hk. now rewrite Hk.
    + intros k Hk. cbn. rewrite C1. destruct (existsb (N.eqb k) l) eqn:E; [|reflexivity].
      apply existsb_eqb_in in E. contradiction.
  - intro k. cbn [cells free_ptr]. rewrite C1. split.
    + intro Hk. apply Hiff, existsb_eqb_in in Hk. now rewrite Hk.
    + intro Hk. destruct (existsb (N.eqb k) l) eqn:E; [|reflexivity].
      apply existsb_eqb_in, Hiff in E. contradiction.
Qed.

(* ---- forwarding: setValueRef with a value that is itself a pending pointer ---------------------- *)
Lemma forwarded_good h h' p q l lq l1 :
  good h -> get (ptrs h) p = Some l -> get (ptrs h) q = Some lq -> p <> q ->
  ub h' = false -> ncell h' = ncell h ->
  (forall r, get (ptrs h') r = if r =? p then None else if r =? q then Some (lq ++ l1) else get (ptrs h) r) ->
  NoDup l1 -> (forall k, In k l1 -> In k l) ->
  (forall k, In k l1 -> get (cells h') k = Some (VPtr q)) ->
  (forall k, In k l -> ~ In k l1 -> exists d', get (cells h') k = Some (VD d')) ->
  (forall k, ~ In k l -> get (cells h') k = get (cells h) k) ->
  good h'.
Proof.
  intros Hg Hp Hq Hpq Hub' Hn Hptrs Hnd1 Hsub Hin1 Hin0 Hout.
  pose proof (holds_iff_in h p l Hg Hp) as Hiffp.
  pose proof (holds_iff_in h q lq Hg Hq) as Hiffq.
  destruct Hg as [Hub [Hreg Hcell Hfresh]].
  destruct (Hreg q lq Hq) as (Hneq & Hndq & Hhq).
  assert (Hdisj : forall k, In k lq -> ~ In k l).
  { intros k Hk Hl. apply Hiffq in Hk. apply Hiffp in Hl. unfold holds in *. congruence. }
  split; [exact Hub'|]. constructor.
  - intros r lr Hr. rewrite Hptrs in Hr.
    destruct (N.eqb_spec r p) as [->|Hrp]; [discriminate|].
    destruct (N.eqb_spec r q) as [->|Hrq].
    + injection Hr as <-. split; [destruct lq; [congruence|discriminate]|].
      split.
      * apply nodup_app_intro; [exact Hndq|exact Hnd1|]. intros x Hx Hx1. apply (Hdisj x Hx). now apply Hsub.
      * intros k Hk. split; [|discriminate]. apply in_app_or in Hk. destruct Hk as [Hk|Hk].
        -- unfold holds. rewrite Hout by now apply Hdisj. now apply Hiffq.
        -- now apply Hin1.
    + destruct (Hreg r lr Hr) as (H1 & H2 & H3). split; [exact H1|]. split; [exact H2|].
      intros k Hk. split; [|discriminate]. destruct (H3 k Hk) as [Hkr _].
      unfold holds in *. rewrite Hout; [exact Hkr|]. intro Hkl. apply Hiffp in Hkl. unfold holds in Hkl. congruence.
  - intros k r _ Hkr. unfold holds in Hkr.
    destruct (in_dec N.eq_dec k l) as [Hkl|Hkl].
    + destruct (in_dec N.eq_dec k l1) as [Hk1|Hk1].
      * rewrite (Hin1 k Hk1) in Hkr. injection Hkr as <-. exists (lq ++ l1). rewrite Hptrs.
        destruct (N.eqb_spec q p); [congruence|]. rewrite N.eqb_refl. split; [reflexivity|].
        apply in_or_app. now right.
      * destruct (Hin0 k Hkl Hk1) as [d' E]. congruence.
    + rewrite Hout in Hkr by exact Hkl.
      destruct (Hcell k r) as [lr [Hlr Hi]]; [discriminate|exact Hkr|].
      assert (Hrp : r <> p) by (intro E; subst; apply Hkl; now apply Hiffp).
      rewrite Hptrs. destruct (N.eqb_spec r p); [contradiction|].
      destruct (N.eqb_spec r q) as [->|Hrq].
      * assert (lr = lq) by congruence. subst lr. exists (lq ++ l1). split; [reflexivity|].
        apply in_or_app. now left.
      * exists lr. split; assumption.
  - intros k Hk. rewrite Hn in Hk.
    destruct (in_dec N.eq_dec k l) as [Hkl|Hkl].
    + apply Hiffp in Hkl. unfold holds in Hkl. rewrite Hfresh in Hkl by exact Hk. discriminate.
    + rewrite Hout by exact Hkl. now apply Hfresh.
Qed.

Lemma fwd_one_ok h x q lq : live h x -> get (ptrs h) q = Some lq ->
  cells (fwd_one h x q) = set (cells h) x (Some (VPtr q)) /\
  ptrs (fwd_one h x q) = set (ptrs h) q (Some (lq ++ [x])) /\
  ncell (fwd_one h x q) = ncell h /\ ub (fwd_one h x q) = ub h /\
  forall k, live h k -> live (fwd_one h x q) k.
Proof.
  intros Hl Hq. unfold fwd_one. rewrite (wr_live _ _ _ Hl). unfold ptr_add. cbn. rewrite Hq. cbn. repeat split.
  intros k Hk. unfold live in *. cbn. rewrite get_set. destruct (k =? x); [discriminate|exact Hk].
Qed.

Lemma forward_all_ok q ign l : forall h lq, (forall c, In c l -> live h c) -> get (ptrs h) q = Some lq ->
  ub (fold_left (forward_one q ign) l h) = ub h /\
  ncell (fold_left (forward_one q ign) l h) = ncell h /\
  (forall r, get (ptrs (fold_left (forward_one q ign) l h)) r =
             if r =? q then Some (lq ++ filter (fun x => negb (x =? ign)) l) else get (ptrs h) r) /\
  forall k, get (cells (fold_left (forward_one q ign) l h)) k =
            if existsb (N.eqb k) l then Some (if k =? ign then VD DNil else VPtr q) else get (cells h) k.
Proof.
  induction l as [|a l IH]; intros h lq Hl Hq; cbn [fold_left existsb filter].
  - repeat split. intro r. rewrite app_nil_r. destruct (N.eqb_spec r q) as [->|]; [exact Hq|reflexivity].
  - assert (Hla : live h a) by (apply Hl; now left).
    destruct (wr_ok h a (VD DNil) Hla) as (C1 & P1 & N1 & U1 & L1).
    assert (S1 : exists lq',
               lq' = (if a =? ign then lq else lq ++ [a]) /\
               get (ptrs (forward_one q ign h a)) q = Some lq' /\
               (forall r, r <> q -> get (ptrs (forward_one q ign h a)) r = get (ptrs h) r) /\
               ub (forward_one q ign h a) = ub h /\ ncell (forward_one q ign h a) = ncell h /\
               (forall k, get (cells (forward_one q ign h a)) k =
                          if k =? a then Some (if a =? ign then VD DNil else VPtr q) else get (cells h) k) /\
               forall k, live h k -> live (forward_one q ign h a) k).
    { unfold forward_one. destruct (a =? ign).
      - exists lq. split; [reflexivity|]. rewrite P1, U1, N1. repeat split; auto.
        intro k. now rewrite C1, get_set.
      - destruct (fwd_one_ok (wr h a (VD DNil)) a q lq) as (C2 & P2 & N2 & U2 & L2); [now apply L1|now rewrite P1|].
        exists (lq ++ [a]). split; [reflexivity|]. rewrite P2, U2, N2, P1, U1, N1. repeat split; auto.
        + apply gss.
        + intros r Hr. now apply gso.
        + intro k. rewrite C2, C1, !get_set. destruct (k =? a); reflexivity. }
    destruct S1 as (lq' & Elq & Q1 & O1 & U2 & N2 & C2 & L2).
    destruct (IH (forward_one q ign h a) lq') as (U3 & N3 & P3 & C3).
    { intros c Hc. apply L2, Hl. now right. }
    { exact Q1. }
    rewrite U3, N3, U2, N2. repeat split.
    + intro r. rewrite P3. destruct (N.eqb_spec r q) as [->|Hr]; [|now apply O1].
      subst lq'. destruct (a =? ign); cbn [negb]; [reflexivity|]. now rewrite <- app_assoc.
    + intro k. rewrite C3, C2. destruct (N.eqb_spec k a) as [->|Hn]; cbn [orb]; [|reflexivity].
      destruct (existsb (N.eqb a) l); reflexivity.
Qed.

Theorem set_value_ref_fwd_ok h p q ign l lq : good h ->
  get (ptrs h) p = Some l -> get (ptrs h) q = Some lq -> p <> q ->
  good (set_value_ref_fwd h p q ign) /\ ncell (set_value_ref_fwd h p q ign) = ncell h /\
  forall k, (holds h k p -> k <> ign -> holds (set_value_ref_fwd h p q ign) k q) /\
            (holds h k p -> k = ign -> get (cells (set_value_ref_fwd h p q ign)) k = Some (VD DNil)) /\
            (~ holds h k p -> get (cells (set_value_ref_fwd h p q ign)) k = get (cells h) k).
Proof.
  intros Hg Hp Hq Hpq.
  pose proof (holds_iff_in h p l Hg Hp) as Hiff.
  assert (Hlive : forall c, In c l -> live h c).
  { intros c Hc. apply Hiff in Hc. unfold holds, live in *. congruence. }
  assert (Hnd : NoDup l) by (destruct Hg as [_ [Hreg _ _]]; now destruct (Hreg p _ Hp) as (_ & H & _)).
  assert (General :
    good (free_ptr (fold_left (forward_one q ign) (rev l) h) p) /\
    ncell (free_ptr (fold_left (forward_one q ign) (rev l) h) p) = ncell h /\
    forall k, (holds h k p -> k <> ign -> holds (free_ptr (fold_left (forward_one q ign) (rev l) h) p) k q) /\
              (holds h k p -> k = ign -> get (cells (free_ptr (fold_left (forward_one q ign) (rev l) h) p)) k = Some (VD DNil)) /\
              (~ holds h k p -> get (cells (free_ptr (fold_left (forward_one q ign) (rev l) h) p)) k = get (cells h) k)).
  { destruct (forward_all_ok q ign (rev l) h lq) as (U1 & N1 & P1 & C1).
    { intros c Hc. apply Hlive. now apply in_rev. }
    { exact Hq. }
    set (h1 := fold_left (forward_one q ign) (rev l) h) in *.
    assert (Hc : forall k, get (cells (free_ptr h1 p)) k =
                 if existsb (N.eqb k) (rev l) then Some (if k =? ign then VD DNil else VPtr q) else get (cells h) k) by exact C1.
    assert (Hex : forall k, existsb (N.eqb k) (rev l) = true <-> In k l).
    { intro k. rewrite existsb_eqb_in. symmetry. apply in_rev. }
    set (l1 := filter (fun x => negb (x =? ign)) (rev l)).
    assert (Hl1 : forall k, In k l1 <-> In k l /\ k <> ign).
    { intro k. unfold l1. rewrite filter_In, <- in_rev. split; intros [H1 H2]; split; auto.
      - destruct (N.eqb_spec k ign); [discriminate|assumption].
      - destruct (N.eqb_spec k ign); [contradiction|reflexivity]. }
    split; [|split; [exact N1|]].
    - apply (forwarded_good h _ p q l lq l1 Hg Hp Hq Hpq).
      + cbn. rewrite U1. apply Hg.
      + exact N1.
      + intro r. cbn [ptrs free_ptr]. rewrite get_set. destruct (r =? p); [reflexivity|]. apply P1.
      + unfold l1. apply NoDup_filter. now apply NoDup_rev.
      + intros k Hk. now apply Hl1.
      + intros k Hk. apply Hl1 in Hk. destruct Hk as [Hk Hi]. rewrite Hc. apply Hex in Hk. rewrite Hk.
        destruct (N.eqb_spec k ign); [contradiction|reflexivity].
      + intros k Hk Hk1. exists DNil. rewrite Hc. pose proof Hk as Hk'. apply Hex in Hk'. rewrite Hk'.
        destruct (N.eqb_spec k ign) as [E|E]; [reflexivity|]. exfalso. apply Hk1. now apply Hl1.
      + intros k Hk. rewrite Hc. destruct (existsb (N.eqb k) (rev l)) eqn:E; [|reflexivity].
        apply Hex in E. contradiction.
    - intro k. unfold holds at 2. rewrite !Hc. repeat split.
      + intros Hk Hki. apply Hiff, Hex in Hk. rewrite Hk. destruct (N.eqb_spec k ign); [contradiction|reflexivity].
      + intros Hk Hki. apply Hiff, Hex in Hk. rewrite Hk. destruct (N.eqb_spec k ign); [reflexivity|contradiction].
      + intro Hk. destruct (existsb (N.eqb k) (rev l)) eqn:E; [|reflexivity].
        apply Hex, Hiff in E. contradiction. }
  unfold set_value_ref_fwd. rewrite Hp.
  destruct l as [|c0 [|c1 [|c2 l']]]; try exact General.
  clear General.
  assert (H01 : c0 <> c1).
  { inversion Hnd as [|x y Hn _]; subst. intro E. apply Hn. now left. }
  destruct (wr_ok h c0 (VD DNil)) as (C1 & P1 & N1 & U1 & L1); [apply Hlive; now left|].
  destruct (wr_ok (wr h c0 (VD DNil)) c1 (VD DNil)) as (C2 & P2 & N2 & U2 & L2).
  { apply L1. apply Hlive. right. now left. }
  set (h1 := wr (wr h c0 (VD DNil)) c1 (VD DNil)) in *.
  assert (Hl0 : live h1 c0) by (apply L2, L1, Hlive; now left).
  assert (Hl1 : live h1 c1) by (apply L2, L1, Hlive; right; now left).
  assert (Hq1 : get (ptrs h1) q = Some lq) by now rewrite P2, P1.
  assert (Base : forall k, get (cells h1) k =
                 if k =? c1 then Some (VD DNil) else if k =? c0 then Some (VD DNil) else get (cells h) k).
  { intro k. rewrite C2, C1, !get_set. reflexivity. }
  assert (Hin2 : forall k, In k [c0; c1] <-> k = c0 \/ k = c1).
  { intro k. cbn. split; [intros [E|[E|[]]]; auto|intros [E|E]; auto]. }
  set (h2 := if c0 =? ign then fwd_one h1 c1 q else if c1 =? ign then fwd_one h1 c0 q else fwd_one (fwd_one h1 c1 q) c0 q).
  (* which holders receive the pointer *)
  set (l1 := if c0 =? ign then [c1] else if c1 =? ign then [c0] else [c1; c0]).
  assert (F : ub h2 = ub h /\ ncell h2 = ncell h /\
              (forall r, get (ptrs h2) r = if r =? q then Some (lq ++ l1) else get (ptrs h) r) /\
              (forall k, In k l1 -> get (cells h2) k = Some (VPtr q)) /\
              (forall k, In k [c0; c1] -> ~ In k l1 -> get (cells h2) k = Some (VD DNil)) /\
              (forall k, ~ In k [c0; c1] -> get (cells h2) k = get (cells h) k)).
  { unfold h2, l1. destruct (N.eqb_spec c0 ign) as [E0|E0]; [|destruct (N.eqb_spec c1 ign) as [E1|E1]].
    - destruct (fwd_one_ok h1 c1 q lq Hl1 Hq1) as (C3 & P3 & N3 & U3 & _).
      rewrite U3, N3, U2, N2, U1, N1. repeat split.
      + intro r. rewrite P3, get_set, P2, P1. reflexivity.
      + intros k [<-|[]]. rewrite C3. apply gss.
      + intros k Hk Hk1. apply Hin2 in Hk. destruct Hk as [->| ->]; [|exfalso; apply Hk1; now left].
        rewrite C3, gso by exact H01. rewrite Base. destruct (c0 =? c1); [reflexivity|]. now rewrite N.eqb_refl.
      + intros k Hk. rewrite C3, gso by (intro; subst; apply Hk; apply Hin2; auto). rewrite Base.
        destruct (N.eqb_spec k c1); [exfalso; apply Hk; apply Hin2; auto|].
        destruct (N.eqb_spec k c0); [exfalso; apply Hk; apply Hin2; auto|reflexivity].
    - destruct (fwd_one_ok h1 c0 q lq Hl0 Hq1) as (C3 & P3 & N3 & U3 & _).
      rewrite U3, N3, U2, N2, U1, N1. repeat split.
      + intro r. rewrite P3, get_set, P2, P1. reflexivity.
      + intros k [<-|[]]. rewrite C3. apply gss.
      + intros k Hk Hk1. apply Hin2 in Hk. destruct Hk as [->| ->]; [exfalso; apply Hk1; now left|].
        rewrite C3, gso by congruence. rewrite Base. now rewrite N.eqb_refl.
      + intros k Hk. rewrite C3, gso by (intro; subst; apply Hk; apply Hin2; auto). rewrite Base.
        destruct (N.eqb_spec k c1); [exfalso; apply Hk; apply Hin2; auto|].
        destruct (N.eqb_spec k c0); [exfalso; apply Hk; apply Hin2; auto|reflexivity].
    - destruct (fwd_one_ok h1 c1 q lq Hl1 Hq1) as (C3 & P3 & N3 & U3 & L3).
      destruct (fwd_one_ok (fwd_one h1 c1 q) c0 q (lq ++ [c1])) as (C4 & P4 & N4 & U4 & _); [now apply L3|rewrite P3; apply gss|].
      rewrite U4, N4, U3, N3, U2, N2, U1, N1. repeat split.
      + intro r. rewrite P4, get_set, P3, get_set, P2, P1. rewrite <- app_assoc. cbn [app].
        destruct (r =? q); reflexivity.
      + intros k [<-|[<-|[]]]; rewrite C4.
        * rewrite gso by congruence. rewrite C3. apply gss.
        * apply gss.
      + intros k Hk Hk1. exfalso. apply Hk1. apply Hin2 in Hk. destruct Hk as [->| ->]; [right; now left|now left].
      + intros k Hk. rewrite C4, gso by (intro; subst; apply Hk; apply Hin2; auto).
        rewrite C3, gso by (intro; subst; apply Hk; apply Hin2; auto). rewrite Base.
        destruct (N.eqb_spec k c1); [exfalso; apply Hk; apply Hin2; auto|].
        destruct (N.eqb_spec k c0); [exfalso; apply Hk; apply Hin2; auto|reflexivity]. }
  destruct F as (FU & FN & FP & F1 & F0 & FO).
  assert (Hl1sub : forall k, In k l1 <-> In k [c0; c1] /\ k <> ign).
  { intro k. unfold l1. rewrite Hin2.
    destruct (N.eqb_spec c0 ign) as [E0|E0]; [|destruct (N.eqb_spec c1 ign) as [E1|E1]]; cbn; split.
    - intros [<-|[]]. split; [now right|congruence].
    - intros [[->| ->] Hn]; [congruence|now left].
    - intros [<-|[]]. split; [now left|exact E0].
    - intros [[->| ->] Hn]; [now left|congruence].
    - intros [<-|[<-|[]]]; split; auto.
    - intros [[->| ->] Hn]; auto. }
  split; [|split; [exact FN|]].
  - apply (forwarded_good h _ p q [c0; c1] lq l1 Hg Hp Hq Hpq).
    + cbn. rewrite FU. apply Hg.
    + exact FN.
    + intro r. cbn [ptrs free_ptr]. rewrite get_set. destruct (r =? p); [reflexivity|]. apply FP.
    + unfold l1. destruct (c0 =? ign); [repeat constructor; intros []|].
      destruct (c1 =? ign); [repeat constructor; intros []|].
      constructor; [intros [E|[]]; congruence|repeat constructor; intros []].
    + intros k Hk. now apply Hl1sub.
    + exact F1.
    + intros k Hk Hk1. exists DNil. now apply F0.
    + exact FO.
  - intro k. cbn [cells free_ptr]. unfold holds at 2. cbn [cells free_ptr]. repeat split.
    + intros Hk Hki. apply F1. apply Hl1sub. split; [now apply Hiff|exact Hki].
    + intros Hk Hki. apply F0; [now apply Hiff|]. intro H. apply Hl1sub in H. tauto.
    + intro Hk. apply FO. intro H. apply Hk. now apply Hiff.
Qed.

Lemma holds_dec h k p : {holds h k p} + {~ holds h k p}.
Proof.
  unfold holds. destruct (get (cells h) k) as [[d|q]|].
  - right. discriminate.
  - destruct (N.eq_dec q p) as [->|Hn]; [now left|right; congruence].
  - right. discriminate.
Qed.
